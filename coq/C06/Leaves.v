(* C06/Leaves.v -- the R instance of the primitives and the one-variable facts
   behind the leaf operators: the regenerated ufunc tables, integer powers,
   the Euclidean norm. *)
From Coq Require Import Reals Lra Lia List Bool ZArith.
From Verif Require Import Base.Num Base.Vec Base.VecR C06.Syntax Gen.UfuncDeriv C06.Model C06.Calc C06.Lin.
Import ListNotations.
Local Open Scope R_scope.

(* meaning of the transcendental ufuncs over R *)
Definition trR (f : ufn) (x : R) : R :=
  match f with
  | Usin => sin x | Ucos => cos x | Utan => tan x | Ulog => ln x | Uexp => exp x
  | Usinh => sinh x | Ucosh => cosh x
  | Urad2deg => x * (180 / PI) | Udeg2rad => x * (PI / 180)
  | Utanh => tanh x | Uarctan => atan x | Uarcsinh => arcsinh x
  | _ => 0
  end.

Section Leaves.
Variable af : nat -> Rvec -> Rvec.
Variable ad : nat -> Rvec -> Rvec -> Rvec.
Variable adm arn : nat -> space.
Definition PR : prims R :=
  {| tr := trR; rt := sqrt; afun := af; ader := ad; adom := adm; aran := arn |}.

(* where the entry-wise function is differentiable *)
Definition uregular (f : ufn) (a : R) : Prop :=
  match f with
  | Usqrt | Ulog => 0 < a
  | Ureciprocal => a <> 0
  | Utan => cos a <> 0
  | _ => True
  end.

Lemma of_Q_R (c : QArith_base.Q) :
  @of_Q R _ c = IZR (QArith_base.Qnum c) / IZR (Zpos (QArith_base.Qden c)).
Proof. reflexivity. Qed.

Lemma npow_pow (a : R) n : npow a n = a ^ n.
Proof. induction n as [|n IH]; cbn [npow pow]; numR; [reflexivity|rewrite IH; reflexivity]. Qed.

Lemma dpl_tan a : cos a <> 0 -> derivable_pt_lim tan a (1 + tan a * tan a).
Proof.
  intros Hc.
  apply (dpl_eq _ _ ((cos a * cos a - - sin a * sin a) / Rsqr (cos a))).
  { unfold tan, Rsqr. field. exact Hc. }
  apply (derivable_pt_lim_div sin cos); [apply derivable_pt_lim_sin|apply derivable_pt_lim_cos|exact Hc].
Qed.
Lemma dpl_inv a : a <> 0 -> derivable_pt_lim (fun y => 1 / y) a (- (1 / a * (1 / a))).
Proof.
  intros Ha.
  apply (dpl_eq _ _ ((0 * a - 1 * 1) / Rsqr a)).
  { unfold Rsqr. field. exact Ha. }
  apply (derivable_pt_lim_div (fun _ => 1) (fun y => y));
    [apply derivable_pt_lim_const|apply derivable_pt_lim_id|exact Ha].
Qed.
Lemma dpl_sq a : derivable_pt_lim (fun y => y * y) a (2 * a).
Proof. apply (derivable_pt_lim_Rsqr a). Qed.

Ltac npw :=
  repeat match goal with
  | |- context [npow ?a ?n] => replace (npow a n) with (a ^ n) by (symmetry; apply npow_pow)
  end.
Ltac norm_pos :=
  repeat match goal with
  | |- context [Pos.to_nat ?p] => let n := eval compute in (Pos.to_nat p) in change (Pos.to_nat p) with n
  end.

(* T1: every entry of the REGENERATED derivative table is the derivative of the ufunc *)
Lemma ufunc_deriv_table_sound f e :
  ufunc_deriv f = Some e ->
  forall a, uregular f a -> derivable_pt_lim (usem PR f) a (ueval PR e a).
Proof.
  intros He a Ha.
  destruct f; cbn [ufunc_deriv] in He; try discriminate He; injection He as <-;
    cbn [ueval usem PR tr rt trR npow Pos.to_nat Pos.iter_op Nat.add uregular] in *; rewrite ?of_Q_R;
    cbn [QArith_base.Qnum QArith_base.Qden]; numR; npw; norm_pos.
  - apply derivable_pt_lim_sin.
  - apply derivable_pt_lim_cos.
  - eapply dpl_eq; [|apply dpl_tan; exact Ha]. field.
  - eapply dpl_eq; [|apply derivable_pt_lim_sqrt; exact Ha]. field.
    intros Hs. apply sqrt_eq_0 in Hs; lra.
  - eapply dpl_eq; [|apply dpl_sq]. field.
  - eapply dpl_eq; [|apply derivable_pt_lim_ln; exact Ha]. field. lra.
  - apply derivable_pt_lim_exp.
  - eapply dpl_eq; [|apply dpl_inv; exact Ha]. field. exact Ha.
  - apply derivable_pt_lim_sinh.
  - apply derivable_pt_lim_cosh.
Qed.

(* the gradient table of the ufunc functionals on the real line *)
Lemma ufunc_grad_table_sound f e :
  ufunc_grad f = Some e ->
  forall a, uregular f a -> derivable_pt_lim (usem PR f) a (ueval PR e a).
Proof.
  intros He a Ha.
  destruct f; cbn [ufunc_grad] in He; try discriminate He; injection He as <-;
    cbn [ueval usem PR tr rt trR npow Pos.to_nat Pos.iter_op Nat.add uregular] in *; rewrite ?of_Q_R;
    cbn [QArith_base.Qnum QArith_base.Qden]; numR; npw; norm_pos.
  - apply derivable_pt_lim_sin.
  - apply derivable_pt_lim_cos.
  - eapply dpl_eq; [|apply dpl_tan; exact Ha]. field.
  - eapply dpl_eq; [|apply derivable_pt_lim_sqrt; exact Ha]. field.
    intros Hs. apply sqrt_eq_0 in Hs; lra.
  - eapply dpl_eq; [|apply dpl_sq]. field.
  - eapply dpl_eq; [|apply derivable_pt_lim_ln; exact Ha]. field. lra.
  - apply derivable_pt_lim_exp.
  - eapply dpl_eq; [|apply dpl_inv; exact Ha]. field. exact Ha.
  - apply derivable_pt_lim_sinh.
  - apply derivable_pt_lim_cosh.
Qed.

(* ufuncs flagged linear by LINEAR_UFUNCS are multiplications by a constant *)
Lemma ufunc_linear_scale f : ufunc_linear f = true -> exists c, forall a, usem PR f a = c * a.
Proof.
  intros Hl. destruct f; cbn [ufunc_linear] in Hl; try discriminate Hl.
  - exists (-1). intros a. cbn. numR. ring.
  - exists (180 / PI). intros a. cbn. ring.
  - exists (PI / 180). intros a. cbn. ring.
Qed.

(* ---------- integer powers ---------- *)
Lemma zpow_1 (a : R) : zpow a 1 = a.
Proof. unfold zpow. cbn. npw. norm_pos. ring. Qed.

Lemma zpow_deriv_pos (p : Z) a : (1 <= p)%Z ->
  derivable_pt_lim (fun y => zpow y p) a (IZR p * zpow a (p - 1)).
Proof.
  intros Hp. unfold zpow.
  destruct (Z.leb_spec 0 p) as [_|]; [|lia].
  destruct (Z.leb_spec 0 (p - 1)) as [_|]; [|lia].
  apply (dpl_ext (fun y => y ^ Z.to_nat p)); [intros t; symmetry; apply npow_pow|].
  npw.
  eapply dpl_eq; [|apply derivable_pt_lim_pow].
  rewrite INR_IZR_INZ, Z2Nat.id by lia.
  replace (Init.Nat.pred (Z.to_nat p)) with (Z.to_nat (p - 1)) by lia. reflexivity.
Qed.

Lemma zpow_deriv_nonpos (p : Z) a : (p <= 0)%Z -> a <> 0 ->
  derivable_pt_lim (fun y => zpow y p) a (IZR p * zpow a (p - 1)).
Proof.
  intros Hp Ha. unfold zpow.
  destruct (Z.leb_spec 0 (p - 1)) as [|_]; [lia|].
  destruct (Z.leb_spec 0 p) as [H0|Hneg].
  - assert (p = 0%Z) by lia. subst p. cbn [Z.to_nat npow]. numR.
    eapply dpl_eq; [|apply derivable_pt_lim_const]. ring.
  - set (n := Z.to_nat (- p)).
    assert (Hn : (- (p - 1))%Z = Z.of_nat (S n)) by (unfold n; lia).
    rewrite Hn, Nat2Z.id.
    assert (Hpn : IZR p = - INR n) by (rewrite INR_IZR_INZ; unfold n; rewrite Z2Nat.id by lia; rewrite opp_IZR; lra).
    rewrite Hpn. numR.
    apply (dpl_ext (fun y => (1 / y) ^ n)).
    { intros t. npw. unfold Rdiv. rewrite !Rmult_1_l. apply pow_inv. }
    npw.
    apply (dpl_eq _ _ (INR n * (1 / a) ^ Init.Nat.pred n * - (1 / a * (1 / a)))).
    { destruct n as [|k]; cbn [Init.Nat.pred INR].
      - cbn. ring.
      - unfold Rdiv. rewrite !Rmult_1_l, <- !pow_inv. cbn [pow]. ring. }
    apply (derivable_pt_lim_comp (fun y => 1 / y) (fun u => u ^ n)).
    + apply dpl_inv; exact Ha.
    + apply derivable_pt_lim_pow.
Qed.

(* ---------- Euclidean norm along a curve ---------- *)
Lemma dpl_sumf n : forall (g : R -> Rvec) (d : Rvec),
  (forall t, length (g t) = n) -> length d = n ->
  (forall i, (i < n)%nat -> derivable_pt_lim (fun t => nth i (g t) 0) 0 (nth i d 0)) ->
  derivable_pt_lim (fun t => sumf (g t)) 0 (sumf d).
Proof.
  induction n as [|n IH]; intros g d Hl Hd Hder.
  - destruct d; [|cbn in Hd; lia].
    apply (dpl_ext (fun _ => 0)); [|apply derivable_pt_lim_const].
    intros t. specialize (Hl t). destruct (g t); [reflexivity|cbn in Hl; lia].
  - destruct d as [|u d]; [cbn in Hd; lia|].
    apply (dpl_ext (fun t => nth 0 (g t) 0 + sumf (tl (g t)))).
    + intros t. specialize (Hl t). destruct (g t); [cbn in Hl; lia|reflexivity].
    + cbn [sumf]. numR. apply derivable_pt_lim_plus.
      * apply (Hder 0%nat). lia.
      * apply IH.
        -- intros t. specialize (Hl t). destruct (g t); cbn in *; lia.
        -- cbn in Hd; lia.
        -- intros i Hi. apply (dpl_ext (fun t => nth (S i) (g t) 0)).
           ++ intros t. destruct (g t); [destruct i|]; reflexivity.
           ++ apply (Hder (S i)). lia.
Qed.

Lemma sumf_vadd_self (a : Rvec) : sumf (vadd a a) = 2 * sumf a.
Proof. unfold vadd. induction a as [|u a IH]; cbn [sumf vmap2]; numR; [ring|]. rewrite IH. ring. Qed.
Lemma dot_map_div (d x : Rvec) c : dot d (map (fun a => a / c) x) = dot d x / c.
Proof.
  revert x; induction d as [|u d IH]; intros [|v x]; cbn [map]; rewrite ?dot_nil_l, ?dot_nil_r, ?dot_cons';
    try (unfold Rdiv; ring).
  rewrite IH. numR. unfold Rdiv. ring.
Qed.

Lemma curve_norm n g x d :
  curve n g x d -> 0 < dot x x ->
  curve 1 (fun t => [sqrt (dot (g t) (g t))]) [sqrt (dot x x)]
          [dot d (map (fun a => a / sqrt (dot x x)) x)].
Proof.
  intros Hc Hpos.
  pose proof (curve_mul n g g x x d d Hc Hc) as (M0 & Md & Ml & Mder).
  destruct Hc as (A0 & Ad & Al & Ader).
  repeat split.
  - rewrite A0; reflexivity.
  - intros [|i] Hi; [|lia]. cbn [nth].
    rewrite dot_map_div.
    apply (dpl_eq _ _ (/ (2 * sqrt (dot x x)) * sumf (vadd (vmul d x) (vmul d x)))).
    { rewrite sumf_vadd_self. change (sumf (vmul d x)) with (dot d x). field.
      intros Hs. apply sqrt_eq_0 in Hs; lra. }
    apply (derivable_pt_lim_comp (fun t => dot (g t) (g t)) sqrt).
    + unfold dot. apply (dpl_sumf n); [exact Ml|exact Md|exact Mder].
    + cbn. rewrite A0. apply derivable_pt_lim_sqrt. exact Hpos.
Qed.

Lemma curve_sub_const n g x d v :
  curve n g x d -> length v = n -> curve n (fun t => vsub (g t) v) (vsub x v) d.
Proof.
  intros (A0 & Ad & Al & Ader) Hv. unfold vsub. repeat split.
  - rewrite A0; reflexivity.
  - exact Ad.
  - intros t; apply vmap2_len; auto.
  - intros i Hi.
    apply (dpl_ext (fun t => nth i (g t) 0 - nth i v 0)).
    + intros t. rewrite nth_vmap2; [reflexivity|rewrite Al; exact Hi|rewrite Al, Hv; reflexivity].
    + apply (dpl_eq _ _ (nth i d 0 - 0)); [ring|].
      apply derivable_pt_lim_minus; [apply Ader; exact Hi|apply derivable_pt_lim_const].
Qed.

(* ---------- weighted inner products  <x, y>_w = sum_i w_i x_i y_i ---------- *)
Lemma wdot_as_dot (w x y : Rvec) : wdot w x y = dot (vmul x w) y.
Proof.
  revert x y; induction w as [|c w IH]; intros [|a x] [|b y]; try reflexivity.
  rewrite wdot_cons. unfold vmul; cbn [vmap2]. rewrite dot_cons'. fold (vmul x w). rewrite IH. numR. ring.
Qed.
Lemma wdot_as_dot_r (w x y : Rvec) : wdot w x y = dot x (vmul w y).
Proof.
  revert x y; induction w as [|c w IH]; intros [|a x] [|b y]; try reflexivity.
  rewrite wdot_cons. unfold vmul; cbn [vmap2]. rewrite dot_cons'. fold (vmul w y). rewrite IH. numR. ring.
Qed.
Lemma wdot_map_div (w d x : Rvec) c : wdot w d (map (fun a => a / c) x) = wdot w d x / c.
Proof.
  revert d x; induction w as [|u w IH]; intros [|a d] [|b x]; cbn [map]; try (cbn; unfold Rdiv; ring).
  rewrite !wdot_cons, IH. numR. unfold Rdiv. ring.
Qed.
Lemma sumf_vadd (a b : Rvec) : length a = length b -> sumf (vadd a b) = sumf a + sumf b.
Proof.
  revert b; induction a as [|u a IH]; intros [|v b] Hl; cbn in Hl; try lia.
  - cbn. numR. ring.
  - unfold vadd in *. cbn [vmap2 sumf]. numR. rewrite IH by lia. ring.
Qed.

Lemma dpl_dot2 n ca cb a b da db :
  curve n ca a da -> curve n cb b db ->
  derivable_pt_lim (fun t => dot (ca t) (cb t)) 0 (dot da b + dot db a).
Proof.
  intros Ha Hb. pose proof (curve_mul _ _ _ _ _ _ _ Ha Hb) as (M0 & Md & Ml & Mder).
  pose proof Ha as (_ & Had & _). pose proof Hb as (_ & Hbd & _).
  pose proof (curve_len_x _ _ _ _ Ha) as Hal. pose proof (curve_len_x _ _ _ _ Hb) as Hbl.
  eapply dpl_eq; [|unfold dot; apply (dpl_sumf n); [exact Ml|exact Md|exact Mder]].
  rewrite sumf_vadd; [reflexivity|]. unfold vmul. rewrite !(vmap2_len _ _ _ n); auto.
Qed.

Lemma curve_wnorm n w g x d :
  curve n g x d -> length w = n -> 0 < wdot w x x ->
  curve 1 (fun t => [sqrt (wdot w (g t) (g t))]) [sqrt (wdot w x x)]
          [wdot w d (map (fun a => a / sqrt (wdot w x x)) x)].
Proof.
  intros Hc Hw Hpos.
  pose proof (curve_mul_const _ _ _ _ w Hc Hw) as Hcw.
  pose proof (dpl_dot2 _ _ _ _ _ _ _ Hcw Hc) as Hd2.
  destruct Hc as (A0 & Ad & Al & Ader).
  repeat split.
  - rewrite A0; reflexivity.
  - intros [|i] Hi; [|lia]. cbn [nth].
    rewrite wdot_map_div.
    apply (dpl_eq _ _ (/ (2 * sqrt (wdot w x x)) * (dot (vmul d w) x + dot d (vmul x w)))).
    { rewrite <- !wdot_as_dot, (dot_comm d), <- wdot_as_dot, (wdot_comm w x d). field.
      intros Hs. apply sqrt_eq_0 in Hs; lra. }
    apply (dpl_ext (fun t => sqrt (dot (vmul (g t) w) (g t)))).
    { intros t. rewrite wdot_as_dot. reflexivity. }
    apply (derivable_pt_lim_comp (fun t => dot (vmul (g t) w) (g t)) sqrt).
    + exact Hd2.
    + cbn. rewrite A0, <- wdot_as_dot. apply derivable_pt_lim_sqrt. exact Hpos.
Qed.

Lemma wdot_self_nonneg (w x : Rvec) : (forall i, (i < length w)%nat -> 0 <= nth i w 0) -> 0 <= wdot w x x.
Proof.
  revert x; induction w as [|c w IH]; intros [|a x] Hw; try (cbn; lra).
  rewrite wdot_cons. assert (0 <= c) by (apply (Hw 0%nat); cbn; lia).
  assert (0 <= wdot w x x) by (apply IH; intros i Hi; apply (Hw (S i)); cbn; lia). nra.
Qed.

Lemma sqrt_neq0_pos a : 0 <= a -> sqrt a <> 0 -> 0 < a.
Proof.
  intros H0 Hs. destruct (Rle_lt_or_eq_dec 0 a H0) as [|<-]; [assumption|].
  rewrite sqrt_0 in Hs. contradiction.
Qed.

End Leaves.
