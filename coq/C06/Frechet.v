(* C06/Frechet.v -- Frechet differentiability (little-o in the sup norm) of maps
   list R -> list R, its calculus, and Frechet => Hadamard. *)
From Coq Require Import Reals Lra Lia List Bool.
From Verif Require Import Base.Num Base.Vec Base.VecR C06.Syntax Gen.UfuncDeriv C06.Model C06.Calc C06.Lin C06.LinMap C06.Blocks.
Import ListNotations.
Local Open Scope R_scope.

(* ---------- the sup norm ---------- *)
Fixpoint supn (x : Rvec) : R := match x with [] => 0 | a :: r => Rmax (Rabs a) (supn r) end.

Lemma supn_nonneg x : 0 <= supn x.
Proof. induction x as [|a x IH]; cbn [supn]; [lra|]. eapply Rle_trans; [apply Rabs_pos|apply Rmax_l]. Qed.
Lemma supn_nth x i : Rabs (nth i x 0) <= supn x.
Proof.
  revert i; induction x as [|a x IH]; intros [|i]; cbn [nth supn]; try (rewrite Rabs_R0; try apply supn_nonneg; lra).
  - apply Rmax_l.
  - eapply Rle_trans; [apply IH|apply Rmax_r].
Qed.
Lemma supn_le x c : 0 <= c -> (forall i, (i < length x)%nat -> Rabs (nth i x 0) <= c) -> supn x <= c.
Proof.
  intros Hc. induction x as [|a x IH]; intros H; cbn [supn]; [exact Hc|].
  apply Rmax_lub; [apply (H 0%nat); cbn; lia|]. apply IH. intros i Hi. apply (H (S i)). cbn; lia.
Qed.

(* ---------- Frechet derivative, componentwise form ---------- *)
Definition fdiff (n m : nat) (F : Rvec -> Rvec) (x : Rvec) (L : Rvec -> Rvec) : Prop :=
  length x = n /\ (forall y, length y = n -> length (F y) = m) /\ (forall d, length d = n -> length (L d) = m) /\
  forall eps, 0 < eps -> exists delta, 0 < delta /\
    forall h, length h = n -> supn h < delta ->
    forall i, (i < m)%nat ->
      Rabs (nth i (F (vadd x h)) 0 - nth i (F x) 0 - nth i (L h) 0) <= eps * supn h.

(* the literal little-o statement in the norm *)
Lemma fdiff_norm n m F x L : fdiff n m F x L ->
  forall eps, 0 < eps -> exists delta, 0 < delta /\
    forall h, length h = n -> supn h < delta ->
      supn (vsub (vsub (F (vadd x h)) (F x)) (L h)) <= eps * supn h.
Proof.
  intros (Hx & HF & HL & H) eps Heps. destruct (H eps Heps) as (dl & Hdl & Hd). exists dl. split; [exact Hdl|].
  intros h Hh Hs. pose proof (supn_nonneg h).
  assert (Hxh : length (vadd x h) = n) by (unfold vadd; apply vmap2_len; assumption).
  assert (L1 : length (vsub (F (vadd x h)) (F x)) = m) by (unfold vsub; apply vmap2_len; auto).
  assert (L2 : length (vsub (vsub (F (vadd x h)) (F x)) (L h)) = m) by (unfold vsub at 1; apply vmap2_len; auto).
  apply supn_le; [nra|]. intros i Hi. rewrite L2 in Hi.
  unfold vsub. rewrite nth_vmap2; [|fold (vsub (F (vadd x h)) (F x)); lia|fold (vsub (F (vadd x h)) (F x)); rewrite HL; auto].
  rewrite nth_vmap2; [|rewrite HF; auto|rewrite !HF; auto].
  apply Hd; assumption.
Qed.

(* bounded linear maps in the norm *)
Definition bnd (n : nat) (L : Rvec -> Rvec) : Prop :=
  exists M, 0 <= M /\ forall h, length h = n -> supn (L h) <= M * supn h.

(* splitting off the first coordinate of a linear map (as in LinMap.linmap_hdiff) *)
Lemma linmap_tail n m L : linmap (S n) m L -> linmap n m (fun v => L (0 :: v)).
Proof.
  intros (Hl & Ha & Hs). repeat split.
  - intros v Hv. apply Hl. cbn; lia.
  - intros a b Hal Hbl.
    replace (0 :: vadd a b) with (vadd (0 :: a) (0 :: b)) by (unfold vadd; cbn; f_equal; numR; ring).
    apply Ha; cbn; lia.
  - intros k a Hal.
    replace (0 :: vscal k a) with (vscal k (0 :: a)) by (unfold vscal; cbn; f_equal; numR; ring).
    apply Hs; cbn; lia.
Qed.
Lemma linmap_dec n m L : linmap (S n) m L ->
  forall h (v : Rvec), length v = n -> L (h :: v) = vadd (vscal h (L (1 :: vconst n 0))) (L (0 :: v)).
Proof.
  intros (Hl & Ha & Hs) h v Hv. rewrite (cons_split h v), Hv at 1.
  rewrite Ha; [|rewrite vscal_len; cbn; rewrite vconst_len; reflexivity|cbn; lia].
  rewrite Hs by (cbn; rewrite vconst_len; reflexivity). reflexivity.
Qed.

Lemma linmap_bnd n : forall m L, linmap n m L -> bnd n L.
Proof.
  induction n as [|n IH]; intros m L HLm; pose proof HLm as (Hl & Ha & Hs).
  - exists 0. split; [lra|]. intros [|? ?] Hh; [|discriminate Hh].
    pose proof (Hs 0 [] eq_refl) as E. cbn [vscal map] in E.
    cbn [supn]. rewrite Rmult_0_l. apply supn_le; [lra|]. intros i _.
    rewrite E, nth_vscal, Rmult_0_l, Rabs_R0. lra.
  - set (c := L (1 :: vconst n 0)).
    destruct (IH m _ (linmap_tail n m L HLm)) as (M' & HM' & HB).
    exists (supn c + M'). pose proof (supn_nonneg c). split; [lra|].
    intros [|h v] Hh; [discriminate Hh|]. cbn in Hh.
    rewrite (linmap_dec n m L HLm h v) by lia. fold c.
    assert (Hc : length c = m) by (apply Hl; cbn; rewrite vconst_len; reflexivity).
    assert (Hv : length (L (0 :: v)) = m) by (apply Hl; cbn; lia).
    pose proof (supn_nonneg (h :: v)) as Hn0.
    apply supn_le; [nra|]. intros i Hi. unfold vadd in *.
    rewrite (vmap2_len _ _ _ m) in Hi; rewrite ?vscal_len; auto.
    rewrite nth_vmap2; rewrite ?vscal_len; try lia. rewrite nth_vscal. numR.
    eapply Rle_trans; [apply Rabs_triang|]. rewrite Rabs_mult.
    pose proof (supn_nth c i). pose proof (supn_nth (L (0 :: v)) i).
    specialize (HB v ltac:(lia)). cbn beta in HB.
    assert (Hh1 : Rabs h <= supn (h :: v)) by (cbn [supn]; apply Rmax_l).
    assert (Hv1 : supn v <= supn (h :: v)) by (cbn [supn]; apply Rmax_r).
    pose proof (Rabs_pos h). pose proof (supn_nonneg v). pose proof (Rabs_pos (nth i c 0)). nra.
Qed.
Lemma blin_bnd n m L : blin n m L -> bnd n L.
Proof. intros H. apply (linmap_bnd n m). apply blin_linmap. exact H. Qed.

(* ---------- small facts on lists ---------- *)
Lemma nth_va (a b : Rvec) i n : length a = n -> length b = n -> (i < n)%nat ->
  nth i (vadd a b) 0 = nth i a 0 + nth i b 0.
Proof. intros Ha Hb Hi. unfold vadd. rewrite nth_vmap2 by lia. reflexivity. Qed.
Lemma nth_vs (a b : Rvec) i n : length a = n -> length b = n -> (i < n)%nat ->
  nth i (vsub a b) 0 = nth i a 0 - nth i b 0.
Proof. intros Ha Hb Hi. unfold vsub. rewrite nth_vmap2 by lia. reflexivity. Qed.
Lemma nth_vm (a b : Rvec) i n : length a = n -> length b = n -> (i < n)%nat ->
  nth i (vmul a b) 0 = nth i a 0 * nth i b 0.
Proof. intros Ha Hb Hi. unfold vmul. rewrite nth_vmap2 by lia. reflexivity. Qed.
Lemma vadd_len (a b : Rvec) n : length a = n -> length b = n -> length (vadd a b) = n.
Proof. apply vmap2_len. Qed.
Lemma vsub_len (a b : Rvec) n : length a = n -> length b = n -> length (vsub a b) = n.
Proof. apply vmap2_len. Qed.
Lemma vmul_len (a b : Rvec) n : length a = n -> length b = n -> length (vmul a b) = n.
Proof. apply vmap2_len. Qed.
Lemma vadd_vsub_cancel (a y : Rvec) n : length a = n -> length y = n -> vadd y (vsub a y) = a.
Proof.
  intros Ha Hy. assert (Hs : length (vsub a y) = n) by (apply vsub_len; assumption).
  apply nth_ext0; [rewrite (vadd_len _ _ n); auto|].
  intros i Hi. rewrite (vadd_len _ _ n) in Hi by auto.
  rewrite (nth_va _ _ i n), (nth_vs _ _ i n) by auto. lra.
Qed.
Lemma supn_lt_nth h i d : supn h < d -> Rabs (nth i h 0) < d.
Proof. intros H. eapply Rle_lt_trans; [apply supn_nth|exact H]. Qed.

(* one delta for finitely many conditions *)
Lemma fin_delta (n : nat) (P : nat -> R -> Prop) :
  (forall i d d', P i d -> 0 < d' <= d -> P i d') ->
  (forall i, (i < n)%nat -> exists d, 0 < d /\ P i d) ->
  exists d, 0 < d /\ forall i, (i < n)%nat -> P i d.
Proof.
  intros Hm. induction n as [|n IH]; intros H.
  - exists 1. split; [lra|intros i Hi; lia].
  - destruct IH as (d1 & Hd1 & H1); [intros i Hi; apply H; lia|].
    destruct (H n) as (d2 & Hd2 & H2); [lia|].
    exists (Rmin d1 d2). split; [apply Rmin_pos; assumption|].
    intros i Hi. destruct (Nat.eq_dec i n) as [->|Hne].
    + apply (Hm n d2); [exact H2|]. split; [apply Rmin_pos; assumption|apply Rmin_r].
    + apply (Hm i d1); [apply H1; lia|]. split; [apply Rmin_pos; assumption|apply Rmin_l].
Qed.

(* derivable_pt_lim as a first-order expansion with the point h = 0 included *)
Lemma dpl_bound f a l : derivable_pt_lim f a l ->
  forall eps, 0 < eps -> exists d, 0 < d /\
    forall h, Rabs h < d -> Rabs (f (a + h) - f a - l * h) <= eps * Rabs h.
Proof.
  intros H eps He. destruct (H eps He) as [dl Hd]. exists dl. split; [apply cond_pos|].
  intros h Hh. destruct (Req_dec h 0) as [->|Hn].
  - rewrite Rplus_0_r. replace (f a - f a - l * 0) with 0 by ring. rewrite Rabs_R0. lra.
  - specialize (Hd h Hn Hh).
    replace (f (a + h) - f a - l * h) with (((f (a + h) - f a) / h - l) * h) by (field; exact Hn).
    rewrite Rabs_mult. apply Rmult_le_compat_r; [apply Rabs_pos|lra].
Qed.

(* ---------- extensionality ---------- *)
Lemma fdiff_extL n m F x L L' :
  (forall d, length d = n -> L d = L' d) -> fdiff n m F x L -> fdiff n m F x L'.
Proof.
  intros E (Hx & HF & HL & H). split; [exact Hx|]. split; [exact HF|]. split.
  - intros d Hd. rewrite <- E by exact Hd. apply HL; exact Hd.
  - intros eps He. destruct (H eps He) as (dl & Hdl & Hd). exists dl. split; [exact Hdl|].
    intros h Hh Hs i Hi. rewrite <- E by exact Hh. apply Hd; assumption.
Qed.
Lemma fdiff_extF n m F F' x L :
  (forall y, length y = n -> F y = F' y) -> fdiff n m F x L -> fdiff n m F' x L.
Proof.
  intros E (Hx & HF & HL & H). split; [exact Hx|]. split.
  - intros y Hy. rewrite <- E by exact Hy. apply HF; exact Hy.
  - split; [exact HL|]. intros eps He. destruct (H eps He) as (dl & Hdl & Hd). exists dl. split; [exact Hdl|].
    intros h Hh Hs i Hi. rewrite <- !E; [apply Hd; assumption|exact Hx|apply vadd_len; assumption].
Qed.

(* ---------- linear and constant maps ---------- *)
Lemma fdiff_lin n m L x : blin n m L -> length x = n -> fdiff n m L x L.
Proof.
  intros (Hl & Ha & _) Hx. split; [exact Hx|]. split; [exact Hl|]. split; [exact Hl|].
  intros eps He. exists 1. split; [lra|]. intros h Hh _ i Hi.
  rewrite Ha by assumption. rewrite (nth_va _ _ i m) by auto.
  replace (nth i (L x) 0 + nth i (L h) 0 - nth i (L x) 0 - nth i (L h) 0) with 0 by ring.
  rewrite Rabs_R0. pose proof (supn_nonneg h). nra.
Qed.
Lemma fdiff_const n m v x : length v = m -> length x = n -> fdiff n m (fun _ => v) x (fun _ => vconst m 0).
Proof.
  intros Hv Hx. split; [exact Hx|]. split; [intros; exact Hv|]. split; [intros; apply vconst_len|].
  intros eps He. exists 1. split; [lra|]. intros h Hh _ i Hi. rewrite nth_vconst0.
  replace (nth i v 0 - nth i v 0 - 0) with 0 by ring. rewrite Rabs_R0. pose proof (supn_nonneg h). nra.
Qed.

(* a differentiable map is locally Lipschitz at the point *)
Lemma fdiff_lip n m F x L : fdiff n m F x L -> bnd n L ->
  exists C dl, 0 <= C /\ 0 < dl /\ forall h, length h = n -> supn h < dl ->
    forall i, (i < m)%nat -> Rabs (nth i (F (vadd x h)) 0 - nth i (F x) 0) <= C * supn h.
Proof.
  intros (Hx & HF & HL & H) (M & HM & HB). destruct (H 1 Rlt_0_1) as (dl & Hdl & Hd).
  exists (M + 1), dl. split; [lra|]. split; [exact Hdl|]. intros h Hh Hs i Hi.
  specialize (Hd h Hh Hs i Hi). specialize (HB h Hh). pose proof (supn_nth (L h) i).
  replace (nth i (F (vadd x h)) 0 - nth i (F x) 0)
    with ((nth i (F (vadd x h)) 0 - nth i (F x) 0 - nth i (L h) 0) + nth i (L h) 0) by ring.
  eapply Rle_trans; [apply Rabs_triang|]. lra.
Qed.

(* ---------- the chain rule ---------- *)
Lemma fdiff_comp n k m F G x L1 L2 :
  fdiff n k G x L2 -> blin n k L2 -> fdiff k m F (G x) L1 -> blin k m L1 ->
  fdiff n m (fun y => F (G y)) x (fun d => L1 (L2 d)).
Proof.
  intros HG B2 HF B1.
  destruct (blin_bnd _ _ _ B1) as (M1 & HM1 & HB1).
  destruct (fdiff_lip _ _ _ _ _ HG (blin_bnd _ _ _ B2)) as (K0 & dl0 & HK0 & Hdl0 & Hlip).
  destruct HG as (Hx & HGl & HL2 & HG). destruct HF as (Hy & HFl & HL1 & HF).
  destruct B1 as (_ & Hadd1 & _).
  split; [exact Hx|]. split; [intros y Hyl; apply HFl, HGl; exact Hyl|].
  split; [intros d Hd; apply HL1, HL2; exact Hd|].
  intros eps He.
  set (K := K0 + 1). assert (HK : 0 < K) by (unfold K; lra).
  set (e1 := eps / (2 * K)). assert (He1 : 0 < e1) by (unfold e1; apply Rdiv_lt_0_compat; lra).
  set (e2 := eps / (2 * (M1 + 1))). assert (He2 : 0 < e2) by (unfold e2; apply Rdiv_lt_0_compat; lra).
  destruct (HF e1 He1) as (d1 & Hd1 & HF1). destruct (HG e2 He2) as (d2 & Hd2 & HG2).
  exists (Rmin (Rmin d2 dl0) (d1 / K)).
  assert (Hd1K : 0 < d1 / K) by (apply Rdiv_lt_0_compat; assumption).
  split; [repeat apply Rmin_pos; assumption|].
  intros h Hh Hs i Hi.
  assert (Hs2 : supn h < d2) by (eapply Rlt_le_trans; [exact Hs|]; eapply Rle_trans; [apply Rmin_l|apply Rmin_l]).
  assert (Hs0 : supn h < dl0) by (eapply Rlt_le_trans; [exact Hs|]; eapply Rle_trans; [apply Rmin_l|apply Rmin_r]).
  assert (Hs1 : supn h < d1 / K) by (eapply Rlt_le_trans; [exact Hs|]; apply Rmin_r).
  pose proof (supn_nonneg h) as Hn0.
  set (a := G (vadd x h)). set (y := G x) in *.
  assert (Hal : length a = k) by (apply HGl; apply vadd_len; assumption).
  set (kk := vsub a y). assert (Hkl : length kk = k) by (apply vsub_len; assumption).
  assert (Eak : a = vadd y kk) by (symmetry; apply (vadd_vsub_cancel a y k); assumption).
  assert (Hkk : supn kk <= K0 * supn h).
  { apply supn_le; [nra|]. intros j Hj. rewrite Hkl in Hj. unfold kk. rewrite (nth_vs _ _ j k) by assumption.
    apply Hlip; assumption. }
  assert (Hkd : supn kk < d1).
  { apply Rle_lt_trans with (K0 * supn h); [exact Hkk|].
    apply Rle_lt_trans with (K * supn h); [unfold K; nra|].
    replace d1 with (K * (d1 / K)) by (field; lra). apply Rmult_lt_compat_l; assumption. }
  pose proof (HF1 kk Hkl Hkd i Hi) as R1. rewrite <- Eak in R1.
  set (r := vsub kk (L2 h)).
  assert (HL2h : length (L2 h) = k) by (apply HL2; exact Hh).
  assert (Hrl : length r = k) by (apply vsub_len; assumption).
  assert (Ekr : kk = vadd (L2 h) r) by (symmetry; apply (vadd_vsub_cancel kk (L2 h) k); assumption).
  assert (Hr : supn r <= e2 * supn h).
  { apply supn_le; [nra|]. intros j Hj. rewrite Hrl in Hj. unfold r, kk.
    rewrite (nth_vs _ _ j k), (nth_vs _ _ j k) by assumption. apply HG2; assumption. }
  assert (E1 : nth i (L1 kk) 0 = nth i (L1 (L2 h)) 0 + nth i (L1 r) 0).
  { rewrite Ekr at 1. rewrite Hadd1 by assumption. apply (nth_va _ _ i m); auto. }
  pose proof (supn_nth (L1 r) i) as R2. pose proof (HB1 r Hrl) as R3.
  replace (nth i (F a) 0 - nth i (F y) 0 - nth i (L1 (L2 h)) 0)
    with ((nth i (F a) 0 - nth i (F y) 0 - nth i (L1 kk) 0) + nth i (L1 r) 0) by (rewrite E1; ring).
  eapply Rle_trans; [apply Rabs_triang|].
  assert (A1 : e1 * supn kk <= eps / 2 * supn h).
  { apply Rle_trans with (e1 * (K * supn h)); [apply Rmult_le_compat_l; [lra|unfold K; nra]|].
    replace (e1 * (K * supn h)) with (eps / 2 * supn h) by (unfold e1; field; lra). lra. }
  assert (A2 : M1 * supn r <= eps / 2 * supn h).
  { apply Rle_trans with (M1 * (e2 * supn h)); [apply Rmult_le_compat_l; assumption|].
    assert ((M1 + 1) * e2 = eps / 2) by (unfold e2; field; lra).
    assert (0 <= e2 * supn h) by nra. nra. }
  lra.
Qed.

(* ---------- concatenation of the values ---------- *)
Lemma fdiff_app n m1 m2 F G x L1 L2 :
  fdiff n m1 F x L1 -> fdiff n m2 G x L2 ->
  fdiff n (m1 + m2) (fun y => F y ++ G y) x (fun d => L1 d ++ L2 d).
Proof.
  intros (Hx & HFl & HL1 & HF) (_ & HGl & HL2 & HG).
  split; [exact Hx|]. split; [intros y Hy; rewrite app_length, HFl, HGl; auto|].
  split; [intros d Hd; rewrite app_length, HL1, HL2; auto|].
  intros eps He. destruct (HF eps He) as (d1 & Hd1 & H1). destruct (HG eps He) as (d2 & Hd2 & H2).
  exists (Rmin d1 d2). split; [apply Rmin_pos; assumption|]. intros h Hh Hs i Hi.
  assert (Hxh : length (vadd x h) = n) by (apply vadd_len; assumption).
  destruct (lt_dec i m1) as [Hlt|Hge].
  - rewrite !app_nth1 by (rewrite ?HFl, ?HL1; auto). apply H1; auto.
    eapply Rlt_le_trans; [exact Hs|apply Rmin_l].
  - rewrite !app_nth2 by (rewrite ?HFl, ?HL1; auto; lia). rewrite !HFl, HL1 by auto. apply H2; auto; [|lia].
    eapply Rlt_le_trans; [exact Hs|apply Rmin_r].
Qed.

(* ---------- the entry-wise product of the two halves ---------- *)
Definition qmul (m : nat) (z : Rvec) : Rvec := vmul (firstn m z) (skipn m z).
Definition qmulD (m : nat) (z d : Rvec) : Rvec :=
  vadd (vmul (firstn m d) (skipn m z)) (vmul (firstn m z) (skipn m d)).
Lemma firstn_len_add (z : Rvec) m k : length z = (m + k)%nat -> length (firstn m z) = m.
Proof. intros H. rewrite firstn_length. lia. Qed.
Lemma skipn_len_add (z : Rvec) m k : length z = (m + k)%nat -> length (skipn m z) = k.
Proof. intros H. rewrite skipn_length. lia. Qed.
Lemma fdiff_qmul m z : length z = (m + m)%nat -> fdiff (m + m) m (qmul m) z (qmulD m z).
Proof.
  intros Hz. unfold qmul, qmulD. split; [exact Hz|].
  split; [intros y Hy; apply vmul_len; [apply (firstn_len_add y m m Hy)|apply (skipn_len_add y m m Hy)]|].
  split.
  { intros d Hd. apply vadd_len; apply vmul_len;
      first [apply (firstn_len_add _ m m); assumption|apply (skipn_len_add _ m m); assumption]. }
  intros eps He. exists eps. split; [exact He|]. intros h Hh Hs i Hi.
  assert (Hzh : length (vadd z h) = (m + m)%nat) by (apply vadd_len; assumption).
  pose proof (firstn_len_add z m m Hz). pose proof (skipn_len_add z m m Hz).
  pose proof (firstn_len_add h m m Hh). pose proof (skipn_len_add h m m Hh).
  pose proof (firstn_len_add _ m m Hzh). pose proof (skipn_len_add _ m m Hzh).
  rewrite (nth_va _ _ i m) by (try apply vmul_len; auto).
  rewrite !(nth_vm _ _ i m) by auto.
  rewrite !nth_firstn0 by exact Hi. rewrite !nth_skipn0.
  rewrite (nth_va z h i (m + m)), (nth_va z h (m + i) (m + m)) by (auto; lia).
  set (a := nth i z 0). set (b := nth (m + i) z 0). set (u := nth i h 0). set (v := nth (m + i) h 0).
  replace ((a + u) * (b + v) - a * b - (u * b + a * v)) with (u * v) by ring.
  rewrite Rabs_mult.
  assert (Hu : Rabs u <= supn h) by apply supn_nth. assert (Hv : Rabs v <= supn h) by apply supn_nth.
  pose proof (Rabs_pos u). pose proof (Rabs_pos v). pose proof (supn_nonneg h).
  apply Rle_trans with (supn h * supn h); [apply Rmult_le_compat; assumption|].
  apply Rmult_le_compat_r; lra.
Qed.
Lemma blin_qmulD m z : length z = (m + m)%nat -> blin (m + m) m (qmulD m z).
Proof.
  intros Hz. unfold qmulD. apply blin_add.
  - apply (blin_comp _ m _ (fun d => vmul d (skipn m z)) (firstn m)); [apply blin_firstn_add|].
    apply blin_mulv. apply (skipn_len_add z m m Hz).
  - apply (blin_ext _ _ (fun d => vmul (skipn m d) (firstn m z))); [intros d; apply vmul_comm|].
    apply (blin_comp _ m _ (fun d => vmul d (firstn m z)) (skipn m)); [apply blin_skipn_add|].
    apply blin_mulv. apply (firstn_len_add z m m Hz).
Qed.

(* ---------- entry-wise maps ---------- *)
Lemma fdiff_map n (f f' : R -> R) x : length x = n ->
  (forall i, (i < n)%nat -> derivable_pt_lim f (nth i x 0) (f' (nth i x 0))) ->
  fdiff n n (map f) x (fun d => vmul (map f' x) d).
Proof.
  intros Hx Hder. split; [exact Hx|]. split; [intros y Hy; rewrite map_length; exact Hy|].
  split; [intros d Hd; apply vmul_len; [rewrite map_length; exact Hx|exact Hd]|].
  intros eps He.
  destruct (fin_delta n (fun i d => forall t, Rabs t < d ->
     Rabs (f (nth i x 0 + t) - f (nth i x 0) - f' (nth i x 0) * t) <= eps * Rabs t)) as (dl & Hdl & Hd).
  { intros i d d' H Hd' t Ht. apply H. lra. }
  { intros i Hi. apply dpl_bound; [apply Hder; exact Hi|exact He]. }
  exists dl. split; [exact Hdl|]. intros h Hh Hs i Hi.
  assert (Hxh : length (vadd x h) = n) by (apply vadd_len; assumption).
  rewrite !nth_map0 by lia. rewrite (nth_va x h i n) by assumption.
  rewrite (nth_vm _ _ i n); [|rewrite map_length; exact Hx|exact Hh|exact Hi]. rewrite nth_map0 by lia.
  eapply Rle_trans; [apply Hd; [exact Hi|apply supn_lt_nth; exact Hs]|].
  apply Rmult_le_compat_l; [lra|apply supn_nth].
Qed.

(* ---------- the Frechet derivative is the Hadamard derivative ---------- *)
Lemma fdiff_hdiff_agree n m F x L Lh :
  fdiff n m F x L -> blin n m L -> hdiff n m F x Lh -> forall d, length d = n -> L d = Lh d.
Proof.
  intros (Hx & HFl & HL & HF) (_ & _ & Hsc & _) Hh d Hd.
  destruct (Hh _ _ (curve_line n x d Hx Hd)) as (_ & A1 & _ & A2).
  apply nth_ext0; [rewrite HL by exact Hd; congruence|]. intros i Hi. rewrite HL in Hi by exact Hd.
  eapply uniqueness_limite; [|apply A2; exact Hi].
  intros eps He. pose proof (supn_nonneg d) as Hn0.
  set (e' := eps / (2 * (supn d + 1))). assert (He' : 0 < e') by (unfold e'; apply Rdiv_lt_0_compat; lra).
  destruct (HF e' He') as (dl & Hdl & Hdd).
  assert (Hpos : 0 < dl / (supn d + 1)) by (apply Rdiv_lt_0_compat; lra).
  exists (mkposreal _ Hpos). intros t Ht Hlt. cbn [pos] in Hlt.
  assert (Hvl : length (vscal t d) = n) by (rewrite vscal_len; exact Hd).
  assert (Hsv : supn (vscal t d) <= Rabs t * supn d).
  { pose proof (Rabs_pos t). apply supn_le; [nra|]. intros j _. rewrite nth_vscal, Rabs_mult.
    apply Rmult_le_compat_l; [assumption|apply supn_nth]. }
  assert (Hsd : supn (vscal t d) < dl).
  { eapply Rle_lt_trans; [exact Hsv|]. pose proof (Rabs_pos t).
    apply Rle_lt_trans with (Rabs t * (supn d + 1)); [nra|].
    replace dl with (dl / (supn d + 1) * (supn d + 1)) by (field; lra).
    apply Rmult_lt_compat_r; [lra|exact Hlt]. }
  specialize (Hdd (vscal t d) Hvl Hsd i Hi). rewrite Hsc in Hdd by exact Hd. rewrite nth_vscal in Hdd.
  unfold line. rewrite Rplus_0_l.
  assert (E0 : vadd x (vscal 0 d) = x).
  { apply nth_ext0; [rewrite (vadd_len _ _ n); auto; rewrite vscal_len; exact Hd|].
    intros j Hj. rewrite (vadd_len _ _ n) in Hj; auto; [|rewrite vscal_len; exact Hd].
    rewrite (nth_va _ _ j n); auto; [|rewrite vscal_len; exact Hd]. rewrite nth_vscal. lra. }
  rewrite E0.
  replace ((nth i (F (vadd x (vscal t d))) 0 - nth i (F x) 0) / t - nth i (L d) 0)
    with ((nth i (F (vadd x (vscal t d))) 0 - nth i (F x) 0 - t * nth i (L d) 0) / t) by (field; exact Ht).
  unfold Rdiv. rewrite Rabs_mult, Rabs_inv.
  assert (Hat : 0 < Rabs t) by (apply Rabs_pos_lt; exact Ht).
  apply Rle_lt_trans with (e' * (Rabs t * supn d) * / Rabs t).
  { apply Rmult_le_compat_r; [left; apply Rinv_0_lt_compat; exact Hat|].
    eapply Rle_trans; [exact Hdd|]. apply Rmult_le_compat_l; [lra|exact Hsv]. }
  replace (e' * (Rabs t * supn d) * / Rabs t) with (e' * supn d) by (field; lra).
  assert (e' * (supn d + 1) = eps / 2) by (unfold e'; field; lra). nra.
Qed.

(* ---------- "Frechet differentiable with a bounded linear derivative" and its closure ---------- *)
Definition fd (n m : nat) (F : Rvec -> Rvec) (x : Rvec) : Prop :=
  exists L, fdiff n m F x L /\ blin n m L.

Lemma fd_ext n m F F' x : (forall y, length y = n -> F y = F' y) -> fd n m F x -> fd n m F' x.
Proof. intros E (L & H & B). exists L. split; [apply (fdiff_extF _ _ F); assumption|exact B]. Qed.
Lemma fd_lin n m L x : blin n m L -> length x = n -> fd n m L x.
Proof. intros B Hx. exists L. split; [apply fdiff_lin; assumption|exact B]. Qed.
Lemma fd_const n m v x : length v = m -> length x = n -> fd n m (fun _ => v) x.
Proof. intros Hv Hx. exists (fun _ => vconst m 0). split; [apply fdiff_const; assumption|apply blin_zero]. Qed.
Lemma fd_comp n k m F G x : fd n k G x -> fd k m F (G x) -> fd n m (fun y => F (G y)) x.
Proof.
  intros (L2 & H2 & B2) (L1 & H1 & B1). exists (fun d => L1 (L2 d)).
  split; [apply (fdiff_comp n k m); assumption|apply (blin_comp n k m); assumption].
Qed.
Lemma fd_app n m1 m2 F G x : fd n m1 F x -> fd n m2 G x -> fd n (m1 + m2) (fun y => F y ++ G y) x.
Proof.
  intros (L1 & H1 & B1) (L2 & H2 & B2). exists (fun d => L1 d ++ L2 d).
  split; [apply fdiff_app; assumption|apply blin_app; assumption].
Qed.
Lemma fd_len n m F x : fd n m F x -> length x = n /\ forall y, length y = n -> length (F y) = m.
Proof. intros (L & (Hx & HF & _) & _). split; assumption. Qed.
Lemma fd_mul n m F G x : fd n m F x -> fd n m G x -> fd n m (fun y => vmul (F y) (G y)) x.
Proof.
  intros HF HG. destruct (fd_len _ _ _ _ HF) as (Hx & HFl). destruct (fd_len _ _ _ _ HG) as (_ & HGl).
  apply (fd_ext n m (fun y => qmul m (F y ++ G y))).
  { intros y Hy. unfold qmul. rewrite firstn_app, skipn_app, HFl by exact Hy.
    rewrite Nat.sub_diag, firstn_all2, skipn_all2 by (rewrite HFl; auto). cbn [firstn skipn]. rewrite app_nil_r. reflexivity. }
  apply (fd_comp n (m + m) m (qmul m) (fun y => F y ++ G y)); [apply fd_app; assumption|].
  assert (Hz : length (F x ++ G x) = (m + m)%nat) by (rewrite app_length, HFl, HGl; auto).
  exists (qmulD m (F x ++ G x)). split; [apply fdiff_qmul; exact Hz|apply blin_qmulD; exact Hz].
Qed.
Lemma fd_add n m F G x : fd n m F x -> fd n m G x -> fd n m (fun y => vadd (F y) (G y)) x.
Proof.
  intros HF HG. destruct (fd_len _ _ _ _ HF) as (Hx & HFl). destruct (fd_len _ _ _ _ HG) as (_ & HGl).
  apply (fd_ext n m (fun y => (fun z => vadd (firstn m z) (skipn m z)) (F y ++ G y))).
  { intros y Hy. cbn beta. rewrite firstn_app, skipn_app, HFl by exact Hy.
    rewrite Nat.sub_diag, firstn_all2, skipn_all2 by (rewrite HFl; auto). cbn [firstn skipn]. rewrite app_nil_r. reflexivity. }
  apply (fd_comp n (m + m) m (fun z => vadd (firstn m z) (skipn m z)) (fun y => F y ++ G y)); [apply fd_app; assumption|].
  apply fd_lin; [|rewrite app_length, HFl, HGl; auto].
  apply blin_add; [apply blin_firstn_add|apply blin_skipn_add].
Qed.
Lemma fd_map n (f f' : R -> R) x : length x = n ->
  (forall i, (i < n)%nat -> derivable_pt_lim f (nth i x 0) (f' (nth i x 0))) -> fd n n (map f) x.
Proof.
  intros Hx H. exists (fun d => vmul (map f' x) d). split; [apply fdiff_map; assumption|].
  apply (blin_ext _ _ (fun d => vmul d (map f' x))); [intros d; apply vmul_comm|].
  apply blin_mulv. rewrite map_length; exact Hx.
Qed.
(* F then a linear map; a linear map then F *)
Lemma fd_lin_after n k m A F x : blin k m A -> fd n k F x -> fd n m (fun y => A (F y)) x.
Proof.
  intros B HF. destruct (fd_len _ _ _ _ HF) as (Hx & HFl).
  apply (fd_comp n k m A F); [exact HF|]. apply fd_lin; [exact B|apply HFl; exact Hx].
Qed.
Lemma fd_lin_before n k m A F x : blin n k A -> length x = n -> fd k m F (A x) -> fd n m (fun y => F (A y)) x.
Proof. intros B Hx HF. apply (fd_comp n k m F A); [apply fd_lin; assumption|exact HF]. Qed.

(* ---------- the same statement in any equivalent norm, e.g. the Euclidean one ---------- *)
Lemma resid_len n m F x L : fdiff n m F x L -> forall h, length h = n ->
  length (vsub (vsub (F (vadd x h)) (F x)) (L h)) = m.
Proof.
  intros (Hx & HF & HL & _) h Hh. apply vsub_len; [apply vsub_len|]; auto.
  apply HF. apply vadd_len; assumption.
Qed.
Lemma fdiff_norms n m F x L (Nd Nr : Rvec -> R) a b : 0 < a -> 0 < b ->
  (forall h, length h = n -> supn h <= a * Nd h) ->
  (forall v, length v = m -> Nr v <= b * supn v) ->
  fdiff n m F x L ->
  forall eps, 0 < eps -> exists delta, 0 < delta /\
    forall h, length h = n -> Nd h < delta ->
      Nr (vsub (vsub (F (vadd x h)) (F x)) (L h)) <= eps * Nd h.
Proof.
  intros Ha Hb Hd Hr HF eps He.
  assert (Hab : 0 < a * b) by (apply Rmult_lt_0_compat; assumption).
  set (e' := eps / (a * b)). assert (He' : 0 < e') by (unfold e'; apply Rdiv_lt_0_compat; assumption).
  destruct (fdiff_norm _ _ _ _ _ HF e' He') as (dl & Hdl & H).
  exists (dl / a). split; [apply Rdiv_lt_0_compat; assumption|]. intros h Hh Hlt.
  pose proof (Hd h Hh) as H1. pose proof (supn_nonneg h) as H0.
  assert (Hs : supn h < dl).
  { eapply Rle_lt_trans; [exact H1|]. replace dl with (a * (dl / a)) by (field; lra).
    apply Rmult_lt_compat_l; assumption. }
  specialize (H h Hh Hs). pose proof (Hr _ (resid_len _ _ _ _ _ HF h Hh)) as H2.
  eapply Rle_trans; [exact H2|].
  apply Rle_trans with (b * (e' * (a * Nd h))).
  - apply Rmult_le_compat_l; [lra|]. eapply Rle_trans; [exact H|]. apply Rmult_le_compat_l; lra.
  - replace (b * (e' * (a * Nd h))) with (eps * Nd h) by (unfold e'; field; lra). lra.
Qed.

Definition norm2 (v : Rvec) : R := sqrt (dot v v).
Lemma supn_le_norm2 v : supn v <= norm2 v.
Proof.
  unfold norm2. induction v as [|a v IH]; [cbn [supn]; apply sqrt_pos|].
  rewrite dot_cons. cbn [supn]. pose proof (dot_self_nonneg v).
  apply Rmax_lub.
  - rewrite <- sqrt_Rsqr_abs. apply sqrt_le_1_alt. unfold Rsqr. lra.
  - eapply Rle_trans; [exact IH|]. apply sqrt_le_1_alt. nra.
Qed.
Lemma dot_le_supn v : dot v v <= INR (length v) * (supn v * supn v).
Proof.
  induction v as [|a v IH]; [cbn; numR; lra|].
  rewrite dot_cons. cbn [length supn]. rewrite S_INR.
  set (M := Rmax (Rabs a) (supn v)).
  assert (H1 : Rabs a <= M) by apply Rmax_l. assert (H2 : supn v <= M) by apply Rmax_r.
  pose proof (Rabs_pos a). pose proof (supn_nonneg v). pose proof (pos_INR (length v)).
  assert (Ha : a * a <= M * M).
  { replace (a * a) with (Rabs a * Rabs a) by (unfold Rabs; destruct (Rcase_abs a); ring). nra. }
  assert (Hv : supn v * supn v <= M * M) by nra.
  assert (INR (length v) * (supn v * supn v) <= INR (length v) * (M * M)) by (apply Rmult_le_compat_l; assumption).
  lra.
Qed.
Lemma norm2_le_supn v : norm2 v <= sqrt (INR (length v)) * supn v.
Proof.
  unfold norm2. pose proof (supn_nonneg v). pose proof (pos_INR (length v)).
  replace (supn v) with (sqrt (supn v * supn v)) at 1 by (apply sqrt_square; assumption).
  rewrite <- sqrt_mult by nra. apply sqrt_le_1_alt. apply dot_le_supn.
Qed.

Lemma fdiff_norm2 n m F x L : fdiff n m F x L ->
  forall eps, 0 < eps -> exists delta, 0 < delta /\
    forall h, length h = n -> norm2 h < delta ->
      norm2 (vsub (vsub (F (vadd x h)) (F x)) (L h)) <= eps * norm2 h.
Proof.
  apply (fdiff_norms n m F x L norm2 norm2 1 (sqrt (INR m) + 1)); [lra|pose proof (sqrt_pos (INR m)); lra| |].
  - intros h _. rewrite Rmult_1_l. apply supn_le_norm2.
  - intros v Hv. eapply Rle_trans; [apply norm2_le_supn|]. rewrite Hv. pose proof (supn_nonneg v). nra.
Qed.
