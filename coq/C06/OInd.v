(* C06/OInd.v -- structural induction on [oexpr] over any carrier, with the
   induction hypothesis for every operand of the block operators. *)
From Coq Require Import List.
From Verif Require Import Base.Num C06.Syntax Gen.UfuncDeriv C06.Model.
Import ListNotations.

Section OIndT.
Context {T : Type}.
Notation oexprT := (@oexpr T).
Variable Q : oexprT -> Prop.
Hypothesis Hleaf : forall l, Q (OLeaf l).
Hypothesis Hsum : forall a, Q a -> forall b, Q b -> Q (OSum a b).
Hypothesis Hvecsum : forall a, Q a -> forall v, Q (OVecSum a v).
Hypothesis Hcomp : forall a, Q a -> forall b, Q b -> Q (OComp a b).
Hypothesis Hpprod : forall a, Q a -> forall b, Q b -> Q (OPProd a b).
Hypothesis Hlscal : forall a, Q a -> forall s, Q (OLScal a s).
Hypothesis Hrscal : forall a, Q a -> forall s, Q (ORScal a s).
Hypothesis Hlvec : forall a, Q a -> forall v, Q (OLVec a v).
Hypothesis Hrvec : forall a, Q a -> forall v, Q (ORVec a v).
Hypothesis Hflvec : forall a, Q a -> forall v, Q (OFLVec a v).
Hypothesis Hbc : forall ops, Forall Q ops -> Q (OBroadcast ops).
Hypothesis Hred : forall ops, Forall Q ops -> Q (OReduction ops).
Hypothesis Hdiag : forall ops, Forall Q ops -> Q (ODiagonal ops).
Hypothesis Hpso : forall cs rs ents, Forall (fun t : nat * nat * oexprT => Q (snd t)) ents -> Q (OPSO cs rs ents).
Fixpoint oexpr_indT (e : oexprT) : Q e :=
  let all := fix go (l : list oexprT) : Forall Q l :=
               match l with
               | [] => Forall_nil Q
               | a :: r => Forall_cons a (oexpr_indT a) (go r)
               end in
  let all3 := fix go (l : list (nat * nat * oexprT)) : Forall (fun t : nat * nat * oexprT => Q (snd t)) l :=
               match l with
               | [] => Forall_nil _
               | t :: r => Forall_cons t (match t as t0 return Q (snd t0) with (_, a) => oexpr_indT a end) (go r)
               end in
  match e with
  | OLeaf l => Hleaf l
  | OSum a b => Hsum a (oexpr_indT a) b (oexpr_indT b)
  | OVecSum a v => Hvecsum a (oexpr_indT a) v
  | OComp a b => Hcomp a (oexpr_indT a) b (oexpr_indT b)
  | OPProd a b => Hpprod a (oexpr_indT a) b (oexpr_indT b)
  | OLScal a c => Hlscal a (oexpr_indT a) c
  | ORScal a c => Hrscal a (oexpr_indT a) c
  | OLVec a v => Hlvec a (oexpr_indT a) v
  | ORVec a v => Hrvec a (oexpr_indT a) v
  | OFLVec a v => Hflvec a (oexpr_indT a) v
  | OBroadcast ops => Hbc ops (all ops)
  | OReduction ops => Hred ops (all ops)
  | ODiagonal ops => Hdiag ops (all ops)
  | OPSO cs rs ents => Hpso cs rs ents (all3 ents)
  end.
End OIndT.
