(* C06/Corr.v -- correspondence checkers (executed at Q by the shards). *)
From Coq Require Import ZArith QArith Qabs List Bool.
From Verif Require Import Base.Num Base.Vec Base.Check C06.Syntax Gen.UfuncDeriv C06.Model.
Import ListNotations.

(* exact root on squares of rationals (cases use such points only) *)
Definition Qsqrt (q : Q) : Q :=
  let r := Qred q in (Z.sqrt (Qnum r) # Pos.sqrt (Qden r)).

(* the user-defined test operator no. k of the harness: rn(k) -> rn(k), x |-> x^3 - x entry-wise,
   whose Python .derivative(x) returns the linear operator d |-> (3 x^2 - 1) * d *)
Definition cubic (a : Q) : Q := Qred (a * a * a - a).
Definition cubic' (a : Q) : Q := Qred (3 * a * a - 1).
Definition primsQ : prims Q := {|
  tr := fun _ _ => 0; rt := Qsqrt;
  afun := fun _ x => map cubic x;
  ader := fun _ x0 d => vmul (map cubic' x0) d;
  adom := fun k => SV k; aran := fun k => SV k |}.

Definition atol : Q := 1 # 1000000000.
Definition rtol : Q := 1 # 1000000000.
Definition qc := Qclose atol rtol.
Definition qsc := Qsclose atol rtol.

Definition leaf_close (a b : leaf (T:=Q)) : bool :=
  match a, b with
  | LScale s c, LScale s' c' => space_eqb s s' && qc c c'
  | LMul s v, LMul s' v' => space_eqb s s' && qsc v v'
  | LMat n r, LMat n' r' => Nat.eqb n n' && all2 qsc r r'
  | LInner w v, LInner w' v' => qsc w w' && qsc v v'
  | LZero s t, LZero s' t' => space_eqb s s' && space_eqb t t'
  | LConst s t c, LConst s' t' c' => space_eqb s s' && space_eqb t t' && qsc c c'
  | LPow s p, LPow s' p' => space_eqb s s' && Z.eqb p p'
  | LUf f n, LUf f' n' => ufn_eqb f f' && Nat.eqb n n'
  | LNorm w, LNorm w' => qsc w w'
  | LDist w v, LDist w' v' => qsc w w' && qsc v v'
  | LAbs k, LAbs k' => Nat.eqb k k'
  | LAbsD k x, LAbsD k' x' => Nat.eqb k k' && qsc x x'
  | LPwNorm n p w, LPwNorm n' p' w' => Nat.eqb n n' && Z.eqb p p' && qsc w w'
  | LPwInner n w vf, LPwInner n' w' vf' => Nat.eqb n n' && qsc w w' && qsc vf vf'
  | LRe s, LRe s' | LIm s, LIm s' | LCMod s, LCMod s' | LCMod2 s, LCMod2 s' => space_eqb s s'
  | LCModD q s x, LCModD q' s' x' => Bool.eqb q q' && space_eqb s s' && qsc x x'
  | _, _ => false
  end.

(* same class skeleton, all scalars / vectors / points equal up to float rounding;
   first argument = implementation, second = model *)
Fixpoint oexpr_close (a b : oexpr (T:=Q)) : bool :=
  match a, b with
  | OLeaf l, OLeaf l' => leaf_close l l'
  | OSum a1 a2, OSum b1 b2 | OComp a1 a2, OComp b1 b2 | OPProd a1 a2, OPProd b1 b2 =>
      oexpr_close a1 b1 && oexpr_close a2 b2
  | OVecSum a1 v, OVecSum b1 w | OLVec a1 v, OLVec b1 w | ORVec a1 v, ORVec b1 w
  | OFLVec a1 v, OFLVec b1 w => oexpr_close a1 b1 && qsc v w
  | OLScal a1 s, OLScal b1 t | ORScal a1 s, ORScal b1 t => oexpr_close a1 b1 && qc s t
  | OBroadcast l, OBroadcast m | OReduction l, OReduction m | ODiagonal l, ODiagonal m =>
      (fix go (l m : list (oexpr (T:=Q))) : bool :=
         match l, m with
         | [], [] => true
         | a1 :: l', b1 :: m' => oexpr_close a1 b1 && go l' m'
         | _, _ => false
         end) l m
  | OPSO cs rs l, OPSO cs' rs' m =>
      nats_eqb cs cs' && nats_eqb rs rs' &&
      (fix go (l m : list (nat * nat * oexpr (T:=Q))) : bool :=
         match l, m with
         | [], [] => true
         | (i, j, a1) :: l', (i', j', b1) :: m' => Nat.eqb i i' && Nat.eqb j j' && oexpr_close a1 b1 && go l' m'
         | _, _ => false
         end) l m
  | _, _ => false
  end.

(* what op.derivative(x) did *)
Inductive dres :=
| DOk (D : oexpr (T:=Q)) (Dlin : bool) (Dd : list Q)   (* object, its is_linear, D(d) *)
| DRaise.

Record case := {
  c_e : oexpr (T:=Q);       (* the operator, serialised from the Python object *)
  c_x : list Q; c_d : list Q;
  c_lin : bool;             (* op.is_linear *)
  c_val : list Q;           (* op(x) *)
  c_der : dres }.

Definition check (k : case) : bool :=
  let e := c_e k in let x := c_x k in
  wt primsQ e && Nat.eqb (length x) (sdim (dom primsQ e)) && Nat.eqb (length (c_d k)) (sdim (dom primsQ e))
  && beq (is_lin e) (c_lin k)
  && qsc (c_val k) (eval primsQ e x)
  && match c_der k with
     | DOk D Dlin Dd =>
         deriv_ok primsQ e x
         && let D' := derivative primsQ e x in
            oexpr_close D D' && beq (is_lin D') Dlin && is_lin D'
            && space_eqb (dom primsQ D') (dom primsQ e) && space_eqb (ran primsQ D') (ran primsQ e)
            && wt primsQ D'
            && qsc Dd (eval primsQ D' (c_d k))
     | DRaise => negb (deriv_ok primsQ e x)
     end.

(* ---- the regenerated ufunc tables against the implementation ----
   prim: numpy's values of each primitive ufunc at the entries of the point;
   the table expression is evaluated with these as the meaning of UApp g UPoint
   (nested applications are evaluated through square/reciprocal/negative only). *)
Record ucase := {
  u_f : ufn; u_grad : bool;          (* derivative table (operator) or gradient table (functional) *)
  u_x : list Q;                      (* the point, entry-wise *)
  u_prim : list (ufn * list Q);      (* g |-> [g(x_i)] as computed by numpy *)
  u_lin : bool;                      (* op.is_linear *)
  u_mult : option (list Q) }.        (* multiplicand of op.derivative(x) / gradient(x); None = raised *)

Fixpoint lookup (g : ufn) (tab : list (ufn * list Q)) : option (list Q) :=
  match tab with
  | [] => None
  | (h, v) :: tab' => if ufn_eqb g h then Some v else lookup g tab'
  end.
Definition prims_at (tab : list (ufn * list Q)) (i : nat) : prims Q := {|
  tr := fun g _ => match lookup g tab with Some v => nth i v 0 | None => 0 end;
  rt := fun _ => match lookup Usqrt tab with Some v => nth i v 0 | None => 0 end;
  afun := fun _ x => x; ader := fun _ _ d => d; adom := fun k => SV k; aran := fun k => SV k |}.
(* UApp g e with e <> UPoint is only supported for the rational ufuncs *)
Fixpoint uex_supported (e : uex) : bool :=
  match e with
  | UPoint | UK _ => true
  | UApp g UPoint => true
  | UApp g a => match g with Usquare | Ureciprocal | Unegative => uex_supported a | _ => false end
  | UAdd a b | USub a b | UMul a b | UDiv a b => uex_supported a && uex_supported b
  | UNeg a | UPow a _ => uex_supported a
  end.
Definition utol : Q := 1 # 1000000000.
Definition ucheck (k : ucase) : bool :=
  beq (ufunc_linear (u_f k)) (u_lin k) &&
  match (if u_grad k then ufunc_grad (u_f k) else ufunc_deriv (u_f k)), u_mult k with
  | Some e, Some m =>
      uex_supported e &&
      Qsclose utol utol m (map (fun ix => ueval (prims_at (u_prim k) (fst ix)) e (snd ix))
                               (combine (seq 0 (length (u_x k))) (u_x k)))
  | None, None => negb (ufunc_linear (u_f k)) || u_grad k
  | None, Some _ => ufunc_linear (u_f k) && negb (u_grad k)   (* linear: derivative is the operator itself *)
  | _, _ => false
  end.

(* ---- functionals: value, gradient element, derivative(x)(d), class of derivative(x) ---- *)
From Verif Require Import C06.FModel.
Record fcase := {
  f_e : fexpr (T:=Q); f_w : list Q;   (* weights of the functional's domain *)
  f_mav : bool;                       (* measured variant, see FModel *)
  f_x : list Q; f_d : list Q;
  f_val : Q;                 (* f(x) *)
  f_grad : list Q;           (* f.gradient(x) *)
  f_dd : Q;                  (* f.derivative(x)(d) *)
  f_inner : bool }.          (* f.derivative(x) is an InnerProductOperator with vector gradient(x) *)
Definition fcheck (k : fcase) : bool :=
  let e := f_e k in let x := f_x k in let w := f_w k in
  fwt e && Nat.eqb (length x) (fdim e) && Nat.eqb (length (f_d k)) (fdim e) && Nat.eqb (length w) (fdim e)
  && qc (f_val k) (feval Qsqrt w e x)
  && qsc (f_grad k) (fgrad Qsqrt (f_mav k) w e x)
  && qc (f_dd k) (wdot w (f_d k) (fgrad Qsqrt (f_mav k) w e x))
  && f_inner k.
