(* C06/LinMap.v -- on R^n, additivity + homogeneity already give "bounded":
   every such map is its own (Hadamard/Frechet) derivative at every point.
   So the premise on user-defined leaves can be stated with plain linearity. *)
From Coq Require Import Reals Lra Lia List Bool.
From Verif Require Import Base.Num Base.Vec Base.VecR C06.Calc C06.Lin.
Import ListNotations.
Local Open Scope R_scope.

Definition linmap (n m : nat) (L : Rvec -> Rvec) : Prop :=
  (forall d, length d = n -> length (L d) = m) /\
  (forall a b, length a = n -> length b = n -> L (vadd a b) = vadd (L a) (L b)) /\
  (forall c a, length a = n -> L (vscal c a) = vscal c (L a)).

Lemma blin_linmap n m L : blin n m L -> linmap n m L.
Proof. intros (H1 & H2 & H3 & _). repeat split; assumption. Qed.

(* (h :: v) = h * e_0 + (0 :: v) *)
Lemma cons_split (h : R) (v : Rvec) :
  h :: v = vadd (vscal h (1 :: vconst (length v) 0)) (0 :: v).
Proof.
  unfold vadd, vscal. cbn [map vmap2]. f_equal; [numR; ring|].
  induction v as [|a v IH]; [reflexivity|].
  cbn [length vconst repeat map vmap2]. unfold vconst in IH. rewrite <- IH. f_equal. numR; ring.
Qed.

Lemma linmap_hdiff n : forall m L, linmap n m L -> forall y, length y = n -> hdiff n m L y L.
Proof.
  induction n as [|n IH]; intros m L (Hl & Ha & Hs) y Hy g d (G0 & Gd & Gl & Gder).
  - (* R^0: everything is [] and L [] = 0 *)
    assert (Ez : forall v : Rvec, length v = 0%nat -> v = []) by (intros [|? ?] H; [reflexivity|discriminate H]).
    assert (E0 : L [] = vconst m 0).
    { pose proof (Hs 0 [] eq_refl) as H. cbn [vscal map] in H.
      apply nth_ext0; [rewrite (Hl [] eq_refl), vconst_len; reflexivity|].
      intros i Hi. rewrite nth_vconst0. rewrite H, nth_vscal. ring. }
    rewrite (Ez d Gd), (Ez y Hy).
    apply (curve_ext _ (fun _ => L [])); [intros t; rewrite (Ez (g t) (Gl t)); reflexivity|].
    rewrite E0. apply curve_const. apply vconst_len.
  - (* split off the first coordinate *)
    set (c := L (1 :: vconst n 0)).
    set (L' := fun v : Rvec => L (0 :: v)).
    assert (Hc : length c = m) by (apply Hl; cbn; rewrite vconst_len; reflexivity).
    assert (HL' : linmap n m L').
    { unfold L'. repeat split.
      - intros v Hv. apply Hl. cbn; lia.
      - intros a b Hal Hbl.
        replace (0 :: vadd a b) with (vadd (0 :: a) (0 :: b)) by (unfold vadd; cbn; f_equal; numR; ring).
        apply Ha; cbn; lia.
      - intros k a Hal.
        replace (0 :: vscal k a) with (vscal k (0 :: a)) by (unfold vscal; cbn; f_equal; numR; ring).
        apply Hs; cbn; lia. }
    assert (Hdec : forall h (v : Rvec), length v = n -> L (h :: v) = vadd (vscal h c) (L' v)).
    { intros h v Hv. rewrite (cons_split h v), Hv at 1.
      rewrite Ha; [|rewrite vscal_len; cbn; rewrite vconst_len; reflexivity|cbn; lia].
      rewrite Hs by (cbn; rewrite vconst_len; reflexivity). reflexivity. }
    assert (Hsplit : forall v : Rvec, length v = S n -> v = nth 0 v 0 :: tl v /\ length (tl v) = n).
    { intros [|a v] Hv; cbn in Hv; [discriminate|]. split; [reflexivity|cbn; lia]. }
    destruct (Hsplit d Gd) as [Ed Ed'].
    (* the tail curve *)
    assert (Hg' : curve n (fun t => tl (g t)) (tl y) (tl d)).
    { repeat split.
      - rewrite G0; reflexivity.
      - exact Ed'.
      - intros t. apply (Hsplit (g t) (Gl t)).
      - intros i Hi. apply (dpl_ext (fun t => nth (S i) (g t) 0)).
        + intros t. destruct (g t); [destruct i|]; reflexivity.
        + replace (nth i (tl d) 0) with (nth (S i) d 0) by (destruct d; [destruct i|]; reflexivity).
          apply Gder. lia. }
    pose proof (IH m L' HL' (tl y) (proj2 (Hsplit y Hy)) _ _ Hg') as Htail.
    (* the head curve  t |-> h(t) * c *)
    assert (Hhead : curve m (fun t => vscal (nth 0 (g t) 0) c) (vscal (nth 0 y 0) c) (vscal (nth 0 d 0) c)).
    { repeat split.
      - rewrite G0; reflexivity.
      - rewrite vscal_len; exact Hc.
      - intros t; rewrite vscal_len; exact Hc.
      - intros i Hi. rewrite nth_vscal.
        apply (dpl_ext (fun t => nth 0 (g t) 0 * nth i c 0)); [intros t; rewrite nth_vscal; reflexivity|].
        apply (dpl_eq _ _ (nth 0 d 0 * nth i c 0 + nth 0 (g 0) 0 * 0)); [ring|].
        apply (derivable_pt_lim_mult (fun t => nth 0 (g t) 0) (fun _ => nth i c 0));
          [apply Gder; lia|apply derivable_pt_lim_const]. }
    pose proof (curve_add _ _ _ _ _ _ _ Hhead Htail) as Hsum.
    destruct (Hsplit y Hy) as [Ey Ey'].
    rewrite Ey, Ed at 1. rewrite Ed at 2. rewrite !Hdec by assumption.
    eapply curve_ext; [|exact Hsum].
    intros t. cbn beta. destruct (Hsplit (g t) (Gl t)) as [Et Et'].
    rewrite Et at 3. rewrite Hdec by exact Et'. reflexivity.
Qed.

Theorem linmap_blin n m L : linmap n m L -> blin n m L.
Proof.
  intros H. pose proof H as (H1 & H2 & H3). split; [exact H1|split; [exact H2|split; [exact H3|]]].
  intros y Hy. apply linmap_hdiff; assumption.
Qed.
