(* C06/FInterp.v -- meaning of the REGENERATED gradient rules (Gen/Gradients.v) over the
   functional model; C06/FTie.v proves that [fgrad] of C06/FModel.v is this interpretation.
   Hand-written here: the meaning of the operator overloads on gradient operators
   (scalar * G, G * scalar, vector * G, G * vector, G + G, G * (I - t)) as maps, and the
   adjoint of the derivative of a MatrixOperator (variant [mav]). *)
From Coq Require Import ZArith QArith List Bool.
From Verif Require Import Base.Num Base.Vec C06.Syntax Gen.Gradients C06.FModel.
Import ListNotations.
Local Open Scope num_scope.

Section FInterp.
Context {T : Type} `{Num T}.
Variable rt : T -> T.
Variable mav : bool.
Notation fexprT := (@fexpr T).

Definition fclass_of (f : fexprT) : option fclass :=
  match f with
  | FLScal _ _ => Some FCLScal | FRScal _ _ => Some FCRScal | FCompM _ _ _ _ => Some FCComp
  | FRVec _ _ => Some FCRVec | FSum _ _ | FScalarSum _ _ => Some FCSum | FTransl _ _ => Some FCTransl
  | FQP _ _ _ _ => Some FCQP | FProd _ _ => Some FCProd | FQuot _ _ => Some FCQuot
  | _ => None
  end.
(* the fields of `self`; FunctionalScalarSum(f, c) IS FunctionalSum(f, ConstantFunctional(c)) *)
Definition fgsub (f : fexprT) (s : gsub) : fexprT :=
  match f, s with
  | FLScal g _, GFunctional | FRScal g _, GFunctional | FTransl g _, GFunctional | FQP g _ _ _, GFunctional => g
  | FRVec g _, GOperator => g
  | FSum g _, GLeft | FProd g _, GLeft | FScalarSum g _, GLeft | FCompM g _ _ _, GLeft => g
  | FSum _ h, GRight | FProd _ h, GRight => h
  | FScalarSum g c, GRight => FConst (fdim g) c
  | FQuot g _, GDividend => g
  | FQuot _ h, GDivisor => h
  | _, _ => f
  end.
Definition fgscalar (f : fexprT) : T := match f with FLScal _ s | FRScal _ s => s | _ => nzero end.
Definition fgvector (f : fexprT) : list T := match f with FRVec _ v => v | _ => [] end.

Definition kval (w : list T) (f : fexprT) (x : list T) (k : kex) : T :=
  match k with
  | KVal s => feval rt w (fgsub f s) x
  | KInvVal s => none_ / feval rt w (fgsub f s) x
  | KNegOverSq a b => - feval rt w (fgsub f a) x / (feval rt w (fgsub f b) x * feval rt w (fgsub f b) x)
  end.

(* G = the (recursive) gradient of sub-functionals *)
Fixpoint gval (G : list T -> fexprT -> list T -> list T) (w : list T) (f : fexprT) (r : gop) (x : list T) : list T :=
  match r with
  | GGrad s => G w (fgsub f s) x
  | GScalL e => vscal (fgscalar f) (gval G w f e x)           (* (s * E)(x) = s * E(x) *)
  | GScalR e => gval G w f e (vscal (fgscalar f) x)           (* (E * s)(x) = E(s * x) *)
  | GVecL e => vmul (fgvector f) (gval G w f e x)             (* (v * E)(x) = v * E(x) *)
  | GVecR e => gval G w f e (vmul x (fgvector f))             (* (E * v)(x) = E(x * v) *)
  | GAdd a b => vadd (gval G w f a x) (gval G w f b x)
  | GShift e => match f with FTransl _ t => gval G w f e (vsub x t) | _ => [] end   (* E o (I - t) *)
  | GTwoQuadId => match f with FQP _ a _ _ => vscal (of_Z 2 * a) x | _ => [] end
  | GConstLinTerm => match f with FQP _ _ u _ => u | _ => [] end
  | GKMul k e => vscal (kval w f x k) (gval G w f e x)
  | GAdjDeriv _ _ =>
      (* op = MatrixOperator(rows): op.derivative(x) = op; its adjoint: transpose, or W^-1 M^T W' *)
      match f with
      | FCompM g w' n rows =>
          let gr := G w' g (mvec rows x) in
          if mav then vdiv (mtvec n rows (vmul w' gr)) w else mtvec n rows gr
      | _ => []
      end
  end.
End FInterp.
