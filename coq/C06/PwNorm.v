(* C06/PwNorm.v -- closed forms: PointwiseInner is a bounded linear map and is the
   derivative of PointwiseNorm (exponents 1 and 2, any weights, any number of
   components) away from the zeros of the point-wise norm. *)
From Coq Require Import Reals Lra Lia List Bool ZArith.
From Verif Require Import Base.Num Base.Vec Base.VecR C06.Syntax Gen.UfuncDeriv C06.Model C06.Calc C06.Lin C06.Leaves C06.Blocks.
Import ListNotations.
Local Open Scope R_scope.

Lemma list_sum_repeat n k : list_sum (repeat n k) = (k * n)%nat.
Proof. induction k as [|k IH]; [reflexivity|]. cbn [repeat]. change (list_sum (n :: repeat n k)) with (n + list_sum (repeat n k))%nat. rewrite IH. lia. Qed.

Lemma firstn_len_le' (y : Rvec) k : (k <= length y)%nat -> length (firstn k y) = k.
Proof. intros H. rewrite firstn_length. lia. Qed.

Lemma nth_vmap2n (f : R -> R -> R) (a b : Rvec) i n :
  length a = n -> length b = n -> (i < n)%nat -> nth i (vmap2 f a b) 0 = f (nth i a 0) (nth i b 0).
Proof. intros Ha Hb Hi. apply nth_vmap2; lia. Qed.

(* ---------- pwsum: lengths, curves ---------- *)
Section PwSum.
Variable g : Rvec -> Rvec -> Rvec.
Variable n : nat.
Hypothesis g_len : forall a b, length a = n -> length b = n -> length (g a b) = n.

Lemma pwsum_len w : forall f h, length f = (length w * n)%nat -> length h = (length w * n)%nat ->
  length (pwsum g n w f h) = n.
Proof.
  induction w as [|wi w IH]; intros f h Hf Hh; cbn [pwsum]; [apply vconst_len|].
  cbn [length] in Hf, Hh. unfold vadd. apply vmap2_len.
  - rewrite vscal_len. apply g_len; apply firstn_len_le'; lia.
  - apply IH; rewrite skipn_length; lia.
Qed.

(* if every block map (a, b) |-> g a b sends a pair of curves to a curve with velocity G ... *)
Variable G : Rvec -> Rvec -> Rvec -> Rvec -> Rvec.   (* G a b da db *)
Hypothesis g_curve : forall ca cb a b da db,
  curve n ca a da -> curve n cb b db -> curve n (fun t => g (ca t) (cb t)) (g a b) (G a b da db).

Fixpoint pwsumD (w : list R) (f h df dh : Rvec) : Rvec :=
  match w with
  | [] => vconst n 0
  | wi :: w' => vadd (vscal wi (G (firstn n f) (firstn n h) (firstn n df) (firstn n dh)))
                     (pwsumD w' (skipn n f) (skipn n h) (skipn n df) (skipn n dh))
  end.

Lemma pwsum_curve w : forall cf ch f h df dh,
  curve (length w * n) cf f df -> curve (length w * n) ch h dh ->
  curve n (fun t => pwsum g n w (cf t) (ch t)) (pwsum g n w f h) (pwsumD w f h df dh).
Proof.
  induction w as [|wi w IH]; intros cf ch f h df dh Hf Hh; cbn [pwsum pwsumD].
  - apply curve_const. apply vconst_len.
  - cbn [length] in Hf, Hh.
    apply curve_add.
    + apply curve_scal. apply g_curve; apply (curve_firstn (S (length w) * n)); try assumption; lia.
    + apply IH.
      * replace (length w * n)%nat with (S (length w) * n - n)%nat by lia.
        apply (curve_skipn (S (length w) * n)); [lia|exact Hf].
      * replace (length w * n)%nat with (S (length w) * n - n)%nat by lia.
        apply (curve_skipn (S (length w) * n)); [lia|exact Hh].
Qed.
End PwSum.

(* ---------- PointwiseInner ---------- *)
Lemma pwinner_blin n w : forall vf, length vf = (length w * n)%nat ->
  blin (length w * n) n (pwinner n w vf).
Proof.
  unfold pwinner. induction w as [|wi w IH]; intros vf Hvf; cbn [pwsum length].
  - apply (blin_zero 0 n).
  - cbn [length] in Hvf.
    apply (blin_ext _ _ (fun d => vadd ((fun d => vscal wi (vmul (firstn n vf) (firstn n d))) d)
                                       ((fun d => pwsum vmul n w (skipn n vf) (skipn n d)) d)));
      [intros d; reflexivity|].
    replace (S (length w) * n)%nat with (n + length w * n)%nat by lia.
    apply blin_add.
    + apply (blin_comp _ n _ (fun y => vscal wi (vmul (firstn n vf) y)) (firstn n)); [apply blin_firstn_add|].
      apply (blin_comp _ n _ (vscal wi) (fun y => vmul (firstn n vf) y)); [|apply blin_scale].
      apply (blin_ext _ _ (fun y => vmul y (firstn n vf))); [intros y; apply vmul_comm|].
      apply blin_mulv. apply firstn_len_le'. lia.
    + apply (blin_comp _ (length w * n) _ (fun y => pwsum vmul n w (skipn n vf) y) (skipn n));
        [apply blin_skipn_add|].
      apply IH. rewrite skipn_length. lia.
Qed.

Lemma pwdiv_len n k : forall f N : Rvec, length f = (k * n)%nat -> length N = n ->
  length (pwdiv n k f N) = (k * n)%nat.
Proof.
  induction k as [|k IH]; intros f N Hf HN; cbn [pwdiv]; [reflexivity|].
  rewrite app_length, IH; [|rewrite skipn_length; lia|exact HN].
  rewrite (vmap2_len _ _ _ n); [lia|apply firstn_len_le'; lia|exact HN].
Qed.

(* ---------- PointwiseNorm, exponent 1 ---------- *)
Definition sgnR (a : R) : R := @nsign R _ a.
Lemma dpl_abs a : a <> 0 -> derivable_pt_lim Rabs a (sgnR a).
Proof.
  intros Ha. unfold sgnR, nsign. numR.
  destruct (Rltb_spec 0 a) as [Hp|Hp]; [apply Rabs_derive_1; exact Hp|].
  destruct (Rltb_spec a 0) as [Hn|Hn]; [apply Rabs_derive_2; exact Hn|]. lra.
Qed.

Lemma pwnorm1_curve n w : forall c x d,
  curve (length w * n) c x d -> (forall i, (i < length x)%nat -> nth i x 0 <> 0) ->
  curve n (fun t => pwnorm1 n w (c t)) (pwnorm1 n w x) (pwinner n w (map sgnR x) d).
Proof.
  unfold pwnorm1, pwinner. induction w as [|wi w IH]; intros c x d Hc Hnz; cbn [pwsum].
  - apply curve_const. apply vconst_len.
  - cbn [length] in Hc. pose proof (curve_len_x _ _ _ _ Hc) as Hx.
    apply curve_add.
    + apply curve_scal.
      rewrite firstn_map, vmul_comm.
      apply (curve_map n Rabs sgnR); [apply (curve_firstn (S (length w) * n)); [lia|exact Hc]|].
      intros i Hi. apply dpl_abs. rewrite nth_firstn0 by exact Hi. apply Hnz. lia.
    + rewrite skipn_map. apply IH.
      * replace (length w * n)%nat with (S (length w) * n - n)%nat by lia.
        apply (curve_skipn (S (length w) * n)); [lia|exact Hc].
      * intros i Hi. rewrite nth_skipn0. apply Hnz. rewrite skipn_length in Hi. lia.
Qed.

(* ---------- PointwiseNorm, exponent 2 ---------- *)
(* velocity of  x |-> sum_i w_i x_i^2  along a curve *)
Definition sqG (a b da db : Rvec) : Rvec := vadd (vmul da b) (vmul db a).
Lemma pwnormsq_curve n w c x d :
  curve (length w * n) c x d ->
  curve n (fun t => pwnormsq n w (c t)) (pwnormsq n w x) (pwsumD n sqG w x x d d).
Proof.
  intros Hc. unfold pwnormsq.
  apply (pwsum_curve vmul n sqG); [|exact Hc|exact Hc].
  intros ca cb a b da db Ha Hb. unfold sqG. apply curve_mul; assumption.
Qed.

(* the algebra: (sum_i w_i 2 x_i d_i) / (2 N) = sum_i w_i (x_i / N) d_i *)
Lemma pwnorm2_algebra n (N cinv : Rvec) :
  length N = n -> length cinv = n ->
  (forall j, (j < n)%nat -> nth j N 0 <> 0 /\ nth j cinv 0 = / (2 * nth j N 0)) ->
  forall w x d, length x = (length w * n)%nat -> length d = (length w * n)%nat ->
  vmul (pwsumD n sqG w x x d d) cinv = pwinner n w (pwdiv n (length w) x N) d.
Proof.
  intros HN Hc Hj. unfold pwinner.
  induction w as [|wi w IH]; intros x d Hx Hd; cbn [pwsumD pwsum pwdiv length].
  - apply nth_ext0.
    + unfold vmul. rewrite (vmap2_len _ _ _ n); [rewrite vconst_len; reflexivity|apply vconst_len|exact Hc].
    + intros i Hi. unfold vmul in *. rewrite (vmap2_len _ _ _ n) in Hi; [|apply vconst_len|exact Hc].
      rewrite nth_vmap2; [|rewrite vconst_len; exact Hi|rewrite vconst_len; congruence].
      rewrite !nth_vconst0. numR. ring.
  - cbn [length] in Hx, Hd.
    assert (Hx1 : length (firstn n x) = n) by (apply firstn_len_le'; lia).
    assert (Hd1 : length (firstn n d) = n) by (apply firstn_len_le'; lia).
    assert (HA : length (vmap2 divnz (firstn n x) N) = n) by (apply vmap2_len; assumption).
    rewrite vmul_vadd_l, vmul_vscal_l.
    rewrite (firstn_app n), HA, Nat.sub_diag, firstn_O, app_nil_r.
    rewrite (@firstn_all2 R n (vmap2 divnz (firstn n x) N)) by lia.
    rewrite (skipn_app n), HA, Nat.sub_diag, skipn_O.
    rewrite (@skipn_all2 R n (vmap2 divnz (firstn n x) N)) by lia. cbn [app].
    f_equal.
    + f_equal. unfold sqG.
      set (dx := vmul (firstn n d) (firstn n x)).
      assert (L1 : length dx = n) by (unfold dx, vmul; apply vmap2_len; assumption).
      assert (L2 : length (vadd dx dx) = n) by (unfold vadd; apply vmap2_len; assumption).
      assert (L3 : length (vmul (vadd dx dx) cinv) = n) by (unfold vmul; apply vmap2_len; assumption).
      assert (L4 : length (vmul (vmap2 divnz (firstn n x) N) (firstn n d)) = n)
        by (unfold vmul; apply vmap2_len; assumption).
      apply nth_ext0; [congruence|]. intros i Hi. rewrite L3 in Hi.
      destruct (Hj i Hi) as [Hnz Hci].
      unfold vmul at 1. rewrite (nth_vmap2n _ _ _ i n L2 Hc Hi).
      unfold vadd. rewrite (nth_vmap2n _ _ _ i n L1 L1 Hi).
      unfold dx, vmul. rewrite (nth_vmap2n _ _ _ i n Hd1 Hx1 Hi).
      rewrite (nth_vmap2n _ _ _ i n HA Hd1 Hi), (nth_vmap2n _ _ _ i n Hx1 HN Hi).
      rewrite Hci. unfold divnz. numR.
      destruct (Reqb_spec (nth i N 0) 0) as [E|_]; [contradiction|]. field. exact Hnz.
    + apply IH; rewrite skipn_length; lia.
Qed.

Section PwNorm2.
Variable af : nat -> Rvec -> Rvec.
Variable ad : nat -> Rvec -> Rvec -> Rvec.
Variable adm arn : nat -> space.
Notation P := (PR af ad adm arn).

Lemma pwnorm2_curve n w c x d :
  curve (length w * n) c x d ->
  (forall j, (j < n)%nat -> 0 < nth j (pwnormsq n w x) 0) ->
  curve n (fun t => pwnorm2 P n w (c t)) (pwnorm2 P n w x)
          (pwinner n w (pwdiv n (length w) x (pwnorm2 P n w x)) d).
Proof.
  intros Hc Hpos. pose proof (curve_len_x _ _ _ _ Hc) as Hx.
  pose proof Hc as (_ & Hd & _ & _).
  pose proof (pwnormsq_curve n w c x d Hc) as HQ.
  pose proof (curve_len_x _ _ _ _ HQ) as HQl.
  unfold pwnorm2. cbn [PR rt].
  set (Q := pwnormsq n w x) in *.
  pose proof (curve_map n sqrt (fun q => / (2 * sqrt q)) _ _ _ HQ) as Hm.
  rewrite <- (pwnorm2_algebra n (map sqrt Q) (map (fun q => / (2 * sqrt q)) Q)); auto.
  - apply Hm. intros i Hi. apply derivable_pt_lim_sqrt. apply Hpos. exact Hi.
  - rewrite map_length; exact HQl.
  - rewrite map_length; exact HQl.
  - intros j Hjn. rewrite !nth_map0 by lia. split; [|reflexivity].
    intros Hs. apply sqrt_eq_0 in Hs; [|left; apply Hpos; exact Hjn]. specialize (Hpos j Hjn). lra.
Qed.
End PwNorm2.
