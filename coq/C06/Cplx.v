(* C06/Cplx.v -- RealPart / ImagPart / ComplexModulus(Squared) on cn(n) modelled as
   re ++ im (and on real spaces, where x.real = x and x.imag = 0): linearity and
   closed-form derivatives. *)
From Coq Require Import Reals Lra Lia List Bool ZArith.
From Verif Require Import Base.Num Base.Vec Base.VecR C06.Syntax Gen.UfuncDeriv C06.Model C06.Calc C06.Lin C06.Leaves C06.Blocks.
Import ListNotations.
Local Open Scope R_scope.

Notation rdim s := (sdim (real_space s)).

Lemma nth_vm (f : R -> R -> R) (a b : Rvec) i n :
  length a = n -> length b = n -> (i < n)%nat -> nth i (vmap2 f a b) 0 = f (nth i a 0) (nth i b 0).
Proof. intros Ha Hb Hi. apply nth_vmap2; lia. Qed.

Lemma nth_vadd (a b : Rvec) i n :
  length a = n -> length b = n -> (i < n)%nat -> nth i (vadd a b) 0 = nth i a 0 + nth i b 0.
Proof. intros; unfold vadd; rewrite (nth_vm _ _ _ i n); auto. Qed.
Lemma nth_vmul (a b : Rvec) i n :
  length a = n -> length b = n -> (i < n)%nat -> nth i (vmul a b) 0 = nth i a 0 * nth i b 0.
Proof. intros; unfold vmul; rewrite (nth_vm _ _ _ i n); auto. Qed.
Lemma nth_vdiv (a b : Rvec) i n :
  length a = n -> length b = n -> (i < n)%nat -> nth i (vdiv a b) 0 = nth i a 0 / nth i b 0.
Proof. intros; unfold vdiv; rewrite (nth_vm _ _ _ i n); auto. Qed.

(* ---------- Re and Im ---------- *)
Lemma re_blin s : is_field s = false -> blin (sdim s) (rdim s) (re_of s).
Proof.
  intros Hf. destruct s as [|n|ns|n]; cbn [re_of real_space sdim]; try discriminate Hf;
    try (apply blin_id). apply blin_firstn_add.
Qed.
Lemma im_blin s : is_field s = false -> blin (sdim s) (rdim s) (im_of s).
Proof.
  intros Hf. destruct s as [|n|ns|n]; cbn [im_of real_space sdim]; try discriminate Hf;
    try (apply blin_zero). apply blin_skipn_add.
Qed.

Lemma re_curve s g x d : is_field s = false -> curve (sdim s) g x d ->
  curve (rdim s) (fun t => re_of s (g t)) (re_of s x) (re_of s d).
Proof. intros Hf Hc. apply (blin_hdiff _ _ _ _ (re_blin s Hf) (curve_len_x _ _ _ _ Hc)). exact Hc. Qed.
Lemma im_curve s g x d : is_field s = false -> curve (sdim s) g x d ->
  curve (rdim s) (fun t => im_of s (g t)) (im_of s x) (im_of s d).
Proof. intros Hf Hc. apply (blin_hdiff _ _ _ _ (im_blin s Hf) (curve_len_x _ _ _ _ Hc)). exact Hc. Qed.

Lemma re_len s (x : Rvec) : is_field s = false -> length x = sdim s -> length (re_of s x) = rdim s.
Proof. intros Hf Hx. apply (blin_len _ _ _ _ (re_blin s Hf) Hx). Qed.
Lemma im_len s (x : Rvec) : is_field s = false -> length x = sdim s -> length (im_of s x) = rdim s.
Proof. intros Hf Hx. apply (blin_len _ _ _ _ (im_blin s Hf) Hx). Qed.

(* ---------- x.real * y.real + x.imag * y.imag ---------- *)
Lemma redot_len s (x y : Rvec) : is_field s = false -> length x = sdim s -> length y = sdim s ->
  length (redot s x y) = rdim s.
Proof.
  intros Hf Hx Hy. unfold redot, vadd, vmul.
  repeat apply vmap2_len; auto using re_len, im_len.
Qed.
Lemma cmod2_len s (x : Rvec) : is_field s = false -> length x = sdim s -> length (cmod2 s x) = rdim s.
Proof. intros Hf Hx. apply (redot_len s x x Hf Hx Hx). Qed.

Lemma redot_blin s x0 : is_field s = false -> length x0 = sdim s ->
  blin (sdim s) (rdim s) (redot s x0).
Proof.
  intros Hf Hx. unfold redot.
  apply (blin_add _ _ (fun d => vmul (re_of s x0) (re_of s d)) (fun d => vmul (im_of s x0) (im_of s d))).
  - apply (blin_comp _ (rdim s) _ (fun y => vmul (re_of s x0) y) (re_of s)); [apply re_blin; exact Hf|].
    apply (blin_ext _ _ (fun y => vmul y (re_of s x0))); [intros y; apply vmul_comm|].
    apply blin_mulv. apply re_len; assumption.
  - apply (blin_comp _ (rdim s) _ (fun y => vmul (im_of s x0) y) (im_of s)); [apply im_blin; exact Hf|].
    apply (blin_ext _ _ (fun y => vmul y (im_of s x0))); [intros y; apply vmul_comm|].
    apply blin_mulv. apply im_len; assumption.
Qed.

Lemma vdiv_vmul_inv (y N : Rvec) : vdiv y N = vmul y (map Rinv N).
Proof.
  revert N; induction y as [|a y IH]; intros [|b N]; cbn [map]; try reflexivity.
  unfold vdiv, vmul in *. cbn [vmap2]. rewrite IH. reflexivity.
Qed.

(* the two derivative objects are bounded linear maps *)
Lemma cmodD_sq_blin s x0 : is_field s = false -> length x0 = sdim s ->
  blin (sdim s) (rdim s) (fun d => vscal 2 (redot s x0 d)).
Proof.
  intros Hf Hx. apply (blin_comp _ (rdim s) _ (vscal 2) (redot s x0)); [apply redot_blin; assumption|apply blin_scale].
Qed.
Lemma cmodD_blin s x0 (N : Rvec) : is_field s = false -> length x0 = sdim s -> length N = rdim s ->
  blin (sdim s) (rdim s) (fun d => vdiv (redot s x0 d) N).
Proof.
  intros Hf Hx HN.
  apply (blin_ext _ _ (fun d => (fun y => vmul y (map Rinv N)) (redot s x0 d))).
  { intros d. symmetry. apply vdiv_vmul_inv. }
  apply (blin_comp _ (rdim s) _ (fun y => vmul y (map Rinv N)) (redot s x0)); [apply redot_blin; assumption|].
  apply blin_mulv. rewrite map_length. exact HN.
Qed.

(* ---------- |z|^2 along a curve ---------- *)
Lemma cmod2_curve s g x d : is_field s = false -> curve (sdim s) g x d ->
  curve (rdim s) (fun t => cmod2 s (g t)) (cmod2 s x) (vscal 2 (redot s x d)).
Proof.
  intros Hf Hc.
  pose proof (re_curve s g x d Hf Hc) as Hr. pose proof (im_curve s g x d Hf Hc) as Hi.
  pose proof (curve_add _ _ _ _ _ _ _ (curve_mul _ _ _ _ _ _ _ Hr Hr) (curve_mul _ _ _ _ _ _ _ Hi Hi)) as H.
  unfold cmod2. eapply curve_eq; [reflexivity| |exact H].
  pose proof Hc as (_ & Hd & _ & _). pose proof (curve_len_x _ _ _ _ Hc) as Hx.
  set (m := rdim s).
  assert (L1 : length (re_of s x) = m) by (apply re_len; assumption).
  assert (L2 : length (im_of s x) = m) by (apply im_len; assumption).
  assert (L3 : length (re_of s d) = m) by (apply re_len; assumption).
  assert (L4 : length (im_of s d) = m) by (apply im_len; assumption).
  assert (M1 : length (vmul (re_of s d) (re_of s x)) = m) by (unfold vmul; apply vmap2_len; assumption).
  assert (M2 : length (vmul (im_of s d) (im_of s x)) = m) by (unfold vmul; apply vmap2_len; assumption).
  assert (M3 : length (vmul (re_of s x) (re_of s d)) = m) by (unfold vmul; apply vmap2_len; assumption).
  assert (M4 : length (vmul (im_of s x) (im_of s d)) = m) by (unfold vmul; apply vmap2_len; assumption).
  assert (A1 : length (vadd (vmul (re_of s d) (re_of s x)) (vmul (re_of s d) (re_of s x))) = m)
    by (unfold vadd; apply vmap2_len; assumption).
  assert (A2 : length (vadd (vmul (im_of s d) (im_of s x)) (vmul (im_of s d) (im_of s x))) = m)
    by (unfold vadd; apply vmap2_len; assumption).
  assert (A3 : length (redot s x d) = m) by (apply redot_len; assumption).
  assert (A4 : length (vadd (vadd (vmul (re_of s d) (re_of s x)) (vmul (re_of s d) (re_of s x)))
                            (vadd (vmul (im_of s d) (im_of s x)) (vmul (im_of s d) (im_of s x)))) = m)
    by (unfold vadd at 1; apply vmap2_len; assumption).
  apply nth_ext0.
  - rewrite A4, vscal_len, A3. reflexivity.
  - intros i Hi'. rewrite A4 in Hi'.
    rewrite nth_vscal. unfold redot.
    rewrite (nth_vadd _ _ i m A1 A2 Hi'), (nth_vadd _ _ i m M1 M1 Hi'), (nth_vadd _ _ i m M2 M2 Hi').
    rewrite (nth_vadd _ _ i m M3 M4 Hi').
    rewrite (nth_vmul _ _ i m L3 L1 Hi'), (nth_vmul _ _ i m L4 L2 Hi'),
      (nth_vmul _ _ i m L1 L3 Hi'), (nth_vmul _ _ i m L2 L4 Hi'). ring.
Qed.

(* ---------- |z| along a curve, where |z| > 0 ---------- *)
Lemma cmod_curve s g x d : is_field s = false -> curve (sdim s) g x d ->
  (forall j, (j < rdim s)%nat -> 0 < nth j (cmod2 s x) 0) ->
  curve (rdim s) (fun t => map sqrt (cmod2 s (g t))) (map sqrt (cmod2 s x))
        (vdiv (redot s x d) (map sqrt (cmod2 s x))).
Proof.
  intros Hf Hc Hpos.
  pose proof (cmod2_curve s g x d Hf Hc) as HQ.
  pose proof (curve_map _ sqrt (fun q => / (2 * sqrt q)) _ _ _ HQ) as Hm.
  pose proof Hc as (_ & Hd & _ & _). pose proof (curve_len_x _ _ _ _ Hc) as Hx.
  set (m := rdim s) in *.
  assert (Q1 : length (cmod2 s x) = m) by (apply cmod2_len; assumption).
  assert (A3 : length (redot s x d) = m) by (apply redot_len; assumption).
  eapply curve_eq; [reflexivity| |apply Hm].
  - assert (B1 : length (vscal 2 (redot s x d)) = m) by (rewrite vscal_len; exact A3).
    assert (B2 : length (map (fun q => / (2 * sqrt q)) (cmod2 s x)) = m) by (rewrite map_length; exact Q1).
    assert (B3 : length (map sqrt (cmod2 s x)) = m) by (rewrite map_length; exact Q1).
    assert (B4 : length (vmul (vscal 2 (redot s x d)) (map (fun q => / (2 * sqrt q)) (cmod2 s x))) = m)
      by (unfold vmul; apply vmap2_len; assumption).
    assert (B5 : length (vdiv (redot s x d) (map sqrt (cmod2 s x))) = m)
      by (unfold vdiv; apply vmap2_len; assumption).
    apply nth_ext0; [congruence|].
    intros i Hi. rewrite B4 in Hi.
    rewrite (nth_vmul _ _ i m B1 B2 Hi), (nth_vdiv _ _ i m A3 B3 Hi).
    rewrite nth_vscal, !nth_map0 by lia. field.
    intros Hs. apply sqrt_eq_0 in Hs; [|left; apply Hpos; exact Hi]. specialize (Hpos i Hi). lra.
  - intros i Hi. apply derivable_pt_lim_sqrt. apply Hpos. exact Hi.
Qed.
