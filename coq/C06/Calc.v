(* C06/Calc.v -- differentiability of maps  list R -> list R  with the standard
   library only.

   [curve n g x d]   : g is a curve in R^n through x at t = 0, differentiable at 0
                       with velocity d (entry-wise [derivable_pt_lim]).
   [hdiff n m F x L] : F maps every such curve through x to a curve through F x
                       with velocity L d  (Hadamard differentiability; in finite
                       dimension this is Frechet differentiability, and it is the
                       form in which the chain rule is a one-liner).
   The straight line t |-> x + t d is a curve, so hdiff gives the directional
   limit and the central-difference limit of the property statement
   ([hdiff_central_difference] below). *)
From Coq Require Import Reals Lra Lia List Bool.
From Verif Require Import Base.Num Base.Vec.
Import ListNotations.
Local Open Scope R_scope.

Notation Rvec := (list R).

(* ---------- lists ---------- *)
Lemma vmap2_len (f : R -> R -> R) (a b : Rvec) n :
  length a = n -> length b = n -> length (vmap2 f a b) = n.
Proof.
  revert a b; induction n as [|n IH]; intros [|u a] [|v b] Ha Hb; cbn in *; try congruence; try lia.
  f_equal; apply IH; lia.
Qed.
Lemma nth_vmap2 (f : R -> R -> R) (a b : Rvec) i :
  (i < length a)%nat -> length a = length b ->
  nth i (vmap2 f a b) 0 = f (nth i a 0) (nth i b 0).
Proof.
  revert a b; induction i as [|i IH]; intros [|u a] [|v b] Hi Hl; cbn in *; try lia; try reflexivity.
  apply IH; lia.
Qed.
Lemma vscal_len c (a : Rvec) : length (vscal c a) = length a.
Proof. apply map_length. Qed.
Lemma nth_vscal c (a : Rvec) i : nth i (vscal c a) 0 = c * nth i a 0.
Proof.
  unfold vscal. replace 0 with (@nmul R _ c 0) at 1 by (numR; lra).
  rewrite map_nth. reflexivity.
Qed.
Lemma nth_map0 (f : R -> R) (a : Rvec) i : (i < length a)%nat -> nth i (map f a) 0 = f (nth i a 0).
Proof. intros Hi. rewrite (nth_indep _ 0 (f 0)) by (rewrite map_length; exact Hi). apply map_nth. Qed.
Lemma nth_ext0 (a b : Rvec) : length a = length b ->
  (forall i, (i < length a)%nat -> nth i a 0 = nth i b 0) -> a = b.
Proof. intros Hl Hn. apply (nth_ext a b 0 0 Hl Hn). Qed.
Lemma vconst_len n (c : R) : length (vconst n c) = n.
Proof. apply repeat_length. Qed.
Lemma nth_vconst n (c : R) i : (i < n)%nat -> nth i (vconst n c) 0 = c.
Proof.
  intros Hi. unfold vconst. rewrite (nth_indep _ 0 c) by (rewrite repeat_length; exact Hi).
  apply nth_repeat.
Qed.
Lemma nth_vconst0 n i : nth i (vconst n 0) 0 = 0.
Proof.
  unfold vconst. destruct (Nat.lt_ge_cases i n) as [Hi|Hi].
  - apply nth_repeat.
  - apply nth_overflow. rewrite repeat_length. exact Hi.
Qed.

Lemma vmul_comm (a b : Rvec) : vmul a b = vmul b a.
Proof.
  revert b; induction a as [|u a IH]; intros [|v b]; cbn; try reflexivity.
  unfold vmul in *; cbn. rewrite IH. f_equal. numR; lra.
Qed.
Lemma vscal_vscal c c' (a : Rvec) : vscal c (vscal c' a) = vscal (c * c') a.
Proof. unfold vscal. rewrite map_map. apply map_ext. intros u. numR. ring. Qed.

Lemma dot_cons' u v (a b : Rvec) : dot (u :: a) (v :: b) = u * v + dot a b.
Proof. reflexivity. Qed.
Lemma dot_nil_r (a : Rvec) : dot a [] = 0.
Proof. destruct a; reflexivity. Qed.

(* ---------- one-variable helpers ---------- *)
Lemma dpl_ext (f g : R -> R) x l :
  (forall t, f t = g t) -> derivable_pt_lim f x l -> derivable_pt_lim g x l.
Proof.
  intros He Hf eps Heps. destruct (Hf eps Heps) as [dl Hd]. exists dl.
  intros h Hh Hlt. rewrite <- !He. apply Hd; assumption.
Qed.
Lemma dpl_eq (f : R -> R) x l l' : l = l' -> derivable_pt_lim f x l -> derivable_pt_lim f x l'.
Proof. intros -> Hq; exact Hq. Qed.

(* ---------- curves ---------- *)
Definition curve (n : nat) (g : R -> Rvec) (x d : Rvec) : Prop :=
  g 0 = x /\ length d = n /\ (forall t, length (g t) = n) /\
  forall i, (i < n)%nat -> derivable_pt_lim (fun t => nth i (g t) 0) 0 (nth i d 0).

Definition hdiff (n m : nat) (F : Rvec -> Rvec) (x : Rvec) (L : Rvec -> Rvec) : Prop :=
  forall g d, curve n g x d -> curve m (fun t => F (g t)) (F x) (L d).

Lemma curve_len_x n g x d : curve n g x d -> length x = n.
Proof. intros (H0 & _ & Hl & _). rewrite <- H0. apply Hl. Qed.

Lemma curve_ext n g g' x d : (forall t, g t = g' t) -> curve n g x d -> curve n g' x d.
Proof.
  intros He (H0 & Hd & Hl & Hder). repeat split.
  - rewrite <- He; exact H0.
  - exact Hd.
  - intros t; rewrite <- He; apply Hl.
  - intros i Hi. eapply dpl_ext; [|apply Hder; exact Hi]. intros t; cbn; rewrite He; reflexivity.
Qed.
Lemma curve_eq n g x x' d d' : x = x' -> d = d' -> curve n g x d -> curve n g x' d'.
Proof. intros -> -> Hq; exact Hq. Qed.

Lemma curve_const n (v : Rvec) : length v = n -> curve n (fun _ => v) v (vconst n 0).
Proof.
  intros Hv. repeat split; auto using vconst_len.
  intros i Hi. rewrite nth_vconst0. apply derivable_pt_lim_const.
Qed.

(* the straight line through x with direction d *)
Definition line (x d : Rvec) (t : R) : Rvec := vadd x (vscal t d).
Lemma curve_line n x d : length x = n -> length d = n -> curve n (line x d) x d.
Proof.
  intros Hx Hd. unfold line. repeat split.
  - apply nth_ext0.
    + unfold vadd; rewrite (vmap2_len _ x (vscal 0 d) n); auto. rewrite vscal_len; auto.
    + intros i Hi. unfold vadd in *. rewrite (vmap2_len _ x (vscal 0 d) n) in Hi; auto; [|rewrite vscal_len; auto].
      rewrite nth_vmap2; [|lia|rewrite vscal_len; lia]. rewrite nth_vscal. numR. lra.
  - exact Hd.
  - intros t. unfold vadd. apply vmap2_len; auto. rewrite vscal_len; auto.
  - intros i Hi.
    apply (dpl_ext (fun t => nth i x 0 + t * nth i d 0)).
    + intros t. unfold vadd. rewrite nth_vmap2; [|lia|rewrite vscal_len; lia]. rewrite nth_vscal. reflexivity.
    + apply (dpl_eq _ _ (0 + (1 * nth i d 0 + 0 * 0))); [ring|].
      apply derivable_pt_lim_plus; [apply derivable_pt_lim_const|].
      apply (derivable_pt_lim_mult (fun t => t) (fun _ => nth i d 0));
        [apply derivable_pt_lim_id|apply derivable_pt_lim_const].
Qed.

Lemma curve_add n g1 g2 x1 x2 d1 d2 :
  curve n g1 x1 d1 -> curve n g2 x2 d2 ->
  curve n (fun t => vadd (g1 t) (g2 t)) (vadd x1 x2) (vadd d1 d2).
Proof.
  intros (A0 & Ad & Al & Ader) (B0 & Bd & Bl & Bder). unfold vadd. repeat split.
  - rewrite A0, B0; reflexivity.
  - apply vmap2_len; assumption.
  - intros t; apply vmap2_len; auto.
  - intros i Hi. rewrite nth_vmap2 by lia.
    apply (dpl_ext (fun t => nth i (g1 t) 0 + nth i (g2 t) 0)).
    + intros t. rewrite nth_vmap2; [reflexivity|rewrite Al; exact Hi|rewrite Al, Bl; reflexivity].
    + apply derivable_pt_lim_plus; [apply Ader|apply Bder]; exact Hi.
Qed.

Lemma curve_add_const n g x d v :
  curve n g x d -> length v = n -> curve n (fun t => vadd (g t) v) (vadd x v) d.
Proof.
  intros (A0 & Ad & Al & Ader) Hv. unfold vadd. repeat split.
  - rewrite A0; reflexivity.
  - exact Ad.
  - intros t; apply vmap2_len; auto.
  - intros i Hi.
    apply (dpl_ext (fun t => nth i (g t) 0 + nth i v 0)).
    + intros t. rewrite nth_vmap2; [reflexivity|rewrite Al; exact Hi|rewrite Al, Hv; reflexivity].
    + apply (dpl_eq _ _ (nth i d 0 + 0)); [ring|].
      apply derivable_pt_lim_plus; [apply Ader; exact Hi|apply derivable_pt_lim_const].
Qed.

Lemma curve_scal n c g x d :
  curve n g x d -> curve n (fun t => vscal c (g t)) (vscal c x) (vscal c d).
Proof.
  intros (A0 & Ad & Al & Ader). repeat split.
  - rewrite A0; reflexivity.
  - rewrite vscal_len; exact Ad.
  - intros t; rewrite vscal_len; apply Al.
  - intros i Hi. rewrite nth_vscal.
    apply (dpl_ext (fun t => c * nth i (g t) 0)).
    + intros t; rewrite nth_vscal; reflexivity.
    + apply derivable_pt_lim_scal. apply Ader; exact Hi.
Qed.

(* product rule, in the shape the library builds it:  x2 * d1 + x1 * d2 *)
Lemma curve_mul n g1 g2 x1 x2 d1 d2 :
  curve n g1 x1 d1 -> curve n g2 x2 d2 ->
  curve n (fun t => vmul (g1 t) (g2 t)) (vmul x1 x2) (vadd (vmul d1 x2) (vmul d2 x1)).
Proof.
  intros (A0 & Ad & Al & Ader) (B0 & Bd & Bl & Bder).
  assert (Hx1 : length x1 = n) by (rewrite <- A0; apply Al).
  assert (Hx2 : length x2 = n) by (rewrite <- B0; apply Bl).
  unfold vadd, vmul. repeat split.
  - rewrite A0, B0; reflexivity.
  - apply vmap2_len; apply vmap2_len; assumption.
  - intros t; apply vmap2_len; auto.
  - intros i Hi.
    rewrite nth_vmap2; [|rewrite (vmap2_len _ d1 x2 n); auto
                        |rewrite (vmap2_len _ d1 x2 n), (vmap2_len _ d2 x1 n); auto].
    rewrite !nth_vmap2 by lia.
    apply (dpl_ext (fun t => nth i (g1 t) 0 * nth i (g2 t) 0)).
    + intros t. rewrite nth_vmap2; [reflexivity|rewrite Al; exact Hi|rewrite Al, Bl; reflexivity].
    + apply (dpl_eq _ _ (nth i d1 0 * nth i (g2 0) 0 + nth i (g1 0) 0 * nth i d2 0)).
      * rewrite A0, B0. numR. ring.
      * apply (derivable_pt_lim_mult (fun t => nth i (g1 t) 0) (fun t => nth i (g2 t) 0));
          [apply Ader|apply Bder]; exact Hi.
Qed.

Lemma curve_mul_const n g x d v :
  curve n g x d -> length v = n -> curve n (fun t => vmul (g t) v) (vmul x v) (vmul d v).
Proof.
  intros (A0 & Ad & Al & Ader) Hv. unfold vmul. repeat split.
  - rewrite A0; reflexivity.
  - apply vmap2_len; auto.
  - intros t; apply vmap2_len; auto.
  - intros i Hi. rewrite nth_vmap2 by lia.
    apply (dpl_ext (fun t => nth i (g t) 0 * nth i v 0)).
    + intros t. rewrite nth_vmap2; [reflexivity|rewrite Al; exact Hi|rewrite Al, Hv; reflexivity].
    + apply (dpl_eq _ _ (nth i d 0 * nth i v 0 + nth i (g 0) 0 * 0)); [numR; ring|].
      apply (derivable_pt_lim_mult (fun t => nth i (g t) 0) (fun _ => nth i v 0));
        [apply Ader; exact Hi|apply derivable_pt_lim_const].
Qed.

(* entry-wise application of a scalar function *)
Lemma curve_map n (f f' : R -> R) g x d :
  curve n g x d ->
  (forall i, (i < n)%nat -> derivable_pt_lim f (nth i x 0) (f' (nth i x 0))) ->
  curve n (fun t => map f (g t)) (map f x) (vmul d (map f' x)).
Proof.
  intros (A0 & Ad & Al & Ader) Hf.
  assert (Hx : length x = n) by (rewrite <- A0; apply Al).
  repeat split.
  - rewrite A0; reflexivity.
  - unfold vmul; apply vmap2_len; auto. rewrite map_length; exact Hx.
  - intros t; rewrite map_length; apply Al.
  - intros i Hi. unfold vmul. rewrite nth_vmap2; [|lia|rewrite map_length; lia].
    rewrite nth_map0 by lia.
    apply (dpl_ext (fun t => f (nth i (g t) 0))).
    + intros t; rewrite nth_map0; [reflexivity|rewrite Al; exact Hi].
    + apply (dpl_eq _ _ (f' (nth i x 0) * nth i d 0)); [numR; ring|].
      apply (derivable_pt_lim_comp (fun t => nth i (g t) 0) f).
      * apply Ader; exact Hi.
      * cbn. rewrite A0. apply Hf; exact Hi.
Qed.

(* inner product with a fixed vector *)
Lemma dpl_dot (v : Rvec) : forall (g : R -> Rvec) (d : Rvec),
  (forall t, length (g t) = length v) -> length d = length v ->
  (forall i, (i < length v)%nat -> derivable_pt_lim (fun t => nth i (g t) 0) 0 (nth i d 0)) ->
  derivable_pt_lim (fun t => dot (g t) v) 0 (dot d v).
Proof.
  induction v as [|b v IH]; intros g d Hl Hd Hder.
  - apply (dpl_ext (fun _ => 0)); [intros t; rewrite dot_nil_r; reflexivity|].
    rewrite dot_nil_r. apply derivable_pt_lim_const.
  - destruct d as [|u d]; [cbn in Hd; lia|].
    apply (dpl_ext (fun t => nth 0 (g t) 0 * b + dot (tl (g t)) v)).
    + intros t. specialize (Hl t). destruct (g t) as [|a r]; [cbn in Hl; lia|]. reflexivity.
    + rewrite dot_cons'. apply derivable_pt_lim_plus.
      * apply (dpl_eq _ _ (u * b + nth 0 (g 0) 0 * 0)); [ring|].
        apply (derivable_pt_lim_mult (fun t => nth 0 (g t) 0) (fun _ => b));
          [apply (Hder 0%nat); cbn; lia|apply derivable_pt_lim_const].
      * apply IH.
        -- intros t. specialize (Hl t). destruct (g t); cbn in *; lia.
        -- cbn in Hd; lia.
        -- intros i Hi. apply (dpl_ext (fun t => nth (S i) (g t) 0)).
           ++ intros t. destruct (g t); [destruct i|]; reflexivity.
           ++ apply (Hder (S i)). cbn; lia.
Qed.

Lemma curve_dot n g x d v :
  curve n g x d -> length v = n ->
  curve 1 (fun t => [dot (g t) v]) [dot x v] [dot d v].
Proof.
  intros (A0 & Ad & Al & Ader) Hv. repeat split.
  - rewrite A0; reflexivity.
  - intros [|i] Hi; [|lia]. cbn [nth].
    apply dpl_dot; [intros t; rewrite Al; auto|lia|intros i Hi'; apply Ader; lia].
Qed.

Lemma mvec_len (rows : list Rvec) (a : Rvec) : length (mvec rows a) = length rows.
Proof. apply map_length. Qed.
Lemma nth_mvec (rows : list Rvec) (a : Rvec) i :
  (i < length rows)%nat -> nth i (mvec rows a) 0 = dot (nth i rows []) a.
Proof.
  intros Hi. unfold mvec.
  rewrite (nth_indep _ 0 ((fun r => dot r a) [])) by (rewrite map_length; exact Hi).
  apply (map_nth (fun r => dot r a)).
Qed.
Lemma dot_comm' (a b : Rvec) : dot a b = dot b a.
Proof. unfold dot. rewrite vmul_comm. reflexivity. Qed.

Lemma curve_mvec n g x d (rows : list Rvec) :
  curve n g x d -> (forall r, In r rows -> length r = n) ->
  curve (length rows) (fun t => mvec rows (g t)) (mvec rows x) (mvec rows d).
Proof.
  intros (A0 & Ad & Al & Ader) Hr. repeat split.
  - rewrite A0; reflexivity.
  - apply mvec_len.
  - intros t; apply mvec_len.
  - intros i Hi. rewrite nth_mvec by exact Hi.
    apply (dpl_ext (fun t => dot (g t) (nth i rows []))).
    + intros t. rewrite nth_mvec by exact Hi. apply dot_comm'.
    + rewrite dot_comm'.
      assert (Hlen : length (nth i rows []) = n) by (apply Hr; apply nth_In; exact Hi).
      apply dpl_dot; [intros t; rewrite Al; auto|lia|intros j Hj; apply Ader; lia].
Qed.

(* ---------- rules for hdiff ---------- *)
Lemma hdiff_comp n k m F G x L1 L2 :
  hdiff n k G x L2 -> hdiff k m F (G x) L1 ->
  hdiff n m (fun y => F (G y)) x (fun d => L1 (L2 d)).
Proof. intros HG HF g d Hc. apply (HF (fun t => G (g t)) (L2 d)). apply HG. exact Hc. Qed.

Lemma hdiff_add n m F G x L1 L2 :
  hdiff n m F x L1 -> hdiff n m G x L2 ->
  hdiff n m (fun y => vadd (F y) (G y)) x (fun d => vadd (L1 d) (L2 d)).
Proof. intros HF HG g d Hc. apply curve_add; [apply HF|apply HG]; exact Hc. Qed.

Lemma hdiff_add_const n m F x L v :
  hdiff n m F x L -> length v = m -> hdiff n m (fun y => vadd (F y) v) x L.
Proof. intros HF Hv g d Hc. apply curve_add_const; [apply HF; exact Hc|exact Hv]. Qed.

Lemma hdiff_scal n m c F x L :
  hdiff n m F x L -> hdiff n m (fun y => vscal c (F y)) x (fun d => vscal c (L d)).
Proof. intros HF g d Hc. apply curve_scal. apply HF; exact Hc. Qed.

Lemma hdiff_mul n m F G x L1 L2 :
  hdiff n m F x L1 -> hdiff n m G x L2 ->
  hdiff n m (fun y => vmul (F y) (G y)) x (fun d => vadd (vmul (L1 d) (G x)) (vmul (L2 d) (F x))).
Proof. intros HF HG g d Hc. apply curve_mul; [apply HF|apply HG]; exact Hc. Qed.

Lemma hdiff_mul_const n m F x L v :
  hdiff n m F x L -> length v = m -> hdiff n m (fun y => vmul (F y) v) x (fun d => vmul (L d) v).
Proof. intros HF Hv g d Hc. apply curve_mul_const; [apply HF; exact Hc|exact Hv]. Qed.

Lemma hdiff_id n x : hdiff n n (fun y => y) x (fun d => d).
Proof. intros g d Hc; exact Hc. Qed.

Lemma hdiff_const n m v x : length v = m -> hdiff n m (fun _ => v) x (fun _ => vconst m 0).
Proof. intros Hv g d Hc. apply curve_const; exact Hv. Qed.

Lemma hdiff_ext n m F F' x L L' :
  (forall y, F y = F' y) -> (forall d, L d = L' d) -> hdiff n m F x L -> hdiff n m F' x L'.
Proof.
  intros HF HL H g d Hc. specialize (H g d Hc).
  rewrite <- HF, <- HL. eapply curve_ext; [|exact H]. intros t; apply HF.
Qed.

(* ---------- from hdiff to the statement of the property ---------- *)
Lemma dpl_central (f : R -> R) l :
  derivable_pt_lim f 0 l ->
  forall eps, 0 < eps -> exists delta, 0 < delta /\
    forall h, h <> 0 -> Rabs h < delta -> Rabs ((f h - f (- h)) / (2 * h) - l) < eps.
Proof.
  intros Hf eps Heps. destruct (Hf eps Heps) as [dl Hd]. exists dl. split; [apply cond_pos|].
  intros h Hh Hlt.
  pose proof (Hd h Hh Hlt) as H1.
  assert (Hnh : - h <> 0) by lra.
  assert (Hltn : Rabs (- h) < dl) by (rewrite Rabs_Ropp; exact Hlt).
  pose proof (Hd (- h) Hnh Hltn) as H2.
  rewrite Rplus_0_l in H1, H2.
  replace ((f h - f (- h)) / (2 * h) - l)
    with (((f h - f 0) / h - l) / 2 + ((f (- h) - f 0) / - h - l) / 2) by (field; lra).
  eapply Rle_lt_trans; [apply Rabs_triang|].
  unfold Rdiv at 1 3. rewrite !Rabs_mult. rewrite (Rabs_pos_eq (/ 2)) by lra. lra.
Qed.

Theorem hdiff_central_difference n m F x L :
  hdiff n m F x L -> length x = n ->
  forall d, length d = n -> forall i, (i < m)%nat ->
  forall eps, 0 < eps -> exists delta, 0 < delta /\
    forall h, h <> 0 -> Rabs h < delta ->
      Rabs ((nth i (F (vadd x (vscal h d))) 0 - nth i (F (vadd x (vscal (- h) d))) 0) / (2 * h)
            - nth i (L d) 0) < eps.
Proof.
  intros HF Hx d Hd i Hi.
  destruct (HF (line x d) d (curve_line n x d Hx Hd)) as (_ & _ & _ & Hder).
  apply (dpl_central (fun t => nth i (F (line x d t)) 0)). apply Hder; exact Hi.
Qed.

(* the one-sided (Gateaux) quotient as well *)
Theorem hdiff_directional n m F x L :
  hdiff n m F x L -> length x = n ->
  forall d, length d = n -> forall i, (i < m)%nat ->
  derivable_pt_lim (fun t => nth i (F (vadd x (vscal t d))) 0) 0 (nth i (L d) 0).
Proof.
  intros HF Hx d Hd i Hi.
  destruct (HF (line x d) d (curve_line n x d Hx Hd)) as (_ & _ & _ & Hder).
  apply Hder; exact Hi.
Qed.
