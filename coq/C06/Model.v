(* C06/Model.v -- executable model of Operator.derivative (definitions only).

   Deep embedding of the expression classes of odl/operator/operator.py and of
   the leaf operators of default_ops.py / ufunc_ops.py that implement
   `derivative`, polymorphic over the carrier (run at Q, proved at R).

   Elements of rn(n) are lists of length n; elements of the scalar field
   (RealNumbers) are singleton lists -- the two differ only in which Python
   overload fires (Number vs LinearSpaceElement), which is what [space] records. *)
From Coq Require Import ZArith QArith List Bool.
From Verif Require Import Base.Num Base.Vec C06.Syntax Gen.UfuncDeriv.
Import ListNotations.
Local Open Scope num_scope.

(* SP ns = ProductSpace(rn(n1), ..., rn(nk)); its elements are modelled FLAT (the
   concatenation of the parts), so every operator is a map list -> list *)
(* SC n = cn(n); a complex vector is modelled as  real parts ++ imaginary parts  (only the
   real-linear structure of complex spaces is used: real scalars, sums, Re/Im/modulus) *)
Inductive space := SF | SV (n : nat) | SP (ns : list nat) | SC (n : nat).
Definition sdim (s : space) : nat :=
  match s with SF => 1%nat | SV n => n | SP ns => list_sum ns | SC n => (n + n)%nat end.
Fixpoint nats_eqb (a b : list nat) : bool :=
  match a, b with
  | [], [] => true
  | n :: a', m :: b' => Nat.eqb n m && nats_eqb a' b'
  | _, _ => false
  end.
Definition space_eqb (a b : space) : bool :=
  match a, b with
  | SF, SF => true | SV n, SV m | SC n, SC m => Nat.eqb n m | SP a', SP b' => nats_eqb a' b'
  | _, _ => false
  end.
Definition is_SV (s : space) : bool := match s with SV _ => true | _ => false end.
Definition is_field (s : space) : bool := match s with SF => true | _ => false end.
Definition is_complex (s : space) : bool := match s with SC _ => true | _ => false end.
Definition real_space (s : space) : space := match s with SC n => SV n | _ => s end.

(* primitives the carrier class does not provide *)
Record prims (T : Type) := {
  tr : ufn -> T -> T;                       (* transcendental ufuncs *)
  rt : T -> T;                              (* square root *)
  afun : nat -> list T -> list T;           (* abstract (user-defined) nonlinear leaves ... *)
  ader : nat -> list T -> list T -> list T; (* ... and what their .derivative(x) computes *)
  adom : nat -> space; aran : nat -> space }.
Arguments tr {T}. Arguments rt {T}. Arguments afun {T}. Arguments ader {T}.
Arguments adom {T}. Arguments aran {T}.

Section Model.
Context {T : Type} `{Num T}.
Variable P : prims T.

(* ---------- ufuncs (entry-wise) ---------- *)
Definition usem (f : ufn) (x : T) : T :=
  match f with
  | Usquare => x * x
  | Ureciprocal => none_ / x
  | Unegative => - x
  | Usqrt => rt P x
  | Uabsolute => nabs x
  | Usign => nsign x
  | _ => tr P f x
  end.
Fixpoint npow (x : T) (n : nat) : T := match n with O => none_ | S k => x * npow x k end.
Definition zpow (x : T) (p : Z) : T :=
  if (0 <=? p)%Z then npow x (Z.to_nat p) else none_ / npow x (Z.to_nat (- p)).
Fixpoint ueval (e : uex) (p : T) : T :=
  match e with
  | UPoint => p
  | UApp f a => usem f (ueval a p)
  | UK c => of_Q c
  | UAdd a b => ueval a p + ueval b p
  | USub a b => ueval a p - ueval b p
  | UMul a b => ueval a p * ueval b p
  | UDiv a b => ueval a p / ueval b p
  | UNeg a => - ueval a p
  | UPow a n => npow (ueval a p) (Pos.to_nat n)
  end.

(* ---------- blocks of a flat product-space element ---------- *)
Section Blocks.
Context {A B : Type}.
Variable f : A -> list T -> B.
Variable size : A -> nat.
(* apply f to every a with its own block of x (blocks have the sizes size a, in order) *)
Fixpoint blockmap (l : list A) (x : list T) : list B :=
  match l with
  | [] => []
  | a :: r => f a (firstn (size a) x) :: blockmap r (skipn (size a) x)
  end.
End Blocks.
Definition vsum (m : nat) (l : list (list T)) : list T := fold_right vadd (vconst m nzero) l.
(* part j of a flat element of the product space with part sizes cs; and the
   flat element of the product space rs that is v in part i and zero elsewhere *)
Definition proj (cs : list nat) (j : nat) (x : list T) : list T :=
  firstn (nth j cs 0%nat) (skipn (list_sum (firstn j cs)) x).
Definition embed (rs : list nat) (i : nat) (v : list T) : list T :=
  vconst (list_sum (firstn i rs)) nzero ++ v ++ vconst (list_sum (skipn (S i) rs)) nzero.

(* ---------- point-wise operators on vector fields  X^k  (X = rn(n), flat: f_1 ++ ... ++ f_k) ---------- *)
(* sum_i w_i * g(f_i, h_i)  over the blocks of two flat fields, block size n *)
Fixpoint pwsum (g : list T -> list T -> list T) (n : nat) (w : list T) (f h : list T) : list T :=
  match w with
  | [] => vconst n nzero
  | wi :: w' => vadd (vscal wi (g (firstn n f) (firstn n h))) (pwsum g n w' (skipn n f) (skipn n h))
  end.
(* PointwiseInner(vecfield=vf, weighting=w):  d |-> sum_i w_i * vf_i * d_i *)
Definition pwinner (n : nat) (w vf d : list T) : list T := pwsum vmul n w vf d.
(* PointwiseNorm, exponent 1:  sum_i w_i |f_i| ;  exponent 2:  sqrt(sum_i w_i f_i^2) *)
Definition pwnorm1 (n : nat) (w f : list T) : list T := pwsum (fun a _ => map nabs a) n w f f.
Definition pwnormsq (n : nat) (w f : list T) : list T := pwsum vmul n w f f.
Definition pwnorm2 (n : nat) (w f : list T) : list T := map (rt P) (pwnormsq n w f).
(* f_i / N where N != 0 (entries with N == 0 are left alone, as `gi[nz] /= fac[nz]` does) *)
Definition divnz (a nrm : T) : T := if nrm =? nzero then a else a / nrm.
Fixpoint pwdiv (n k : nat) (f nrm : list T) : list T :=
  match k with
  | O => []
  | S k' => vmap2 divnz (firstn n f) nrm ++ pwdiv n k' (skipn n f) nrm
  end.

(* ---------- real and imaginary parts (x.real is x and x.imag is 0 on a real space) ---------- *)
Definition re_of (s : space) (x : list T) : list T := match s with SC n => firstn n x | _ => x end.
Definition im_of (s : space) (x : list T) : list T :=
  match s with SC n => skipn n x | _ => vconst (sdim s) nzero end.
Definition cmod2 (s : space) (x : list T) : list T :=
  vadd (vmul (re_of s x) (re_of s x)) (vmul (im_of s x) (im_of s x)).
(* x.real * y.real + x.imag * y.imag *)
Definition redot (s : space) (x y : list T) : list T :=
  vadd (vmul (re_of s x) (re_of s y)) (vmul (im_of s x) (im_of s y)).

(* ---------- leaves ---------- *)
Inductive leaf :=
| LScale (s : space) (c : T)               (* ScalingOperator / IdentityOperator *)
| LMul (s : space) (v : list T)            (* MultiplyOperator(v), domain = range = s *)
| LMat (n : nat) (rows : list (list T))    (* MatrixOperator: rn(n) -> rn(#rows) *)
| LInner (w v : list T)                    (* InnerProductOperator(v): rn -> field;  <x, v> = sum_i w_i x_i v_i,
                                              w = the space's weighting as an array (all ones when unweighted) *)
| LZero (s s' : space)                     (* ZeroOperator(s, s') *)
| LConst (s s' : space) (c : list T)       (* ConstantOperator(c, domain=s, range=s') *)
| LPow (s : space) (p : Z)                 (* PowerOperator(s, p), integer p *)
| LUf (f : ufn) (n : nat)                  (* odl.ufunc_ops.f(rn(n)) *)
| LNorm (w : list T)                       (* NormOperator(rn(#w) with weights w) *)
| LDist (w v : list T)                     (* DistOperator(v), weights w *)
| LAbs (k : nat)                           (* user-defined nonlinear operator no. k *)
| LAbsD (k : nat) (x : list T)             (* the linear operator its derivative(x) returns *)
| LPwNorm (n : nat) (p : Z) (w : list T)   (* PointwiseNorm(rn(n)^k, exponent p in {1,2}, weights w), k = #w *)
| LPwInner (n : nat) (w vf : list T)       (* PointwiseInner(rn(n)^k, vf, weights w) *)
| LRe (s : space) | LIm (s : space)        (* RealPart(s), ImagPart(s), s real or complex *)
| LCMod (s : space) | LCMod2 (s : space)   (* ComplexModulus(s), ComplexModulusSquared(s) *)
| LCModD (sq : bool) (s : space) (x : list T).  (* the operators their derivative(x) returns *)

Definition ldom (l : leaf) : space :=
  match l with
  | LScale s _ | LMul s _ | LZero s _ | LConst s _ _ | LPow s _ => s
  | LMat n _ => SV n
  | LInner _ v | LDist _ v => SV (length v)
  | LNorm w => SV (length w)
  | LUf _ n => SV n
  | LAbs k | LAbsD k _ => adom P k
  | LPwNorm n _ w | LPwInner n w _ => SP (repeat n (length w))
  | LRe s | LIm s | LCMod s | LCMod2 s | LCModD _ s _ => s
  end.
Definition lran (l : leaf) : space :=
  match l with
  | LScale s _ | LMul s _ | LPow s _ => s
  | LZero _ s' | LConst _ s' _ => s'
  | LMat _ rows => SV (length rows)
  | LInner _ _ | LDist _ _ | LNorm _ => SF
  | LUf _ n => SV n
  | LAbs k | LAbsD k _ => aran P k
  | LPwNorm n _ _ | LPwInner n _ _ => SV n
  | LRe s | LIm s | LCMod s | LCMod2 s | LCModD _ s _ => real_space s
  end.
Definition all_zero (c : list T) : bool := forallb (fun a => a =? nzero) c.
(* the `linear` flag handed to Operator.__init__ *)
Definition llin (l : leaf) : bool :=
  match l with
  | LScale _ _ | LMul _ _ | LMat _ _ | LInner _ _ | LZero _ _ | LAbsD _ _ | LPwInner _ _ _
  | LRe _ | LIm _ | LCModD _ _ _ => true
  | LConst _ _ c => all_zero c              (* linear = (constant.norm() == 0) *)
  | LPow _ p => (p =? 1)%Z                  (* linear = (exponent == 1) *)
  | LUf f _ => ufunc_linear f
  | LNorm _ | LDist _ _ | LAbs _ | LPwNorm _ _ _ | LCMod _ | LCMod2 _ => false
  end.
Definition lwt (l : leaf) : bool :=
  match l with
  | LMul s v => Nat.eqb (length v) (sdim s) && negb (is_complex s)
  | LPow s _ => negb (is_complex s)
  | LRe s | LIm s | LCMod s | LCMod2 s => negb (is_field s)
  | LCModD _ s x => negb (is_field s) && Nat.eqb (length x) (sdim s)
  | LMat n rows => forallb (fun r => Nat.eqb (length r) n) rows
  | LInner w v | LDist w v => Nat.eqb (length w) (length v)
  | LConst _ s' c => Nat.eqb (length c) (sdim s')
  | LAbsD k x => Nat.eqb (length x) (sdim (adom P k))
  | LPwNorm n p w => ((p =? 1)%Z || (p =? 2)%Z) && negb (Nat.eqb (length w) 0)
  | LPwInner n w vf => Nat.eqb (length vf) (length w * n) && negb (Nat.eqb (length w) 0)
  | _ => true
  end.
Definition leval (l : leaf) (x : list T) : list T :=
  match l with
  | LScale _ c => vscal c x
  | LMul _ v => vmul x v
  | LMat _ rows => mvec rows x
  | LInner w v => [wdot w x v]
  | LZero _ s' => vconst (sdim s') nzero
  | LConst _ _ c => c
  | LPow _ p => map (fun a => zpow a p) x
  | LUf f _ => map (usem f) x
  | LNorm w => [rt P (wdot w x x)]
  | LDist w v => [rt P (wdot w (vsub x v) (vsub x v))]
  | LAbs k => afun P k x
  | LAbsD k x0 => ader P k x0 x
  | LPwNorm n p w => if (p =? 1)%Z then pwnorm1 n w x else pwnorm2 n w x
  | LPwInner n w vf => pwinner n w vf x
  | LRe s => re_of s x
  | LIm s => im_of s x
  | LCMod2 s => cmod2 s x
  | LCMod s => map (rt P) (cmod2 s x)
  | LCModD sq s x0 =>
      (* out = x.real*y.real; out += x.imag*y.imag; then  out *= 2  resp.  out /= op(x) *)
      if sq then vscal (of_Z 2) (redot s x0 x) else vdiv (redot s x0 x) (map (rt P) (cmod2 s x0))
  end.

(* ---------- expression classes ---------- *)
Inductive oexpr :=
| OLeaf (l : leaf)
| OSum (a b : oexpr)                 (* OperatorSum *)
| OVecSum (a : oexpr) (v : list T)   (* OperatorVectorSum *)
| OComp (a b : oexpr)                (* OperatorComp(left=a, right=b) *)
| OPProd (a b : oexpr)               (* OperatorPointwiseProduct *)
| OLScal (a : oexpr) (s : T)         (* OperatorLeftScalarMult:  s * a(x) *)
| ORScal (a : oexpr) (s : T)         (* OperatorRightScalarMult: a(s * x) *)
| OLVec (a : oexpr) (v : list T)     (* OperatorLeftVectorMult:  v * a(x) *)
| ORVec (a : oexpr) (v : list T)     (* OperatorRightVectorMult: a(v * x) *)
| OFLVec (a : oexpr) (v : list T)    (* FunctionalLeftVectorMult: v * a(x), a scalar-valued *)
| OBroadcast (ops : list oexpr)      (* BroadcastOperator:  x |-> [op_i(x)] *)
| OReduction (ops : list oexpr)      (* ReductionOperator:  [x_i] |-> sum_i op_i(x_i) *)
| ODiagonal (ops : list oexpr)       (* DiagonalOperator:   [x_i] |-> [op_i(x_i)] *)
(* ProductSpaceOperator: sparse matrix of operators in COO order (row, col, op)
   between ProductSpace(rn(cs_j)) and ProductSpace(rn(rs_i)):  out[i] += op(x[j]) *)
| OPSO (cs rs : list nat) (ents : list (nat * nat * oexpr)).

Fixpoint dom (e : oexpr) : space :=
  match e with
  | OLeaf l => ldom l
  | OComp _ b => dom b
  | OSum a _ | OVecSum a _ | OPProd a _ | OLScal a _ | ORScal a _ | OLVec a _ | ORVec a _ | OFLVec a _ => dom a
  | OBroadcast ops => match ops with a :: _ => dom a | [] => SV 0 end
  | OReduction ops | ODiagonal ops => SP (map (fun a => sdim (dom a)) ops)
  | OPSO cs _ _ => SP cs
  end.
Fixpoint ran (e : oexpr) : space :=
  match e with
  | OLeaf l => lran l
  | OFLVec _ v => SV (length v)
  | OSum a _ | OVecSum a _ | OComp a _ | OPProd a _ | OLScal a _ | ORScal a _ | OLVec a _ | ORVec a _ => ran a
  | OReduction ops => match ops with a :: _ => ran a | [] => SV 0 end
  | OBroadcast ops | ODiagonal ops => SP (map (fun a => sdim (ran a)) ops)
  | OPSO _ rs _ => SP rs
  end.
Definition dsize (a : oexpr) : nat := sdim (dom a).

(* the flag computed by the constructors' __init__ *)
Fixpoint is_lin (e : oexpr) : bool :=
  match e with
  | OLeaf l => llin l
  | OSum a b | OComp a b => is_lin a && is_lin b
  | OVecSum _ _ => false               (* Operator.__init__ default *)
  | OPProd _ _ => false                (* linear=False hard-coded *)
  | OLScal a _ | ORScal a _ | OLVec a _ | ORVec a _ | OFLVec a _ => is_lin a
  | OBroadcast ops | OReduction ops | ODiagonal ops => forallb is_lin ops   (* all(op.is_linear) *)
  | OPSO _ _ ents => forallb (fun t : nat * nat * oexpr => let '(_, _, a) := t in is_lin a) ents
  end.

(* the domain/range checks of the constructors *)
Fixpoint wt (e : oexpr) : bool :=
  match e with
  | OLeaf l => lwt l
  | OSum a b => wt a && wt b && space_eqb (dom a) (dom b) && space_eqb (ran a) (ran b)
  (* entry-wise products of complex elements are not modelled *)
  | OPProd a b => wt a && wt b && space_eqb (dom a) (dom b) && space_eqb (ran a) (ran b) && negb (is_complex (ran a))
  | OVecSum a v => wt a && negb (is_field (ran a)) && Nat.eqb (length v) (sdim (ran a))
  | OLVec a v => wt a && negb (is_field (ran a)) && Nat.eqb (length v) (sdim (ran a)) && negb (is_complex (ran a))
  | OComp a b => wt a && wt b && space_eqb (ran b) (dom a)
  | OLScal a _ | ORScal a _ => wt a
  | ORVec a v => wt a && negb (is_field (dom a)) && Nat.eqb (length v) (sdim (dom a)) && negb (is_complex (dom a))
  | OFLVec a _ => wt a && space_eqb (ran a) SF
  (* blocks: parts are tensor spaces rn(n) (no fields, no nested products) *)
  | OBroadcast ops =>
      match ops with
      | [] => false
      | a0 :: _ => forallb (fun a => wt a && is_SV (dom a) && is_SV (ran a) && space_eqb (dom a) (dom a0)) ops
      end
  | OReduction ops =>
      match ops with
      | [] => false
      | a0 :: _ => forallb (fun a => wt a && is_SV (dom a) && is_SV (ran a) && space_eqb (ran a) (ran a0)) ops
      end
  | ODiagonal ops =>
      match ops with
      | [] => false
      | _ :: _ => forallb (fun a => wt a && is_SV (dom a) && is_SV (ran a)) ops
      end
  | OPSO cs rs ents =>
      forallb (fun t : nat * nat * oexpr =>
                 let '(i, j, a) := t in
                 wt a && Nat.ltb i (length rs) && Nat.ltb j (length cs)
                 && space_eqb (dom a) (SV (nth j cs 0%nat)) && space_eqb (ran a) (SV (nth i rs 0%nat))) ents
  end.

Fixpoint eval (e : oexpr) (x : list T) : list T :=
  match e with
  | OLeaf l => leval l x
  | OSum a b => vadd (eval a x) (eval b x)
  | OVecSum a v => vadd (eval a x) v
  | OComp a b => eval a (eval b x)
  | OPProd a b => vmul (eval a x) (eval b x)
  | OLScal a s => vscal s (eval a x)
  | ORScal a s => eval a (vscal s x)
  | OLVec a v => vmul (eval a x) v
  | ORVec a v => eval a (vmul x v)
  | OFLVec a v => vscal (hd nzero (eval a x)) v
  | OBroadcast ops => concat (map (fun a => eval a x) ops)
  | OReduction ops =>
      vsum (match ops with a :: _ => sdim (ran a) | [] => 0%nat end) (blockmap eval dsize ops x)
  | ODiagonal ops => concat (blockmap eval dsize ops x)
  | OPSO cs rs ents =>
      fold_right (fun (t : nat * nat * oexpr) acc =>
                    let '(i, j, a) := t in vadd (embed rs i (eval a (proj cs j x))) acc)
                 (vconst (list_sum rs) nzero) ents
  end.

(* ---------- the overloads used while building derivatives ---------- *)
(* Operator.__rmul__(Number) = OperatorLeftScalarMult(op, s), whose __init__ merges
   a nested OperatorLeftScalarMult:  scalar = s * op.scalar ; operator = op.operator *)
Definition mk_lscal (s : T) (e : oexpr) : oexpr :=
  match e with OLScal a s' => OLScal a (s * s') | _ => OLScal e s end.
(* op * s (Operator.__mul__(Number)): a linear op with s in its range's field is rewritten to s * op;
   otherwise OperatorRightScalarMult(op, s), whose __init__ merges a nested OperatorRightScalarMult *)
Definition mk_mulscal (s : T) (e : oexpr) : oexpr :=
  if is_lin e then mk_lscal s e
  else match e with ORScal a s' => ORScal a (s * s') | _ => ORScal e s end.
(* y * op for y = other(x) in op.range: a Number when the range is the field
   (-> OperatorLeftScalarMult), an element otherwise (-> OperatorLeftVectorMult) *)
Definition mk_lmul (r : space) (y : list T) (e : oexpr) : oexpr :=
  match r with SF => mk_lscal (hd nzero y) e | _ => OLVec e y end.

(* ---------- leaf derivatives ---------- *)
Definition lderiv (l : leaf) (x : list T) : oexpr :=
  match l with
  | LConst s s' _ => OLeaf (LZero s s')
  | LPow s p => mk_lscal (of_Z p) (OLeaf (LMul s (map (fun a => zpow a (p - 1)) x)))
  | LUf f n => match ufunc_deriv f with
               | Some e => OLeaf (LMul (SV n) (map (ueval e) x))
               | None => OLeaf l
               end
  | LNorm w => let nrm := rt P (wdot w x x) in OLeaf (LInner w (map (fun a => a / nrm) x))
  | LDist w v => let df := vsub x v in let dist := rt P (wdot w df df) in
                 OLeaf (LInner w (map (fun a => a / dist) df))
  | LAbs k => OLeaf (LAbsD k x)
  | LPwNorm n p w =>
      (* inner_vf = f * |f|^(p-2) / N^(p-1):  sign(f) for p = 1,  f / N (where N != 0) for p = 2 *)
      OLeaf (LPwInner n w (if (p =? 1)%Z then map nsign x else pwdiv n (length w) x (pwnorm2 n w x)))
  | LCMod s => OLeaf (LCModD false s x)
  | LCMod2 s => OLeaf (LCModD true s x)
  | _ => OLeaf l                      (* Operator.derivative: linear => self *)
  end.
(* false = the call raises (OpNotImplementedError / ValueError) *)
Definition lderiv_ok (l : leaf) (x : list T) : bool :=
  match l with
  | LConst _ _ _ | LPow _ _ | LAbs _ | LPwNorm _ _ _ | LCMod _ | LCMod2 _ => true
  | LUf f _ => match ufunc_deriv f with Some _ => true | None => ufunc_linear f end
  | LNorm w => negb (rt P (wdot w x x) =? nzero)
  | LDist w v => negb (rt P (wdot w (vsub x v) (vsub x v)) =? nzero)
  | _ => llin l
  end.

(* ---------- Operator.derivative of the expression classes ---------- *)
Fixpoint derivative (e : oexpr) (x : list T) : oexpr :=
  match e with
  | OLeaf l => lderiv l x
  | OSum a b => if is_lin a && is_lin b then e else OSum (derivative a x) (derivative b x)
  | OVecSum a _ => derivative a x
  | OComp a b =>
      if is_lin a && is_lin b then e
      else OComp (if is_lin a then a else derivative a (eval b x)) (derivative b x)
  | OPProd a b =>
      OSum (mk_lmul (ran b) (eval b x) (derivative a x)) (mk_lmul (ran a) (eval a x) (derivative b x))
  | OLScal a s => if is_lin a then e else mk_lscal s (derivative a x)
  (* op'(s x) * s : the derivative object is linear (proved), so Operator.__mul__(Number) rewrites
     it to s * op'(s x), i.e. OperatorLeftScalarMult (with its merging) *)
  | ORScal a s => mk_mulscal s (derivative a (vscal s x))
  | OLVec a v => if is_lin a then e else OLVec (derivative a x) v
  | ORVec a v => if is_lin a then e else ORVec (derivative a (vmul v x)) v
  | OFLVec a v => if is_lin a then e else OFLVec (derivative a x) v
  (* block rules: no linear shortcut; each block at ITS part of the point *)
  | OBroadcast ops => OBroadcast (map (fun a => derivative a x) ops)
  | OReduction ops => OReduction (blockmap derivative dsize ops x)
  | ODiagonal ops => ODiagonal (blockmap derivative dsize ops x)
  (* linear => self; else every entry at ITS column's part of the point, same domain/range *)
  | OPSO cs rs ents =>
      if forallb (fun t : nat * nat * oexpr => let '(_, _, a) := t in is_lin a) ents then e
      else OPSO cs rs (map (fun t : nat * nat * oexpr =>
                              let '(i, j, a) := t in (i, j, derivative a (proj cs j x))) ents)
  end.

Fixpoint deriv_ok (e : oexpr) (x : list T) : bool :=
  match e with
  | OLeaf l => lderiv_ok l x
  | OSum a b => (is_lin a && is_lin b) || (deriv_ok a x && deriv_ok b x)
  | OVecSum a _ => deriv_ok a x
  | OComp a b =>
      (is_lin a && is_lin b) || ((is_lin a || deriv_ok a (eval b x)) && deriv_ok b x)
  | OPProd a b => deriv_ok a x && deriv_ok b x
  | OLScal a _ | OLVec a _ | OFLVec a _ => is_lin a || deriv_ok a x
  | ORScal a s => deriv_ok a (vscal s x)
  | ORVec a v => is_lin a || deriv_ok a (vmul v x)
  | OBroadcast ops => forallb (fun a => deriv_ok a x) ops
  | OReduction ops | ODiagonal ops => forallb (fun b => b) (blockmap deriv_ok dsize ops x)
  | OPSO cs _ ents =>
      forallb (fun t : nat * nat * oexpr => let '(_, _, a) := t in is_lin a) ents
      || forallb (fun t : nat * nat * oexpr => let '(_, j, a) := t in deriv_ok a (proj cs j x)) ents
  end.

End Model.

Arguments OLeaf {T}. Arguments OSum {T}. Arguments OVecSum {T}. Arguments OComp {T}.
Arguments OPProd {T}. Arguments OLScal {T}. Arguments ORScal {T}. Arguments OLVec {T}.
Arguments ORVec {T}. Arguments OFLVec {T}. Arguments OBroadcast {T}. Arguments OReduction {T}.
Arguments ODiagonal {T}. Arguments OPSO {T}.
Arguments LScale {T}. Arguments LMul {T}. Arguments LMat {T}. Arguments LInner {T}.
Arguments LZero {T}. Arguments LConst {T}. Arguments LPow {T}. Arguments LUf {T}.
Arguments LNorm {T}. Arguments LDist {T}. Arguments LAbs {T}. Arguments LAbsD {T}.
Arguments LPwNorm {T}. Arguments LPwInner {T}. Arguments LRe {T}. Arguments LIm {T}.
Arguments LCMod {T}. Arguments LCMod2 {T}. Arguments LCModD {T}.
