(* C06/FTie.v -- [fgrad] of the functional model IS the interpretation of the gradient
   rules regenerated from functional.py (any carrier). *)
From Coq Require Import ZArith QArith List Bool.
From Verif Require Import Base.Num Base.Vec C06.Syntax Gen.Gradients C06.FModel C06.FInterp.
Import ListNotations.

Section FTie.
Context {T : Type} `{Num T}.
Variable rt : T -> T.
Variable mav : bool.

Lemma fgrad_is_source_rule (w : list T) (f : @fexpr T) (x : list T) (c : fclass) :
  fclass_of f = Some c ->
  fgrad rt mav w f x = gval rt mav (fgrad rt mav) w f (grad_rule c) x.
Proof.
  destruct f; cbn [fclass_of]; intros E; try discriminate E; injection E as <-; reflexivity.
Qed.
End FTie.
