(* C06/FrechetTrees.v -- the literal Frechet statement for the operator trees:
   eval (derivative e x) is the Frechet derivative of eval e at x, little-o in the norm.

   Route: (1) every well-typed tree is Frechet differentiable at every regular point
   with SOME bounded linear derivative (structural induction with the calculus of
   Frechet.v: chain rule, products, concatenation, entry-wise C^1 maps);
   (2) a Frechet derivative agrees with the Hadamard derivative, which Proofs.deriv_sound
   identifies as eval (derivative e x).  User-defined leaves enter through the premise
   that they are Frechet differentiable (their own derivative being right is the
   premise of deriv_sound already). *)
From Coq Require Import Reals Lra Lia List Bool ZArith.
From Verif Require Import Base.Num Base.Vec Base.VecR C06.Syntax Gen.UfuncDeriv C06.Model C06.Calc C06.Lin
  C06.LinMap C06.Leaves C06.Blocks C06.PwNorm C06.Cplx C06.Proofs C06.Frechet.
Import ListNotations.
Local Open Scope R_scope.

(* ---------- a few more differentiable maps ---------- *)
Lemma fd_id n x : length x = n -> fd n n (fun y => y) x.
Proof. intros Hx. apply fd_lin; [apply blin_id|exact Hx]. Qed.

Lemma fd_sub_const n v x : length v = n -> length x = n -> fd n n (fun y => vsub y v) x.
Proof.
  intros Hv Hx. exists (fun d => d). split; [|apply blin_id].
  split; [exact Hx|]. split; [intros y Hy; apply vsub_len; assumption|]. split; [auto|].
  intros eps He. exists 1. split; [lra|]. intros h Hh _ i Hi.
  rewrite !(nth_vs _ _ i n), (nth_va _ _ i n) by (auto; apply vadd_len; assumption).
  replace (nth i x 0 + nth i h 0 - nth i v 0 - (nth i x 0 - nth i v 0) - nth i h 0) with 0 by ring.
  rewrite Rabs_R0. pose proof (supn_nonneg h). nra.
Qed.

Lemma fd_sqrt n x : length x = n -> (forall i, (i < n)%nat -> 0 < nth i x 0) -> fd n n (map sqrt) x.
Proof.
  intros Hx Hp. apply (fd_map n sqrt (fun a => / (2 * sqrt a))); [exact Hx|].
  intros i Hi. apply derivable_pt_lim_sqrt. apply Hp; exact Hi.
Qed.

(* y |-> [ sum_i w_i y_i^2 ] and the weighted norm *)
Lemma wdot_sq_as_dot (w y : Rvec) : wdot w y y = dot (vmul y y) w.
Proof. unfold wdot, dot. rewrite (vmul_comm w). reflexivity. Qed.
Lemma fd_wnormsq (w x : Rvec) : length x = length w ->
  fd (length w) 1 (fun y => [wdot w y y]) x.
Proof.
  intros Hx. apply (fd_ext _ _ (fun y => (fun z => [dot z w]) (vmul y y))).
  { intros y _. cbn beta. rewrite wdot_sq_as_dot. reflexivity. }
  apply (fd_lin_after (length w) (length w) 1 (fun z => [dot z w]) (fun y => vmul y y)); [apply blin_dot; reflexivity|].
  apply fd_mul; apply fd_id; exact Hx.
Qed.
Lemma fd_wnorm (w x : Rvec) : length x = length w -> 0 < wdot w x x ->
  fd (length w) 1 (fun y => [sqrt (wdot w y y)]) x.
Proof.
  intros Hx Hp. apply (fd_comp (length w) 1 1 (map sqrt) (fun y => [wdot w y y])); [apply fd_wnormsq; exact Hx|].
  apply fd_sqrt; [reflexivity|]. intros [|i] Hi; [exact Hp|lia].
Qed.

(* point-wise sums over the blocks of a flat vector field *)
Lemma pwsum_cons (g : Rvec -> Rvec -> Rvec) n wi (w f h : Rvec) :
  pwsum g n (wi :: w) f h = vadd (vscal wi (g (firstn n f) (firstn n h))) (pwsum g n w (skipn n f) (skipn n h)).
Proof. reflexivity. Qed.

Lemma fd_pwsum (g : Rvec -> Rvec -> Rvec) (C : Rvec -> Prop) n :
  (forall y, length y = n -> C y -> fd n n (fun a => g a a) y) ->
  (forall x : Rvec, C x -> C (firstn n x)) -> (forall x : Rvec, C x -> C (skipn n x)) ->
  forall (w x : Rvec), length x = (length w * n)%nat -> C x ->
  fd (length w * n) n (fun y => pwsum g n w y y) x.
Proof.
  intros Hg Cf Cs. induction w as [|wi w IH]; intros x Hx HC.
  - cbn [pwsum length Nat.mul]. apply fd_const; [apply vconst_len|exact Hx].
  - cbn [length Nat.mul] in *.
    apply (fd_ext _ _ (fun y => vadd (vscal wi (g (firstn n y) (firstn n y))) (pwsum g n w (skipn n y) (skipn n y))));
      [intros y _; reflexivity|].
    apply fd_add.
    + apply (fd_lin_after _ n n (vscal wi) (fun y => g (firstn n y) (firstn n y))); [apply blin_scale|].
      apply (fd_lin_before _ n n (firstn n) (fun a => g a a)); [apply blin_firstn_add|exact Hx|].
      apply Hg; [rewrite firstn_length; lia|apply Cf; exact HC].
    + apply (fd_lin_before _ (length w * n) n (skipn n) (fun y => pwsum g n w y y)); [apply blin_skipn_add|exact Hx|].
      apply IH; [rewrite skipn_length; lia|apply Cs; exact HC].
Qed.

Notation leafR := (@leaf R).
Notation oexprR := (@oexpr R).

Section Trees.
Variable af : nat -> Rvec -> Rvec.
Variable ad : nat -> Rvec -> Rvec -> Rvec.
Variable adm arn : nat -> space.
Notation P := (PR af ad adm arn).
Notation dsz := (dsize P).
Notation rsz := (rsz af ad adm arn).
Notation regular := (regular af ad adm arn).
Notation bwt := (bwt af ad adm arn).
Notation ewt := (ewt af ad adm arn).

(* premises on user-defined leaves: their derivative is right (as in deriv_sound)
   and they are Frechet differentiable *)
Hypothesis Habs : forall k x, length x = sdim (adm k) ->
  hdiff (sdim (adm k)) (sdim (arn k)) (af k) x (ad k x) /\
  blin (sdim (adm k)) (sdim (arn k)) (ad k x).
Hypothesis HabsF : forall k x, length x = sdim (adm k) ->
  fd (sdim (adm k)) (sdim (arn k)) (af k) x.

(* ---------- leaves ---------- *)
Lemma leaf_fd l x :
  lwt P l = true -> length x = sdim (ldom P l) -> lderiv_ok P l x = true -> lregular l x ->
  fd (sdim (ldom P l)) (sdim (lran P l)) (leval P l) x.
Proof.
  intros Hw Hx Hok Hreg.
  destruct (llin l) eqn:Hl.
  { apply fd_lin; [apply (llin_blin af ad adm arn Habs l Hl Hw)|exact Hx]. }
  destruct l; try discriminate Hl.
  - (* LConst *)
    cbn [ldom lran lwt leval] in *. apply Nat.eqb_eq in Hw. apply fd_const; assumption.
  - (* LPow *)
    cbn [ldom lran lwt leval lregular] in *.
    apply (fd_map _ (fun a => zpow a p) (fun a => IZR p * zpow a (p - 1))); [exact Hx|].
    intros i Hi. destruct (Z_le_gt_dec p 0) as [Hp|Hp].
    + apply zpow_deriv_nonpos; [exact Hp|]. apply Hreg; [exact Hp|lia].
    + apply zpow_deriv_pos. lia.
  - (* LUf *)
    cbn [llin ldom lran lwt leval lregular lderiv_ok sdim] in *.
    destruct (ufunc_deriv f) as [e|] eqn:He; [|congruence].
    apply (fd_map _ (usem P f) (ueval P e)); [exact Hx|].
    intros i Hi. apply (ufunc_deriv_table_sound af ad adm arn f e He). apply Hreg. lia.
  - (* LNorm *)
    cbn [lderiv_ok ldom lran lwt leval lregular sdim PR rt] in *.
    assert (Hnz : sqrt (wdot w x x) <> 0).
    { numR. destruct (Reqb_spec (sqrt (wdot w x x)) 0); [discriminate Hok|assumption]. }
    assert (Hpos : 0 < wdot w x x).
    { destruct (Rle_or_lt (wdot w x x) 0) as [Hle|Hlt]; [|exact Hlt].
      exfalso. apply Hnz. apply sqrt_neg_0. exact Hle. }
    apply fd_wnorm; assumption.
  - (* LDist *)
    cbn [lderiv_ok ldom lran lwt leval lregular sdim PR rt] in *. apply Nat.eqb_eq in Hw.
    set (df := vsub x v) in *.
    assert (Hnz : sqrt (wdot w df df) <> 0).
    { numR. destruct (Reqb_spec (sqrt (wdot w df df)) 0); [discriminate Hok|assumption]. }
    assert (Hpos : 0 < wdot w df df).
    { destruct (Rle_or_lt (wdot w df df) 0) as [Hle|Hlt]; [|exact Hlt].
      exfalso. apply Hnz. apply sqrt_neg_0. exact Hle. }
    rewrite <- Hw.
    apply (fd_comp (length w) (length w) 1 (fun y => [sqrt (wdot w y y)]) (fun y => vsub y v));
      [apply fd_sub_const; congruence|].
    apply fd_wnorm; [|exact Hpos]. apply vsub_len; congruence.
  - (* LAbs *)
    cbn [ldom lran leval PR afun adom aran] in *. apply HabsF; exact Hx.
  - (* LPwNorm *)
    cbn [lwt] in Hw. apply andb_prop in Hw as [Hp Hk].
    assert (Hp' : p = 1%Z \/ p = 2%Z) by (apply orb_prop in Hp as [E|E]; apply Z.eqb_eq in E; auto).
    destruct Hp' as [-> | ->];
      cbn [ldom lran leval lregular sdim Z.eqb Pos.eqb] in *; rewrite ?list_sum_repeat in *.
    + unfold pwnorm1.
      apply (fd_pwsum (fun a _ => map Rabs a) (fun y => forall i, nth i y 0 <> 0 \/ (length y <= i)%nat)).
      * intros y Hy HC. apply (fd_map n Rabs sgnR); [exact Hy|].
        intros i Hi. apply dpl_abs. destruct (HC i) as [H|H]; [exact H|lia].
      * intros y HC i. destruct (lt_dec i n) as [Hi|Hi].
        -- rewrite nth_firstn0 by exact Hi. destruct (HC i) as [H|H]; [left; exact H|].
           right. rewrite firstn_length. lia.
        -- right. rewrite firstn_length. lia.
      * intros y HC i. rewrite nth_skipn0, skipn_length. destruct (HC (n + i)%nat) as [H|H]; [left; exact H|right; lia].
      * exact Hx.
      * intros i. destruct (lt_dec i (length x)) as [Hi|Hi]; [left; apply Hreg; exact Hi|right; lia].
    + unfold pwnorm2. cbn [PR rt].
      apply (fd_comp (length w * n) n n (map sqrt) (pwnormsq n w)).
      * unfold pwnormsq. apply (fd_pwsum vmul (fun _ => True)); auto.
        intros y Hy _. apply fd_mul; apply fd_id; exact Hy.
      * apply fd_sqrt; [|exact Hreg].
        unfold pwnormsq. apply pwsum_len; auto. intros a b Ha Hb. apply vmul_len; assumption.
  - (* LCMod *)
    cbn [ldom lran lwt leval lregular PR rt] in *.
    assert (Hf : is_field s = false) by (destruct (is_field s); [discriminate Hw|reflexivity]).
    apply (fd_comp (sdim s) (rdim s) (rdim s) (map sqrt) (cmod2 s)).
    + unfold cmod2. apply fd_add; apply fd_mul; apply fd_lin; auto using re_blin, im_blin.
    + apply fd_sqrt; [apply cmod2_len; assumption|exact Hreg].
  - (* LCMod2 *)
    cbn [ldom lran lwt leval lregular] in *.
    assert (Hf : is_field s = false) by (destruct (is_field s); [discriminate Hw|reflexivity]).
    unfold cmod2. apply fd_add; apply fd_mul; apply fd_lin; auto using re_blin, im_blin.
Qed.

(* ---------- trees ---------- *)
Definition fdq (a : oexprR) : Prop := forall x,
  wt P a = true -> length x = sdim (dom P a) -> deriv_ok P a x = true -> regular a x ->
  fd (dsz a) (rsz a) (eval P a) x.

Lemma lin_fd e x : is_lin e = true -> wt P e = true -> length x = sdim (dom P e) ->
  fd (dsz e) (rsz e) (eval P e) x.
Proof. intros Hl Hw Hx. apply fd_lin; [apply (lin_blin af ad adm arn Habs e Hl Hw)|exact Hx]. Qed.

Lemma sub_fd a x : fdq a -> wt P a = true -> length x = sdim (dom P a) ->
  is_lin a || deriv_ok P a x = true -> regular a x -> fd (dsz a) (rsz a) (eval P a) x.
Proof.
  intros Q Hw Hx Hok Hreg. destruct (is_lin a) eqn:Hl; [apply lin_fd; assumption|].
  cbn [orb] in Hok. apply Q; assumption.
Qed.

Lemma bc_fd ops s : Forall fdq ops -> Forall bwt ops -> Forall (fun a => dom P a = s) ops ->
  forall x, length x = sdim s ->
  forallb (fun a => deriv_ok P a x) ops = true -> regular (OBroadcast ops) x ->
  fd (sdim s) (list_sum (map rsz ops)) (fun y => concat (map (fun a => eval P a y) ops)) x.
Proof.
  induction 1 as [|a r Ha _ IH]; intros Hb Hd x Hx Hok Hreg.
  - cbn [map concat list_sum]. apply fd_const; [reflexivity|exact Hx].
  - inversion Hb as [|? ? (Wa & Sa & Ta) Hb']; subst. inversion Hd as [|? ? Da Hd']; subst.
    cbn [forallb] in Hok. apply andb_prop in Hok as [Oa Or].
    apply regular_bc_cons in Hreg as [Ra Rr].
    cbn [map concat]. rewrite lsc. apply fd_app; [apply Ha; assumption|apply IH; assumption].
Qed.

Lemma diag_fd ops : Forall fdq ops -> Forall bwt ops ->
  forall x, length x = list_sum (map dsz ops) ->
  forallb (fun b => b) (blockmap (deriv_ok P) dsz ops x) = true -> regular (ODiagonal ops) x ->
  fd (list_sum (map dsz ops)) (list_sum (map rsz ops)) (fun y => concat (blockmap (eval P) dsz ops y)) x.
Proof.
  induction 1 as [|a r Ha _ IH]; intros Hb x Hx Hok Hreg.
  - exact (fd_const _ 0%nat [] x eq_refl Hx).
  - inversion Hb as [|? ? (Wa & Sa & Ta) Hb']; subst.
    rewrite bmc in Hok. cbn [forallb] in Hok. apply andb_prop in Hok as [Oa Or].
    apply regular_diag_cons in Hreg as [Ra Rr].
    cbn [map] in *. rewrite lsc in *.
    apply (fd_ext _ _ (fun y => eval P a (firstn (dsz a) y) ++ concat (blockmap (eval P) dsz r (skipn (dsz a) y))));
      [intros y _; reflexivity|].
    apply fd_app.
    + apply (fd_lin_before _ (dsz a) _ (firstn (dsz a)) (eval P a)); [apply blin_firstn_add|exact Hx|].
      apply Ha; auto. unfold dsize. rewrite firstn_length. unfold dsize in Hx. lia.
    + apply (fd_lin_before _ (list_sum (map dsz r)) _ (skipn (dsz a))
               (fun y => concat (blockmap (eval P) dsz r y))); [apply blin_skipn_add|exact Hx|].
      apply IH; auto. rewrite skipn_length. lia.
Qed.

Lemma red_fd ops m : Forall fdq ops -> Forall bwt ops -> Forall (fun a => rsz a = m) ops ->
  forall x, length x = list_sum (map dsz ops) ->
  forallb (fun b => b) (blockmap (deriv_ok P) dsz ops x) = true -> regular (ODiagonal ops) x ->
  fd (list_sum (map dsz ops)) m (fun y => vsum m (blockmap (eval P) dsz ops y)) x.
Proof.
  induction 1 as [|a r Ha _ IH]; intros Hb Hm x Hx Hok Hreg.
  - exact (fd_const _ m (vconst m 0) x (vconst_len m 0) Hx).
  - inversion Hb as [|? ? (Wa & Sa & Ta) Hb']; subst. inversion Hm as [|? ? Ma Hm']; subst.
    rewrite bmc in Hok. cbn [forallb] in Hok. apply andb_prop in Hok as [Oa Or].
    apply regular_diag_cons in Hreg as [Ra Rr].
    cbn [map] in *. rewrite lsc in *.
    apply (fd_ext _ _ (fun y => vadd (eval P a (firstn (dsz a) y))
                                  (vsum (rsz a) (blockmap (eval P) dsz r (skipn (dsz a) y)))));
      [intros y _; reflexivity|].
    apply fd_add.
    + apply (fd_lin_before _ (dsz a) _ (firstn (dsz a)) (eval P a)); [apply blin_firstn_add|exact Hx|].
      apply Ha; auto. unfold dsize. rewrite firstn_length. unfold dsize in Hx. lia.
    + apply (fd_lin_before _ (list_sum (map dsz r)) _ (skipn (dsz a))
               (fun y => vsum (rsz a) (blockmap (eval P) dsz r y))); [apply blin_skipn_add|exact Hx|].
      apply IH; auto. rewrite skipn_length. lia.
Qed.

Lemma pso_fd cs rs ents :
  Forall (fun t : nat * nat * oexprR => fdq (snd t)) ents -> Forall (ewt cs rs) ents ->
  forall x, length x = list_sum cs ->
  forallb (fun t : nat * nat * oexprR => let '(_, j, a) := t in deriv_ok P a (proj cs j x)) ents = true ->
  regular (OPSO cs rs ents) x ->
  fd (list_sum cs) (list_sum rs) (eval P (OPSO cs rs ents)) x.
Proof.
  induction 1 as [|[[i j] a] r Ha _ IH]; intros Hw x Hx Hok Hreg.
  - cbn [eval fold_right]. apply fd_const; [apply vconst_len|exact Hx].
  - inversion Hw as [|? ? Hwa Hw']; subst.
    unfold Proofs.ewt in Hwa; cbn beta iota in Hwa; destruct Hwa as (W1 & W2 & W3 & W4 & W5).
    cbn [forallb] in Hok. apply andb_prop in Hok as [Oa Or].
    destruct Hreg as [Ra Rr]. cbn [snd] in Ha.
    apply (fd_ext _ _ (fun y => vadd (embed rs i (eval P a (proj cs j y))) (eval P (OPSO cs rs r) y)));
      [intros y _; reflexivity|].
    apply fd_add; [|apply IH; assumption].
    apply (fd_lin_after _ (nth i rs 0%nat) _ (embed rs i) (fun y => eval P a (proj cs j y))); [apply blin_embed; exact W2|].
    apply (fd_lin_before _ (nth j cs 0%nat) _ (proj cs j) (eval P a)); [apply blin_proj; exact W3|exact Hx|].
    assert (Hpl : length (proj cs j x) = sdim (dom P a)).
    { rewrite W4. cbn [sdim]. apply proj_len; assumption. }
    pose proof (Ha (proj cs j x) W1 Hpl Oa Ra) as Q. unfold dsize, Proofs.rsz in Q. rewrite W4, W5 in Q. exact Q.
Qed.

Theorem tree_fd e : fdq e.
Proof.
  unfold fdq.
  induction e as [l|a IHa b IHb|a IHa v|a IHa b IHb|a IHa b IHb|a IHa s|a IHa s|a IHa v|a IHa v|a IHa v
                  |ops IH|ops IH|ops IH|cs rs ents IH] using oexpr_ind2;
    intros x Hw Hx Hok Hreg.
  - (* leaf *) apply leaf_fd; assumption.
  - (* OSum *)
    destruct (is_lin (OSum a b)) eqn:Hl; [apply lin_fd; assumption|].
    cbn [is_lin] in Hl. cbn [deriv_ok regular] in *. rewrite Hl in Hok.
    cbn [orb] in Hok. apply andb_prop in Hok as [Oa Ob]. destruct Hreg as [Ra Rb].
    unfold dsize, Proofs.rsz. cbn [wt dom ran eval] in *.
    apply andb_prop in Hw as [Hw Hr]. apply andb_prop in Hw as [Hw Hd]. apply andb_prop in Hw as [Wa Wb].
    apply space_eqb_eq in Hr, Hd.
    apply fd_add; [apply IHa; assumption|].
    pose proof (IHb x Wb ltac:(rewrite <- Hd; exact Hx) Ob Rb) as Q.
    unfold dsize, Proofs.rsz in Q. rewrite <- Hd, <- Hr in Q. exact Q.
  - (* OVecSum *)
    cbn [deriv_ok regular] in *. unfold dsize, Proofs.rsz. cbn [wt dom ran eval] in *.
    apply andb_prop in Hw as [Hw Hv]. apply andb_prop in Hw as [Wa _]. apply Nat.eqb_eq in Hv.
    apply fd_add; [apply IHa; assumption|apply fd_const; assumption].
  - (* OComp *)
    destruct (is_lin (OComp a b)) eqn:Hl; [apply lin_fd; assumption|].
    cbn [is_lin] in Hl. cbn [deriv_ok regular] in *. rewrite Hl in Hok.
    cbn [orb] in Hok. apply andb_prop in Hok as [Oa Ob]. destruct Hreg as [Rb Ra].
    unfold dsize, Proofs.rsz. cbn [wt dom ran eval] in *.
    apply andb_prop in Hw as [Hw Hr]. apply andb_prop in Hw as [Wa Wb]. apply space_eqb_eq in Hr.
    assert (Hyl : length (eval P b x) = sdim (dom P a)).
    { rewrite <- Hr. apply (eval_len af ad adm arn Habs b Wb x Hx). }
    apply (fd_comp _ (sdim (dom P a)) _ (eval P a) (eval P b)).
    + pose proof (IHb x Wb Hx Ob Rb) as Q. unfold dsize, Proofs.rsz in Q. rewrite Hr in Q. exact Q.
    + apply (sub_fd a (eval P b x) IHa Wa Hyl Oa Ra).
  - (* OPProd *)
    cbn [deriv_ok regular] in *. apply andb_prop in Hok as [Oa Ob]. destruct Hreg as [Ra Rb].
    unfold dsize, Proofs.rsz. cbn [wt dom ran eval] in *.
    apply andb_prop in Hw as [Hw _].
    apply andb_prop in Hw as [Hw Hr]. apply andb_prop in Hw as [Hw Hd]. apply andb_prop in Hw as [Wa Wb].
    apply space_eqb_eq in Hr, Hd.
    apply fd_mul; [apply IHa; assumption|].
    pose proof (IHb x Wb ltac:(rewrite <- Hd; exact Hx) Ob Rb) as Q.
    unfold dsize, Proofs.rsz in Q. rewrite <- Hd, <- Hr in Q. exact Q.
  - (* OLScal *)
    cbn [deriv_ok regular] in *. unfold dsize, Proofs.rsz. cbn [wt dom ran eval] in *.
    apply (fd_lin_after _ (sdim (ran P a)) _ (vscal s) (eval P a)); [apply blin_scale|].
    apply (sub_fd a x IHa Hw Hx Hok Hreg).
  - (* ORScal *)
    cbn [deriv_ok regular] in *. unfold dsize, Proofs.rsz. cbn [wt dom ran eval] in *.
    apply (fd_lin_before _ (sdim (dom P a)) _ (vscal s) (eval P a)); [apply blin_scale|exact Hx|].
    apply IHa; auto. rewrite vscal_len. exact Hx.
  - (* OLVec *)
    cbn [deriv_ok regular] in *. unfold dsize, Proofs.rsz. cbn [wt dom ran eval] in *.
    apply andb_prop in Hw as [Hw _]. apply andb_prop in Hw as [Hw Hv]. apply andb_prop in Hw as [Wa _].
    apply Nat.eqb_eq in Hv.
    apply (fd_lin_after _ (sdim (ran P a)) _ (fun y => vmul y v) (eval P a)); [apply blin_mulv; exact Hv|].
    apply (sub_fd a x IHa Wa Hx Hok Hreg).
  - (* ORVec *)
    cbn [deriv_ok regular] in *. unfold dsize, Proofs.rsz. cbn [wt dom ran eval] in *.
    apply andb_prop in Hw as [Hw _]. apply andb_prop in Hw as [Hw Hv]. apply andb_prop in Hw as [Wa _].
    apply Nat.eqb_eq in Hv.
    apply (fd_lin_before _ (sdim (dom P a)) _ (fun y => vmul y v) (eval P a)); [apply blin_mulv; exact Hv|exact Hx|].
    rewrite (vmul_comm x v).
    apply (sub_fd a (vmul v x) IHa Wa); [apply vmul_len; assumption|exact Hok|exact Hreg].
  - (* OFLVec *)
    cbn [deriv_ok regular] in *. unfold dsize, Proofs.rsz. cbn [wt dom ran eval sdim] in *.
    apply andb_prop in Hw as [Wa Hr]. apply space_eqb_eq in Hr.
    apply (fd_lin_after _ 1 _ (fun y => vscal (hd 0 y) v) (eval P a)); [apply blin_outer; reflexivity|].
    pose proof (sub_fd a x IHa Wa Hx Hok Hreg) as Q. unfold dsize, Proofs.rsz in Q. rewrite Hr in Q. exact Q.
  - (* OBroadcast *)
    apply (wt_bc af ad adm arn) in Hw as (a0 & r & -> & Hb & Hd).
    cbn [deriv_ok] in Hok. unfold dsize, Proofs.rsz. cbn [dom ran eval sdim] in *.
    apply (bc_fd _ (dom P a0)); assumption.
  - (* OReduction *)
    apply (wt_red af ad adm arn) in Hw as (a0 & r & -> & Hb & Hr).
    cbn [deriv_ok] in Hok. unfold dsize, Proofs.rsz. cbn [dom ran eval sdim] in *.
    change (regular (OReduction (a0 :: r)) x) with (regular (ODiagonal (a0 :: r)) x) in Hreg.
    apply (red_fd (a0 :: r) (sdim (ran P a0))); auto.
    eapply Forall_impl; [|exact Hr]. intros a Ha. unfold Proofs.rsz. rewrite Ha. reflexivity.
  - (* ODiagonal *)
    apply (wt_diag af ad adm arn) in Hw as [Hne Hb].
    cbn [deriv_ok] in Hok. unfold dsize, Proofs.rsz. cbn [dom ran eval sdim] in *.
    apply (diag_fd ops); assumption.
  - (* OPSO *)
    destruct (is_lin (OPSO cs rs ents)) eqn:Hl; [apply lin_fd; assumption|].
    cbn [is_lin] in Hl. cbn [deriv_ok] in Hok. rewrite Hl in Hok. cbn [orb] in Hok.
    apply (wt_pso af ad adm arn) in Hw. unfold dsize, Proofs.rsz. cbn [dom ran sdim] in *.
    apply pso_fd; assumption.
Qed.

(* ---------- the statement of the property, literally ---------- *)
Theorem deriv_frechet e x :
  wt P e = true -> length x = sdim (dom P e) -> deriv_ok P e x = true -> regular e x ->
  fdiff (dsz e) (rsz e) (eval P e) x (eval P (derivative P e x)).
Proof.
  intros Hw Hx Hok Hreg.
  destruct (tree_fd e x Hw Hx Hok Hreg) as (L & HL & BL).
  destruct (deriv_sound af ad adm arn Habs e x Hw Hx Hok Hreg) as (Hh & _).
  apply (fdiff_extL _ _ _ _ L); [|exact HL].
  apply (fdiff_hdiff_agree (dsz e) (rsz e) (eval P e) x L (eval P (derivative P e x)) HL BL Hh).
Qed.

Theorem deriv_frechet_norm e x :
  wt P e = true -> length x = sdim (dom P e) -> deriv_ok P e x = true -> regular e x ->
  forall eps, 0 < eps -> exists delta, 0 < delta /\
    forall h, length h = sdim (dom P e) -> supn h < delta ->
      supn (vsub (vsub (eval P e (vadd x h)) (eval P e x)) (eval P (derivative P e x) h)) <= eps * supn h.
Proof. intros Hw Hx Hok Hreg. apply (fdiff_norm _ _ _ _ _ (deriv_frechet e x Hw Hx Hok Hreg)). Qed.

(* ... and in the Euclidean norm (all norms on R^n are equivalent; ODL's weighted
   2-norms differ from this one by constant factors only) *)
Theorem deriv_frechet_norm2 e x :
  wt P e = true -> length x = sdim (dom P e) -> deriv_ok P e x = true -> regular e x ->
  forall eps, 0 < eps -> exists delta, 0 < delta /\
    forall h, length h = sdim (dom P e) -> norm2 h < delta ->
      norm2 (vsub (vsub (eval P e (vadd x h)) (eval P e x)) (eval P (derivative P e x) h)) <= eps * norm2 h.
Proof. intros Hw Hx Hok Hreg. apply (fdiff_norm2 _ _ _ _ _ (deriv_frechet e x Hw Hx Hok Hreg)). Qed.

End Trees.

(* non-vacuity: the cubic user-defined leaf of Proofs.v satisfies the added premise *)
Lemma ex_HabsF : forall k x, length x = sdim (ex_dm k) ->
  fd (sdim (ex_dm k)) (sdim (ex_dm k)) (ex_af k) x.
Proof.
  intros k x Hx. cbn [ex_dm sdim] in *. apply (fd_map k cubicR cubicR'); [exact Hx|].
  intros i _. apply dpl_cubic.
Qed.
