(* C06/Transfer.v -- the model executed at Q by the correspondence shards is the
   rational restriction of the model the theorems are about: on the polynomial
   part of the model (no square root, no transcendental ufunc, no division),
   Q2R commutes with [eval], [is_lin], [dom], [ran] and [derivative].
   [omap] maps an operator over Q to the same operator over R (every constant
   through Q2R); the user-defined leaf is the harness's cubic operator on both
   sides ([primsQ] of C06/Corr.v, [ex_af]/[ex_ad] of C06/Proofs.v). *)
From Coq Require Import ZArith QArith Qreals Reals Lra Lia List Bool.
From Verif Require Import Base.Num Base.Vec Base.Transfer C06.Syntax Gen.UfuncDeriv C06.Model C06.OInd
  C06.Corr C06.Calc C06.Leaves C06.Proofs.
Import ListNotations.

Notation QR := (map Q2R).
Notation PQ := primsQ.
Notation PRq := (PR ex_af ex_ad ex_dm ex_dm).

(* ---------- the carrier map on operators ---------- *)
Definition lmap (l : @leaf Q) : @leaf R :=
  match l with
  | LScale s c => LScale s (Q2R c)
  | LMul s v => LMul s (QR v)
  | LMat n rows => LMat n (map QR rows)
  | LInner w v => LInner (QR w) (QR v)
  | LZero s t => LZero s t
  | LConst s t c => LConst s t (QR c)
  | LPow s p => LPow s p
  | LUf f n => LUf f n
  | LNorm w => LNorm (QR w)
  | LDist w v => LDist (QR w) (QR v)
  | LAbs k => LAbs k
  | LAbsD k x => LAbsD k (QR x)
  | LPwNorm n p w => LPwNorm n p (QR w)
  | LPwInner n w vf => LPwInner n (QR w) (QR vf)
  | LRe s => LRe s
  | LIm s => LIm s
  | LCMod s => LCMod s
  | LCMod2 s => LCMod2 s
  | LCModD q s x => LCModD q s (QR x)
  end.
Fixpoint omap (e : @oexpr Q) : @oexpr R :=
  match e with
  | OLeaf l => OLeaf (lmap l)
  | OSum a b => OSum (omap a) (omap b)
  | OVecSum a v => OVecSum (omap a) (QR v)
  | OComp a b => OComp (omap a) (omap b)
  | OPProd a b => OPProd (omap a) (omap b)
  | OLScal a s => OLScal (omap a) (Q2R s)
  | ORScal a s => ORScal (omap a) (Q2R s)
  | OLVec a v => OLVec (omap a) (QR v)
  | ORVec a v => ORVec (omap a) (QR v)
  | OFLVec a v => OFLVec (omap a) (QR v)
  | OBroadcast ops => OBroadcast (map omap ops)
  | OReduction ops => OReduction (map omap ops)
  | ODiagonal ops => ODiagonal (map omap ops)
  | OPSO cs rs ents => OPSO cs rs (map (fun t : nat * nat * @oexpr Q => let '(i, j, a) := t in (i, j, omap a)) ents)
  end.

(* ---------- the polynomial part ---------- *)
Definition lpoly (l : @leaf Q) : bool :=
  match l with
  | LScale _ _ | LMul _ _ | LMat _ _ | LInner _ _ | LZero _ _ | LConst _ _ _ | LAbs _ | LAbsD _ _
  | LPwInner _ _ _ | LRe _ | LIm _ | LCMod2 _ => true
  | LCModD q _ _ => q
  | LPow _ p => (1 <=? p)%Z
  | LUf f _ => match f with Usquare | Unegative => true | _ => false end
  | _ => false
  end.
Fixpoint tpoly (e : @oexpr Q) : bool :=
  match e with
  | OLeaf l => lpoly l
  | OSum a b | OComp a b | OPProd a b => tpoly a && tpoly b
  | OVecSum a _ | OLScal a _ | ORScal a _ | OLVec a _ | ORVec a _ | OFLVec a _ => tpoly a
  | OBroadcast ops | OReduction ops | ODiagonal ops => forallb tpoly ops
  | OPSO _ _ ents => forallb (fun t : nat * nat * @oexpr Q => let '(_, _, a) := t in tpoly a) ents
  end.

(* ---------- vectors ---------- *)
Lemma vmap2_tr (f : Q -> Q -> Q) (g : R -> R -> R) :
  (forall u v, Q2R (f u v) = g (Q2R u) (Q2R v)) ->
  forall a b, QR (vmap2 f a b) = vmap2 g (QR a) (QR b).
Proof.
  intros Hf a. induction a as [|u a IH]; intros [|v b]; cbn [vmap2 map]; try reflexivity.
  rewrite Hf, IH. reflexivity.
Qed.
Lemma vadd_tr a b : QR (vadd a b) = vadd (QR a) (QR b).
Proof. apply vmap2_tr. apply Q2R_nadd. Qed.
Lemma vsub_tr a b : QR (vsub a b) = vsub (QR a) (QR b).
Proof. apply vmap2_tr. apply Q2R_nsub. Qed.
Lemma vmul_tr a b : QR (vmul a b) = vmul (QR a) (QR b).
Proof. apply vmap2_tr. apply Q2R_nmul. Qed.
Lemma vscal_tr c a : QR (vscal c a) = vscal (Q2R c) (QR a).
Proof. unfold vscal. rewrite !map_map. apply map_ext. intros u. apply Q2R_nmul. Qed.
Lemma sumf_tr l : Q2R (sumf l) = sumf (QR l).
Proof. induction l as [|a l IH]; cbn [sumf map]; [apply Q2R_nzero|]. rewrite Q2R_nadd, IH. reflexivity. Qed.
Lemma dot_tr a b : Q2R (dot a b) = dot (QR a) (QR b).
Proof. unfold dot. rewrite sumf_tr, vmul_tr. reflexivity. Qed.
Lemma wdot_tr w a b : Q2R (wdot w a b) = wdot (QR w) (QR a) (QR b).
Proof. unfold wdot. rewrite sumf_tr, !vmul_tr. reflexivity. Qed.
Lemma mvec_tr rows x : QR (mvec rows x) = mvec (map QR rows) (QR x).
Proof. unfold mvec. rewrite !map_map. apply map_ext. intros r. apply dot_tr. Qed.
Lemma vconst_tr n : QR (vconst n nzero) = vconst n nzero.
Proof. unfold vconst. induction n as [|n IH]; cbn [repeat map]; [reflexivity|]. rewrite Q2R_nzero, IH. reflexivity. Qed.
Lemma hd_tr l : Q2R (hd nzero l) = hd nzero (QR l).
Proof. destruct l; [apply Q2R_nzero|reflexivity]. Qed.
Lemma concat_tr (l : list (list Q)) : QR (concat l) = concat (map QR l).
Proof. apply concat_map. Qed.
Lemma vsum_tr m l : QR (vsum m l) = vsum m (map QR l).
Proof.
  unfold vsum. induction l as [|v l IH]; cbn [fold_right map]; [apply vconst_tr|]. rewrite vadd_tr, IH. reflexivity.
Qed.
Lemma firstn_tr n (x : list Q) : QR (firstn n x) = firstn n (QR x).
Proof. symmetry. apply firstn_map. Qed.
Lemma skipn_tr n (x : list Q) : QR (skipn n x) = skipn n (QR x).
Proof. symmetry. apply skipn_map. Qed.
Lemma proj_tr cs j x : QR (proj cs j x) = proj cs j (QR x).
Proof. unfold proj. rewrite firstn_tr, skipn_tr. reflexivity. Qed.
Lemma embed_tr rs i v : QR (embed rs i v) = embed rs i (QR v).
Proof. unfold embed. rewrite !map_app, !vconst_tr. reflexivity. Qed.
Lemma npow_tr a n : Q2R (npow a n) = npow (Q2R a) n.
Proof. induction n as [|n IH]; cbn [npow]; [apply Q2R_none|]. rewrite Q2R_nmul, IH. reflexivity. Qed.
Lemma zpow_tr a p : (0 <= p)%Z -> Q2R (zpow a p) = zpow (Q2R a) p.
Proof. intros Hp. unfold zpow. destruct (Z.leb_spec 0 p); [|lia]. apply npow_tr. Qed.

(* the harness's user-defined operator on both carriers *)
Lemma cubic_tr a : Q2R (cubic a) = cubicR (Q2R a).
Proof. unfold cubic, cubicR. rewrite Q2R_red, Q2R_minus, !Q2R_mult. reflexivity. Qed.
Lemma cubic'_tr a : Q2R (cubic' a) = cubicR' (Q2R a).
Proof.
  unfold cubic', cubicR'. rewrite Q2R_red, Q2R_minus, !Q2R_mult.
  replace (Q2R 3) with 3%R by (unfold Q2R; cbn; lra). replace (Q2R 1) with 1%R by (unfold Q2R; cbn; lra). reflexivity.
Qed.

(* ---------- spaces and flags ---------- *)
Lemma all_zero_tr c : all_zero (QR c) = all_zero c.
Proof.
  unfold all_zero. induction c as [|a c IH]; cbn [map forallb]; [reflexivity|].
  rewrite IH. f_equal. rewrite <- Q2R_nzero. symmetry. apply Q2R_neqb.
Qed.
Lemma ldom_tr l : ldom PRq (lmap l) = ldom PQ l.
Proof. destruct l; cbn [lmap ldom]; rewrite ?map_length; reflexivity. Qed.
Lemma lran_tr l : lran PRq (lmap l) = lran PQ l.
Proof. destruct l; cbn [lmap lran]; rewrite ?map_length; reflexivity. Qed.
Lemma llin_tr l : llin (lmap l) = llin l.
Proof. destruct l; cbn [lmap llin]; try reflexivity. apply all_zero_tr. Qed.

Lemma dom_tr e : dom PRq (omap e) = dom PQ e.
Proof.
  induction e using oexpr_indT; cbn [omap dom]; auto using ldom_tr.
  - destruct ops as [|a r]; [reflexivity|]. cbn [map]. inversion H; subst. assumption.
  - f_equal. rewrite map_map. induction H as [|a r Ha _ IH]; cbn [map]; [reflexivity|]. rewrite Ha, IH. reflexivity.
  - f_equal. rewrite map_map. induction H as [|a r Ha _ IH]; cbn [map]; [reflexivity|]. rewrite Ha, IH. reflexivity.
Qed.
Lemma ran_tr e : ran PRq (omap e) = ran PQ e.
Proof.
  induction e using oexpr_indT; cbn [omap ran]; auto using lran_tr.
  - rewrite map_length. reflexivity.
  - f_equal. rewrite map_map. induction H as [|a r Ha _ IH]; cbn [map]; [reflexivity|]. rewrite Ha, IH. reflexivity.
  - destruct ops as [|a r]; [reflexivity|]. cbn [map]. inversion H; subst. assumption.
  - f_equal. rewrite map_map. induction H as [|a r Ha _ IH]; cbn [map]; [reflexivity|]. rewrite Ha, IH. reflexivity.
Qed.
Lemma dsize_tr e : dsize PRq (omap e) = dsize PQ e.
Proof. unfold dsize. rewrite dom_tr. reflexivity. Qed.

Lemma forallb_map_tr (f : @oexpr R -> bool) (g : @oexpr Q -> bool) ops :
  Forall (fun a => f (omap a) = g a) ops -> forallb f (map omap ops) = forallb g ops.
Proof. induction 1 as [|a r Ha _ IH]; cbn [map forallb]; [reflexivity|]. rewrite Ha, IH. reflexivity. Qed.

Lemma is_lin_tr e : is_lin (omap e) = is_lin e.
Proof.
  induction e using oexpr_indT; cbn [omap is_lin]; auto using llin_tr; try (rewrite IHe1, IHe2; reflexivity);
    try (apply forallb_map_tr; assumption).
  induction H as [|[[i j] a] r Ha _ IH]; cbn [map forallb]; [reflexivity|]. cbn [snd] in Ha. rewrite Ha, IH. reflexivity.
Qed.

(* ---------- eval ---------- *)
Lemma usem_tr f a : match f with Usquare | Unegative => true | _ => false end = true ->
  Q2R (usem PQ f a) = usem PRq f (Q2R a).
Proof. destruct f; intros E; try discriminate E; cbn [usem]; [apply Q2R_nmul|apply Q2R_nopp]. Qed.

Lemma leval_tr l x : lpoly l = true -> QR (leval PQ l x) = leval PRq (lmap l) (QR x).
Proof.
  destruct l; cbn [lpoly]; intros Hp; try discriminate Hp; cbn [lmap leval].
  - apply vscal_tr.
  - apply vmul_tr.
  - apply mvec_tr.
  - cbn [map]. rewrite wdot_tr. reflexivity.
  - apply vconst_tr.
  - reflexivity.
  - rewrite !map_map. apply map_ext. intros a. apply zpow_tr. apply Z.leb_le in Hp. lia.
  - rewrite !map_map. apply map_ext. intros a. apply usem_tr. exact Hp.
  - cbn [PR afun primsQ]. unfold ex_af. rewrite !map_map. apply map_ext. intros a. apply cubic_tr.
  - cbn [PR ader primsQ]. unfold ex_ad. rewrite vmul_tr. f_equal. rewrite !map_map. apply map_ext. intros a. apply cubic'_tr.
  - unfold pwinner. revert x vf. induction w as [|wi w IH]; intros x vf; cbn [pwsum map].
    + apply vconst_tr.
    + rewrite vadd_tr, vscal_tr, vmul_tr, !firstn_tr, IH, !skipn_tr. reflexivity.
  - destruct s; cbn [re_of]; [reflexivity|reflexivity|reflexivity|apply firstn_tr].
  - destruct s; cbn [im_of sdim]; try apply vconst_tr. apply skipn_tr.
  - unfold cmod2. rewrite vadd_tr, !vmul_tr.
    assert (Hre : forall y, QR (re_of s y) = re_of s (QR y)) by (intros y; destruct s; cbn [re_of]; try reflexivity; apply firstn_tr).
    assert (Him : forall y, QR (im_of s y) = im_of s (QR y)) by (intros y; destruct s; cbn [im_of sdim]; try apply vconst_tr; apply skipn_tr).
    rewrite !Hre, !Him. reflexivity.
  - subst sq. unfold redot. rewrite vscal_tr, vadd_tr, !vmul_tr.
    assert (Hre : forall y, QR (re_of s y) = re_of s (QR y)) by (intros y; destruct s; cbn [re_of]; try reflexivity; apply firstn_tr).
    assert (Him : forall y, QR (im_of s y) = im_of s (QR y)) by (intros y; destruct s; cbn [im_of sdim]; try apply vconst_tr; apply skipn_tr).
    rewrite !Hre, !Him, Q2R_of_Z. reflexivity.
Qed.

Definition eval_ok (e : @oexpr Q) : Prop :=
  tpoly e = true -> forall x, QR (eval PQ e x) = eval PRq (omap e) (QR x).

Lemma blockmap_eval_tr ops : Forall eval_ok ops -> forallb tpoly ops = true ->
  forall x, map QR (blockmap (eval PQ) (dsize PQ) ops x) = blockmap (eval PRq) (dsize PRq) (map omap ops) (QR x).
Proof.
  induction 1 as [|a r Ha _ IH]; intros Hp x; cbn [blockmap map]; [reflexivity|].
  cbn [forallb] in Hp. apply andb_prop in Hp as [Pa Pr].
  rewrite dsize_tr, <- firstn_tr, <- skipn_tr, Ha, IH by assumption. reflexivity.
Qed.

Theorem eval_transfer e : eval_ok e.
Proof.
  unfold eval_ok.
  induction e as [l|a IHa b IHb|a IHa v|a IHa b IHb|a IHa b IHb|a IHa s|a IHa s|a IHa v|a IHa v|a IHa v
                  |ops IH|ops IH|ops IH|cs rs ents IH] using oexpr_indT;
    cbn [tpoly omap eval]; intros Hp x.
  - apply leval_tr; exact Hp.
  - apply andb_prop in Hp as [Pa Pb]. rewrite vadd_tr, IHa, IHb by assumption. reflexivity.
  - rewrite vadd_tr, IHa by assumption. reflexivity.
  - apply andb_prop in Hp as [Pa Pb]. rewrite IHa, IHb by assumption. reflexivity.
  - apply andb_prop in Hp as [Pa Pb]. rewrite vmul_tr, IHa, IHb by assumption. reflexivity.
  - rewrite vscal_tr, IHa by assumption. reflexivity.
  - rewrite IHa, vscal_tr by assumption. reflexivity.
  - rewrite vmul_tr, IHa by assumption. reflexivity.
  - rewrite IHa, vmul_tr by assumption. reflexivity.
  - rewrite vscal_tr, hd_tr, IHa by assumption. reflexivity.
  - (* Broadcast *)
    rewrite concat_tr, !map_map. f_equal.
    induction IH as [|a r Ha _ IHr]; cbn [map]; [reflexivity|].
    cbn [forallb] in Hp. apply andb_prop in Hp as [Pa Pr]. rewrite Ha, IHr by assumption. reflexivity.
  - (* Reduction *)
    rewrite vsum_tr, (blockmap_eval_tr ops IH Hp).
    destruct ops as [|a r]; [reflexivity|]. cbn [map]. rewrite ran_tr. reflexivity.
  - (* Diagonal *)
    rewrite concat_tr, (blockmap_eval_tr ops IH Hp). reflexivity.
  - (* ProductSpaceOperator *)
    induction IH as [|[[i j] a] r Ha _ IHr]; cbn [fold_right map]; [apply vconst_tr|].
    cbn [forallb] in Hp. apply andb_prop in Hp as [Pa Pr]. cbn [snd] in Ha.
    rewrite vadd_tr, embed_tr, Ha, proj_tr, IHr by assumption. reflexivity.
Qed.

(* ---------- derivative ---------- *)
Lemma mk_lscal_tr s D : omap (mk_lscal s D) = mk_lscal (Q2R s) (omap D).
Proof. destruct D; cbn [mk_lscal omap]; try reflexivity. rewrite Q2R_nmul. reflexivity. Qed.
Lemma mk_mulscal_tr s D : omap (mk_mulscal s D) = mk_mulscal (Q2R s) (omap D).
Proof.
  unfold mk_mulscal. rewrite is_lin_tr. destruct (is_lin D); [apply mk_lscal_tr|].
  destruct D; cbn [omap]; try reflexivity. rewrite Q2R_nmul. reflexivity.
Qed.
Lemma mk_lmul_tr r y D : omap (mk_lmul r y D) = mk_lmul r (QR y) (omap D).
Proof. destruct r; cbn [mk_lmul omap]; try reflexivity. rewrite mk_lscal_tr, hd_tr. reflexivity. Qed.

Lemma lderiv_tr l x : lpoly l = true -> omap (lderiv PQ l x) = lderiv PRq (lmap l) (QR x).
Proof.
  destruct l; cbn [lpoly]; intros Hp; try discriminate Hp; cbn [lmap lderiv]; try reflexivity.
  - (* LPow *)
    rewrite mk_lscal_tr. cbn [omap lmap]. rewrite Q2R_of_Z. f_equal. f_equal. f_equal.
    rewrite !map_map. apply map_ext. intros a. apply zpow_tr. apply Z.leb_le in Hp. lia.
  - (* LUf square / negative: the regenerated table entry of `square` is polynomial *)
    destruct f; try discriminate Hp; cbn [ufunc_deriv omap lmap]; [|reflexivity].
    f_equal. f_equal. rewrite !map_map. apply map_ext. intros a.
    cbn [ueval]. rewrite Q2R_nmul, Q2R_of_Q. reflexivity.
Qed.

Definition deriv_okT (e : @oexpr Q) : Prop :=
  tpoly e = true -> forall x, omap (derivative PQ e x) = derivative PRq (omap e) (QR x).

Lemma blockmap_deriv_tr ops : Forall deriv_okT ops -> forallb tpoly ops = true ->
  forall x, map omap (blockmap (derivative PQ) (dsize PQ) ops x)
            = blockmap (derivative PRq) (dsize PRq) (map omap ops) (QR x).
Proof.
  induction 1 as [|a r Ha _ IH]; intros Hp x; cbn [blockmap map]; [reflexivity|].
  cbn [forallb] in Hp. apply andb_prop in Hp as [Pa Pr].
  rewrite dsize_tr, <- firstn_tr, <- skipn_tr, Ha, IH by assumption. reflexivity.
Qed.

Theorem derivative_transfer e : deriv_okT e.
Proof.
  unfold deriv_okT.
  induction e as [l|a IHa b IHb|a IHa v|a IHa b IHb|a IHa b IHb|a IHa s|a IHa s|a IHa v|a IHa v|a IHa v
                  |ops IH|ops IH|ops IH|cs rs ents IH] using oexpr_indT;
    cbn [tpoly]; intros Hp x.
  - apply lderiv_tr; exact Hp.
  - apply andb_prop in Hp as [Pa Pb]. cbn [derivative omap]. rewrite !is_lin_tr.
    destruct (is_lin a && is_lin b); [reflexivity|]. cbn [omap]. rewrite IHa, IHb by assumption. reflexivity.
  - cbn [derivative omap]. apply IHa; exact Hp.
  - apply andb_prop in Hp as [Pa Pb]. cbn [derivative omap]. rewrite !is_lin_tr.
    destruct (is_lin a && is_lin b); [reflexivity|]. cbn [omap]. rewrite IHb by assumption. f_equal.
    destruct (is_lin a); [reflexivity|]. rewrite IHa, (eval_transfer b Pb) by assumption. reflexivity.
  - apply andb_prop in Hp as [Pa Pb]. cbn [derivative omap].
    rewrite !mk_lmul_tr, IHa, IHb, (eval_transfer a Pa), (eval_transfer b Pb), !ran_tr by assumption. reflexivity.
  - cbn [derivative omap]. rewrite is_lin_tr. destruct (is_lin a); [reflexivity|].
    rewrite mk_lscal_tr, IHa by assumption. reflexivity.
  - cbn [derivative omap]. rewrite mk_mulscal_tr, IHa, vscal_tr by assumption. reflexivity.
  - cbn [derivative omap]. rewrite is_lin_tr. destruct (is_lin a); [reflexivity|].
    cbn [omap]. rewrite IHa by assumption. reflexivity.
  - cbn [derivative omap]. rewrite is_lin_tr. destruct (is_lin a); [reflexivity|].
    cbn [omap]. rewrite IHa, vmul_tr by assumption. reflexivity.
  - cbn [derivative omap]. rewrite is_lin_tr. destruct (is_lin a); [reflexivity|].
    cbn [omap]. rewrite IHa by assumption. reflexivity.
  - (* Broadcast *)
    cbn [derivative omap]. f_equal. rewrite !map_map.
    induction IH as [|a r Ha _ IHr]; cbn [map]; [reflexivity|].
    cbn [forallb] in Hp. apply andb_prop in Hp as [Pa Pr]. rewrite Ha, IHr by assumption. reflexivity.
  - cbn [derivative omap]. f_equal. apply blockmap_deriv_tr; assumption.
  - cbn [derivative omap]. f_equal. apply blockmap_deriv_tr; assumption.
  - (* ProductSpaceOperator *)
    cbn [derivative omap].
    assert (Hl : forallb (fun t : nat * nat * @oexpr R => let '(_, _, a) := t in is_lin a)
                   (map (fun t : nat * nat * @oexpr Q => let '(i, j, a) := t in (i, j, omap a)) ents)
                 = forallb (fun t : nat * nat * @oexpr Q => let '(_, _, a) := t in is_lin a) ents).
    { clear. induction ents as [|[[i j] a] r IHr]; cbn [map forallb]; [reflexivity|]. rewrite is_lin_tr, IHr. reflexivity. }
    rewrite Hl.
    destruct (forallb (fun t : nat * nat * @oexpr Q => let '(_, _, a) := t in is_lin a) ents); [reflexivity|].
    cbn [omap]. f_equal. rewrite !map_map. clear Hl.
    induction IH as [|[[i j] a] r Ha _ IHr]; cbn [map]; [reflexivity|].
    cbn [forallb] in Hp. apply andb_prop in Hp as [Pa Pr]. cbn [snd] in Ha.
    rewrite (Ha Pa), proj_tr, (IHr Pr). reflexivity.
Qed.
