(* C06/Proofs.v -- soundness of Operator.derivative for every expression tree. *)
From Coq Require Import Reals Lra Lia List Bool ZArith.
From Verif Require Import Base.Num Base.Vec Base.VecR C06.Syntax Gen.UfuncDeriv C06.Model C06.Calc C06.Lin C06.Leaves.
Import ListNotations.
Local Open Scope R_scope.

Lemma space_eqb_eq a b : space_eqb a b = true -> a = b.
Proof.
  destruct a, b; cbn; try discriminate; auto. intros H; apply Nat.eqb_eq in H; subst; reflexivity.
Qed.

Ltac bsplit := split; [|split; [|split]].
Ltac ssplit := split; [|split; [|split; [|split; [|split]]]].
Notation leafR := (@leaf R).
Notation oexprR := (@oexpr R).

(* weaker extensionality: only on arguments of the right length *)
Lemma hdiff_ext_len n m F x L L' :
  (forall d, length d = n -> L d = L' d) -> hdiff n m F x L -> hdiff n m F x L'.
Proof.
  intros HL H g d Hc. specialize (H g d Hc).
  destruct Hc as (_ & Hd & _). rewrite <- (HL d Hd). exact H.
Qed.
Lemma blin_ext_len n m L L' :
  (forall d, length d = n -> L d = L' d) -> blin n m L -> blin n m L'.
Proof.
  intros He (Hl & Ha & Hs & Hd). bsplit.
  - intros d Hd'; rewrite <- He by exact Hd'; apply Hl; exact Hd'.
  - intros a b Hx Hy. rewrite <- !He; auto. unfold vadd; apply vmap2_len; auto.
  - intros c a Hx. rewrite <- !He; auto. rewrite vscal_len; exact Hx.
  - intros y Hy g d Hc.
    pose proof (Hd y Hy g d Hc) as H.
    destruct Hc as (H0 & Hdl & Hgl & _).
    rewrite <- (He d Hdl), <- (He y Hy).
    eapply curve_ext; [|exact H]. intros t; apply He. apply Hgl.
Qed.

Section Sound.
Variable af : nat -> Rvec -> Rvec.
Variable ad : nat -> Rvec -> Rvec -> Rvec.
Variable adm arn : nat -> space.
Notation P := (PR af ad adm arn).

(* what is assumed of user-defined leaves: their own derivative is right *)
Hypothesis Habs : forall k x, length x = sdim (adm k) ->
  hdiff (sdim (adm k)) (sdim (arn k)) (af k) x (ad k x) /\
  blin (sdim (adm k)) (sdim (arn k)) (ad k x).

(* ---------- regular points ---------- *)
Definition lregular (l : leafR) (x : Rvec) : Prop :=
  match l with
  | LPow _ p => (p <= 0)%Z -> forall i, (i < length x)%nat -> nth i x 0 <> 0
  | LUf f _ => forall i, (i < length x)%nat -> uregular f (nth i x 0)
  | _ => True
  end.
Fixpoint regular (e : oexprR) (x : Rvec) : Prop :=
  match e with
  | OLeaf l => lregular l x
  | OSum a b | OPProd a b => regular a x /\ regular b x
  | OVecSum a _ | OLScal a _ | OLVec a _ | OFLVec a _ => regular a x
  | OComp a b => regular b x /\ regular a (eval P b x)
  | ORScal a s => regular a (vscal s x)
  | ORVec a v => regular a (vmul v x)
  end.

(* ---------- leaves ---------- *)
Lemma all_zero_zeros (c : Rvec) : all_zero c = true -> c = vconst (length c) 0.
Proof.
  induction c as [|u c IH]; [reflexivity|]. cbn [all_zero forallb]. intros H.
  apply andb_prop in H as [Hu Hc]. numR. destruct (Reqb_spec u 0) as [->|]; [|discriminate].
  cbn [length vconst repeat]. f_equal. apply IH. exact Hc.
Qed.

Lemma forallb_len (rows : list Rvec) n :
  forallb (fun r => Nat.eqb (length r) n) rows = true -> forall r, In r rows -> length r = n.
Proof. intros H r Hin. rewrite forallb_forall in H. apply Nat.eqb_eq. apply H; exact Hin. Qed.

Lemma llin_blin l : llin l = true -> lwt P l = true ->
  blin (sdim (ldom P l)) (sdim (lran P l)) (leval P l).
Proof.
  intros Hl Hw. destruct l; cbn [llin lwt ldom lran leval sdim] in *; try discriminate Hl.
  - apply blin_scale.
  - apply Nat.eqb_eq in Hw. apply blin_mulv. exact Hw.
  - apply blin_mvec. apply forallb_len. exact Hw.
  - apply blin_dot. reflexivity.
  - apply blin_zero.
  - apply Nat.eqb_eq in Hw. rewrite (all_zero_zeros c Hl), Hw. apply blin_zero.
  - apply Z.eqb_eq in Hl. subst p.
    apply (blin_ext _ _ (fun d => d)); [|apply blin_id].
    intros d. cbn [leval]. rewrite (map_ext _ (fun a => a)) by (intros a; apply zpow_1). symmetry; apply map_id.
  - destruct (ufunc_linear_scale af ad adm arn f Hl) as [c Hc].
    apply (blin_ext _ _ (vscal c)); [|apply blin_scale].
    intros d. cbn [leval]. unfold vscal. apply map_ext. intros a. rewrite Hc. reflexivity.
  - apply Nat.eqb_eq in Hw. cbn [PR adom aran ader]. apply Habs. exact Hw.
Qed.

Lemma leval_len l y : lwt P l = true -> length y = sdim (ldom P l) ->
  length (leval P l y) = sdim (lran P l).
Proof.
  intros Hw Hy. destruct l; cbn [lwt ldom lran leval sdim] in *; try reflexivity.
  - rewrite vscal_len; exact Hy.
  - apply Nat.eqb_eq in Hw. unfold vmul; apply vmap2_len; assumption.
  - apply mvec_len.
  - apply vconst_len.
  - apply Nat.eqb_eq in Hw; exact Hw.
  - rewrite map_length; exact Hy.
  - rewrite map_length; exact Hy.
  - cbn [PR afun adom aran] in *. destruct (Habs k y Hy) as [Hh _].
    destruct (Hh (fun _ => y) _ (curve_const _ y Hy)) as (_ & _ & Hl & _). apply (Hl 0).
  - apply Nat.eqb_eq in Hw. cbn [PR ader adom aran] in *.
    destruct (Habs k x Hw) as [_ Hb]. apply (blin_len _ _ _ _ Hb). exact Hy.
Qed.

(* the bundle proved of every derivative object *)
Definition sound (n m : nat) (sd sr : space) (F : Rvec -> Rvec) (x : Rvec) (D : oexprR) : Prop :=
  hdiff n m F x (eval P D) /\ blin n m (eval P D) /\
  is_lin D = true /\ wt P D = true /\ dom P D = sd /\ ran P D = sr.

Lemma vscal_vmul_map c (d x : Rvec) (g : R -> R) :
  vscal c (vmul d (map g x)) = vmul d (map (fun a => c * g a) x).
Proof.
  revert x; induction d as [|u d IH]; intros [|v x]; cbn [map vmul vmap2 vscal]; try reflexivity.
  unfold vmul, vscal in *. rewrite IH. f_equal. numR. ring.
Qed.

Lemma lderiv_sound l x :
  lwt P l = true -> length x = sdim (ldom P l) -> lderiv_ok P l x = true -> lregular l x ->
  sound (sdim (ldom P l)) (sdim (lran P l)) (ldom P l) (lran P l) (leval P l) x (lderiv P l x).
Proof.
  intros Hw Hx Hok Hreg.
  assert (Hself : llin l = true -> lderiv P l x = OLeaf l ->
            sound (sdim (ldom P l)) (sdim (lran P l)) (ldom P l) (lran P l) (leval P l) x (lderiv P l x)).
  { intros Hl ->. pose proof (llin_blin l Hl Hw) as Hb. unfold sound. cbn [eval is_lin wt dom ran].
    ssplit; auto. apply (blin_hdiff _ _ _ _ Hb Hx). }
  destruct l; try (apply Hself; [exact Hok || reflexivity|reflexivity]).
  - (* LConst *)
    cbn [lderiv ldom lran lwt leval] in *. apply Nat.eqb_eq in Hw.
    unfold sound. cbn [eval leval is_lin llin wt lwt dom ran ldom lran].
    ssplit; try reflexivity; [apply hdiff_const; exact Hw|apply blin_zero].
  - (* LPow *)
    cbn [lderiv ldom lran lwt leval mk_lscal lregular] in *.
    unfold sound. cbn [eval leval is_lin llin wt lwt dom ran ldom lran].
    assert (Hlen : length (map (fun a : R => zpow a (p - 1)) x) = sdim s) by (rewrite map_length; exact Hx).
    ssplit; auto.
    + apply (hdiff_ext_len _ _ _ _ (fun d => vmul d (map (fun a => IZR p * zpow a (p - 1)) x))).
      { intros d _. symmetry. apply (vscal_vmul_map (IZR p) d x (fun a => zpow a (p - 1))). }
      intros g d Hc. apply (curve_map _ (fun a => zpow a p) (fun a => IZR p * zpow a (p - 1))); [exact Hc|].
      intros i Hi. destruct (Z_le_gt_dec p 0) as [Hp|Hp].
      * apply zpow_deriv_nonpos; [exact Hp|]. apply Hreg; [exact Hp|lia].
      * apply zpow_deriv_pos. lia.
    + apply (blin_comp _ (sdim s)); [apply blin_mulv; exact Hlen|apply blin_scale].
    + rewrite map_length. apply Nat.eqb_eq. exact Hx.
  - (* LUf *)
    cbn [lderiv lderiv_ok ldom lran lwt leval lregular sdim] in *.
    destruct (ufunc_deriv f) as [e|] eqn:He.
    + unfold sound. cbn [eval leval is_lin llin wt lwt dom ran ldom lran sdim].
      assert (Hlen : length (map (ueval P e) x) = n) by (rewrite map_length; exact Hx).
      ssplit; auto.
      * intros g d Hc. apply (curve_map _ (usem P f) (ueval P e)); [exact Hc|].
        intros i Hi. apply (ufunc_deriv_table_sound af ad adm arn f e He). apply Hreg. lia.
      * apply blin_mulv; exact Hlen.
      * apply Nat.eqb_eq. exact Hlen.
    + apply Hself; [exact Hok|reflexivity].
  - (* LNorm *)
    cbn [lderiv lderiv_ok ldom lran lwt leval lregular sdim PR rt] in *.
    unfold sound. cbn [eval leval is_lin llin wt lwt dom ran ldom lran sdim].
    assert (Hpos : 0 < dot x x).
    { apply sqrt_neq0_pos; [apply dot_self_nonneg|].
      numR. destruct (Reqb_spec (sqrt (dot x x)) 0); [discriminate Hok|assumption]. }
    ssplit; auto.
    + intros g d Hc. apply (curve_norm n); assumption.
    + apply blin_dot. rewrite map_length. exact Hx.
    + rewrite map_length. f_equal. exact Hx.
  - (* LDist *)
    cbn [lderiv lderiv_ok ldom lran lwt leval lregular sdim PR rt] in *. unfold normsq in *.
    unfold sound. cbn [eval leval is_lin llin wt lwt dom ran ldom lran sdim].
    assert (Hpos : 0 < dot (vsub x v) (vsub x v)).
    { apply sqrt_neq0_pos; [apply dot_self_nonneg|].
      numR. destruct (Reqb_spec (sqrt (dot (vsub x v) (vsub x v))) 0); [discriminate Hok|assumption]. }
    assert (Hsub : length (vsub x v) = length v) by (unfold vsub; apply vmap2_len; auto).
    ssplit; auto.
    + intros g d Hc.
      apply (curve_norm (length v) (fun t => vsub (g t) v) (vsub x v) d); [|exact Hpos].
      apply curve_sub_const; [exact Hc|reflexivity].
    + apply blin_dot. rewrite map_length. exact Hsub.
    + rewrite map_length. f_equal. exact Hsub.
  - (* LAbs *)
    cbn [lderiv ldom lran lwt leval PR afun adom aran] in *.
    destruct (Habs k x Hx) as [Hh Hb].
    unfold sound. cbn [eval leval is_lin llin wt lwt dom ran ldom lran PR ader adom aran].
    ssplit; auto. apply Nat.eqb_eq. exact Hx.
Qed.

(* ---------- expressions ---------- *)
Lemma mk_lscal_eval s D d : eval P (mk_lscal s D) d = vscal s (eval P D d).
Proof. destruct D; cbn [mk_lscal eval]; try reflexivity. rewrite vscal_vscal. reflexivity. Qed.
Lemma mk_lscal_lin s D : is_lin (mk_lscal s D) = is_lin D.
Proof. destruct D; reflexivity. Qed.
Lemma mk_lscal_wt s D : wt P (mk_lscal s D) = wt P D.
Proof. destruct D; reflexivity. Qed.
Lemma mk_lscal_dom s D : dom P (mk_lscal s D) = dom P D.
Proof. destruct D; reflexivity. Qed.
Lemma mk_lscal_ran s D : ran P (mk_lscal s D) = ran P D.
Proof. destruct D; reflexivity. Qed.

Lemma eval_len e : wt P e = true -> forall y, length y = sdim (dom P e) ->
  length (eval P e y) = sdim (ran P e).
Proof.
  induction e as [l|a IHa b IHb|a IHa v|a IHa b IHb|a IHa b IHb|a IHa s|a IHa s|a IHa v|a IHa v|a IHa v];
    cbn [wt dom ran eval]; intros Hw y Hy.
  - apply leval_len; assumption.
  - apply andb_prop in Hw as [Hw Hr]. apply andb_prop in Hw as [Hw Hd]. apply andb_prop in Hw as [Ha Hb].
    apply space_eqb_eq in Hr, Hd. unfold vadd. apply vmap2_len; [apply IHa; auto|rewrite Hr; apply IHb; auto; rewrite <- Hd; auto].
  - apply andb_prop in Hw as [Ha Hr]. apply space_eqb_eq in Hr.
    unfold vadd. apply vmap2_len; [apply IHa; auto|rewrite Hr; reflexivity].
  - apply andb_prop in Hw as [Hw Hr]. apply andb_prop in Hw as [Ha Hb]. apply space_eqb_eq in Hr.
    apply IHa; auto. rewrite <- Hr. apply IHb; auto.
  - apply andb_prop in Hw as [Hw Hr]. apply andb_prop in Hw as [Hw Hd]. apply andb_prop in Hw as [Ha Hb].
    apply space_eqb_eq in Hr, Hd. unfold vmul. apply vmap2_len; [apply IHa; auto|rewrite Hr; apply IHb; auto; rewrite <- Hd; auto].
  - rewrite vscal_len. apply IHa; auto.
  - apply IHa; auto. rewrite vscal_len; auto.
  - apply andb_prop in Hw as [Ha Hr]. apply space_eqb_eq in Hr.
    unfold vmul. apply vmap2_len; [apply IHa; auto|rewrite Hr; reflexivity].
  - apply andb_prop in Hw as [Ha Hr]. apply space_eqb_eq in Hr.
    apply IHa; auto. unfold vmul. apply vmap2_len; [exact Hy|rewrite Hr; reflexivity].
  - rewrite vscal_len. reflexivity.
Qed.

(* "linear => self" is justified: a flagged-linear well-typed tree IS a bounded linear map *)
Lemma lin_blin e : is_lin e = true -> wt P e = true ->
  blin (sdim (dom P e)) (sdim (ran P e)) (eval P e).
Proof.
  induction e as [l|a IHa b IHb|a IHa v|a IHa b IHb|a IHa b IHb|a IHa s|a IHa s|a IHa v|a IHa v|a IHa v];
    cbn [is_lin wt dom ran eval]; intros Hl Hw; try discriminate Hl.
  - apply llin_blin; assumption.
  - apply andb_prop in Hl as [La Lb].
    apply andb_prop in Hw as [Hw Hr]. apply andb_prop in Hw as [Hw Hd]. apply andb_prop in Hw as [Ha Hb].
    apply space_eqb_eq in Hr, Hd. apply blin_add; [apply IHa; auto|rewrite Hr, Hd; apply IHb; auto].
  - apply andb_prop in Hl as [La Lb].
    apply andb_prop in Hw as [Hw Hr]. apply andb_prop in Hw as [Ha Hb]. apply space_eqb_eq in Hr.
    apply (blin_comp _ (sdim (ran P b)) _ (eval P a) (eval P b)); [apply IHb; auto|rewrite Hr; apply IHa; auto].
  - apply (blin_comp _ (sdim (ran P a)) _ (vscal s) (eval P a)); [apply IHa; auto|apply blin_scale].
  - apply (blin_comp _ (sdim (dom P a)) _ (eval P a) (vscal s)); [apply blin_scale|apply IHa; auto].
  - apply andb_prop in Hw as [Ha Hr]. apply space_eqb_eq in Hr.
    apply (blin_comp _ (sdim (ran P a)) _ (fun y => vmul y v) (eval P a)); [apply IHa; auto|apply blin_mulv; rewrite Hr; reflexivity].
  - apply andb_prop in Hw as [Ha Hr]. apply space_eqb_eq in Hr.
    apply (blin_comp _ (sdim (dom P a)) _ (eval P a) (fun y => vmul y v)); [apply blin_mulv; rewrite Hr; reflexivity|apply IHa; auto].
  - apply andb_prop in Hw as [Ha Hr]. apply space_eqb_eq in Hr.
    apply (blin_comp _ 1%nat _ (fun y => vscal (hd 0 y) v) (eval P a)); [rewrite Hr in IHa; apply IHa; auto|apply blin_outer; reflexivity].
Qed.

Lemma lin_sound e x : is_lin e = true -> wt P e = true -> length x = sdim (dom P e) ->
  sound (sdim (dom P e)) (sdim (ran P e)) (dom P e) (ran P e) (eval P e) x e.
Proof.
  intros Hl Hw Hx. pose proof (lin_blin e Hl Hw) as Hb.
  unfold sound. ssplit; auto. apply (blin_hdiff _ _ _ _ Hb Hx).
Qed.

(* y * D for a value y of the common range *)
Lemma mk_lmul_sound r y D n :
  blin n (sdim r) (eval P D) -> is_lin D = true -> wt P D = true -> ran P D = r -> length y = sdim r ->
  (forall d, length d = n -> eval P (mk_lmul r y D) d = vmul (eval P D d) y) /\
  is_lin (mk_lmul r y D) = true /\ wt P (mk_lmul r y D) = true /\
  dom P (mk_lmul r y D) = dom P D /\ ran P (mk_lmul r y D) = r.
Proof.
  intros Hb Hl Hw Hr Hy. destruct r as [|k]; cbn [mk_lmul sdim] in *.
  - rewrite mk_lscal_lin, mk_lscal_wt, mk_lscal_dom, mk_lscal_ran. repeat split; auto.
    intros d Hd. rewrite mk_lscal_eval.
    pose proof (blin_len _ _ _ d Hb Hd) as Hlen.
    destruct (eval P D d) as [|u [|? ?]]; cbn in Hlen; try lia.
    destruct y as [|w [|? ?]]; cbn in Hy; try lia.
    cbn. numR. f_equal. ring.
  - cbn [eval is_lin wt dom ran]. repeat split; auto.
    rewrite Hw, Hr. cbn. rewrite Hy. apply Nat.eqb_refl.
Qed.

Theorem deriv_sound e : forall x,
  wt P e = true -> length x = sdim (dom P e) -> deriv_ok P e x = true -> regular e x ->
  sound (sdim (dom P e)) (sdim (ran P e)) (dom P e) (ran P e) (eval P e) x (derivative P e x).
Proof.
  induction e as [l|a IHa b IHb|a IHa v|a IHa b IHb|a IHa b IHb|a IHa s|a IHa s|a IHa v|a IHa v|a IHa v];
    intros x Hw Hx Hok Hreg.
  - (* leaf *) apply lderiv_sound; assumption.
  - (* OSum *)
    cbn [derivative deriv_ok regular] in *.
    destruct (is_lin a && is_lin b) eqn:Hl.
    { apply lin_sound; auto. }
    cbn [orb] in Hok. apply andb_prop in Hok as [Oa Ob]. destruct Hreg as [Ra Rb].
    cbn [wt dom ran eval] in *.
    apply andb_prop in Hw as [Hw Hr]. apply andb_prop in Hw as [Hw Hd]. apply andb_prop in Hw as [Wa Wb].
    apply space_eqb_eq in Hr, Hd.
    destruct (IHa x Wa Hx Oa Ra) as (A1 & A2 & A3 & A4 & A5 & A6).
    assert (Hxb : length x = sdim (dom P b)) by (rewrite <- Hd; exact Hx).
    destruct (IHb x Wb Hxb Ob Rb) as (B1 & B2 & B3 & B4 & B5 & B6).
    rewrite <- Hd, <- Hr in B1, B2.
    unfold sound. cbn [eval is_lin wt dom ran]. ssplit.
    + apply hdiff_add; assumption.
    + apply blin_add; assumption.
    + rewrite A3, B3; reflexivity.
    + rewrite A4, B4, A5, B5, A6, B6, Hd, Hr. cbn.
      destruct (dom P b), (ran P b); cbn; rewrite ?Nat.eqb_refl; reflexivity.
    + exact A5.
    + exact A6.
  - (* OVecSum *)
    cbn [derivative deriv_ok regular wt dom ran eval] in *.
    apply andb_prop in Hw as [Wa Hr]. apply space_eqb_eq in Hr.
    destruct (IHa x Wa Hx Hok Hreg) as (A1 & A2 & A3 & A4 & A5 & A6).
    unfold sound. ssplit; auto.
    apply hdiff_add_const; [exact A1|rewrite Hr; reflexivity].
  - (* OComp *)
    cbn [derivative deriv_ok regular] in *.
    destruct (is_lin a && is_lin b) eqn:Hl.
    { apply lin_sound; auto. }
    cbn [orb] in Hok. apply andb_prop in Hok as [Oa Ob]. destruct Hreg as [Rb Ra].
    cbn [wt dom ran eval] in *.
    apply andb_prop in Hw as [Hw Hr]. apply andb_prop in Hw as [Wa Wb]. apply space_eqb_eq in Hr.
    destruct (IHb x Wb Hx Ob Rb) as (B1 & B2 & B3 & B4 & B5 & B6).
    assert (Hy : length (eval P b x) = sdim (dom P a)) by (rewrite <- Hr; apply eval_len; auto).
    assert (HA : sound (sdim (dom P a)) (sdim (ran P a)) (dom P a) (ran P a) (eval P a) (eval P b x)
                   (if is_lin a then a else derivative P a (eval P b x))).
    { destruct (is_lin a) eqn:La.
      - apply lin_sound; auto.
      - cbn [orb] in Oa. apply IHa; auto. }
    destruct HA as (A1 & A2 & A3 & A4 & A5 & A6).
    rewrite Hr in B1, B2.
    unfold sound. cbn [eval is_lin wt dom ran]. ssplit.
    + apply (hdiff_comp _ (sdim (dom P a))); assumption.
    + apply (blin_comp _ (sdim (dom P a)) _ (eval P (if is_lin a then a else derivative P a (eval P b x))) (eval P (derivative P b x))); assumption.
    + rewrite A3, B3; reflexivity.
    + rewrite A4, B4, A5, B6, Hr. cbn. destruct (dom P a); cbn; rewrite ?Nat.eqb_refl; reflexivity.
    + exact B5.
    + exact A6.
  - (* OPProd *)
    cbn [derivative deriv_ok regular wt dom ran eval] in *.
    apply andb_prop in Hok as [Oa Ob]. destruct Hreg as [Ra Rb].
    apply andb_prop in Hw as [Hw Hr]. apply andb_prop in Hw as [Hw Hd]. apply andb_prop in Hw as [Wa Wb].
    apply space_eqb_eq in Hr, Hd.
    destruct (IHa x Wa Hx Oa Ra) as (A1 & A2 & A3 & A4 & A5 & A6).
    assert (Hxb : length x = sdim (dom P b)) by (rewrite <- Hd; exact Hx).
    destruct (IHb x Wb Hxb Ob Rb) as (B1 & B2 & B3 & B4 & B5 & B6).
    rewrite <- Hd, <- Hr in B1, B2. rewrite <- Hr in B6. rewrite <- Hd in B5.
    assert (Hya : length (eval P a x) = sdim (ran P a)) by (apply eval_len; auto).
    assert (Hyb : length (eval P b x) = sdim (ran P a)) by (rewrite Hr; apply eval_len; auto).
    destruct (mk_lmul_sound (ran P a) (eval P b x) (derivative P a x) _ A2 A3 A4 A6 Hyb)
      as (L1 & L2 & L3 & L4 & L5).
    destruct (mk_lmul_sound (ran P a) (eval P a x) (derivative P b x) _ B2 B3 B4 B6 Hya)
      as (M1 & M2 & M3 & M4 & M5).
    unfold sound. cbn [eval is_lin wt dom ran]. ssplit.
    + apply (hdiff_ext_len _ _ _ _
               (fun d => vadd (vmul (eval P (derivative P a x) d) (eval P b x))
                              (vmul (eval P (derivative P b x) d) (eval P a x)))).
      { intros d Hd'. rewrite L1, M1 by exact Hd'. reflexivity. }
      apply hdiff_mul; assumption.
    + apply (blin_ext_len _ _
               (fun d => vadd (vmul (eval P (derivative P a x) d) (eval P b x))
                              (vmul (eval P (derivative P b x) d) (eval P a x)))).
      { intros d Hd'. rewrite L1, M1 by exact Hd'. reflexivity. }
      apply blin_add.
      * apply (blin_comp _ (sdim (ran P a)) _ (fun y => vmul y (eval P b x)) (eval P (derivative P a x))); [exact A2|apply blin_mulv; exact Hyb].
      * apply (blin_comp _ (sdim (ran P a)) _ (fun y => vmul y (eval P a x)) (eval P (derivative P b x))); [exact B2|apply blin_mulv; exact Hya].
    + rewrite L2, M2; reflexivity.
    + rewrite L3, M3, L4, M4, L5, M5, A5, B5. cbn.
      destruct (dom P a), (ran P a); cbn; rewrite ?Nat.eqb_refl; reflexivity.
    + rewrite L4; exact A5.
    + exact L5.
  - (* OLScal *)
    cbn [derivative deriv_ok regular] in *.
    destruct (is_lin a) eqn:La.
    { apply lin_sound; auto. }
    cbn [orb wt dom ran eval] in *.
    destruct (IHa x Hw Hx Hok Hreg) as (A1 & A2 & A3 & A4 & A5 & A6).
    unfold sound. rewrite mk_lscal_lin, mk_lscal_wt, mk_lscal_dom, mk_lscal_ran. ssplit; auto.
    + apply (hdiff_ext_len _ _ _ _ (fun d => vscal s (eval P (derivative P a x) d))).
      { intros d _. symmetry; apply mk_lscal_eval. }
      apply hdiff_scal. exact A1.
    + apply (blin_ext _ _ (fun d => vscal s (eval P (derivative P a x) d))).
      { intros d. symmetry; apply mk_lscal_eval. }
      apply (blin_comp _ (sdim (ran P a)) _ (vscal s) (eval P (derivative P a x))); [exact A2|apply blin_scale].
  - (* ORScal *)
    cbn [derivative deriv_ok regular wt dom ran eval] in *.
    assert (Hsx : length (vscal s x) = sdim (dom P a)) by (rewrite vscal_len; exact Hx).
    destruct (IHa (vscal s x) Hw Hsx Hok Hreg) as (A1 & A2 & A3 & A4 & A5 & A6).
    unfold sound. rewrite mk_lscal_lin, mk_lscal_wt, mk_lscal_dom, mk_lscal_ran. ssplit; auto.
    + apply (hdiff_ext_len _ _ _ _ (fun d => eval P (derivative P a (vscal s x)) (vscal s d))).
      { intros d Hd. rewrite mk_lscal_eval. destruct A2 as (_ & _ & Hs & _). apply Hs. exact Hd. }
      apply (hdiff_comp _ (sdim (dom P a)) _ (eval P a) (vscal s) x); [|exact A1].
      apply (blin_hdiff _ _ _ _ (blin_scale _ s) Hx).
    + apply (blin_ext _ _ (fun d => vscal s (eval P (derivative P a (vscal s x)) d))).
      { intros d. symmetry; apply mk_lscal_eval. }
      apply (blin_comp _ (sdim (ran P a)) _ (vscal s) (eval P (derivative P a (vscal s x)))); [exact A2|apply blin_scale].
  - (* OLVec *)
    cbn [derivative deriv_ok regular] in *.
    destruct (is_lin a) eqn:La.
    { apply lin_sound; auto. }
    cbn [orb wt dom ran eval] in *.
    apply andb_prop in Hw as [Wa Hr]. apply space_eqb_eq in Hr.
    destruct (IHa x Wa Hx Hok Hreg) as (A1 & A2 & A3 & A4 & A5 & A6).
    unfold sound. cbn [eval is_lin wt dom ran]. ssplit; auto.
    + apply hdiff_mul_const; [exact A1|rewrite Hr; reflexivity].
    + apply (blin_comp _ (sdim (ran P a)) _ (fun y => vmul y v) (eval P (derivative P a x))); [exact A2|apply blin_mulv; rewrite Hr; reflexivity].
    + rewrite A4, A6, Hr. cbn. apply Nat.eqb_refl.
  - (* ORVec *)
    cbn [derivative deriv_ok regular] in *.
    destruct (is_lin a) eqn:La.
    { apply lin_sound; auto. }
    cbn [orb wt dom ran eval] in *.
    apply andb_prop in Hw as [Wa Hr]. apply space_eqb_eq in Hr.
    assert (Hvx : length (vmul v x) = sdim (dom P a)).
    { unfold vmul. apply vmap2_len; [rewrite Hr; reflexivity|exact Hx]. }
    destruct (IHa (vmul v x) Wa Hvx Hok Hreg) as (A1 & A2 & A3 & A4 & A5 & A6).
    assert (Hv : length v = sdim (dom P a)) by (rewrite Hr; reflexivity).
    unfold sound. cbn [eval is_lin wt dom ran]. ssplit; auto.
    + apply (hdiff_comp _ (sdim (dom P a)) _ (eval P a) (fun y => vmul y v) x).
      * apply (blin_hdiff _ _ _ _ (blin_mulv _ v Hv) Hx).
      * cbn beta. rewrite (vmul_comm x v). exact A1.
    + apply (blin_comp _ (sdim (dom P a)) _ (eval P (derivative P a (vmul v x))) (fun y => vmul y v)); [apply blin_mulv; exact Hv|exact A2].
    + rewrite A4, A5, Hr. cbn. apply Nat.eqb_refl.
  - (* OFLVec *)
    cbn [derivative deriv_ok regular] in *.
    destruct (is_lin a) eqn:La.
    { apply lin_sound; auto. }
    cbn [orb wt dom ran eval] in *.
    apply andb_prop in Hw as [Wa Hr]. apply space_eqb_eq in Hr.
    destruct (IHa x Wa Hx Hok Hreg) as (A1 & A2 & A3 & A4 & A5 & A6).
    rewrite Hr in A1, A2. cbn [sdim] in A1, A2.
    unfold sound. cbn [eval is_lin wt dom ran sdim]. ssplit; auto.
    + apply (hdiff_comp _ 1%nat _ (fun y => vscal (hd 0 y) v) (eval P a) x
               (fun y => vscal (hd 0 y) v) (eval P (derivative P a x))); [exact A1|].
      apply (blin_hdiff _ _ _ _ (blin_outer _ v eq_refl)).
      pose proof (eval_len a Wa x Hx) as Hl. rewrite Hr in Hl. exact Hl.
    + apply (blin_comp _ 1%nat _ (fun y => vscal (hd 0 y) v) (eval P (derivative P a x))); [exact A2|apply blin_outer; reflexivity].
    + rewrite A4, A6, Hr. reflexivity.
Qed.

End Sound.

(* ---------- consequences in the wording of the property ---------- *)
Lemma hdiff_unique n m F x L L' :
  hdiff n m F x L -> hdiff n m F x L' -> length x = n ->
  forall d, length d = n -> L d = L' d.
Proof.
  intros H1 H2 Hx d Hd.
  destruct (H1 _ _ (curve_line n x d Hx Hd)) as (_ & A1 & _ & A2).
  destruct (H2 _ _ (curve_line n x d Hx Hd)) as (_ & B1 & _ & B2).
  apply nth_ext0; [congruence|]. intros i Hi. rewrite A1 in Hi.
  eapply uniqueness_limite; [apply A2|apply B2]; exact Hi.
Qed.

Section Consequences.
Variable af : nat -> Rvec -> Rvec.
Variable ad : nat -> Rvec -> Rvec -> Rvec.
Variable adm arn : nat -> space.
Notation P := (PR af ad adm arn).
Hypothesis Habs : forall k x, length x = sdim (adm k) ->
  hdiff (sdim (adm k)) (sdim (arn k)) (af k) x (ad k x) /\
  blin (sdim (adm k)) (sdim (arn k)) (ad k x).

Lemma deriv_central (e : oexprR) x :
  wt P e = true -> length x = sdim (dom P e) -> deriv_ok P e x = true -> regular af ad adm arn e x ->
  forall d, length d = sdim (dom P e) -> forall i, (i < sdim (ran P e))%nat ->
  forall eps, 0 < eps -> exists delta, 0 < delta /\
    forall h, h <> 0 -> Rabs h < delta ->
      Rabs ((nth i (eval P e (vadd x (vscal h d))) 0 - nth i (eval P e (vadd x (vscal (- h) d))) 0) / (2 * h)
            - nth i (eval P (derivative P e x) d) 0) < eps.
Proof.
  intros Hw Hx Hok Hreg.
  destruct (deriv_sound af ad adm arn Habs e x Hw Hx Hok Hreg) as (H1 & _).
  apply (hdiff_central_difference _ _ _ _ _ H1 Hx).
Qed.

(* linear operators are their own derivative: whatever object derivative returns acts like e *)
Lemma lin_deriv_self (e : oexprR) x :
  is_lin e = true -> wt P e = true -> length x = sdim (dom P e) ->
  deriv_ok P e x = true -> regular af ad adm arn e x ->
  forall d, length d = sdim (dom P e) -> eval P (derivative P e x) d = eval P e d.
Proof.
  intros Hl Hw Hx Hok Hreg d Hd.
  destruct (deriv_sound af ad adm arn Habs e x Hw Hx Hok Hreg) as (H1 & _).
  destruct (lin_sound af ad adm arn Habs e x Hl Hw Hx) as (H2 & _).
  apply (hdiff_unique _ _ _ _ _ _ H1 H2 Hx d Hd).
Qed.

(* affine operators have the derivative of their linear part *)
Lemma affine_deriv (a : oexprR) v x :
  is_lin a = true -> wt P (OVecSum a v) = true -> length x = sdim (dom P a) ->
  deriv_ok P a x = true -> regular af ad adm arn a x ->
  forall d, length d = sdim (dom P a) -> eval P (derivative P (OVecSum a v) x) d = eval P a d.
Proof.
  intros Hl Hw Hx Hok Hreg d Hd. cbn [derivative].
  cbn [wt] in Hw. apply andb_prop in Hw as [Wa _].
  apply lin_deriv_self; assumption.
Qed.
End Consequences.

(* ---------- non-vacuity: a user-defined leaf satisfying the hypothesis ---------- *)
Definition cubicR (a : R) : R := a * a * a - a.
Definition cubicR' (a : R) : R := 3 * a * a - 1.
Definition ex_af (k : nat) (x : Rvec) : Rvec := map cubicR x.
Definition ex_ad (k : nat) (x d : Rvec) : Rvec := vmul (map cubicR' x) d.
Definition ex_dm (k : nat) : space := SV k.

Lemma dpl_cubic a : derivable_pt_lim cubicR a (cubicR' a).
Proof.
  unfold cubicR, cubicR'.
  apply (dpl_eq _ _ (((1 * a + a * 1) * a + a * a * 1) - 1)); [ring|].
  apply (derivable_pt_lim_minus (fun y => y * y * y) (fun y => y)); [|apply derivable_pt_lim_id].
  apply (derivable_pt_lim_mult (fun y => y * y) (fun y => y)); [|apply derivable_pt_lim_id].
  apply (derivable_pt_lim_mult (fun y => y) (fun y => y)); apply derivable_pt_lim_id.
Qed.

Lemma ex_Habs : forall k x, length x = sdim (ex_dm k) ->
  hdiff (sdim (ex_dm k)) (sdim (ex_dm k)) (ex_af k) x (ex_ad k x) /\
  blin (sdim (ex_dm k)) (sdim (ex_dm k)) (ex_ad k x).
Proof.
  intros k x Hx. cbn [ex_dm sdim] in *. split.
  - apply (hdiff_ext_len _ _ _ _ (fun d => vmul d (map cubicR' x))).
    { intros d _. apply vmul_comm. }
    intros g d Hc. apply (curve_map _ cubicR cubicR'); [exact Hc|]. intros i _. apply dpl_cubic.
  - apply (blin_ext _ _ (fun d => vmul d (map cubicR' x))).
    { intros d. apply vmul_comm. }
    apply blin_mulv. rewrite map_length. exact Hx.
Qed.

(* a tree using every expression class, at a regular point *)
Definition ex_tree : @oexpr R :=
  OSum (OComp (OLeaf (LUf Usquare 2)) (ORScal (OLeaf (LAbs 2)) 2))
       (OPProd (OLVec (OLeaf (LUf Ureciprocal 2)) [1; 2])
               (OVecSum (ORVec (OLScal (OLeaf (LPow (SV 2) 3)) 3) [2; 1])
                        [1; 1])).
Lemma ex_premises :
  let P := PR ex_af ex_ad ex_dm ex_dm in
  wt P ex_tree = true /\ is_lin ex_tree = false /\ length [1; 2] = sdim (dom P ex_tree) /\
  deriv_ok P ex_tree [1; 2] = true /\ regular ex_af ex_ad ex_dm ex_dm ex_tree [1; 2].
Proof.
  cbn. repeat split; try reflexivity.
  - intros i Hi. destruct i as [|[|i]]; [lra|lra|lia].
  - intros Hz; lia.
Qed.
