(* C06/Proofs.v -- soundness of Operator.derivative for every expression tree. *)
From Coq Require Import Reals Lra Lia List Bool ZArith.
From Verif Require Import Base.Num Base.Vec Base.VecR C06.Syntax Gen.UfuncDeriv C06.Model C06.Calc C06.Lin C06.LinMap C06.Leaves C06.Blocks C06.PwNorm C06.Cplx.
Import ListNotations.
Local Open Scope R_scope.

Lemma nats_eqb_eq a b : nats_eqb a b = true -> a = b.
Proof.
  revert b; induction a as [|n a IH]; intros [|m b] H; cbn in H; try discriminate; [reflexivity|].
  apply andb_prop in H as [H1 H2]. apply Nat.eqb_eq in H1. subst. f_equal. apply IH; exact H2.
Qed.
Lemma nats_eqb_refl a : nats_eqb a a = true.
Proof. induction a as [|n a IH]; cbn; [reflexivity|]. rewrite Nat.eqb_refl, IH. reflexivity. Qed.
Lemma space_eqb_eq a b : space_eqb a b = true -> a = b.
Proof.
  destruct a, b; cbn; try discriminate; auto.
  - intros H; apply Nat.eqb_eq in H; subst; reflexivity.
  - intros H; apply nats_eqb_eq in H; subst; reflexivity.
  - intros H; apply Nat.eqb_eq in H; subst; reflexivity.
Qed.
Lemma space_eqb_refl s : space_eqb s s = true.
Proof. destruct s; cbn; [reflexivity|apply Nat.eqb_refl|apply nats_eqb_refl|apply Nat.eqb_refl]. Qed.
Lemma is_SV_dim s : is_SV s = true -> s = SV (sdim s).
Proof. destruct s; cbn; try discriminate; reflexivity. Qed.

Ltac bsplit := split; [|split; [|split]].
Ltac ssplit := split; [|split; [|split; [|split; [|split]]]].
Notation leafR := (@leaf R).
Notation oexprR := (@oexpr R).

(* weaker extensionality: only on arguments of the right length *)
Lemma hdiff_ext_len n m F x L L' :
  (forall d, length d = n -> L d = L' d) -> hdiff n m F x L -> hdiff n m F x L'.
Proof.
  intros HL H g d Hc. specialize (H g d Hc).
  destruct Hc as (_ & Hd & _). rewrite <- (HL d Hd). exact H.
Qed.
Lemma blin_ext_len n m L L' :
  (forall d, length d = n -> L d = L' d) -> blin n m L -> blin n m L'.
Proof.
  intros He (Hl & Ha & Hs & Hd). bsplit.
  - intros d Hd'; rewrite <- He by exact Hd'; apply Hl; exact Hd'.
  - intros a b Hx Hy. rewrite <- !He; auto. unfold vadd; apply vmap2_len; auto.
  - intros c a Hx. rewrite <- !He; auto. rewrite vscal_len; exact Hx.
  - intros y Hy g d Hc.
    pose proof (Hd y Hy g d Hc) as H.
    destruct Hc as (H0 & Hdl & Hgl & _).
    rewrite <- (He d Hdl), <- (He y Hy).
    eapply curve_ext; [|exact H]. intros t; apply He. apply Hgl.
Qed.

Section Sound.
Variable af : nat -> Rvec -> Rvec.
Variable ad : nat -> Rvec -> Rvec -> Rvec.
Variable adm arn : nat -> space.
Notation P := (PR af ad adm arn).

(* what is assumed of user-defined leaves: their own derivative is right *)
Hypothesis Habs : forall k x, length x = sdim (adm k) ->
  hdiff (sdim (adm k)) (sdim (arn k)) (af k) x (ad k x) /\
  blin (sdim (adm k)) (sdim (arn k)) (ad k x).

(* ---------- regular points ---------- *)
Definition lregular (l : leafR) (x : Rvec) : Prop :=
  match l with
  | LPow _ p => (p <= 0)%Z -> forall i, (i < length x)%nat -> nth i x 0 <> 0
  | LUf f _ => forall i, (i < length x)%nat -> uregular f (nth i x 0)
  | LPwNorm n p w =>
      if (p =? 1)%Z then forall i, (i < length x)%nat -> nth i x 0 <> 0   (* |.| has a kink at 0 *)
      else forall j, (j < n)%nat -> 0 < nth j (pwnormsq n w x) 0            (* point-wise norm > 0 *)
  | LCMod s => forall j, (j < sdim (real_space s))%nat -> 0 < nth j (cmod2 s x) 0    (* |z| > 0 *)
  | _ => True
  end.
Fixpoint regular (e : oexprR) (x : Rvec) : Prop :=
  match e with
  | OLeaf l => lregular l x
  | OSum a b | OPProd a b => regular a x /\ regular b x
  | OVecSum a _ | OLScal a _ | OLVec a _ | OFLVec a _ => regular a x
  | OComp a b => regular b x /\ regular a (eval P b x)
  | ORScal a s => regular a (vscal s x)
  | ORVec a v => regular a (vmul v x)
  | OBroadcast ops =>
      (fix rg (l : list oexprR) : Prop :=
         match l with [] => True | a :: r => regular a x /\ rg r end) ops
  | OReduction ops | ODiagonal ops =>
      (fix rg (l : list oexprR) (x : Rvec) : Prop :=
         match l with
         | [] => True
         | a :: r => regular a (firstn (dsize P a) x) /\ rg r (skipn (dsize P a) x)
         end) ops x
  | OPSO cs _ ents =>
      (fix rg (l : list (nat * nat * oexprR)) : Prop :=
         match l with
         | [] => True
         | (_, j, a) :: r => regular a (proj cs j x) /\ rg r
         end) ents
  end.

(* structural induction with the induction hypothesis for every block operand *)
Section OInd.
Variable Q : oexprR -> Prop.
Hypothesis Hleaf : forall l, Q (OLeaf l).
Hypothesis Hsum : forall a, Q a -> forall b, Q b -> Q (OSum a b).
Hypothesis Hvecsum : forall a, Q a -> forall v, Q (OVecSum a v).
Hypothesis Hcomp : forall a, Q a -> forall b, Q b -> Q (OComp a b).
Hypothesis Hpprod : forall a, Q a -> forall b, Q b -> Q (OPProd a b).
Hypothesis Hlscal : forall a, Q a -> forall s, Q (OLScal a s).
Hypothesis Hrscal : forall a, Q a -> forall s, Q (ORScal a s).
Hypothesis Hlvec : forall a, Q a -> forall v, Q (OLVec a v).
Hypothesis Hrvec : forall a, Q a -> forall v, Q (ORVec a v).
Hypothesis Hflvec : forall a, Q a -> forall v, Q (OFLVec a v).
Hypothesis Hbc : forall ops, Forall Q ops -> Q (OBroadcast ops).
Hypothesis Hred : forall ops, Forall Q ops -> Q (OReduction ops).
Hypothesis Hdiag : forall ops, Forall Q ops -> Q (ODiagonal ops).
Hypothesis Hpso : forall cs rs ents, Forall (fun t : nat * nat * oexprR => Q (snd t)) ents -> Q (OPSO cs rs ents).
Fixpoint oexpr_ind2 (e : oexprR) : Q e :=
  let all := fix go (l : list oexprR) : Forall Q l :=
               match l with
               | [] => Forall_nil Q
               | a :: r => Forall_cons a (oexpr_ind2 a) (go r)
               end in
  let all3 := fix go (l : list (nat * nat * oexprR)) : Forall (fun t : nat * nat * oexprR => Q (snd t)) l :=
               match l with
               | [] => Forall_nil _
               | t :: r => Forall_cons t (match t as t0 return Q (snd t0) with (_, a) => oexpr_ind2 a end) (go r)
               end in
  match e with
  | OLeaf l => Hleaf l
  | OSum a b => Hsum a (oexpr_ind2 a) b (oexpr_ind2 b)
  | OVecSum a v => Hvecsum a (oexpr_ind2 a) v
  | OComp a b => Hcomp a (oexpr_ind2 a) b (oexpr_ind2 b)
  | OPProd a b => Hpprod a (oexpr_ind2 a) b (oexpr_ind2 b)
  | OLScal a c => Hlscal a (oexpr_ind2 a) c
  | ORScal a c => Hrscal a (oexpr_ind2 a) c
  | OLVec a v => Hlvec a (oexpr_ind2 a) v
  | ORVec a v => Hrvec a (oexpr_ind2 a) v
  | OFLVec a v => Hflvec a (oexpr_ind2 a) v
  | OBroadcast ops => Hbc ops (all ops)
  | OReduction ops => Hred ops (all ops)
  | ODiagonal ops => Hdiag ops (all ops)
  | OPSO cs rs ents => Hpso cs rs ents (all3 ents)
  end.
End OInd.

(* ---------- leaves ---------- *)
Lemma all_zero_zeros (c : Rvec) : all_zero c = true -> c = vconst (length c) 0.
Proof.
  induction c as [|u c IH]; [reflexivity|]. cbn [all_zero forallb]. intros H.
  apply andb_prop in H as [Hu Hc]. numR. destruct (Reqb_spec u 0) as [->|]; [|discriminate].
  cbn [length vconst repeat]. f_equal. apply IH. exact Hc.
Qed.

Lemma forallb_len (rows : list Rvec) n :
  forallb (fun r => Nat.eqb (length r) n) rows = true -> forall r, In r rows -> length r = n.
Proof. intros H r Hin. rewrite forallb_forall in H. apply Nat.eqb_eq. apply H; exact Hin. Qed.

Lemma llin_blin l : llin l = true -> lwt P l = true ->
  blin (sdim (ldom P l)) (sdim (lran P l)) (leval P l).
Proof.
  intros Hl Hw. destruct l; cbn [llin lwt ldom lran leval sdim] in *; try discriminate Hl.
  - apply blin_scale.
  - apply andb_prop in Hw as [Hw _]. apply Nat.eqb_eq in Hw. apply blin_mulv. exact Hw.
  - apply blin_mvec. apply forallb_len. exact Hw.
  - apply Nat.eqb_eq in Hw.
    apply (blin_ext _ _ (fun d => [dot d (vmul w v)])); [intros d; cbn [leval]; rewrite wdot_as_dot_r; reflexivity|].
    apply blin_dot. unfold vmul. apply vmap2_len; auto.
  - apply blin_zero.
  - apply Nat.eqb_eq in Hw. rewrite (all_zero_zeros c Hl), Hw. apply blin_zero.
  - apply Z.eqb_eq in Hl. subst p.
    apply (blin_ext _ _ (fun d => d)); [|apply blin_id].
    intros d. cbn [leval]. rewrite (map_ext _ (fun a => a)) by (intros a; apply zpow_1). symmetry; apply map_id.
  - destruct (ufunc_linear_scale af ad adm arn f Hl) as [c Hc].
    apply (blin_ext _ _ (vscal c)); [|apply blin_scale].
    intros d. cbn [leval]. unfold vscal. apply map_ext. intros a. rewrite Hc. reflexivity.
  - apply Nat.eqb_eq in Hw. cbn [PR adom aran ader]. apply Habs. exact Hw.
  - apply andb_prop in Hw as [Hw _]. apply Nat.eqb_eq in Hw. rewrite list_sum_repeat.
    apply pwinner_blin. exact Hw.
  - apply re_blin. destruct (is_field s); [discriminate Hw|reflexivity].
  - apply im_blin. destruct (is_field s); [discriminate Hw|reflexivity].
  - apply andb_prop in Hw as [Hf Hx]. apply Nat.eqb_eq in Hx.
    assert (Hf' : is_field s = false) by (destruct (is_field s); [discriminate Hf|reflexivity]).
    destruct sq.
    + apply (cmodD_sq_blin s x Hf' Hx).
    + apply (cmodD_blin s x _ Hf' Hx). cbn [PR rt]. rewrite map_length. apply cmod2_len; assumption.
Qed.

Lemma leval_len l y : lwt P l = true -> length y = sdim (ldom P l) ->
  length (leval P l y) = sdim (lran P l).
Proof.
  intros Hw Hy. destruct l; cbn [lwt ldom lran leval sdim] in *; try reflexivity.
  - rewrite vscal_len; exact Hy.
  - apply andb_prop in Hw as [Hw _]. apply Nat.eqb_eq in Hw. unfold vmul; apply vmap2_len; assumption.
  - apply mvec_len.
  - apply vconst_len.
  - apply Nat.eqb_eq in Hw; exact Hw.
  - rewrite map_length; exact Hy.
  - rewrite map_length; exact Hy.
  - cbn [PR afun adom aran] in *. destruct (Habs k y Hy) as [Hh _].
    destruct (Hh (fun _ => y) _ (curve_const _ y Hy)) as (_ & _ & Hl & _). apply (Hl 0).
  - apply Nat.eqb_eq in Hw. cbn [PR ader adom aran] in *.
    destruct (Habs k x Hw) as [_ Hb]. apply (blin_len _ _ _ _ Hb). exact Hy.
  - rewrite list_sum_repeat in Hy. destruct (p =? 1)%Z.
    + unfold pwnorm1. apply pwsum_len; auto. intros a b Ha _. rewrite map_length; exact Ha.
    + unfold pwnorm2, pwnormsq. rewrite map_length. apply pwsum_len; auto.
      intros a b Ha Hb. unfold vmul; apply vmap2_len; assumption.
  - rewrite list_sum_repeat in Hy. apply andb_prop in Hw as [Hw _]. apply Nat.eqb_eq in Hw.
    unfold pwinner. apply pwsum_len; auto.
    intros a b Ha Hb. unfold vmul; apply vmap2_len; assumption.
  - apply re_len; [destruct (is_field s); [discriminate Hw|reflexivity]|exact Hy].
  - apply im_len; [destruct (is_field s); [discriminate Hw|reflexivity]|exact Hy].
  - rewrite map_length. apply cmod2_len; [destruct (is_field s); [discriminate Hw|reflexivity]|exact Hy].
  - apply cmod2_len; [destruct (is_field s); [discriminate Hw|reflexivity]|exact Hy].
  - apply andb_prop in Hw as [Hf Hx]. apply Nat.eqb_eq in Hx.
    assert (Hf' : is_field s = false) by (destruct (is_field s); [discriminate Hf|reflexivity]).
    destruct sq.
    + rewrite vscal_len. apply redot_len; assumption.
    + unfold vdiv. apply vmap2_len; [apply redot_len; assumption|].
      rewrite map_length. apply cmod2_len; assumption.
Qed.

(* the bundle proved of every derivative object *)
Definition sound (n m : nat) (sd sr : space) (F : Rvec -> Rvec) (x : Rvec) (D : oexprR) : Prop :=
  hdiff n m F x (eval P D) /\ blin n m (eval P D) /\
  is_lin D = true /\ wt P D = true /\ dom P D = sd /\ ran P D = sr.

Lemma vscal_vmul_map c (d x : Rvec) (g : R -> R) :
  vscal c (vmul d (map g x)) = vmul d (map (fun a => c * g a) x).
Proof.
  revert x; induction d as [|u d IH]; intros [|v x]; cbn [map vmul vmap2 vscal]; try reflexivity.
  unfold vmul, vscal in *. rewrite IH. f_equal. numR. ring.
Qed.

Lemma lderiv_sound l x :
  lwt P l = true -> length x = sdim (ldom P l) -> lderiv_ok P l x = true -> lregular l x ->
  sound (sdim (ldom P l)) (sdim (lran P l)) (ldom P l) (lran P l) (leval P l) x (lderiv P l x).
Proof.
  intros Hw Hx Hok Hreg.
  assert (Hself : llin l = true -> lderiv P l x = OLeaf l ->
            sound (sdim (ldom P l)) (sdim (lran P l)) (ldom P l) (lran P l) (leval P l) x (lderiv P l x)).
  { intros Hl ->. pose proof (llin_blin l Hl Hw) as Hb. unfold sound. cbn [eval is_lin wt dom ran].
    ssplit; auto. apply (blin_hdiff _ _ _ _ Hb Hx). }
  destruct l; try (apply Hself; [exact Hok || reflexivity|reflexivity]).
  - (* LConst *)
    cbn [lderiv ldom lran lwt leval] in *. apply Nat.eqb_eq in Hw.
    unfold sound. cbn [eval leval is_lin llin wt lwt dom ran ldom lran].
    ssplit; try reflexivity; [apply hdiff_const; exact Hw|apply blin_zero].
  - (* LPow *)
    cbn [lderiv ldom lran lwt leval mk_lscal lregular] in *.
    unfold sound. cbn [eval leval is_lin llin wt lwt dom ran ldom lran].
    assert (Hlen : length (map (fun a : R => zpow a (p - 1)) x) = sdim s) by (rewrite map_length; exact Hx).
    ssplit; auto.
    + apply (hdiff_ext_len _ _ _ _ (fun d => vmul d (map (fun a => IZR p * zpow a (p - 1)) x))).
      { intros d _. symmetry. apply (vscal_vmul_map (IZR p) d x (fun a => zpow a (p - 1))). }
      intros g d Hc. apply (curve_map _ (fun a => zpow a p) (fun a => IZR p * zpow a (p - 1))); [exact Hc|].
      intros i Hi. destruct (Z_le_gt_dec p 0) as [Hp|Hp].
      * apply zpow_deriv_nonpos; [exact Hp|]. apply Hreg; [exact Hp|lia].
      * apply zpow_deriv_pos. lia.
    + apply (blin_comp _ (sdim s)); [apply blin_mulv; exact Hlen|apply blin_scale].
    + rewrite map_length, Hw, andb_true_r. apply Nat.eqb_eq. exact Hx.
  - (* LUf *)
    cbn [lderiv lderiv_ok ldom lran lwt leval lregular sdim] in *.
    destruct (ufunc_deriv f) as [e|] eqn:He.
    + unfold sound. cbn [eval leval is_lin llin wt lwt dom ran ldom lran sdim].
      assert (Hlen : length (map (ueval P e) x) = n) by (rewrite map_length; exact Hx).
      ssplit; auto.
      * intros g d Hc. apply (curve_map _ (usem P f) (ueval P e)); [exact Hc|].
        intros i Hi. apply (ufunc_deriv_table_sound af ad adm arn f e He). apply Hreg. lia.
      * apply blin_mulv; exact Hlen.
      * rewrite andb_true_r. apply Nat.eqb_eq. exact Hlen.
    + apply Hself; [exact Hok|reflexivity].
  - (* LNorm *)
    cbn [lderiv lderiv_ok ldom lran lwt leval lregular sdim PR rt] in *.
    unfold sound. cbn [eval leval is_lin llin wt lwt dom ran ldom lran sdim].
    assert (Hnz : sqrt (wdot w x x) <> 0).
    { numR. destruct (Reqb_spec (sqrt (wdot w x x)) 0); [discriminate Hok|assumption]. }
    assert (Hpos : 0 < wdot w x x).
    { destruct (Rle_or_lt (wdot w x x) 0) as [Hle|Hlt]; [|exact Hlt].
      exfalso. apply Hnz. apply sqrt_neg_0. exact Hle. }
    assert (Hml : length (map (fun a : R => a / sqrt (wdot w x x)) x) = length w) by (rewrite map_length; exact Hx).
    ssplit; auto.
    + intros g d Hc. apply (curve_wnorm (length w)); auto.
    + apply (blin_ext _ _ (fun d => [dot d (vmul w (map (fun a : R => a / sqrt (wdot w x x)) x))]));
        [intros d; cbn [eval leval]; rewrite (wdot_as_dot_r w d); reflexivity|].
      apply blin_dot. unfold vmul. apply vmap2_len; auto.
    + rewrite map_length, Hx. apply Nat.eqb_refl.
  - (* LDist *)
    cbn [lderiv lderiv_ok ldom lran lwt leval lregular sdim PR rt] in *.
    apply Nat.eqb_eq in Hw.
    unfold sound. cbn [eval leval is_lin llin wt lwt dom ran ldom lran sdim].
    set (df := vsub x v) in *.
    assert (Hnz : sqrt (wdot w df df) <> 0).
    { numR. destruct (Reqb_spec (sqrt (wdot w df df)) 0); [discriminate Hok|assumption]. }
    assert (Hpos : 0 < wdot w df df).
    { destruct (Rle_or_lt (wdot w df df) 0) as [Hle|Hlt]; [|exact Hlt].
      exfalso. apply Hnz. apply sqrt_neg_0. exact Hle. }
    assert (Hsub : length df = length v) by (unfold df, vsub; apply vmap2_len; auto).
    assert (Hml : length (map (fun a : R => a / sqrt (wdot w df df)) df) = length v) by (rewrite map_length; exact Hsub).
    ssplit; auto; try (rewrite map_length, Hsub, ?Hw; try apply Nat.eqb_refl; reflexivity).
    + intros g d Hc.
      apply (curve_wnorm (length v) w (fun t => vsub (g t) v) df d); [|exact Hw|exact Hpos].
      apply curve_sub_const; [exact Hc|reflexivity].
    + apply (blin_ext _ _ (fun d => [dot d (vmul w (map (fun a : R => a / sqrt (wdot w df df)) df))]));
        [intros d; cbn [eval leval]; rewrite (wdot_as_dot_r w d); reflexivity|].
      apply blin_dot. unfold vmul. apply vmap2_len; auto.
  - (* LAbs *)
    cbn [lderiv ldom lran lwt leval PR afun adom aran] in *.
    destruct (Habs k x Hx) as [Hh Hb].
    unfold sound. cbn [eval leval is_lin llin wt lwt dom ran ldom lran PR ader adom aran].
    ssplit; auto. apply Nat.eqb_eq. exact Hx.
  - (* LPwNorm *)
    cbn [lwt] in Hw. apply andb_prop in Hw as [Hp Hk].
    assert (Hp' : p = 1%Z \/ p = 2%Z) by (apply orb_prop in Hp as [E|E]; apply Z.eqb_eq in E; auto).
    destruct Hp' as [-> | ->];
      cbn [lderiv ldom lran leval lregular sdim Z.eqb Pos.eqb] in *; rewrite ?list_sum_repeat in *;
      unfold sound; cbn [eval leval is_lin llin wt lwt dom ran ldom lran sdim Z.eqb Pos.eqb]; rewrite ?list_sum_repeat.
    + assert (Hlen : length (map (@nsign R _) x) = (length w * n)%nat) by (rewrite map_length; exact Hx).
      ssplit; auto.
      * intros g d Hc. apply (pwnorm1_curve n w g x d Hc Hreg).
      * apply pwinner_blin. exact Hlen.
      * rewrite Hlen, Nat.eqb_refl, Hk. reflexivity.
    + assert (HNl : length (pwnorm2 P n w x) = n).
      { unfold pwnorm2, pwnormsq. rewrite map_length. apply pwsum_len; auto.
        intros a b Ha Hb. unfold vmul; apply vmap2_len; assumption. }
      assert (Hlen : length (pwdiv n (length w) x (pwnorm2 P n w x)) = (length w * n)%nat)
        by (apply pwdiv_len; assumption).
      ssplit; auto.
      * intros g d Hc. apply (pwnorm2_curve af ad adm arn n w g x d Hc Hreg).
      * apply pwinner_blin. exact Hlen.
      * rewrite Hlen, Nat.eqb_refl, Hk. reflexivity.
  - (* LCMod *)
    cbn [lderiv ldom lran lwt leval lregular] in *.
    assert (Hf : is_field s = false) by (destruct (is_field s); [discriminate Hw|reflexivity]).
    unfold sound. cbn [eval leval is_lin llin wt lwt dom ran ldom lran PR rt]. ssplit; auto.
    + intros g d Hc. apply (cmod_curve s g x d Hf Hc Hreg).
    + apply (cmodD_blin s x _ Hf Hx). rewrite map_length. apply cmod2_len; assumption.
    + rewrite Hf, Hx, Nat.eqb_refl. reflexivity.
  - (* LCMod2 *)
    cbn [lderiv ldom lran lwt leval lregular] in *.
    assert (Hf : is_field s = false) by (destruct (is_field s); [discriminate Hw|reflexivity]).
    unfold sound. cbn [eval leval is_lin llin wt lwt dom ran ldom lran PR rt of_Z Num_R]. ssplit; auto.
    + intros g d Hc. apply (cmod2_curve s g x d Hf Hc).
    + apply (cmodD_sq_blin s x Hf Hx).
    + rewrite Hf, Hx, Nat.eqb_refl. reflexivity.
Qed.

(* ---------- expressions ---------- *)
Lemma mk_lscal_eval s D d : eval P (mk_lscal s D) d = vscal s (eval P D d).
Proof. destruct D; cbn [mk_lscal eval]; try reflexivity. rewrite vscal_vscal. reflexivity. Qed.
Lemma mk_lscal_lin s D : is_lin (mk_lscal s D) = is_lin D.
Proof. destruct D; reflexivity. Qed.
Lemma mk_lscal_wt s D : wt P (mk_lscal s D) = wt P D.
Proof. destruct D; reflexivity. Qed.
Lemma mk_lscal_dom s D : dom P (mk_lscal s D) = dom P D.
Proof. destruct D; reflexivity. Qed.
Lemma mk_lscal_ran s D : ran P (mk_lscal s D) = ran P D.
Proof. destruct D; reflexivity. Qed.

(* ---------- block operators: bookkeeping ---------- *)
Notation dsz := (dsize P).
Definition rsz (a : oexprR) : nat := sdim (ran P a).
Definition bwt (a : oexprR) : Prop :=
  wt P a = true /\ is_SV (dom P a) = true /\ is_SV (ran P a) = true.

Lemma forallb_Forall {A} (f : A -> bool) l : forallb f l = true <-> Forall (fun a => f a = true) l.
Proof.
  induction l as [|a l IH]; cbn; [split; auto|].
  rewrite andb_true_iff, IH. split; [intros [H1 H2]; constructor; auto|intros H; inversion H; auto].
Qed.

Lemma wt_bc ops : wt P (OBroadcast ops) = true <->
  exists a0 r, ops = a0 :: r /\ Forall bwt ops /\ Forall (fun a => dom P a = dom P a0) ops.
Proof.
  cbn [wt]. destruct ops as [|a0 r]; [split; [discriminate|intros (? & ? & H & _); discriminate H]|].
  rewrite forallb_Forall. split.
  - intros H. exists a0, r. split; [reflexivity|]. split.
    + eapply Forall_impl; [|exact H]. intros a Ha. cbn beta in Ha.
      apply andb_prop in Ha as [Ha _]. apply andb_prop in Ha as [Ha H3]. apply andb_prop in Ha as [H1 H2].
      repeat split; assumption.
    + eapply Forall_impl; [|exact H]. intros a Ha. cbn beta in Ha.
      apply andb_prop in Ha as [_ Ha]. apply space_eqb_eq; exact Ha.
  - intros (b0 & r' & E & Hb & Hd). injection E as <- <-.
    rewrite Forall_forall in *. intros a Hin. destruct (Hb a Hin) as (H1 & H2 & H3).
    rewrite H1, H2, H3, (Hd a Hin). cbn. apply space_eqb_refl.
Qed.
Lemma wt_red ops : wt P (OReduction ops) = true <->
  exists a0 r, ops = a0 :: r /\ Forall bwt ops /\ Forall (fun a => ran P a = ran P a0) ops.
Proof.
  cbn [wt]. destruct ops as [|a0 r]; [split; [discriminate|intros (? & ? & H & _); discriminate H]|].
  rewrite forallb_Forall. split.
  - intros H. exists a0, r. split; [reflexivity|]. split.
    + eapply Forall_impl; [|exact H]. intros a Ha. cbn beta in Ha.
      apply andb_prop in Ha as [Ha _]. apply andb_prop in Ha as [Ha H3]. apply andb_prop in Ha as [H1 H2].
      repeat split; assumption.
    + eapply Forall_impl; [|exact H]. intros a Ha. cbn beta in Ha.
      apply andb_prop in Ha as [_ Ha]. apply space_eqb_eq; exact Ha.
  - intros (b0 & r' & E & Hb & Hd). injection E as <- <-.
    rewrite Forall_forall in *. intros a Hin. destruct (Hb a Hin) as (H1 & H2 & H3).
    rewrite H1, H2, H3, (Hd a Hin). cbn. apply space_eqb_refl.
Qed.
Lemma wt_diag ops : wt P (ODiagonal ops) = true <-> ops <> [] /\ Forall bwt ops.
Proof.
  cbn [wt]. destruct ops as [|a0 r]; [split; [discriminate|intros [H _]; contradiction]|].
  rewrite forallb_Forall. split.
  - intros H. split; [discriminate|].
    eapply Forall_impl; [|exact H]. intros a Ha. cbn beta in Ha.
    apply andb_prop in Ha as [Ha H3]. apply andb_prop in Ha as [H1 H2]. repeat split; assumption.
  - intros [_ Hb]. eapply Forall_impl; [|exact Hb]. intros a (H1 & H2 & H3). rewrite H1, H2, H3. reflexivity.
Qed.

Lemma bmc {A B} (f : A -> Rvec -> B) sz a l (x : Rvec) :
  blockmap f sz (a :: l) x = f a (firstn (sz a) x) :: blockmap f sz l (skipn (sz a) x).
Proof. reflexivity. Qed.
Lemma lsc n l : list_sum (n :: l) = (n + list_sum l)%nat.
Proof. reflexivity. Qed.
Lemma vsum_cons m (v : Rvec) l : vsum m (v :: l) = vadd v (vsum m l).
Proof. reflexivity. Qed.
Lemma vsum_len m (l : list Rvec) : Forall (fun v => length v = m) l -> length (vsum m l) = m.
Proof.
  induction 1 as [|v l Hv _ IH]; [apply vconst_len|].
  rewrite vsum_cons. unfold vadd. apply vmap2_len; assumption.
Qed.
Lemma firstn_len_le (y : Rvec) k : (k <= length y)%nat -> length (firstn k y) = k.
Proof. intros H. rewrite firstn_length. lia. Qed.

Definition len_ok (a : oexprR) : Prop :=
  wt P a = true -> forall y, length y = sdim (dom P a) -> length (eval P a y) = sdim (ran P a).

Lemma diag_len ops : Forall len_ok ops -> Forall bwt ops ->
  forall y, length y = list_sum (map dsz ops) ->
  length (concat (blockmap (eval P) dsz ops y)) = list_sum (map rsz ops) /\
  Forall2 (fun a v => length v = rsz a) ops (blockmap (eval P) dsz ops y).
Proof.
  induction 1 as [|a r Ha _ IH]; intros Hb y Hy; [split; [reflexivity|constructor]|].
  inversion Hb as [|? ? (Wa & _) Hb']; subst. cbn [map] in Hy. rewrite lsc in Hy.
  rewrite blockmap_cons. cbn [concat map]. rewrite lsc, app_length.
  assert (H1 : length (eval P a (firstn (dsz a) y)) = rsz a).
  { apply Ha; [exact Wa|]. change (sdim (dom P a)) with (dsz a). apply firstn_len_le. lia. }
  destruct (IH Hb' (skipn (dsz a) y)) as [H2 H3]; [rewrite skipn_length; lia|].
  split; [rewrite H1, H2; reflexivity|constructor; assumption].
Qed.
Lemma bc_len ops y s : Forall len_ok ops -> Forall bwt ops -> Forall (fun a => dom P a = s) ops ->
  length y = sdim s ->
  length (concat (map (fun a => eval P a y) ops)) = list_sum (map rsz ops).
Proof.
  induction 1 as [|a r Ha _ IH]; intros Hb Hd Hy; [reflexivity|].
  inversion Hb as [|? ? (Wa & _) Hb']; subst. inversion Hd as [|? ? Da Hd']; subst.
  cbn [concat map]. rewrite lsc, app_length, IH by assumption.
  f_equal. apply Ha; assumption.
Qed.

Lemma red_lens ops (l : list Rvec) s :
  Forall2 (fun a v => length v = rsz a) ops l -> Forall (fun a => ran P a = s) ops ->
  Forall (fun v => length v = sdim s) l.
Proof.
  induction 1 as [|a v ops' l' Hv _ IHl]; intros H; inversion H; subst; constructor; auto.
Qed.

(* ---------- ProductSpaceOperator: bookkeeping ---------- *)
Definition ewt (cs rs : list nat) (t : nat * nat * oexprR) : Prop :=
  let '(i, j, a) := t in
  wt P a = true /\ (i < length rs)%nat /\ (j < length cs)%nat /\
  dom P a = SV (nth j cs 0%nat) /\ ran P a = SV (nth i rs 0%nat).
Lemma wt_pso cs rs ents : wt P (OPSO cs rs ents) = true <-> Forall (ewt cs rs) ents.
Proof.
  cbn [wt]. rewrite forallb_Forall. split; intros H; (eapply Forall_impl; [|exact H]); intros [[i j] a]; cbn beta iota.
  - intros Ha. apply andb_prop in Ha as [Ha H5]. apply andb_prop in Ha as [Ha H4].
    apply andb_prop in Ha as [Ha H3]. apply andb_prop in Ha as [H1 H2].
    apply Nat.ltb_lt in H2, H3. apply space_eqb_eq in H4, H5. repeat split; assumption.
  - intros (H1 & H2 & H3 & H4 & H5). apply Nat.ltb_lt in H2, H3.
    rewrite H1, H2, H3, H4, H5, !space_eqb_refl. reflexivity.
Qed.
Lemma eval_pso_cons cs rs i j a r x :
  eval P (OPSO cs rs ((i, j, a) :: r)) x = vadd (embed rs i (eval P a (proj cs j x))) (eval P (OPSO cs rs r) x).
Proof. reflexivity. Qed.
Lemma proj_len cs j (y : Rvec) : (j < length cs)%nat -> length y = list_sum cs -> length (proj cs j y) = nth j cs 0%nat.
Proof. intros Hj Hy. apply (blin_len _ _ _ _ (blin_proj cs j Hj) Hy). Qed.
Lemma embed_len rs i (v : Rvec) : (i < length rs)%nat -> length v = nth i rs 0%nat -> length (embed rs i v) = list_sum rs.
Proof. intros Hi Hv. apply (blin_len _ _ _ _ (blin_embed rs i Hi) Hv). Qed.

Lemma pso_len cs rs ents : Forall (fun t : nat * nat * oexprR => len_ok (snd t)) ents -> Forall (ewt cs rs) ents ->
  forall y, length y = list_sum cs -> length (eval P (OPSO cs rs ents) y) = list_sum rs.
Proof.
  induction 1 as [|[[i j] a] r Ha _ IH]; intros Hw y Hy; [apply vconst_len|].
  inversion Hw as [|? ? Hwa Hw']; subst. unfold ewt in Hwa; cbn beta iota in Hwa; destruct Hwa as (W1 & W2 & W3 & W4 & W5).
  rewrite eval_pso_cons. unfold vadd. apply vmap2_len; [|apply IH; assumption].
  apply embed_len; [exact W2|].
  cbn [snd] in Ha. rewrite (Ha W1); [rewrite W5; reflexivity|].
  rewrite W4. cbn [sdim]. apply proj_len; assumption.
Qed.

Lemma eval_len e : len_ok e.
Proof.
  unfold len_ok.
  induction e as [l|a IHa b IHb|a IHa v|a IHa b IHb|a IHa b IHb|a IHa s|a IHa s|a IHa v|a IHa v|a IHa v
                  |ops IH|ops IH|ops IH|cs rs ents IH] using oexpr_ind2;
    cbn [dom ran eval]; intros Hw y Hy.
  - apply leval_len; assumption.
  - cbn [wt] in Hw. apply andb_prop in Hw as [Hw Hr]. apply andb_prop in Hw as [Hw Hd]. apply andb_prop in Hw as [Ha Hb].
    apply space_eqb_eq in Hr, Hd. unfold vadd. apply vmap2_len; [apply IHa; auto|rewrite Hr; apply IHb; auto; rewrite <- Hd; auto].
  - cbn [wt] in Hw. apply andb_prop in Hw as [Hw Hr]. apply andb_prop in Hw as [Ha _]. apply Nat.eqb_eq in Hr.
    unfold vadd. apply vmap2_len; [apply IHa; auto|exact Hr].
  - cbn [wt] in Hw. apply andb_prop in Hw as [Hw Hr]. apply andb_prop in Hw as [Ha Hb]. apply space_eqb_eq in Hr.
    apply IHa; auto. rewrite <- Hr. apply IHb; auto.
  - cbn [wt] in Hw. apply andb_prop in Hw as [Hw _].
    apply andb_prop in Hw as [Hw Hr]. apply andb_prop in Hw as [Hw Hd]. apply andb_prop in Hw as [Ha Hb].
    apply space_eqb_eq in Hr, Hd. unfold vmul. apply vmap2_len; [apply IHa; auto|rewrite Hr; apply IHb; auto; rewrite <- Hd; auto].
  - cbn [wt] in Hw. rewrite vscal_len. apply IHa; auto.
  - cbn [wt] in Hw. apply IHa; auto. rewrite vscal_len; auto.
  - cbn [wt] in Hw. apply andb_prop in Hw as [Hw _].
    apply andb_prop in Hw as [Hw Hr]. apply andb_prop in Hw as [Ha _]. apply Nat.eqb_eq in Hr.
    unfold vmul. apply vmap2_len; [apply IHa; auto|exact Hr].
  - cbn [wt] in Hw. apply andb_prop in Hw as [Hw _].
    apply andb_prop in Hw as [Hw Hr]. apply andb_prop in Hw as [Ha _]. apply Nat.eqb_eq in Hr.
    apply IHa; auto. unfold vmul. apply vmap2_len; [exact Hy|exact Hr].
  - rewrite vscal_len. reflexivity.
  - (* Broadcast *)
    apply wt_bc in Hw as (a0 & r & -> & Hb & Hd). cbn [sdim].
    apply (bc_len _ _ (dom P a0)); assumption.
  - (* Reduction *)
    apply wt_red in Hw as (a0 & r & -> & Hb & Hr). cbn [sdim] in Hy.
    apply vsum_len.
    destruct (diag_len _ IH Hb y Hy) as [_ H2].
    apply (red_lens _ _ _ H2 Hr).
  - (* Diagonal *)
    apply wt_diag in Hw as [_ Hb]. cbn [sdim] in *.
    apply (diag_len _ IH Hb y Hy).
  - (* ProductSpaceOperator *)
    apply wt_pso in Hw. cbn [sdim] in *. apply (pso_len cs rs ents IH Hw y Hy).
Qed.

(* "linear => self" is justified: a flagged-linear well-typed tree IS a bounded linear map *)
Lemma lin_blin e : is_lin e = true -> wt P e = true ->
  blin (sdim (dom P e)) (sdim (ran P e)) (eval P e).
Proof.
  induction e as [l|a IHa b IHb|a IHa v|a IHa b IHb|a IHa b IHb|a IHa s|a IHa s|a IHa v|a IHa v|a IHa v
                  |ops IH|ops IH|ops IH|cs rs ents IH] using oexpr_ind2;
    cbn [is_lin dom ran]; try cbn [eval]; intros Hl Hw; try discriminate Hl.
  - apply llin_blin; assumption.
  - cbn [wt] in Hw. apply andb_prop in Hl as [La Lb].
    apply andb_prop in Hw as [Hw Hr]. apply andb_prop in Hw as [Hw Hd]. apply andb_prop in Hw as [Ha Hb].
    apply space_eqb_eq in Hr, Hd. apply blin_add; [apply IHa; auto|rewrite Hr, Hd; apply IHb; auto].
  - cbn [wt] in Hw. apply andb_prop in Hl as [La Lb].
    apply andb_prop in Hw as [Hw Hr]. apply andb_prop in Hw as [Ha Hb]. apply space_eqb_eq in Hr.
    apply (blin_comp _ (sdim (ran P b)) _ (eval P a) (eval P b)); [apply IHb; auto|rewrite Hr; apply IHa; auto].
  - cbn [wt] in Hw. apply (blin_comp _ (sdim (ran P a)) _ (vscal s) (eval P a)); [apply IHa; auto|apply blin_scale].
  - cbn [wt] in Hw. apply (blin_comp _ (sdim (dom P a)) _ (eval P a) (vscal s)); [apply blin_scale|apply IHa; auto].
  - cbn [wt] in Hw. apply andb_prop in Hw as [Hw _].
    apply andb_prop in Hw as [Hw Hr]. apply andb_prop in Hw as [Ha _]. apply Nat.eqb_eq in Hr.
    apply (blin_comp _ (sdim (ran P a)) _ (fun y => vmul y v) (eval P a)); [apply IHa; auto|apply blin_mulv; exact Hr].
  - cbn [wt] in Hw. apply andb_prop in Hw as [Hw _].
    apply andb_prop in Hw as [Hw Hr]. apply andb_prop in Hw as [Ha _]. apply Nat.eqb_eq in Hr.
    apply (blin_comp _ (sdim (dom P a)) _ (eval P a) (fun y => vmul y v)); [apply blin_mulv; exact Hr|apply IHa; auto].
  - cbn [wt] in Hw. apply andb_prop in Hw as [Ha Hr]. apply space_eqb_eq in Hr.
    apply (blin_comp _ 1%nat _ (fun y => vscal (hd 0 y) v) (eval P a)); [rewrite Hr in IHa; apply IHa; auto|apply blin_outer; reflexivity].
  - (* Broadcast *)
    apply wt_bc in Hw as (a0 & r & -> & Hb & Hd). cbn [sdim].
    apply (bc_blin (eval P) rsz (sdim (dom P a0)) (a0 :: r)).
    intros a Hin. rewrite forallb_forall in Hl. rewrite Forall_forall in IH, Hb, Hd.
    rewrite <- (Hd a Hin). apply IH; auto. apply Hb; exact Hin.
  - (* Reduction *)
    apply wt_red in Hw as (a0 & r & -> & Hb & Hr). cbn [sdim].
    apply (red_blin (eval P) dsz (sdim (ran P a0)) (a0 :: r)).
    intros a Hin. rewrite forallb_forall in Hl. rewrite Forall_forall in IH, Hb, Hr.
    rewrite <- (Hr a Hin). apply IH; auto. apply Hb; exact Hin.
  - (* Diagonal *)
    apply wt_diag in Hw as [_ Hb]. cbn [sdim].
    apply (diag_blin (eval P) dsz rsz ops).
    intros a Hin. rewrite forallb_forall in Hl. rewrite Forall_forall in IH, Hb.
    apply IH; auto. apply Hb; exact Hin.
  - (* ProductSpaceOperator *)
    apply wt_pso in Hw. cbn [sdim]. apply forallb_Forall in Hl.
    induction IH as [|[[i j] a] r Ha _ IHr].
    + apply blin_zero.
    + inversion Hw as [|? ? Hwa Hw']; subst. unfold ewt in Hwa; cbn beta iota in Hwa; destruct Hwa as (W1 & W2 & W3 & W4 & W5).
      inversion Hl as [|? ? La Hl']; subst. cbn beta iota in La. cbn [snd] in Ha.
      apply (blin_ext _ _ (fun d => vadd ((fun y => embed rs i (eval P a (proj cs j y))) d)
                                         (eval P (OPSO cs rs r) d))).
      { intros d. symmetry. apply eval_pso_cons. }
      apply blin_add; [|apply IHr; assumption].
      apply (blin_comp _ (nth i rs 0%nat) _ (embed rs i) (fun y => eval P a (proj cs j y))); [|apply blin_embed; exact W2].
      apply (blin_comp _ (nth j cs 0%nat) _ (eval P a) (proj cs j)); [apply blin_proj; exact W3|].
      specialize (Ha La W1). rewrite W4, W5 in Ha. exact Ha.
Qed.

Lemma lin_sound e x : is_lin e = true -> wt P e = true -> length x = sdim (dom P e) ->
  sound (sdim (dom P e)) (sdim (ran P e)) (dom P e) (ran P e) (eval P e) x e.
Proof.
  intros Hl Hw Hx. pose proof (lin_blin e Hl Hw) as Hb.
  unfold sound. ssplit; auto. apply (blin_hdiff _ _ _ _ Hb Hx).
Qed.

(* y * D for a value y of the common range *)
Lemma mk_lmul_sound r y D n :
  is_complex r = false ->
  blin n (sdim r) (eval P D) -> is_lin D = true -> wt P D = true -> ran P D = r -> length y = sdim r ->
  (forall d, length d = n -> eval P (mk_lmul r y D) d = vmul (eval P D d) y) /\
  is_lin (mk_lmul r y D) = true /\ wt P (mk_lmul r y D) = true /\
  dom P (mk_lmul r y D) = dom P D /\ ran P (mk_lmul r y D) = r.
Proof.
  intros Hcx Hb Hl Hw Hr Hy.
  assert (Hvec : is_field r = false ->
    (forall d, length d = n -> eval P (OLVec D y) d = vmul (eval P D d) y) /\
    is_lin (OLVec D y) = true /\ wt P (OLVec D y) = true /\ dom P (OLVec D y) = dom P D /\ ran P (OLVec D y) = r).
  { intros Hf. cbn [eval is_lin wt dom ran]. repeat split; auto.
    rewrite Hw, Hr, Hf, Hy, Hcx, Nat.eqb_refl. reflexivity. }
  destruct r as [|k|ns|k]; cbn [mk_lmul]; [|apply Hvec; reflexivity|apply Hvec; reflexivity|discriminate Hcx].
  cbn [sdim] in *.
  rewrite mk_lscal_lin, mk_lscal_wt, mk_lscal_dom, mk_lscal_ran. repeat split; auto.
  intros d Hd. rewrite mk_lscal_eval.
  pose proof (blin_len _ _ _ d Hb Hd) as Hlen.
  destruct (eval P D d) as [|u [|? ?]]; cbn in Hlen; try lia.
  destruct y as [|w [|? ?]]; cbn in Hy; try lia.
  cbn. numR. f_equal. ring.
Qed.

(* ---------- block operators: soundness of the block rules ---------- *)
Definition dsound (a : oexprR) : Prop := forall x,
  wt P a = true -> length x = sdim (dom P a) -> deriv_ok P a x = true -> regular a x ->
  sound (sdim (dom P a)) (sdim (ran P a)) (dom P a) (ran P a) (eval P a) x (derivative P a x).

(* what is known of each (operand, its derivative object) pair *)
Definition dpair (a D : oexprR) : Prop :=
  blin (dsz a) (rsz a) (eval P D) /\ is_lin D = true /\ wt P D = true /\
  dom P D = dom P a /\ ran P D = ran P a.

Lemma dpair_facts ops Ds : Forall2 dpair ops Ds ->
  map dsz Ds = map dsz ops /\ map rsz Ds = map rsz ops /\
  Forall (fun D => blin (dsz D) (rsz D) (eval P D)) Ds /\ forallb is_lin Ds = true /\
  (Forall bwt ops -> Forall bwt Ds) /\
  (forall s, Forall (fun a => dom P a = s) ops -> Forall (fun D => dom P D = s) Ds) /\
  (forall s, Forall (fun a => ran P a = s) ops -> Forall (fun D => ran P D = s) Ds) /\
  (ops <> [] -> Ds <> []).
Proof.
  induction 1 as [|a D ops' Ds' (B & L & W & Hd & Hr) _ (I1 & I2 & I3 & I4 & I5 & I6 & I7 & I8)].
  - repeat split; auto; constructor.
  - assert (E1 : dsz D = dsz a) by (unfold dsize; rewrite Hd; reflexivity).
    assert (E2 : rsz D = rsz a) by (unfold rsz; rewrite Hr; reflexivity).
    repeat split.
    + cbn [map]. rewrite E1, I1. reflexivity.
    + cbn [map]. rewrite E2, I2. reflexivity.
    + constructor; [rewrite E1, E2; exact B|exact I3].
    + cbn [forallb]. rewrite L, I4. reflexivity.
    + intros Hb. inversion Hb as [|? ? (_ & S1 & S2) Hb']; subst. constructor; [|apply I5; exact Hb'].
      unfold bwt. rewrite W, Hd, Hr. auto.
    + intros s Hs. inversion Hs; subst. constructor; [congruence|apply I6; assumption].
    + intros s Hs. inversion Hs; subst. constructor; [congruence|apply I7; assumption].
    + discriminate.
Qed.

Lemma regular_diag_cons a r x :
  regular (ODiagonal (a :: r)) x <-> regular a (firstn (dsz a) x) /\ regular (ODiagonal r) (skipn (dsz a) x).
Proof. reflexivity. Qed.
Lemma regular_bc_cons a r x :
  regular (OBroadcast (a :: r)) x <-> regular a x /\ regular (OBroadcast r) x.
Proof. reflexivity. Qed.

Lemma diag_dsound ops : Forall dsound ops -> Forall bwt ops ->
  forall x, length x = list_sum (map dsz ops) ->
  forallb (fun b => b) (blockmap (deriv_ok P) dsz ops x) = true -> regular (ODiagonal ops) x ->
  let Ds := blockmap (derivative P) dsz ops x in
  hdiff (list_sum (map dsz ops)) (list_sum (map rsz ops))
        (fun y => concat (blockmap (eval P) dsz ops y)) x (fun d => concat (blockmap (eval P) dsz Ds d)) /\
  (forall m, Forall (fun a => rsz a = m) ops ->
     hdiff (list_sum (map dsz ops)) m
        (fun y => vsum m (blockmap (eval P) dsz ops y)) x (fun d => vsum m (blockmap (eval P) dsz Ds d))) /\
  Forall2 dpair ops Ds.
Proof.
  induction 1 as [|a r Ha _ IH]; intros Hb x Hx Hok Hreg.
  - cbn. split; [apply hdiff_nil|split; [|constructor]].
    intros m _. apply hdiff_const. apply vconst_len.
  - inversion Hb as [|? ? (Wa & Sa & Ta) Hb']; subst.
    cbn [map] in Hx |- *. rewrite lsc in Hx. rewrite !lsc.
    rewrite bmc in Hok. cbn [forallb] in Hok. apply andb_prop in Hok as [Oa Or].
    apply regular_diag_cons in Hreg as [Ra Rr].
    set (k := dsz a) in *. set (n' := list_sum (map dsz r)) in *.
    assert (Hx1 : length (firstn k x) = k) by (apply firstn_len_le; lia).
    assert (Hx2 : length (skipn k x) = n') by (rewrite skipn_length; lia).
    destruct (Ha (firstn k x) Wa Hx1 Oa Ra) as (A1 & A2 & A3 & A4 & A5 & A6).
    destruct (IH Hb' (skipn k x) Hx2 Or Rr) as (I1 & I2 & I3).
    assert (Ek : dsz (derivative P a (firstn k x)) = k) by (unfold dsize; rewrite A5; reflexivity).
    assert (Hf : hdiff (k + n') (rsz a) (fun y => eval P a (firstn k y)) x
                   (fun d => eval P (derivative P a (firstn k x)) (firstn k d))).
    { apply (hdiff_comp _ k _ (eval P a) (firstn k) x (eval P (derivative P a (firstn k x))) (firstn k)).
      - apply (blin_hdiff _ _ _ _ (blin_firstn_add k n')). exact Hx.
      - exact A1. }
    assert (Hsk : hdiff (k + n') n' (skipn k) x (skipn k))
      by (apply (blin_hdiff _ _ _ _ (blin_skipn_add k n')); exact Hx).
    cbn zeta. rewrite bmc. fold k.
    split; [|split].
    + apply (hdiff_ext _ _ (fun y => eval P a (firstn k y) ++ concat (blockmap (eval P) dsz r (skipn k y))) _ _
               (fun d => eval P (derivative P a (firstn k x)) (firstn k d) ++
                         concat (blockmap (eval P) dsz (blockmap (derivative P) dsz r (skipn k x)) (skipn k d)))).
      { intros y. reflexivity. }
      { intros d. rewrite bmc, Ek. reflexivity. }
      apply hdiff_app; [exact Hf|].
      apply (hdiff_comp _ n' _ (fun y => concat (blockmap (eval P) dsz r y)) (skipn k) x
               (fun d => concat (blockmap (eval P) dsz (blockmap (derivative P) dsz r (skipn k x)) d)) (skipn k));
        [exact Hsk|exact I1].
    + intros m Hm. inversion Hm as [|? ? Hma Hmr]; subst.
      apply (hdiff_ext _ _ (fun y => vadd (eval P a (firstn k y)) (vsum (rsz a) (blockmap (eval P) dsz r (skipn k y)))) _ _
               (fun d => vadd (eval P (derivative P a (firstn k x)) (firstn k d))
                         (vsum (rsz a) (blockmap (eval P) dsz (blockmap (derivative P) dsz r (skipn k x)) (skipn k d))))).
      { intros y. reflexivity. }
      { intros d. rewrite bmc, Ek. reflexivity. }
      apply hdiff_add; [exact Hf|].
      apply (hdiff_comp _ n' _ (fun y => vsum (rsz a) (blockmap (eval P) dsz r y)) (skipn k) x
               (fun d => vsum (rsz a) (blockmap (eval P) dsz (blockmap (derivative P) dsz r (skipn k x)) d)) (skipn k));
        [exact Hsk|apply I2; exact Hmr].
    + constructor; [|exact I3]. unfold dpair. fold k. auto.
Qed.

Lemma bc_dsound ops s : Forall dsound ops -> Forall bwt ops -> Forall (fun a => dom P a = s) ops ->
  forall x, length x = sdim s ->
  forallb (fun a => deriv_ok P a x) ops = true -> regular (OBroadcast ops) x ->
  let Ds := map (fun a => derivative P a x) ops in
  hdiff (sdim s) (list_sum (map rsz ops))
        (fun y => concat (map (fun a => eval P a y) ops)) x (fun d => concat (map (fun D => eval P D d) Ds)) /\
  Forall2 dpair ops Ds.
Proof.
  induction 1 as [|a r Ha _ IH]; intros Hb Hd x Hx Hok Hreg.
  - cbn. split; [apply hdiff_nil|constructor].
  - inversion Hb as [|? ? (Wa & Sa & Ta) Hb']; subst. inversion Hd as [|? ? Da Hd']; subst.
    cbn [forallb] in Hok. apply andb_prop in Hok as [Oa Or].
    apply regular_bc_cons in Hreg as [Ra Rr].
    destruct (Ha x Wa Hx Oa Ra) as (A1 & A2 & A3 & A4 & A5 & A6).
    destruct (IH Hb' Hd' x Hx Or Rr) as (I1 & I2).
    cbn zeta. cbn [map concat]. rewrite lsc. split.
    + apply hdiff_app; [exact A1|exact I1].
    + constructor; [|exact I2]. unfold dpair. auto.
Qed.

Definition dentry (cs : list nat) (x : Rvec) (t : nat * nat * oexprR) : nat * nat * oexprR :=
  let '(i, j, a) := t in (i, j, derivative P a (proj cs j x)).

Lemma pso_dsound cs rs ents :
  Forall (fun t : nat * nat * oexprR => dsound (snd t)) ents -> Forall (ewt cs rs) ents ->
  forall x, length x = list_sum cs ->
  forallb (fun t : nat * nat * oexprR => let '(_, j, a) := t in deriv_ok P a (proj cs j x)) ents = true ->
  regular (OPSO cs rs ents) x ->
  let Ds := map (dentry cs x) ents in
  hdiff (list_sum cs) (list_sum rs) (eval P (OPSO cs rs ents)) x (eval P (OPSO cs rs Ds)) /\
  blin (list_sum cs) (list_sum rs) (eval P (OPSO cs rs Ds)) /\
  forallb (fun t : nat * nat * oexprR => let '(_, _, a) := t in is_lin a) Ds = true /\
  Forall (ewt cs rs) Ds.
Proof.
  induction 1 as [|[[i j] a] r Ha _ IH]; intros Hw x Hx Hok Hreg.
  - cbn. split; [apply hdiff_const; apply vconst_len|]. split; [apply blin_zero|]. split; [reflexivity|constructor].
  - inversion Hw as [|? ? Hwa Hw']; subst. unfold ewt in Hwa; cbn beta iota in Hwa; destruct Hwa as (W1 & W2 & W3 & W4 & W5).
    cbn [forallb] in Hok. apply andb_prop in Hok as [Oa Or].
    destruct Hreg as [Ra Rr]. cbn [snd] in Ha.
    assert (Hp : length (proj cs j x) = sdim (dom P a)) by (rewrite W4; cbn [sdim]; apply proj_len; assumption).
    destruct (Ha (proj cs j x) W1 Hp Oa Ra) as (A1 & A2 & A3 & A4 & A5 & A6).
    destruct (IH Hw' x Hx Or Rr) as (I1 & I2 & I3 & I4).
    rewrite W4, W5 in A1, A2. cbn [sdim] in A1, A2.
    cbn zeta. cbn [map dentry].
    set (Da := derivative P a (proj cs j x)) in *.
    assert (Hent : hdiff (list_sum cs) (list_sum rs) (fun y => embed rs i (eval P a (proj cs j y))) x
                     (fun d => embed rs i (eval P Da (proj cs j d)))).
    { apply (hdiff_comp _ (nth i rs 0%nat) _ (embed rs i) (fun y => eval P a (proj cs j y)) x
               (embed rs i) (fun d => eval P Da (proj cs j d))).
      - apply (hdiff_comp _ (nth j cs 0%nat) _ (eval P a) (proj cs j) x (eval P Da) (proj cs j)).
        + apply (blin_hdiff _ _ _ _ (blin_proj cs j W3) Hx).
        + exact A1.
      - apply (blin_hdiff _ _ _ _ (blin_embed rs i W2)).
        pose proof (eval_len a W1 (proj cs j x) Hp) as Hl. rewrite W5 in Hl. exact Hl. }
    assert (Hbl : blin (list_sum cs) (list_sum rs) (fun d => embed rs i (eval P Da (proj cs j d)))).
    { apply (blin_comp _ (nth i rs 0%nat) _ (embed rs i) (fun d => eval P Da (proj cs j d))); [|apply blin_embed; exact W2].
      apply (blin_comp _ (nth j cs 0%nat) _ (eval P Da) (proj cs j)); [apply blin_proj; exact W3|exact A2]. }
    split; [|split; [|split]].
    + apply (hdiff_ext _ _ (fun y => vadd ((fun y => embed rs i (eval P a (proj cs j y))) y) (eval P (OPSO cs rs r) y)) _ _
               (fun d => vadd ((fun d => embed rs i (eval P Da (proj cs j d))) d)
                              (eval P (OPSO cs rs (map (dentry cs x) r)) d))).
      { intros y. symmetry. apply eval_pso_cons. }
      { intros d. symmetry. apply eval_pso_cons. }
      apply hdiff_add; [exact Hent|exact I1].
    + apply (blin_ext _ _ (fun d => vadd ((fun d => embed rs i (eval P Da (proj cs j d))) d)
                                         (eval P (OPSO cs rs (map (dentry cs x) r)) d))).
      { intros d. symmetry. apply eval_pso_cons. }
      apply blin_add; [exact Hbl|exact I2].
    + cbn [forallb]. rewrite A3, I3. reflexivity.
    + constructor; [|exact I4]. unfold ewt. cbn beta iota. rewrite A5, A6. auto.
Qed.

Theorem deriv_sound e : dsound e.
Proof.
  unfold dsound.
  induction e as [l|a IHa b IHb|a IHa v|a IHa b IHb|a IHa b IHb|a IHa s|a IHa s|a IHa v|a IHa v|a IHa v
                  |ops IH|ops IH|ops IH|cs rs ents IH] using oexpr_ind2;
    intros x Hw Hx Hok Hreg.
  - (* leaf *) apply lderiv_sound; assumption.
  - (* OSum *)
    cbn [derivative deriv_ok regular] in *.
    destruct (is_lin a && is_lin b) eqn:Hl.
    { apply lin_sound; auto. }
    cbn [orb] in Hok. apply andb_prop in Hok as [Oa Ob]. destruct Hreg as [Ra Rb].
    cbn [wt dom ran eval] in *.
    apply andb_prop in Hw as [Hw Hr]. apply andb_prop in Hw as [Hw Hd]. apply andb_prop in Hw as [Wa Wb].
    apply space_eqb_eq in Hr, Hd.
    destruct (IHa x Wa Hx Oa Ra) as (A1 & A2 & A3 & A4 & A5 & A6).
    assert (Hxb : length x = sdim (dom P b)) by (rewrite <- Hd; exact Hx).
    destruct (IHb x Wb Hxb Ob Rb) as (B1 & B2 & B3 & B4 & B5 & B6).
    rewrite <- Hd, <- Hr in B1, B2.
    unfold sound. cbn [eval is_lin wt dom ran]. ssplit.
    + apply hdiff_add; assumption.
    + apply blin_add; assumption.
    + rewrite A3, B3; reflexivity.
    + rewrite A4, B4, A5, B5, A6, B6, Hd, Hr, !space_eqb_refl. reflexivity.
    + exact A5.
    + exact A6.
  - (* OVecSum *)
    cbn [derivative deriv_ok regular wt dom ran eval] in *.
    apply andb_prop in Hw as [Hw Hr]. apply andb_prop in Hw as [Wa _]. apply Nat.eqb_eq in Hr.
    destruct (IHa x Wa Hx Hok Hreg) as (A1 & A2 & A3 & A4 & A5 & A6).
    unfold sound. ssplit; auto.
    apply hdiff_add_const; [exact A1|exact Hr].
  - (* OComp *)
    cbn [derivative deriv_ok regular] in *.
    destruct (is_lin a && is_lin b) eqn:Hl.
    { apply lin_sound; auto. }
    cbn [orb] in Hok. apply andb_prop in Hok as [Oa Ob]. destruct Hreg as [Rb Ra].
    cbn [wt dom ran eval] in *.
    apply andb_prop in Hw as [Hw Hr]. apply andb_prop in Hw as [Wa Wb]. apply space_eqb_eq in Hr.
    destruct (IHb x Wb Hx Ob Rb) as (B1 & B2 & B3 & B4 & B5 & B6).
    assert (Hy : length (eval P b x) = sdim (dom P a)) by (rewrite <- Hr; apply eval_len; auto).
    assert (HA : sound (sdim (dom P a)) (sdim (ran P a)) (dom P a) (ran P a) (eval P a) (eval P b x)
                   (if is_lin a then a else derivative P a (eval P b x))).
    { destruct (is_lin a) eqn:La.
      - apply lin_sound; auto.
      - cbn [orb] in Oa. apply IHa; auto. }
    destruct HA as (A1 & A2 & A3 & A4 & A5 & A6).
    rewrite Hr in B1, B2.
    unfold sound. cbn [eval is_lin wt dom ran]. ssplit.
    + apply (hdiff_comp _ (sdim (dom P a))); assumption.
    + apply (blin_comp _ (sdim (dom P a)) _ (eval P (if is_lin a then a else derivative P a (eval P b x))) (eval P (derivative P b x))); assumption.
    + rewrite A3, B3; reflexivity.
    + rewrite A4, B4, A5, B6, Hr, space_eqb_refl. reflexivity.
    + exact B5.
    + exact A6.
  - (* OPProd *)
    cbn [derivative deriv_ok regular wt dom ran eval] in *.
    apply andb_prop in Hok as [Oa Ob]. destruct Hreg as [Ra Rb].
    apply andb_prop in Hw as [Hw Hcx]. apply negb_true_iff in Hcx.
    apply andb_prop in Hw as [Hw Hr]. apply andb_prop in Hw as [Hw Hd]. apply andb_prop in Hw as [Wa Wb].
    apply space_eqb_eq in Hr, Hd.
    destruct (IHa x Wa Hx Oa Ra) as (A1 & A2 & A3 & A4 & A5 & A6).
    assert (Hxb : length x = sdim (dom P b)) by (rewrite <- Hd; exact Hx).
    destruct (IHb x Wb Hxb Ob Rb) as (B1 & B2 & B3 & B4 & B5 & B6).
    rewrite <- Hd, <- Hr in B1, B2. rewrite <- Hr in B6. rewrite <- Hd in B5.
    assert (Hya : length (eval P a x) = sdim (ran P a)) by (apply eval_len; auto).
    assert (Hyb : length (eval P b x) = sdim (ran P a)) by (rewrite Hr; apply eval_len; auto).
    rewrite <- Hr.
    destruct (mk_lmul_sound (ran P a) (eval P b x) (derivative P a x) _ Hcx A2 A3 A4 A6 Hyb)
      as (L1 & L2 & L3 & L4 & L5).
    destruct (mk_lmul_sound (ran P a) (eval P a x) (derivative P b x) _ Hcx B2 B3 B4 B6 Hya)
      as (M1 & M2 & M3 & M4 & M5).
    unfold sound. cbn [eval is_lin wt dom ran]. ssplit.
    + apply (hdiff_ext_len _ _ _ _
               (fun d => vadd (vmul (eval P (derivative P a x) d) (eval P b x))
                              (vmul (eval P (derivative P b x) d) (eval P a x)))).
      { intros d Hd'. rewrite L1, M1 by exact Hd'. reflexivity. }
      apply hdiff_mul; assumption.
    + apply (blin_ext_len _ _
               (fun d => vadd (vmul (eval P (derivative P a x) d) (eval P b x))
                              (vmul (eval P (derivative P b x) d) (eval P a x)))).
      { intros d Hd'. rewrite L1, M1 by exact Hd'. reflexivity. }
      apply blin_add.
      * apply (blin_comp _ (sdim (ran P a)) _ (fun y => vmul y (eval P b x)) (eval P (derivative P a x))); [exact A2|apply blin_mulv; exact Hyb].
      * apply (blin_comp _ (sdim (ran P a)) _ (fun y => vmul y (eval P a x)) (eval P (derivative P b x))); [exact B2|apply blin_mulv; exact Hya].
    + rewrite L2, M2; reflexivity.
    + rewrite L3, M3, L4, M4, L5, M5, A5, B5, !space_eqb_refl. reflexivity.
    + rewrite L4; exact A5.
    + exact L5.
  - (* OLScal *)
    cbn [derivative deriv_ok regular] in *.
    destruct (is_lin a) eqn:La.
    { apply lin_sound; auto. }
    cbn [orb wt dom ran eval] in *.
    destruct (IHa x Hw Hx Hok Hreg) as (A1 & A2 & A3 & A4 & A5 & A6).
    unfold sound. rewrite mk_lscal_lin, mk_lscal_wt, mk_lscal_dom, mk_lscal_ran. ssplit; auto.
    + apply (hdiff_ext_len _ _ _ _ (fun d => vscal s (eval P (derivative P a x) d))).
      { intros d _. symmetry; apply mk_lscal_eval. }
      apply hdiff_scal. exact A1.
    + apply (blin_ext _ _ (fun d => vscal s (eval P (derivative P a x) d))).
      { intros d. symmetry; apply mk_lscal_eval. }
      apply (blin_comp _ (sdim (ran P a)) _ (vscal s) (eval P (derivative P a x))); [exact A2|apply blin_scale].
  - (* ORScal *)
    cbn [derivative deriv_ok regular wt dom ran eval] in *.
    assert (Hsx : length (vscal s x) = sdim (dom P a)) by (rewrite vscal_len; exact Hx).
    destruct (IHa (vscal s x) Hw Hsx Hok Hreg) as (A1 & A2 & A3 & A4 & A5 & A6).
    assert (Hcomp : hdiff (sdim (dom P a)) (sdim (ran P a)) (fun y => eval P a (vscal s y)) x
                      (fun d => eval P (derivative P a (vscal s x)) (vscal s d))).
    { apply (hdiff_comp _ (sdim (dom P a)) _ (eval P a) (vscal s) x
               (eval P (derivative P a (vscal s x))) (vscal s)); [|exact A1].
      apply (blin_hdiff _ _ _ _ (blin_scale _ s) Hx). }
    unfold mk_mulscal. rewrite A3.
    unfold sound. rewrite mk_lscal_lin, mk_lscal_wt, mk_lscal_dom, mk_lscal_ran. ssplit; auto.
    + apply (hdiff_ext_len _ _ _ _ (fun d => eval P (derivative P a (vscal s x)) (vscal s d))); [|exact Hcomp].
      intros d Hd. rewrite mk_lscal_eval. destruct A2 as (_ & _ & Hs & _). apply Hs. exact Hd.
    + apply (blin_ext _ _ (fun d => vscal s (eval P (derivative P a (vscal s x)) d))).
      { intros d. symmetry; apply mk_lscal_eval. }
      apply (blin_comp _ (sdim (ran P a)) _ (vscal s) (eval P (derivative P a (vscal s x)))); [exact A2|apply blin_scale].
  - (* OLVec *)
    cbn [derivative deriv_ok regular] in *.
    destruct (is_lin a) eqn:La.
    { apply lin_sound; auto. }
    cbn [orb wt dom ran eval] in *.
    apply andb_prop in Hw as [Hw Hcx].
    apply andb_prop in Hw as [Hw Hr]. apply andb_prop in Hw as [Wa Hf]. apply Nat.eqb_eq in Hr.
    destruct (IHa x Wa Hx Hok Hreg) as (A1 & A2 & A3 & A4 & A5 & A6).
    unfold sound. cbn [eval is_lin wt dom ran]. ssplit; auto.
    + apply hdiff_mul_const; [exact A1|exact Hr].
    + apply (blin_comp _ (sdim (ran P a)) _ (fun y => vmul y v) (eval P (derivative P a x))); [exact A2|apply blin_mulv; exact Hr].
    + rewrite A4, A6, Hf, Hr, Hcx, Nat.eqb_refl. reflexivity.
  - (* ORVec *)
    cbn [derivative deriv_ok regular] in *.
    destruct (is_lin a) eqn:La.
    { apply lin_sound; auto. }
    cbn [orb wt dom ran eval] in *.
    apply andb_prop in Hw as [Hw Hcx].
    apply andb_prop in Hw as [Hw Hv]. apply andb_prop in Hw as [Wa Hf]. apply Nat.eqb_eq in Hv.
    assert (Hvx : length (vmul v x) = sdim (dom P a)).
    { unfold vmul. apply vmap2_len; [exact Hv|exact Hx]. }
    destruct (IHa (vmul v x) Wa Hvx Hok Hreg) as (A1 & A2 & A3 & A4 & A5 & A6).
    unfold sound. cbn [eval is_lin wt dom ran]. ssplit; auto.
    + apply (hdiff_comp _ (sdim (dom P a)) _ (eval P a) (fun y => vmul y v) x).
      * apply (blin_hdiff _ _ _ _ (blin_mulv _ v Hv) Hx).
      * cbn beta. rewrite (vmul_comm x v). exact A1.
    + apply (blin_comp _ (sdim (dom P a)) _ (eval P (derivative P a (vmul v x))) (fun y => vmul y v)); [apply blin_mulv; exact Hv|exact A2].
    + rewrite A4, A5, Hf, Hv, Hcx, Nat.eqb_refl. reflexivity.
  - (* OFLVec *)
    cbn [derivative deriv_ok regular] in *.
    destruct (is_lin a) eqn:La.
    { apply lin_sound; auto. }
    cbn [orb wt dom ran eval] in *.
    apply andb_prop in Hw as [Wa Hr]. apply space_eqb_eq in Hr.
    destruct (IHa x Wa Hx Hok Hreg) as (A1 & A2 & A3 & A4 & A5 & A6).
    rewrite Hr in A1, A2. cbn [sdim] in A1, A2.
    unfold sound. cbn [eval is_lin wt dom ran sdim]. ssplit; auto.
    + apply (hdiff_comp _ 1%nat _ (fun y => vscal (hd 0 y) v) (eval P a) x
               (fun y => vscal (hd 0 y) v) (eval P (derivative P a x))); [exact A1|].
      apply (blin_hdiff _ _ _ _ (blin_outer _ v eq_refl)).
      pose proof (eval_len a Wa x Hx) as Hl. rewrite Hr in Hl. exact Hl.
    + apply (blin_comp _ 1%nat _ (fun y => vscal (hd 0 y) v) (eval P (derivative P a x))); [exact A2|apply blin_outer; reflexivity].
    + rewrite A4, A6, Hr. reflexivity.
  - (* OBroadcast *)
    apply wt_bc in Hw as (a0 & r & -> & Hb & Hd).
    cbn [derivative deriv_ok dom ran eval sdim] in *.
    destruct (bc_dsound _ (dom P a0) IH Hb Hd x Hx Hok Hreg) as (H1 & H2).
    set (Ds := map (fun a => derivative P a x) (a0 :: r)) in *.
    destruct (dpair_facts _ _ H2) as (F1 & F2 & F3 & F4 & F5 & F6 & F7 & F8).
    assert (HD0 : exists D0 Dr, Ds = D0 :: Dr /\ dom P D0 = dom P a0).
    { unfold Ds. cbn [map]. inversion H2 as [|? ? ? ? (_ & _ & _ & E & _) _]; subst. eauto. }
    destruct HD0 as (D0 & Dr & ED & EdD).
    unfold sound. cbn [eval is_lin dom ran sdim].
    change (fun a : oexprR => sdim (ran P a)) with rsz. change (fun a : oexprR => sdim (dom P a)) with dsz. ssplit.
    + exact H1.
    + rewrite <- F2. apply (bc_blin (eval P) rsz (sdim (dom P a0)) Ds).
      intros D Hin. specialize (F6 _ Hd). rewrite Forall_forall in F3, F6.
      pose proof (F3 D Hin) as HB. unfold dsize in HB. rewrite (F6 D Hin) in HB. exact HB.
    + exact F4.
    + apply wt_bc. exists D0, Dr. split; [exact ED|]. split; [apply F5; exact Hb|].
      rewrite EdD. apply F6. exact Hd.
    + rewrite ED. exact EdD.
    + rewrite F2. reflexivity.
  - (* OReduction *)
    apply wt_red in Hw as (a0 & r & -> & Hb & Hr).
    cbn [derivative deriv_ok dom ran eval sdim] in *.
    change (regular (OReduction (a0 :: r)) x) with (regular (ODiagonal (a0 :: r)) x) in Hreg.
    destruct (diag_dsound _ IH Hb x Hx Hok Hreg) as (_ & H1 & H2).
    set (Ds := blockmap (derivative P) dsz (a0 :: r) x) in *.
    destruct (dpair_facts _ _ H2) as (F1 & F2 & F3 & F4 & F5 & F6 & F7 & F8).
    assert (HD0 : exists D0 Dr, Ds = D0 :: Dr /\ ran P D0 = ran P a0).
    { unfold Ds. rewrite bmc. inversion H2 as [|? ? ? ? (_ & _ & _ & _ & E) _]; subst. eauto. }
    destruct HD0 as (D0 & Dr & ED & ErD).
    assert (Hm : Forall (fun a => rsz a = sdim (ran P a0)) (a0 :: r)).
    { eapply Forall_impl; [|exact Hr]. intros a Ha. unfold rsz. rewrite Ha. reflexivity. }
    assert (Em : match Ds with [] => 0%nat | a :: _ => sdim (ran P a) end = sdim (ran P a0))
      by (rewrite ED, ErD; reflexivity).
    unfold sound. cbn [eval is_lin dom ran sdim].
    change (fun a : oexprR => sdim (ran P a)) with rsz. change (fun a : oexprR => sdim (dom P a)) with dsz. ssplit.
    + rewrite Em. apply H1. exact Hm.
    + rewrite Em. rewrite <- F1.
      apply (red_blin (eval P) dsz (sdim (ran P a0)) Ds).
      intros D Hin. specialize (F7 _ Hr). rewrite Forall_forall in F3, F7.
      pose proof (F3 D Hin) as HB. unfold rsz in HB. rewrite (F7 D Hin) in HB. exact HB.
    + exact F4.
    + apply wt_red. exists D0, Dr. split; [exact ED|]. split; [apply F5; exact Hb|].
      rewrite ErD. apply F7. exact Hr.
    + rewrite F1. reflexivity.
    + rewrite ED. exact ErD.
  - (* ODiagonal *)
    apply wt_diag in Hw as [Hne Hb].
    cbn [derivative deriv_ok dom ran eval sdim] in *.
    destruct (diag_dsound _ IH Hb x Hx Hok Hreg) as (H1 & _ & H2).
    set (Ds := blockmap (derivative P) dsz ops x) in *.
    destruct (dpair_facts _ _ H2) as (F1 & F2 & F3 & F4 & F5 & F6 & F7 & F8).
    unfold sound. cbn [eval is_lin dom ran sdim].
    change (fun a : oexprR => sdim (ran P a)) with rsz. change (fun a : oexprR => sdim (dom P a)) with dsz. ssplit.
    + exact H1.
    + rewrite <- F1, <- F2. apply (diag_blin (eval P) dsz rsz Ds).
      intros D Hin. rewrite Forall_forall in F3. apply F3. exact Hin.
    + exact F4.
    + apply wt_diag. split; [apply F8; exact Hne|apply F5; exact Hb].
    + rewrite F1. reflexivity.
    + rewrite F2. reflexivity.
  - (* OPSO *)
    cbn [derivative deriv_ok] in *.
    destruct (forallb (fun t : nat * nat * oexprR => let '(_, _, a) := t in is_lin a) ents) eqn:Hl.
    { apply lin_sound; auto. }
    cbn [orb] in Hok. pose proof Hw as Hw0. apply wt_pso in Hw. cbn [dom ran sdim] in *.
    destruct (pso_dsound cs rs ents IH Hw x Hx Hok Hreg) as (H1 & H2 & H3 & H4).
    unfold sound. ssplit; auto.
    apply wt_pso. exact H4.
Qed.



End Sound.

(* ---------- consequences in the wording of the property ---------- *)
Lemma hdiff_unique n m F x L L' :
  hdiff n m F x L -> hdiff n m F x L' -> length x = n ->
  forall d, length d = n -> L d = L' d.
Proof.
  intros H1 H2 Hx d Hd.
  destruct (H1 _ _ (curve_line n x d Hx Hd)) as (_ & A1 & _ & A2).
  destruct (H2 _ _ (curve_line n x d Hx Hd)) as (_ & B1 & _ & B2).
  apply nth_ext0; [congruence|]. intros i Hi. rewrite A1 in Hi.
  eapply uniqueness_limite; [apply A2|apply B2]; exact Hi.
Qed.

Section Consequences.
Variable af : nat -> Rvec -> Rvec.
Variable ad : nat -> Rvec -> Rvec -> Rvec.
Variable adm arn : nat -> space.
Notation P := (PR af ad adm arn).
Hypothesis Habs : forall k x, length x = sdim (adm k) ->
  hdiff (sdim (adm k)) (sdim (arn k)) (af k) x (ad k x) /\
  blin (sdim (adm k)) (sdim (arn k)) (ad k x).

Lemma deriv_central (e : oexprR) x :
  wt P e = true -> length x = sdim (dom P e) -> deriv_ok P e x = true -> regular af ad adm arn e x ->
  forall d, length d = sdim (dom P e) -> forall i, (i < sdim (ran P e))%nat ->
  forall eps, 0 < eps -> exists delta, 0 < delta /\
    forall h, h <> 0 -> Rabs h < delta ->
      Rabs ((nth i (eval P e (vadd x (vscal h d))) 0 - nth i (eval P e (vadd x (vscal (- h) d))) 0) / (2 * h)
            - nth i (eval P (derivative P e x) d) 0) < eps.
Proof.
  intros Hw Hx Hok Hreg.
  destruct (deriv_sound af ad adm arn Habs e x Hw Hx Hok Hreg) as (H1 & _).
  apply (hdiff_central_difference _ _ _ _ _ H1 Hx).
Qed.

(* linear operators are their own derivative: whatever object derivative returns acts like e *)
Lemma lin_deriv_self (e : oexprR) x :
  is_lin e = true -> wt P e = true -> length x = sdim (dom P e) ->
  deriv_ok P e x = true -> regular af ad adm arn e x ->
  forall d, length d = sdim (dom P e) -> eval P (derivative P e x) d = eval P e d.
Proof.
  intros Hl Hw Hx Hok Hreg d Hd.
  destruct (deriv_sound af ad adm arn Habs e x Hw Hx Hok Hreg) as (H1 & _).
  destruct (lin_sound af ad adm arn Habs e x Hl Hw Hx) as (H2 & _).
  apply (hdiff_unique _ _ _ _ _ _ H1 H2 Hx d Hd).
Qed.

(* affine operators have the derivative of their linear part *)
Lemma affine_deriv (a : oexprR) v x :
  is_lin a = true -> wt P (OVecSum a v) = true -> length x = sdim (dom P a) ->
  deriv_ok P a x = true -> regular af ad adm arn a x ->
  forall d, length d = sdim (dom P a) -> eval P (derivative P (OVecSum a v) x) d = eval P a d.
Proof.
  intros Hl Hw Hx Hok Hreg d Hd. cbn [derivative].
  cbn [wt] in Hw. apply andb_prop in Hw as [Hw _]. apply andb_prop in Hw as [Wa _].
  apply lin_deriv_self; assumption.
Qed.
End Consequences.

(* the same with the premise on user-defined leaves reduced to plain linearity *)
Lemma deriv_sound_linmap af ad adm arn :
  (forall k x, length x = sdim (adm k) ->
     hdiff (sdim (adm k)) (sdim (arn k)) (af k) x (ad k x) /\
     linmap (sdim (adm k)) (sdim (arn k)) (ad k x)) ->
  forall e, dsound af ad adm arn e.
Proof.
  intros H e. apply deriv_sound. intros k x Hx. destruct (H k x Hx) as [H1 H2].
  split; [exact H1|apply linmap_blin; exact H2].
Qed.

(* ---------- non-vacuity: a user-defined leaf satisfying the hypothesis ---------- *)
Definition cubicR (a : R) : R := a * a * a - a.
Definition cubicR' (a : R) : R := 3 * a * a - 1.
Definition ex_af (k : nat) (x : Rvec) : Rvec := map cubicR x.
Definition ex_ad (k : nat) (x d : Rvec) : Rvec := vmul (map cubicR' x) d.
Definition ex_dm (k : nat) : space := SV k.

Lemma dpl_cubic a : derivable_pt_lim cubicR a (cubicR' a).
Proof.
  unfold cubicR, cubicR'.
  apply (dpl_eq _ _ (((1 * a + a * 1) * a + a * a * 1) - 1)); [ring|].
  apply (derivable_pt_lim_minus (fun y => y * y * y) (fun y => y)); [|apply derivable_pt_lim_id].
  apply (derivable_pt_lim_mult (fun y => y * y) (fun y => y)); [|apply derivable_pt_lim_id].
  apply (derivable_pt_lim_mult (fun y => y) (fun y => y)); apply derivable_pt_lim_id.
Qed.

Lemma ex_Habs : forall k x, length x = sdim (ex_dm k) ->
  hdiff (sdim (ex_dm k)) (sdim (ex_dm k)) (ex_af k) x (ex_ad k x) /\
  blin (sdim (ex_dm k)) (sdim (ex_dm k)) (ex_ad k x).
Proof.
  intros k x Hx. cbn [ex_dm sdim] in *. split.
  - apply (hdiff_ext_len _ _ _ _ (fun d => vmul d (map cubicR' x))).
    { intros d _. apply vmul_comm. }
    intros g d Hc. apply (curve_map _ cubicR cubicR'); [exact Hc|]. intros i _. apply dpl_cubic.
  - apply (blin_ext _ _ (fun d => vmul d (map cubicR' x))).
    { intros d. apply vmul_comm. }
    apply blin_mulv. rewrite map_length. exact Hx.
Qed.

(* a tree using every expression class, at a regular point *)
Definition ex_tree : @oexpr R :=
  OSum (OComp (OLeaf (LUf Usquare 2)) (ORScal (OLeaf (LAbs 2)) 2))
       (OSum (OPProd (OLVec (OLeaf (LUf Ureciprocal 2)) [1; 2])
                     (OVecSum (ORVec (OLScal (OLeaf (LPow (SV 2) 3)) 3) [2; 1]) [1; 1]))
             (OComp (OReduction [OLeaf (LUf Usquare 2); OFLVec (OLeaf (LInner [3] [2])) [1; 1]])
                    (OComp (OPSO [2; 1]%nat [2; 1]%nat
                                  [(0%nat, 0%nat, OLeaf (LUf Usquare 2)); (1%nat, 1%nat, OLeaf (LScale (SV 1) 3));
                                   (0%nat, 0%nat, OLeaf (LAbs 2))])
                    (OComp (ODiagonal [OLeaf (LAbs 2); OLeaf (LScale (SV 1) 2)])
                           (OBroadcast [OLeaf (LUf Usquare 2); OLeaf (LMat 2 [[1; 1]])]))))).
Lemma ex_premises :
  let P := PR ex_af ex_ad ex_dm ex_dm in
  wt P ex_tree = true /\ is_lin ex_tree = false /\ length [1; 2] = sdim (dom P ex_tree) /\
  deriv_ok P ex_tree [1; 2] = true /\ regular ex_af ex_ad ex_dm ex_dm ex_tree [1; 2].
Proof.
  cbn. repeat split; try reflexivity.
  - intros i Hi. destruct i as [|[|i]]; [lra|lra|lia].
  - intros Hz; lia.
Qed.
