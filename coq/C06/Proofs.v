(* C06/Proofs.v -- lemmas (placeholder, filled below) *)
From Coq Require Import Reals List Bool.
From Verif Require Import Base.Num Base.Vec C06.Syntax Gen.UfuncDeriv C06.Model.
