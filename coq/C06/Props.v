(* C06/Props.v -- property theorems only *)
From Coq Require Import Reals List Bool.
From Verif Require Import Base.Num Base.Vec C06.Syntax Gen.UfuncDeriv C06.Model C06.Proofs.
