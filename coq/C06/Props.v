(* C06/Props.v -- property theorems only; each is closed by [exact] of a lemma of
   C06/Proofs.v (Calc.v, Lin.v, Leaves.v) and followed by Print Assumptions.

   The model (C06/Model.v): [oexpr] = the nine expression classes of
   odl/operator/operator.py and the block operators BroadcastOperator /
   ReductionOperator / DiagonalOperator / ProductSpaceOperator (sparse matrix
   with holes) of pspace_ops.py (any number of blocks;
   product-space elements are flat lists; cn(n) is re ++ im, with only its
   real-linear structure) over the leaf operators of default_ops.py /
   ufunc_ops.py / tensor_ops.py (19 kinds, incl. PointwiseNorm/-Inner, RealPart,
   ImagPart, ComplexModulus(Squared)); [eval] = _call; [derivative] = the .derivative methods
   (with the "linear => self" shortcuts, the inner points, the overloads used
   to assemble the result); [deriv_ok] = whether the call returns or raises;
   [is_lin] = the flag computed by the constructors; [wt] = their space checks.
   The ufunc tables [ufunc_deriv]/[ufunc_grad]/[ufunc_linear] are REGENERATED
   from odl/ufunc_ops/ufunc_ops.py on every run (Gen/UfuncDeriv.v).

   Notions (C06/Calc.v, C06/Lin.v), all over the standard-library reals:
   [curve n g x d]   g : R -> R^n passes through x at 0 and every entry is
                     differentiable at 0 ([derivable_pt_lim]) with velocity d;
   [hdiff n m F x L] F maps every such curve to a curve through F x with
                     velocity L d -- Hadamard differentiability, which on R^n
                     is Frechet differentiability with derivative L;
   [blin n m L]      L maps R^n to R^m, is additive and homogeneous, and is its
                     own derivative at every point.
   [regular e x]     every leaf met when evaluating e at x (at the inner points
                     the rules use) is at a point where its scalar function is
                     differentiable: no 0 for reciprocal / negative powers,
                     positive arguments for sqrt / log, cos <> 0 for tan.
                     point-wise norm > 0 (exponent 2) / no zero entry (exponent 1)
                     for PointwiseNorm, |z| > 0 for ComplexModulus.  (Norm/Dist singularities are covered by
                     [deriv_ok]: the code raises there.) *)
From Coq Require Import Reals List Bool ZArith.
From Verif Require Import Base.Num Base.Vec C06.Syntax Gen.UfuncDeriv C06.Model C06.Calc C06.Lin C06.LinMap C06.Leaves C06.Proofs C06.FModel C06.FProofs Gen.Derivatives C06.Interp C06.Tie Gen.Gradients C06.FInterp C06.FTie Base.Transfer C06.Corr C06.Transfer C06.Frechet C06.FrechetTrees C06.FFrechet.
From Coq Require Import QArith Qreals.
Local Open Scope R_scope.
Import ListNotations.
Local Open Scope R_scope.

(* T1. For EVERY expression tree e (any depth, any mix of the thirteen classes,
   any number of blocks, any leaves), every point x at which derivative(x) returns and which is
   regular: the returned object D
     (1) evaluates to the Frechet/Hadamard derivative of e at x,
     (2) is a (bounded) linear map from e.domain to e.range,
     (3) is flagged linear, (4) passes the constructors' space checks,
     (5,6) has the domain and range of e.
   User-defined leaves [LAbs k] are arbitrary: the only premise is that THEIR
   derivative is right (af k / ad k); everything the combinators add -- which
   inner point, which scalar multiplies what, which block of the point goes to
   which block operand, linear shortcuts -- is proved. *)
Theorem derivative_is_frechet :
  forall (af : nat -> list R -> list R) (ad : nat -> list R -> list R -> list R) (adm arn : nat -> space),
  (forall k x, length x = sdim (adm k) ->
     hdiff (sdim (adm k)) (sdim (arn k)) (af k) x (ad k x) /\
     blin (sdim (adm k)) (sdim (arn k)) (ad k x)) ->
  forall (e : @oexpr R) (x : list R),
  let P := PR af ad adm arn in
  wt P e = true -> length x = sdim (dom P e) -> deriv_ok P e x = true -> regular af ad adm arn e x ->
  let D := derivative P e x in
  hdiff (sdim (dom P e)) (sdim (ran P e)) (eval P e) x (eval P D) /\
  blin (sdim (dom P e)) (sdim (ran P e)) (eval P D) /\
  is_lin D = true /\ wt P D = true /\ dom P D = dom P e /\ ran P D = ran P e.
Proof. exact deriv_sound. Qed.
Print Assumptions derivative_is_frechet.

(* On R^n, "bounded" is free: a map that is additive and homogeneous (and maps
   R^n to R^m) is its own derivative everywhere.  Hence T1 also holds when the
   premise on user-defined leaves only asks their derivative to be linear. *)
Theorem linear_maps_are_bounded :
  forall n m (L : list R -> list R),
  (forall d, length d = n -> length (L d) = m) /\
  (forall a b, length a = n -> length b = n -> L (vadd a b) = vadd (L a) (L b)) /\
  (forall c a, length a = n -> L (vscal c a) = vscal c (L a)) ->
  blin n m L.
Proof. exact linmap_blin. Qed.
Print Assumptions linear_maps_are_bounded.

Theorem derivative_is_frechet_linear_premise :
  forall (af : nat -> list R -> list R) (ad : nat -> list R -> list R -> list R) (adm arn : nat -> space),
  (forall k x, length x = sdim (adm k) ->
     hdiff (sdim (adm k)) (sdim (arn k)) (af k) x (ad k x) /\
     linmap (sdim (adm k)) (sdim (arn k)) (ad k x)) ->
  forall (e : @oexpr R) (x : list R),
  let P := PR af ad adm arn in
  wt P e = true -> length x = sdim (dom P e) -> deriv_ok P e x = true -> regular af ad adm arn e x ->
  let D := derivative P e x in
  hdiff (sdim (dom P e)) (sdim (ran P e)) (eval P e) x (eval P D) /\
  blin (sdim (dom P e)) (sdim (ran P e)) (eval P D) /\
  is_lin D = true /\ wt P D = true /\ dom P D = dom P e /\ ran P D = ran P e.
Proof. exact deriv_sound_linmap. Qed.
Print Assumptions derivative_is_frechet_linear_premise.

(* T1, in the words of the property: the action of derivative(x) on any
   direction d is the limit of the central difference quotient
   (op(x + h d) - op(x - h d)) / (2h), entry by entry. *)
Theorem derivative_is_central_difference_limit :
  forall (af : nat -> list R -> list R) (ad : nat -> list R -> list R -> list R) (adm arn : nat -> space),
  (forall k x, length x = sdim (adm k) ->
     hdiff (sdim (adm k)) (sdim (arn k)) (af k) x (ad k x) /\
     blin (sdim (adm k)) (sdim (arn k)) (ad k x)) ->
  forall (e : @oexpr R) (x : list R),
  let P := PR af ad adm arn in
  wt P e = true -> length x = sdim (dom P e) -> deriv_ok P e x = true -> regular af ad adm arn e x ->
  forall d, length d = sdim (dom P e) -> forall i, (i < sdim (ran P e))%nat ->
  forall eps, 0 < eps -> exists delta, 0 < delta /\
    forall h, h <> 0 -> Rabs h < delta ->
      Rabs ((nth i (eval P e (vadd x (vscal h d))) 0 - nth i (eval P e (vadd x (vscal (- h) d))) 0) / (2 * h)
            - nth i (eval P (derivative P e x) d) 0) < eps.
Proof. exact deriv_central. Qed.
Print Assumptions derivative_is_central_difference_limit.

(* "Linear operators are their own derivative": a tree the constructors flag
   linear IS a bounded linear map (so the shortcut `return self` is justified),
   and whatever object derivative(x) returns for it acts exactly like e. *)
Theorem flagged_linear_is_linear :
  forall (af : nat -> list R -> list R) (ad : nat -> list R -> list R -> list R) (adm arn : nat -> space),
  (forall k x, length x = sdim (adm k) ->
     hdiff (sdim (adm k)) (sdim (arn k)) (af k) x (ad k x) /\
     blin (sdim (adm k)) (sdim (arn k)) (ad k x)) ->
  forall (e : @oexpr R),
  let P := PR af ad adm arn in
  is_lin e = true -> wt P e = true -> blin (sdim (dom P e)) (sdim (ran P e)) (eval P e).
Proof. exact lin_blin. Qed.
Print Assumptions flagged_linear_is_linear.

Theorem linear_is_own_derivative :
  forall (af : nat -> list R -> list R) (ad : nat -> list R -> list R -> list R) (adm arn : nat -> space),
  (forall k x, length x = sdim (adm k) ->
     hdiff (sdim (adm k)) (sdim (arn k)) (af k) x (ad k x) /\
     blin (sdim (adm k)) (sdim (arn k)) (ad k x)) ->
  forall (e : @oexpr R) (x : list R),
  let P := PR af ad adm arn in
  is_lin e = true -> wt P e = true -> length x = sdim (dom P e) ->
  deriv_ok P e x = true -> regular af ad adm arn e x ->
  forall d, length d = sdim (dom P e) -> eval P (derivative P e x) d = eval P e d.
Proof. exact lin_deriv_self. Qed.
Print Assumptions linear_is_own_derivative.

(* "Affine ones have the derivative of their linear part" *)
Theorem affine_has_derivative_of_linear_part :
  forall (af : nat -> list R -> list R) (ad : nat -> list R -> list R -> list R) (adm arn : nat -> space),
  (forall k x, length x = sdim (adm k) ->
     hdiff (sdim (adm k)) (sdim (arn k)) (af k) x (ad k x) /\
     blin (sdim (adm k)) (sdim (arn k)) (ad k x)) ->
  forall (a : @oexpr R) (v x : list R),
  let P := PR af ad adm arn in
  is_lin a = true -> wt P (OVecSum a v) = true -> length x = sdim (dom P a) ->
  deriv_ok P a x = true -> regular af ad adm arn a x ->
  forall d, length d = sdim (dom P a) -> eval P (derivative P (OVecSum a v) x) d = eval P a d.
Proof. exact affine_deriv. Qed.
Print Assumptions affine_has_derivative_of_linear_part.

(* The derivative is unique, so the statements above determine derivative(x)(d). *)
Theorem frechet_derivative_unique :
  forall n m (F : list R -> list R) x (L L' : list R -> list R),
  hdiff n m F x L -> hdiff n m F x L' -> length x = n ->
  forall d, length d = n -> L d = L' d.
Proof. exact hdiff_unique. Qed.
Print Assumptions frechet_derivative_unique.

(* ---- The LITERAL Frechet statement: little-o in the norm (C06/Frechet.v, FrechetTrees.v) ----
   [supn h] = max_i |h_i| ;  [norm2 h] = sqrt (sum_i h_i^2) ;
   [fdiff n m F x L] : F : R^n -> R^m, x in R^n, L maps R^n to R^m and
       for every eps > 0 there is delta > 0 with
       | F(x+h)_i - F(x)_i - (L h)_i | <= eps * supn h   for all i < m, supn h < delta.
   For every tree, at every regular point where derivative(x) returns, the returned
   object evaluates to THE Frechet derivative:  || F(x+h) - F(x) - D h || = o(||h||).
   Proof: structural induction with the Frechet calculus (chain rule, products,
   concatenation, entry-wise C^1 maps, linear maps are norm-bounded) gives SOME bounded
   linear Frechet derivative; it agrees with the Hadamard derivative of T1.
   Added premise on user-defined leaves: they are Frechet differentiable. *)
Theorem derivative_is_frechet_in_sup_norm :
  forall (af : nat -> list R -> list R) (ad : nat -> list R -> list R -> list R) (adm arn : nat -> space),
  (forall k x, length x = sdim (adm k) ->
     hdiff (sdim (adm k)) (sdim (arn k)) (af k) x (ad k x) /\
     blin (sdim (adm k)) (sdim (arn k)) (ad k x)) ->
  (forall k x, length x = sdim (adm k) ->
     exists L, fdiff (sdim (adm k)) (sdim (arn k)) (af k) x L /\ blin (sdim (adm k)) (sdim (arn k)) L) ->
  forall (e : @oexpr R) (x : list R),
  let P := PR af ad adm arn in
  wt P e = true -> length x = sdim (dom P e) -> deriv_ok P e x = true -> regular af ad adm arn e x ->
  forall eps, 0 < eps -> exists delta, 0 < delta /\
    forall h, length h = sdim (dom P e) -> supn h < delta ->
      supn (vsub (vsub (eval P e (vadd x h)) (eval P e x)) (eval P (derivative P e x) h)) <= eps * supn h.
Proof. exact deriv_frechet_norm. Qed.
Print Assumptions derivative_is_frechet_in_sup_norm.

Theorem derivative_is_frechet_in_euclidean_norm :
  forall (af : nat -> list R -> list R) (ad : nat -> list R -> list R -> list R) (adm arn : nat -> space),
  (forall k x, length x = sdim (adm k) ->
     hdiff (sdim (adm k)) (sdim (arn k)) (af k) x (ad k x) /\
     blin (sdim (adm k)) (sdim (arn k)) (ad k x)) ->
  (forall k x, length x = sdim (adm k) ->
     exists L, fdiff (sdim (adm k)) (sdim (arn k)) (af k) x L /\ blin (sdim (adm k)) (sdim (arn k)) L) ->
  forall (e : @oexpr R) (x : list R),
  let P := PR af ad adm arn in
  wt P e = true -> length x = sdim (dom P e) -> deriv_ok P e x = true -> regular af ad adm arn e x ->
  forall eps, 0 < eps -> exists delta, 0 < delta /\
    forall h, length h = sdim (dom P e) -> norm2 h < delta ->
      norm2 (vsub (vsub (eval P e (vadd x h)) (eval P e x)) (eval P (derivative P e x) h)) <= eps * norm2 h.
Proof. exact deriv_frechet_norm2. Qed.
Print Assumptions derivative_is_frechet_in_euclidean_norm.

(* the pieces, for arbitrary maps on R^n: the chain rule for Frechet derivatives, and
   a Frechet derivative is the Hadamard derivative (so T1 and the literal statement
   speak of the same linear map) *)
Theorem frechet_chain_rule :
  forall n k m (F G : list R -> list R) x (L1 L2 : list R -> list R),
  fdiff n k G x L2 -> blin n k L2 -> fdiff k m F (G x) L1 -> blin k m L1 ->
  fdiff n m (fun y => F (G y)) x (fun d => L1 (L2 d)).
Proof. exact fdiff_comp. Qed.
Print Assumptions frechet_chain_rule.

Theorem frechet_derivative_is_hadamard_derivative :
  forall n m (F : list R -> list R) x (L Lh : list R -> list R),
  fdiff n m F x L -> blin n m L -> hdiff n m F x Lh -> forall d, length d = n -> L d = Lh d.
Proof. exact fdiff_hdiff_agree. Qed.
Print Assumptions frechet_derivative_is_hadamard_derivative.

Theorem linear_maps_are_norm_bounded :
  forall n m (L : list R -> list R), blin n m L ->
  exists M, 0 <= M /\ forall h, length h = n -> supn (L h) <= M * supn h.
Proof. exact blin_bnd. Qed.
Print Assumptions linear_maps_are_norm_bounded.

(* T1. Every entry of the derivative table REGENERATED from
   ufunc_ops.derivative_factory is the derivative of its ufunc (sin |-> cos,
   tan |-> 1 + tan^2, sqrt |-> 0.5/sqrt, reciprocal |-> -(1/x)^2, ...) on the
   ufunc's domain of differentiability; same for gradient_factory (ufunc
   functionals on the real line). *)
Theorem ufunc_derivative_table_correct :
  forall (af : nat -> list R -> list R) (ad : nat -> list R -> list R -> list R) (adm arn : nat -> space),
  forall (f : ufn) (e : uex), ufunc_deriv f = Some e ->
  forall a : R, uregular f a ->
  derivable_pt_lim (usem (PR af ad adm arn) f) a (ueval (PR af ad adm arn) e a).
Proof. exact ufunc_deriv_table_sound. Qed.
Print Assumptions ufunc_derivative_table_correct.

Theorem ufunc_gradient_table_correct :
  forall (af : nat -> list R -> list R) (ad : nat -> list R -> list R -> list R) (adm arn : nat -> space),
  forall (f : ufn) (e : uex), ufunc_grad f = Some e ->
  forall a : R, uregular f a ->
  derivable_pt_lim (usem (PR af ad adm arn) f) a (ueval (PR af ad adm arn) e a).
Proof. exact ufunc_grad_table_sound. Qed.
Print Assumptions ufunc_gradient_table_correct.

(* ufuncs listed in LINEAR_UFUNCS (regenerated) really are linear *)
Theorem ufunc_linear_flag_correct :
  forall (af : nat -> list R -> list R) (ad : nat -> list R -> list R -> list R) (adm arn : nat -> space),
  forall f : ufn, ufunc_linear f = true -> exists c : R, forall a : R, usem (PR af ad adm arn) f a = c * a.
Proof. exact ufunc_linear_scale. Qed.
Print Assumptions ufunc_linear_flag_correct.

(* TIE BY REGENERATION.  Gen/Derivatives.v is re-emitted on every run from the `derivative`
   methods and `linear=` flags of the source (translate/derivatives.py, fail-closed):
   [deriv_rule], [linear_flag] for the nine expression classes of operator.py,
   [block_rule] for Broadcast/Reduction/Diagonal/ProductSpaceOperator, [leaf_rule] for
   PowerOperator, NormOperator, DistOperator, ConstantOperator, RealPart, ImagPart and the
   base class.  C06/Interp.v gives the rule syntax its meaning.  The theorems below say that
   the hand-written model about which T1 is proved IS that interpretation -- for every
   carrier, every operator, every point.  A source change (another evaluation point, a
   dropped factor, a swapped product-rule operand, a changed shortcut or flag) changes the
   generated rule and breaks these proofs. *)
Theorem model_derivative_is_regenerated_rule :
  forall (T : Type) (N : Num T) (P : prims T) (e : @oexpr T) (x : list T) (c : oclass),
  class_of e = Some c ->
  derivative P e x = interp P (derivative P) e x (deriv_rule c).
Proof. exact (@derivative_is_source_rule). Qed.
Print Assumptions model_derivative_is_regenerated_rule.

Theorem model_linear_flag_is_regenerated :
  forall (T : Type) (N : Num T) (e : @oexpr T) (c : oclass),
  class_of e = Some c -> is_lin e = ilin e (linear_flag c).
Proof. exact (@is_lin_is_source_flag). Qed.
Print Assumptions model_linear_flag_is_regenerated.

Theorem model_block_derivative_is_regenerated_rule :
  forall (T : Type) (N : Num T) (P : prims T) (e : @oexpr T) (x : list T) (c : bclass),
  bclass_of e = Some c ->
  derivative P e x = binterp P (derivative P) e x (block_rule c).
Proof. exact (@block_derivative_is_source_rule). Qed.
Print Assumptions model_block_derivative_is_regenerated_rule.

Theorem model_leaf_derivative_is_regenerated_rule :
  forall (T : Type) (N : Num T) (P : prims T) (l : @leaf T) (x : list T) (c : lclass),
  lclass_of l = Some c ->
  lderiv P l x = linterp P l x (leaf_rule c) /\ lderiv_ok P l x = linterp_ok P l x (leaf_rule c).
Proof. exact (@leaf_derivative_is_source_rule). Qed.
Print Assumptions model_leaf_derivative_is_regenerated_rule.

(* The same for the functionals: Gen/Gradients.v is re-emitted from the `gradient` properties of
   FunctionalLeftScalarMult, FunctionalRightScalarMult, FunctionalComp, FunctionalRightVectorMult,
   FunctionalSum (hence FunctionalScalarSum), FunctionalTranslation, FunctionalQuadraticPerturb,
   FunctionalProduct, FunctionalQuotient (translate/gradients.py also insists that
   Functional.derivative is `gradient(point).T`); the model's [fgrad] IS the interpretation
   (C06/FInterp.v) of these rules. *)
Theorem model_gradient_is_regenerated_rule :
  forall (T : Type) (N : Num T) (rt : T -> T) (mav : bool) (w : list T) (f : @fexpr T) (x : list T) (c : fclass),
  fclass_of f = Some c ->
  fgrad rt mav w f x = gval rt mav (fgrad rt mav) w f (grad_rule c) x.
Proof. exact (@fgrad_is_source_rule). Qed.
Print Assumptions model_gradient_is_regenerated_rule.

(* TRANSFER.  The correspondence shards execute the model at Q (C06/Corr.v, [primsQ]); the
   theorems are about the model at R.  On the polynomial part of the model ([tpoly]: all 13
   classes; leaves Scaling, Multiply, Matrix, InnerProduct (any weights), Zero, Constant,
   Power with exponent >= 1, ufunc square / negative, the user-defined cubic leaf and its
   derivative object, PointwiseInner, RealPart, ImagPart, ComplexModulusSquared and its
   derivative object -- i.e. no square root, no transcendental function, no division) the
   run at Q IS the rational restriction of the object at R: Q2R commutes with evaluation and
   with the construction of the derivative object ([omap] = the same operator with every
   constant mapped by Q2R), and the flags / spaces agree. *)
Theorem eval_Q_is_restriction_of_eval_R :
  forall (e : @oexpr Q), tpoly e = true ->
  forall x : list Q,
  map Q2R (eval primsQ e x) = eval (PR ex_af ex_ad ex_dm ex_dm) (omap e) (map Q2R x).
Proof. exact eval_transfer. Qed.
Print Assumptions eval_Q_is_restriction_of_eval_R.

Theorem derivative_Q_is_restriction_of_derivative_R :
  forall (e : @oexpr Q), tpoly e = true ->
  forall x : list Q,
  omap (derivative primsQ e x) = derivative (PR ex_af ex_ad ex_dm ex_dm) (omap e) (map Q2R x).
Proof. exact derivative_transfer. Qed.
Print Assumptions derivative_Q_is_restriction_of_derivative_R.

Theorem flags_and_spaces_transfer :
  forall (e : @oexpr Q),
  is_lin (omap e) = is_lin e /\
  dom (PR ex_af ex_ad ex_dm ex_dm) (omap e) = dom primsQ e /\
  ran (PR ex_af ex_ad ex_dm ex_dm) (omap e) = ran primsQ e.
Proof. exact (fun e => conj (is_lin_tr e) (conj (dom_tr e) (ran_tr e))). Qed.
Print Assumptions flags_and_spaces_transfer.

(* T1 for functionals (odl/solvers/functional/functional.py, model C06/FModel.v):
   Functional.derivative(x) = InnerProductOperator(gradient(x)).  For EVERY tree of
   the functional arithmetic -- L2NormSquared, L2Norm, L1Norm, Constant/Zero, Rosenbrock,
   Left/RightScalarMult, Sum, ScalarSum, Translation, QuadraticPerturb, Product,
   Quotient, RightVectorMult, composition with a matrix operator -- on a space
   with ANY weighting w (rn(n) unweighted / constant / array weighting,
   uniform_discr; <x, y>_w = sum_i w_i x_i y_i), with [fgrad w f x] the element the
   gradient rules compute at x:   d |-> <d, fgrad w f x>_w   is the
   Frechet/Hadamard derivative of f at x, at every regular point (x <> 0 for
   L2Norm, no zero entry for L1Norm, divisor <> 0).
   Variant switch (measured on the code at run time, FModel): mav = MatrixOperator.adjoint
   is the true adjoint between weighted spaces (repair asked of C05) / the plain
   transpose (current source).
   [fok mav w f]: with the CURRENT source (mav = false) every composition with a
   MatrixOperator must be between UNWEIGHTED spaces -- otherwise the statement is
   false (recorded finding, refuted below); RosenbrockFunctional (gradient = partial
   derivatives / weights) and the repaired adjoint only need non-zero weights.
   [sdiff n phi x ell]: along every differentiable curve g through x with
   velocity d,  t |-> phi (g t)  has derivative  ell d  at 0. *)
Theorem functional_gradient_is_derivative :
  forall (mav : bool) (f : @fexpr R) (w x : list R),
  fwt f = true -> fok mav w f = true -> length w = fdim f -> length x = fdim f -> fregular w f x ->
  sdiff (fdim f) (feval sqrt w f) x (fun d => wdot w d (fgrad sqrt mav w f x)).
Proof. exact fgrad_sound. Qed.
Print Assumptions functional_gradient_is_derivative.

Theorem functional_derivative_is_frechet :
  forall (mav : bool) (f : @fexpr R) (w x : list R),
  fwt f = true -> fok mav w f = true -> length w = fdim f -> length x = fdim f -> fregular w f x ->
  hdiff (fdim f) 1 (fun y => [feval sqrt w f y]) x (fun d => [wdot w d (fgrad sqrt mav w f x)]).
Proof. exact functional_derivative_sound. Qed.
Print Assumptions functional_derivative_is_frechet.

(* ... and literally, little-o in the norm:  | f(x+h) - f(x) - <h, gradient(x)>_w | <= eps ||h||
   for ||h|| < delta  (every tree of the functional arithmetic, both values of mav) *)
Theorem functional_derivative_is_frechet_in_norm :
  forall (mav : bool) (f : @fexpr R) (w x : list R),
  fwt f = true -> fok mav w f = true -> length w = fdim f -> length x = fdim f -> fregular w f x ->
  forall eps, 0 < eps -> exists delta, 0 < delta /\
    forall h, length h = fdim f -> supn h < delta ->
      Rabs (feval sqrt w f (vadd x h) - feval sqrt w f x - wdot w h (fgrad sqrt mav w f x)) <= eps * supn h.
Proof. exact functional_frechet_norm. Qed.
Print Assumptions functional_derivative_is_frechet_in_norm.

(* The unrestricted statement (drop [fok w f]) is FALSE of the faithful model -- the recorded
   finding FunctionalComp-MatrixOperator-weighted-space:
     forall f w x, fwt f = true -> length w = fdim f -> length x = fdim f -> fregular w f x ->
       sdiff (fdim f) (feval sqrt w f) x (fun d => wdot w d (fgrad sqrt false w f x)).
   Witness: L2NormSquared(rn(1)) o MatrixOperator([[1]]) on rn(1, weighting=2) at x = 1
   (the code answers 4 d, the derivative is 2 d).  The theorem above is the partial
   statement with the exact precondition. *)
Theorem functional_gradient_weighted_composition_refuted :
  fwt bad_f = true /\ length [2] = fdim bad_f /\ fregular [2] bad_f [1] /\
  ~ sdiff (fdim bad_f) (feval sqrt [2] bad_f) [1] (fun d => wdot [2] d (fgrad sqrt false [2] bad_f [1])).
Proof. exact fgrad_weighted_comp_refuted. Qed.
Print Assumptions functional_gradient_weighted_composition_refuted.

(* a weighted example without composition, and an unweighted one with a matrix composition *)
Example functional_premises_hold :
  (fwt ex_f = true /\ fok false [2; 3] ex_f = true /\ length [2; 3] = fdim ex_f /\ length [1; 2] = fdim ex_f /\
   fregular [2; 3] ex_f [1; 2]) /\
  (fwt ex_g = true /\ fok false [1; 1] ex_g = true /\ fregular [1; 1] ex_g [1; 2]).
Proof. exact ex_f_premises. Qed.

(* ---- the premise on user-defined leaves is satisfiable: the harness's own
   user-defined operator x |-> x^3 - x with derivative d |-> (3x^2 - 1) d ---- *)
Example user_leaf_premise_holds :
  forall k x, length x = sdim (ex_dm k) ->
  hdiff (sdim (ex_dm k)) (sdim (ex_dm k)) (ex_af k) x (ex_ad k x) /\
  blin (sdim (ex_dm k)) (sdim (ex_dm k)) (ex_ad k x).
Proof. exact ex_Habs. Qed.

Example user_leaf_frechet_premise_holds :
  forall k x, length x = sdim (ex_dm k) ->
  exists L, fdiff (sdim (ex_dm k)) (sdim (ex_dm k)) (ex_af k) x L /\ blin (sdim (ex_dm k)) (sdim (ex_dm k)) L.
Proof. exact ex_HabsF. Qed.

(* ---- and the premises on (e, x) are satisfiable by a tree using every class ---- *)
Example premises_hold :
  let P := PR ex_af ex_ad ex_dm ex_dm in
  wt P ex_tree = true /\ is_lin ex_tree = false /\ length [1; 2] = sdim (dom P ex_tree) /\
  deriv_ok P ex_tree [1; 2] = true /\ regular ex_af ex_ad ex_dm ex_dm ex_tree [1; 2].
Proof. exact ex_premises. Qed.
