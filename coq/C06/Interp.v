(* C06/Interp.v -- meaning of the REGENERATED derivative rules (Gen/Derivatives.v):
   an interpreter of the rule syntax over the model's objects.  C06/Tie.v proves
   that the hand-written [derivative], [is_lin], [lderiv], [lderiv_ok] of
   C06/Model.v ARE these interpretations, so a change of a derivative method in
   the source (other evaluation point, dropped factor, swapped operand, other
   shortcut) breaks a proof.  What stays hand-written here: the meaning of the
   overloads the rule bodies use (scalar * op, op * scalar, vector * op,
   op * vector, value * op, op + op) and of the constructors. *)
From Coq Require Import ZArith QArith List Bool.
From Verif Require Import Base.Num Base.Vec C06.Syntax Gen.UfuncDeriv Gen.Derivatives C06.Model.
Import ListNotations.
Local Open Scope num_scope.

Section Interp.
Context {T : Type} `{Num T}.
Variable P : prims T.
Notation oexprT := (@oexpr T).

(* the fields of `self` for the nine expression classes *)
Definition class_of (e : oexprT) : option oclass :=
  match e with
  | OSum _ _ => Some CSum | OVecSum _ _ => Some CVecSum | OComp _ _ => Some CComp
  | OPProd _ _ => Some CPProd | OLScal _ _ => Some CLScal | ORScal _ _ => Some CRScal
  | OFLVec _ _ => Some CFLVec | OLVec _ _ => Some CLVec | ORVec _ _ => Some CRVec
  | _ => None
  end.
Definition fsub (e : oexprT) (s : dsub) : oexprT :=
  match e, s with
  | OSum a _, SLeft | OComp a _, SLeft | OPProd a _, SLeft => a
  | OSum _ b, SRight | OComp _ b, SRight | OPProd _ b, SRight => b
  | OVecSum a _, SOperator | OLScal a _, SOperator | ORScal a _, SOperator
  | OLVec a _, SOperator | ORVec a _, SOperator => a
  | OFLVec a _, SFunctional => a
  | _, _ => e
  end.
Definition fscalar (e : oexprT) : T :=
  match e with OLScal _ s | ORScal _ s => s | _ => nzero end.
Definition fvector (e : oexprT) : list T :=
  match e with OVecSum _ v | OLVec _ v | ORVec _ v | OFLVec _ v => v | _ => [] end.

Definition ipt (e : oexprT) (p : dpt) (x : list T) : list T :=
  match p with
  | PX => x
  | PAt s => eval P (fsub e s) x
  | PScalX => vscal (fscalar e) x
  | PVecX => vmul (fvector e) x
  end.
Definition icond (e : oexprT) (c : dcond) : bool :=
  match c with CSelfLin => is_lin e | CSubLin s => is_lin (fsub e s) end.

(* D = the (recursive) derivative of sub-operators *)
Fixpoint interp (D : oexprT -> list T -> oexprT) (e : oexprT) (x : list T) (r : dex) : oexprT :=
  match r with
  | DSelf => e
  | DSub s => fsub e s
  | DDeriv s p => D (fsub e s) (ipt e p x)
  | DCtor2 KSum a b => OSum (interp D e x a) (interp D e x b)
  | DCtor2 KComp a b => OComp (interp D e x a) (interp D e x b)
  | DFLVec a => OFLVec (interp D e x a) (fvector e)
  | DScalMul a => mk_lscal (fscalar e) (interp D e x a)            (* Operator.__rmul__(Number) *)
  | DMulScal a => mk_mulscal (fscalar e) (interp D e x a)          (* Operator.__mul__(Number) *)
  | DVecMul a => OLVec (interp D e x a) (fvector e)                (* Operator.__rmul__(element of range) *)
  | DMulVec a => ORVec (interp D e x a) (fvector e)                (* Operator.__mul__(element of domain) *)
  | DValMul s a => mk_lmul (ran P (fsub e s)) (eval P (fsub e s) x) (interp D e x a)   (* value * op *)
  | DAdd a b => OSum (interp D e x a) (interp D e x b)             (* Operator.__add__(Operator) *)
  | DIf c t f => if icond e c then interp D e x t else interp D e x f
  end.

Definition ilin (e : oexprT) (l : linex) : bool :=
  match l with
  | LinBoth a b => is_lin (fsub e a) && is_lin (fsub e b)
  | LinOf s => is_lin (fsub e s)
  | LinFalse => false
  end.

(* block operators *)
Definition bclass_of (e : oexprT) : option bclass :=
  match e with
  | OBroadcast _ => Some CBroadcast | OReduction _ => Some CReduction
  | ODiagonal _ => Some CDiagonal | OPSO _ _ _ => Some CPSO | _ => None
  end.
Definition bops (D : oexprT -> list T -> oexprT) (pt : bpt) (ops : list oexprT) (x : list T) : list oexprT :=
  match pt with
  | BSame => map (fun a => D a x) ops
  | BZip => blockmap D (dsize P) ops x
  | BCol => ops                                    (* only meaningful for a matrix of operators *)
  end.
Definition binterp (D : oexprT -> list T -> oexprT) (e : oexprT) (x : list T) (r : brule) : oexprT :=
  if b_linself r && is_lin e then e
  else match e with
       | OBroadcast ops => OBroadcast (bops D (b_pt r) ops x)
       | OReduction ops => OReduction (bops D (b_pt r) ops x)
       | ODiagonal ops => ODiagonal (bops D (b_pt r) ops x)
       | OPSO cs rs ents =>
           OPSO cs rs (map (fun t : nat * nat * oexprT =>
                              let '(i, j, a) := t in
                              (i, j, D a (match b_pt r with
                                          | BCol => proj cs j x
                                          | BSame => x
                                          | BZip => proj cs i x
                                          end))) ents)
       | _ => e
       end.

(* leaves of default_ops.py *)
Definition lclass_of (l : @leaf T) : option lclass :=
  match l with
  | LPow _ _ => Some KPower | LNorm _ => Some KNorm | LDist _ _ => Some KDist
  | LConst _ _ _ => Some KConstant | LRe _ => Some KRealPart | LIm _ => Some KImagPart
  | LScale _ _ | LMul _ _ | LMat _ _ | LInner _ _ | LZero _ _ => Some KBase
  | _ => None
  end.
Definition iln (l : @leaf T) (n : lnex) (x : list T) : T :=
  match n, l with
  | LNNorm, LNorm w => rt P (wdot w x x)                               (* point.norm() *)
  | LNDist, LDist w v => rt P (wdot w (vsub x v) (vsub x v))           (* self.vector.dist(point) *)
  | _, _ => nzero
  end.
Fixpoint ilv (l : @leaf T) (v : lvex) (x : list T) : list T :=
  match v with
  | LVPoint => x
  | LVDiff => match l with LDist _ u => vsub x u | _ => x end
  | LVPowM1 => match l with LPow _ p => map (fun a => zpow a (p - 1)) x | _ => x end
  | LVDiv u n => map (fun a => a / iln l n x) (ilv l u x)
  end.
Definition linterp (l : @leaf T) (x : list T) (r : lrule) : oexprT :=
  match r with
  | LRSelf | LRLinSelfElseRaise => OLeaf l
  | LRZero => OLeaf (LZero (ldom P l) (lran P l))
  | LRExpMultiply v =>
      match l with
      | LPow s p => mk_lscal (of_Z p) (OLeaf (LMul s (ilv l v x)))     (* exponent * MultiplyOperator(..) *)
      | _ => OLeaf l
      end
  | LRInner _ v =>
      match l with
      | LNorm w | LDist w _ => OLeaf (LInner w (ilv l v x))             (* InnerProductOperator(..) in the same space *)
      | _ => OLeaf l
      end
  end.
Definition linterp_ok (l : @leaf T) (x : list T) (r : lrule) : bool :=
  match r with
  | LRSelf | LRZero | LRExpMultiply _ => true
  | LRLinSelfElseRaise => llin l
  | LRInner n _ => negb (iln l n x =? nzero)
  end.
End Interp.
