(* C06/Blocks.v -- calculus for flat product-space elements: concatenation,
   firstn / skipn as bounded linear maps. *)
From Coq Require Import Reals Lra Lia List Bool.
From Verif Require Import Base.Num Base.Vec Base.VecR C06.Syntax Gen.UfuncDeriv C06.Model C06.Calc C06.Lin.
Import ListNotations.
Local Open Scope R_scope.

Lemma nth_firstn0 (l : Rvec) k i : (i < k)%nat -> nth i (firstn k l) 0 = nth i l 0.
Proof.
  revert l i; induction k as [|k IH]; intros l i Hi; [lia|].
  destruct l as [|a l]; [destruct i; reflexivity|].
  destruct i as [|i]; [reflexivity|]. cbn. apply IH. lia.
Qed.
Lemma nth_skipn0 (l : Rvec) k i : nth i (skipn k l) 0 = nth (k + i) l 0.
Proof.
  revert l; induction k as [|k IH]; intros l; [reflexivity|].
  destruct l as [|a l]; [destruct i; reflexivity|]. cbn. apply IH.
Qed.

Lemma firstn_vmap2 (f : R -> R -> R) k (a b : Rvec) :
  firstn k (vmap2 f a b) = vmap2 f (firstn k a) (firstn k b).
Proof.
  revert a b; induction k as [|k IH]; intros a b; [reflexivity|].
  destruct a as [|u a], b as [|v b]; cbn; try reflexivity.
  f_equal. apply IH.
Qed.
Lemma skipn_vmap2 (f : R -> R -> R) k (a b : Rvec) : length a = length b ->
  skipn k (vmap2 f a b) = vmap2 f (skipn k a) (skipn k b).
Proof.
  revert a b; induction k as [|k IH]; intros a b Hl; [reflexivity|].
  destruct a as [|u a], b as [|v b]; cbn in Hl; try lia; try reflexivity.
  cbn. apply IH. lia.
Qed.
Lemma vmap2_app (f : R -> R -> R) (a1 a2 b1 b2 : Rvec) : length a1 = length b1 ->
  vmap2 f (a1 ++ a2) (b1 ++ b2) = vmap2 f a1 b1 ++ vmap2 f a2 b2.
Proof.
  revert b1; induction a1 as [|u a1 IH]; intros [|v b1] Hl; cbn in Hl; try lia; [reflexivity|].
  cbn. f_equal. apply IH. lia.
Qed.

(* ---------- curves ---------- *)
Lemma curve_app n1 n2 g1 g2 x1 x2 d1 d2 :
  curve n1 g1 x1 d1 -> curve n2 g2 x2 d2 ->
  curve (n1 + n2) (fun t => g1 t ++ g2 t) (x1 ++ x2) (d1 ++ d2).
Proof.
  intros (A0 & Ad & Al & Ader) (B0 & Bd & Bl & Bder). repeat split.
  - rewrite A0, B0; reflexivity.
  - rewrite app_length; lia.
  - intros t. rewrite app_length, Al, Bl. reflexivity.
  - intros i Hi. destruct (Nat.lt_ge_cases i n1) as [Hlt|Hge].
    + rewrite app_nth1 by lia.
      apply (dpl_ext (fun t => nth i (g1 t) 0)); [|apply Ader; exact Hlt].
      intros t. rewrite app_nth1; [reflexivity|rewrite Al; exact Hlt].
    + rewrite app_nth2 by lia. rewrite Ad.
      apply (dpl_ext (fun t => nth (i - n1) (g2 t) 0)); [|apply Bder; lia].
      intros t. rewrite app_nth2; [rewrite Al; reflexivity|rewrite Al; exact Hge].
Qed.

Lemma curve_firstn n k g x d : (k <= n)%nat ->
  curve n g x d -> curve k (fun t => firstn k (g t)) (firstn k x) (firstn k d).
Proof.
  intros Hk (A0 & Ad & Al & Ader). repeat split.
  - rewrite A0; reflexivity.
  - rewrite firstn_length; lia.
  - intros t. rewrite firstn_length, Al; lia.
  - intros i Hi. rewrite nth_firstn0 by exact Hi.
    apply (dpl_ext (fun t => nth i (g t) 0)); [|apply Ader; lia].
    intros t. rewrite nth_firstn0 by exact Hi. reflexivity.
Qed.

Lemma curve_skipn n k g x d : (k <= n)%nat ->
  curve n g x d -> curve (n - k) (fun t => skipn k (g t)) (skipn k x) (skipn k d).
Proof.
  intros Hk (A0 & Ad & Al & Ader). repeat split.
  - rewrite A0; reflexivity.
  - rewrite skipn_length; lia.
  - intros t. rewrite skipn_length, Al; lia.
  - intros i Hi. rewrite nth_skipn0.
    apply (dpl_ext (fun t => nth (k + i) (g t) 0)); [|apply Ader; lia].
    intros t. rewrite nth_skipn0. reflexivity.
Qed.

(* ---------- linear maps ---------- *)
Ltac bsplit := split; [|split; [|split]].

Lemma blin_firstn n k : (k <= n)%nat -> blin n k (firstn k).
Proof.
  intros Hk. bsplit.
  - intros d Hd. rewrite firstn_length; lia.
  - intros a b _ _. apply firstn_vmap2.
  - intros c a _. unfold vscal. apply firstn_map.
  - intros y _ g d Hc. apply (curve_firstn n); assumption.
Qed.

Lemma blin_skipn n k : (k <= n)%nat -> blin n (n - k) (skipn k).
Proof.
  intros Hk. bsplit.
  - intros d Hd. rewrite skipn_length; lia.
  - intros a b Ha Hb. apply skipn_vmap2. lia.
  - intros c a _. unfold vscal. apply skipn_map.
  - intros y _ g d Hc. apply (curve_skipn n); assumption.
Qed.

Lemma blin_skipn_add k m : blin (k + m) m (skipn k).
Proof.
  pose proof (blin_skipn (k + m) k) as H. replace (k + m - k)%nat with m in H by lia. apply H. lia.
Qed.
Lemma blin_firstn_add k m : blin (k + m) k (firstn k).
Proof. apply blin_firstn. lia. Qed.

Lemma hdiff_app n m1 m2 F G x L1 L2 :
  hdiff n m1 F x L1 -> hdiff n m2 G x L2 ->
  hdiff n (m1 + m2) (fun y => F y ++ G y) x (fun d => L1 d ++ L2 d).
Proof. intros HF HG g d Hc. apply curve_app; [apply HF|apply HG]; exact Hc. Qed.

Lemma blin_app n m1 m2 L1 L2 :
  blin n m1 L1 -> blin n m2 L2 -> blin n (m1 + m2) (fun d => L1 d ++ L2 d).
Proof.
  intros (Al & Aa & As & Ad) (Bl & Ba & Bs & Bd). bsplit.
  - intros d Hd. rewrite app_length, Al, Bl by exact Hd. reflexivity.
  - intros a b Ha Hb. rewrite Aa, Ba by assumption. unfold vadd.
    symmetry. apply vmap2_app. rewrite !Al by assumption. reflexivity.
  - intros c a Ha. rewrite As, Bs by assumption. unfold vscal. symmetry. apply map_app.
  - intros y Hy. apply hdiff_app; auto.
Qed.

Lemma blin_nil n : blin n 0 (fun _ => []).
Proof. apply (blin_zero n 0). Qed.
Lemma hdiff_nil n x : hdiff n 0 (fun _ => []) x (fun _ => []).
Proof. apply (hdiff_const n 0 [] x). reflexivity. Qed.

(* ---------- families of blocks ---------- *)
Section Families.
Context {A : Type}.
Variable ev : A -> Rvec -> Rvec.
Variable nsz msz : A -> nat.
Notation tot f l := (list_sum (map f l)).

Lemma blockmap_nil (x : Rvec) : blockmap ev nsz [] x = [].
Proof. reflexivity. Qed.
Lemma blockmap_cons a l (x : Rvec) :
  blockmap ev nsz (a :: l) x = ev a (firstn (nsz a) x) :: blockmap ev nsz l (skipn (nsz a) x).
Proof. reflexivity. Qed.

(* [x_i] |-> [ev_i x_i] *)
Lemma diag_blin (l : list A) :
  (forall a, In a l -> blin (nsz a) (msz a) (ev a)) ->
  blin (tot nsz l) (tot msz l) (fun d => concat (blockmap ev nsz l d)).
Proof.
  induction l as [|a l IH]; intros Hb.
  - cbn. apply blin_nil.
  - cbn [map list_sum fold_right].
    apply (blin_ext _ _ (fun d => (fun y => ev a (firstn (nsz a) y)) d ++
                                   (fun y => concat (blockmap ev nsz l (skipn (nsz a) y))) d)).
    { intros d. reflexivity. }
    apply blin_app.
    + apply (blin_comp _ (nsz a) _ (ev a) (firstn (nsz a))); [apply blin_firstn_add|apply Hb; left; reflexivity].
    + apply (blin_comp _ (tot nsz l) _ (fun y => concat (blockmap ev nsz l y)) (skipn (nsz a))).
      * apply blin_skipn_add.
      * apply IH. intros b Hin. apply Hb. right; exact Hin.
Qed.

(* [x_i] |-> sum_i ev_i x_i *)
Lemma red_blin m (l : list A) :
  (forall a, In a l -> blin (nsz a) m (ev a)) ->
  blin (tot nsz l) m (fun d => vsum m (blockmap ev nsz l d)).
Proof.
  induction l as [|a l IH]; intros Hb.
  - cbn. apply blin_zero.
  - cbn [map list_sum fold_right].
    apply (blin_ext _ _ (fun d => vadd ((fun y => ev a (firstn (nsz a) y)) d)
                                       ((fun y => vsum m (blockmap ev nsz l (skipn (nsz a) y))) d))).
    { intros d. reflexivity. }
    apply blin_add.
    + apply (blin_comp _ (nsz a) _ (ev a) (firstn (nsz a))); [apply blin_firstn_add|apply Hb; left; reflexivity].
    + apply (blin_comp _ (tot nsz l) _ (fun y => vsum m (blockmap ev nsz l y)) (skipn (nsz a))).
      * apply blin_skipn_add.
      * apply IH. intros b Hin. apply Hb. right; exact Hin.
Qed.

(* x |-> [ev_i x] *)
Lemma bc_blin n (l : list A) :
  (forall a, In a l -> blin n (msz a) (ev a)) ->
  blin n (tot msz l) (fun d => concat (map (fun a => ev a d) l)).
Proof.
  induction l as [|a l IH]; intros Hb.
  - cbn. apply blin_nil.
  - cbn [map list_sum fold_right concat].
    apply blin_app; [apply Hb; left; reflexivity|].
    apply IH. intros b Hin. apply Hb. right; exact Hin.
Qed.
End Families.

(* ---------- parts of a product-space element ---------- *)
Lemma list_sum_split (cs : list nat) j : (j < length cs)%nat ->
  (list_sum (firstn j cs) + nth j cs 0 + list_sum (skipn (S j) cs))%nat = list_sum cs.
Proof.
  revert j; induction cs as [|c cs IH]; intros j Hj; [cbn in Hj; lia|].
  assert (lsc' : forall n l, list_sum (n :: l) = (n + list_sum l)%nat) by reflexivity.
  destruct j as [|j]; [cbn [firstn nth skipn]; rewrite lsc'; cbn; lia|].
  cbn in Hj. specialize (IH j ltac:(lia)).
  change (skipn (S (S j)) (c :: cs)) with (skipn (S j) cs).
  change (firstn (S j) (c :: cs)) with (c :: firstn j cs).
  change (nth (S j) (c :: cs) 0%nat) with (nth j cs 0%nat).
  rewrite !lsc'. lia.
Qed.

Lemma blin_proj cs j : (j < length cs)%nat ->
  blin (list_sum cs) (nth j cs 0%nat) (proj cs j).
Proof.
  intros Hj. pose proof (list_sum_split cs j Hj) as E.
  set (s := list_sum (firstn j cs)) in *. set (k := nth j cs 0%nat) in *.
  set (b := list_sum (skipn (S j) cs)) in *.
  unfold proj. fold s k. rewrite <- E.
  apply (blin_comp _ (k + b) _ (firstn k) (skipn s)).
  - replace (s + k + b)%nat with (s + (k + b))%nat by lia. apply blin_skipn_add.
  - apply blin_firstn_add.
Qed.

Lemma blin_embed rs i : (i < length rs)%nat ->
  blin (nth i rs 0%nat) (list_sum rs) (embed rs i).
Proof.
  intros Hi. pose proof (list_sum_split rs i Hi) as E.
  set (a := list_sum (firstn i rs)) in *. set (k := nth i rs 0%nat) in *.
  set (b := list_sum (skipn (S i) rs)) in *.
  unfold embed. fold a k b. rewrite <- E.
  replace (a + k + b)%nat with (a + (k + b))%nat by lia.
  apply (blin_app k a (k + b) (fun _ => vconst a 0) (fun v => v ++ vconst b 0)).
  - apply blin_zero.
  - apply (blin_app k k b (fun v => v) (fun _ => vconst b 0)); [apply blin_id|apply blin_zero].
Qed.
