(* C06/Tie.v -- the hand-written model IS the interpretation of the rules
   regenerated from the source (any carrier). *)
From Coq Require Import ZArith QArith List Bool.
From Verif Require Import Base.Num Base.Vec C06.Syntax Gen.UfuncDeriv Gen.Derivatives C06.Model C06.Interp.
Import ListNotations.

Section Tie.
Context {T : Type} `{Num T}.
Variable P : prims T.

(* the nine expression classes of operator.py *)
Lemma derivative_is_source_rule (e : @oexpr T) (x : list T) (c : oclass) :
  class_of e = Some c ->
  derivative P e x = interp P (derivative P) e x (deriv_rule c).
Proof.
  destruct e; cbn [class_of]; intros E; try discriminate E; injection E as <-; reflexivity.
Qed.

Lemma is_lin_is_source_flag (e : @oexpr T) (c : oclass) :
  class_of e = Some c -> is_lin e = ilin e (linear_flag c).
Proof.
  destruct e; cbn [class_of]; intros E; try discriminate E; injection E as <-; reflexivity.
Qed.

(* the four block operators of pspace_ops.py *)
Lemma block_derivative_is_source_rule (e : @oexpr T) (x : list T) (c : bclass) :
  bclass_of e = Some c ->
  derivative P e x = binterp P (derivative P) e x (block_rule c).
Proof.
  destruct e; cbn [bclass_of]; intros E; try discriminate E; injection E as <-; try reflexivity.
Qed.

(* the closed-form leaves of default_ops.py and the base-class rule *)
Lemma leaf_derivative_is_source_rule (l : @leaf T) (x : list T) (c : lclass) :
  lclass_of l = Some c ->
  lderiv P l x = linterp P l x (leaf_rule c) /\ lderiv_ok P l x = linterp_ok P l x (leaf_rule c).
Proof.
  destruct l; cbn [lclass_of]; intros E; try discriminate E; injection E as <-; split; reflexivity.
Qed.
End Tie.
