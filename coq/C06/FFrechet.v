(* C06/FFrechet.v -- the literal Frechet statement for the functional arithmetic:
   | f(x+h) - f(x) - <h, gradient(x)>_w | = o(||h||).
   Every functional tree is Frechet differentiable at its regular points (induction with
   the calculus of Frechet.v); the derivative is the one FProofs.fgrad_sound identifies. *)
From Coq Require Import Reals Lra Lia List Bool ZArith.
From Verif Require Import Base.Num Base.Vec Base.VecR C06.Calc C06.Lin C06.Syntax Gen.UfuncDeriv C06.Model
  C06.Leaves C06.Blocks C06.PwNorm C06.FModel C06.FProofs C06.Frechet C06.FrechetTrees.
Import ListNotations.
Local Open Scope R_scope.

(* ---------- scalar-valued maps as maps into R^1 ---------- *)
Lemma fd1_add n (p q : Rvec -> R) x :
  fd n 1 (fun y => [p y]) x -> fd n 1 (fun y => [q y]) x -> fd n 1 (fun y => [p y + q y]) x.
Proof. intros Hp Hq. apply (fd_ext _ _ (fun y => vadd [p y] [q y])); [reflexivity|apply fd_add; assumption]. Qed.
Lemma fd1_mul n (p q : Rvec -> R) x :
  fd n 1 (fun y => [p y]) x -> fd n 1 (fun y => [q y]) x -> fd n 1 (fun y => [p y * q y]) x.
Proof. intros Hp Hq. apply (fd_ext _ _ (fun y => vmul [p y] [q y])); [reflexivity|apply fd_mul; assumption]. Qed.
Lemma fd1_scal n s (p : Rvec -> R) x : fd n 1 (fun y => [p y]) x -> fd n 1 (fun y => [s * p y]) x.
Proof.
  intros Hp. apply (fd_ext _ _ (fun y => vscal s [p y])); [reflexivity|].
  apply (fd_lin_after n 1 1 (vscal s)); [apply blin_scale|exact Hp].
Qed.
Lemma fd1_const n c x : length x = n -> fd n 1 (fun _ => [c]) x.
Proof. intros Hx. apply fd_const; [reflexivity|exact Hx]. Qed.
Lemma fd1_sub n (p q : Rvec -> R) x :
  fd n 1 (fun y => [p y]) x -> fd n 1 (fun y => [q y]) x -> fd n 1 (fun y => [p y - q y]) x.
Proof.
  intros Hp Hq. apply (fd_ext _ _ (fun y => [p y + (-1) * q y])); [intros y _; f_equal; ring|].
  apply fd1_add; [exact Hp|apply fd1_scal; exact Hq].
Qed.
Lemma fd1_inv n (q : Rvec -> R) x : q x <> 0 -> fd n 1 (fun y => [q y]) x -> fd n 1 (fun y => [1 / q y]) x.
Proof.
  intros Hnz Hq. apply (fd_ext _ _ (fun y => map (fun t => 1 / t) [q y])); [reflexivity|].
  apply (fd_comp n 1 1 (map (fun t => 1 / t)) (fun y => [q y])); [exact Hq|].
  apply (fd_map 1 (fun t => 1 / t) (fun a => - (1 / a * (1 / a)))); [reflexivity|].
  intros [|i] Hi; [|lia]. cbn [nth]. apply dpl_inv. exact Hnz.
Qed.

(* coordinate functions *)
Lemma firstn1_skipn (y : Rvec) : forall i, (i < length y)%nat -> firstn 1 (skipn i y) = [nth i y 0].
Proof.
  induction y as [|a y IH]; intros [|i] Hi; cbn [length] in Hi; try lia; [reflexivity|].
  cbn [skipn nth]. apply IH. lia.
Qed.
Lemma fd1_coord n i x : length x = n -> (i < n)%nat -> fd n 1 (fun y => [nth i y 0]) x.
Proof.
  intros Hx Hi. apply (fd_ext _ _ (fun y => firstn 1 (skipn i y))).
  { intros y Hy. apply firstn1_skipn. lia. }
  apply fd_lin; [|exact Hx].
  apply (blin_comp n (n - i) 1 (firstn 1) (skipn i)); [apply blin_skipn; lia|apply blin_firstn; lia].
Qed.

(* ---------- RosenbrockFunctional ---------- *)
Lemma rosen_fd c : forall n x, length x = n -> fd n 1 (fun y => [rosen c y]) x.
Proof.
  induction n as [|n IH]; intros x Hx.
  - apply (fd_ext _ _ (fun _ => [0])); [|apply fd1_const; exact Hx].
    intros [|? ?] Hy; [reflexivity|discriminate Hy].
  - destruct n as [|k].
    + apply (fd_ext _ _ (fun _ => [0])); [|apply fd1_const; exact Hx].
      intros [|? [|? ?]] Hy; try discriminate Hy. reflexivity.
    + apply (fd_ext _ _ (fun y =>
        [c * ((nth 1 y 0 - nth 0 y 0 * nth 0 y 0) * (nth 1 y 0 - nth 0 y 0 * nth 0 y 0))
         + (nth 0 y 0 - 1) * (nth 0 y 0 - 1) + rosen c (skipn 1 y)])).
      { intros [|a [|b r]] Hy; try discriminate Hy. reflexivity. }
      assert (H0 : fd (S (S k)) 1 (fun y => [nth 0 y 0]) x) by (apply fd1_coord; [exact Hx|lia]).
      assert (H1 : fd (S (S k)) 1 (fun y => [nth 1 y 0]) x) by (apply fd1_coord; [exact Hx|lia]).
      assert (Ht : fd (S (S k)) 1 (fun y => [nth 1 y 0 - nth 0 y 0 * nth 0 y 0]) x)
        by (apply fd1_sub; [exact H1|apply fd1_mul; exact H0]).
      assert (Hu : fd (S (S k)) 1 (fun y => [nth 0 y 0 - 1]) x)
        by (apply fd1_sub; [exact H0|apply fd1_const; exact Hx]).
      apply fd1_add; [apply fd1_add|].
      * apply fd1_scal. apply fd1_mul; exact Ht.
      * apply fd1_mul; exact Hu.
      * apply (fd_lin_before (S (S k)) (S k) 1 (skipn 1) (fun z => [rosen c z])); [apply (blin_skipn_add 1 (S k))|exact Hx|].
        apply IH. rewrite skipn_length. lia.
Qed.

(* ---------- all functional trees ---------- *)
Theorem ffd (f : fexprR) : forall w x,
  fwt f = true -> length w = fdim f -> length x = fdim f -> fregular w f x ->
  fd (fdim f) 1 (fun y => [feval sqrt w f y]) x.
Proof.
  induction f as [n c|n|n|n|n c|f IH s|f IH s|f IHf g IHg|f IH c|f IH t|f IH a u c|f IHf g IHg|f IHf g IHg|f IH v|f IH w' n rows];
    intros w x Hw Hwl Hx Hreg; cbn [fwt fdim feval fregular] in *.
  - (* Rosenbrock *) apply rosen_fd; exact Hx.
  - (* L2NormSquared *) rewrite <- Hwl. apply fd_wnormsq. congruence.
  - (* L2Norm *) rewrite <- Hwl. apply fd_wnorm; [congruence|exact Hreg].
  - (* L1Norm *)
    apply (fd_ext _ _ (fun y => (fun z => [dot z w]) (map Rabs y))).
    { intros y _. cbn beta. unfold dot. rewrite vmul_comm. reflexivity. }
    apply (fd_lin_after n n 1 (fun z => [dot z w]) (map Rabs)); [apply blin_dot; exact Hwl|].
    apply (fd_map n Rabs sgnR); [exact Hx|]. intros i Hi. apply dpl_abs. apply Hreg. lia.
  - (* Constant *) apply fd1_const; exact Hx.
  - (* LeftScalarMult *) apply fd1_scal. apply IH; assumption.
  - (* RightScalarMult *)
    apply (fd_lin_before _ (fdim f) 1 (vscal s) (fun z => [feval sqrt w f z])); [apply blin_scale|exact Hx|].
    apply IH; auto. rewrite vscal_len; exact Hx.
  - (* Sum *)
    apply andb_prop in Hw as [Hw He]. apply andb_prop in Hw as [Wf Wg]. apply Nat.eqb_eq in He. destruct Hreg as [Rf Rg].
    apply fd1_add; [apply IHf; assumption|]. rewrite He. apply IHg; auto; congruence.
  - (* ScalarSum *) apply fd1_add; [apply IH; assumption|apply fd1_const; exact Hx].
  - (* Translation *)
    apply andb_prop in Hw as [Wf Ht]. apply Nat.eqb_eq in Ht.
    apply (fd_comp _ (fdim f) 1 (fun z => [feval sqrt w f z]) (fun y => vsub y t)); [apply fd_sub_const; assumption|].
    apply IH; auto. apply vsub_len; assumption.
  - (* QuadraticPerturb *)
    apply andb_prop in Hw as [Wf Hu]. apply Nat.eqb_eq in Hu.
    apply fd1_add; [apply fd1_add; [apply fd1_add|]|apply fd1_const; exact Hx].
    + apply IH; assumption.
    + apply fd1_scal. rewrite <- Hwl. apply fd_wnormsq. congruence.
    + apply (fd_ext _ _ (fun y => [dot y (vmul w u)])); [intros y _; rewrite (wdot_as_dot_r w y u); reflexivity|].
      apply fd_lin; [|exact Hx]. apply blin_dot. apply vmul_len; congruence.
  - (* Product *)
    apply andb_prop in Hw as [Hw He]. apply andb_prop in Hw as [Wf Wg]. apply Nat.eqb_eq in He. destruct Hreg as [Rf Rg].
    apply fd1_mul; [apply IHf; assumption|]. rewrite He. apply IHg; auto; congruence.
  - (* Quotient *)
    apply andb_prop in Hw as [Hw He]. apply andb_prop in Hw as [Wf Wg]. apply Nat.eqb_eq in He.
    destruct Hreg as (Rf & Rg & Hnz).
    apply (fd_ext _ _ (fun y => [feval sqrt w f y * (1 / feval sqrt w g y)])).
    { intros y _. f_equal. numR. unfold Rdiv. ring. }
    apply fd1_mul; [apply IHf; assumption|]. apply fd1_inv; [exact Hnz|]. rewrite He. apply IHg; auto; congruence.
  - (* RightVectorMult *)
    apply andb_prop in Hw as [Wf Hv]. apply Nat.eqb_eq in Hv.
    apply (fd_lin_before _ (fdim f) 1 (fun y => vmul y v) (fun z => [feval sqrt w f z])); [apply blin_mulv; exact Hv|exact Hx|].
    apply IH; auto. apply vmul_len; assumption.
  - (* composition with a matrix operator *)
    apply andb_prop in Hw as [Hw Hw']. apply andb_prop in Hw as [Hw Hrows]. apply andb_prop in Hw as [Wf Hr].
    apply Nat.eqb_eq in Hr, Hw'.
    assert (Hrl : forall r, In r rows -> length r = n).
    { intros r Hin. rewrite forallb_forall in Hrows. apply Nat.eqb_eq. apply Hrows. exact Hin. }
    apply (fd_lin_before n (length rows) 1 (mvec rows) (fun z => [feval sqrt w' f z])); [apply blin_mvec; exact Hrl|exact Hx|].
    rewrite Hr. apply IH; auto. rewrite mvec_len. exact Hr.
Qed.

Section Variants.
Variable mav : bool.

Theorem functional_frechet (f : fexprR) w x :
  fwt f = true -> fok mav w f = true -> length w = fdim f -> length x = fdim f -> fregular w f x ->
  fdiff (fdim f) 1 (fun y => [feval sqrt w f y]) x (fun d => [wdot w d (fgrad sqrt mav w f x)]).
Proof.
  intros Hw Hok Hwl Hx Hreg.
  destruct (ffd f w x Hw Hwl Hx Hreg) as (L & HL & BL).
  pose proof (functional_derivative_sound mav f w x Hw Hok Hwl Hx Hreg) as Hh.
  apply (fdiff_extL _ _ _ _ L); [|exact HL].
  apply (fdiff_hdiff_agree (fdim f) 1 (fun y => [feval sqrt w f y]) x L _ HL BL Hh).
Qed.

(* in the wording of the property *)
Theorem functional_frechet_norm (f : fexprR) w x :
  fwt f = true -> fok mav w f = true -> length w = fdim f -> length x = fdim f -> fregular w f x ->
  forall eps, 0 < eps -> exists delta, 0 < delta /\
    forall h, length h = fdim f -> supn h < delta ->
      Rabs (feval sqrt w f (vadd x h) - feval sqrt w f x - wdot w h (fgrad sqrt mav w f x)) <= eps * supn h.
Proof.
  intros Hw Hok Hwl Hx Hreg eps He.
  destruct (functional_frechet f w x Hw Hok Hwl Hx Hreg) as (_ & _ & _ & H).
  destruct (H eps He) as (dl & Hdl & Hd). exists dl. split; [exact Hdl|].
  intros h Hh Hs. apply (Hd h Hh Hs 0%nat). lia.
Qed.

End Variants.
