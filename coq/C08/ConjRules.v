(* C08/ConjRules.v -- the value-level meaning of every convex_conj rule of functional.py:
   what  e.convex_conj(y)  evaluates to in terms of the operand's conjugate. *)
From Coq Require Import ZArith Reals Lra Lia List Bool Psatz.
From Verif Require Import Base.Num Base.Vec Base.VecR C08.Model C08.VecLemmas C08.Rules.
Import ListNotations.
Local Open Scope R_scope.

Section R.
Variable sqrtf : R -> R.
Notation val := (@value R _ sqrtf 0).
Notation cj := (@cconj R _).
Notation cval := (cval sqrtf).

(* ---- the rules ---- *)
(* (s f)~(y) = s f~(y / s) *)
Lemma cval_FLeft s f w y : 0 < s ->
  cval w (FLeft s f) y = (v <- cval w f (vscal (1 / s) y) ;; Ok (escal s v)).
Proof.
  intros Hs. unfold Rules.cval. cbn [cconj]. numR. rewrite (Rleb_false s 0) by lra.
  destruct (cj w f) as [f'|] eqn:E; cbn [rbind]; [|reflexivity].
  unfold rmul. numR. rewrite (Reqb_false s 0) by lra.
  rewrite val_mul_right.
  apply val_mkLeft. assumption.
Qed.

(* (f(s .))~(y) = f~(y / s) *)
Lemma cval_FRight s f w y : s <> 0 ->
  cval w (FRight s f) y = cval w f (vscal (1 / s) y).
Proof.
  intros Hs. unfold Rules.cval. cbn [cconj]. numR.
  destruct (cj w f) as [f'|] eqn:E; cbn [rbind]; [|reflexivity].
  rewrite (Reqb_false s 0) by assumption.
  apply val_mul_right.
Qed.

(* (f(v .))~(y) = f~(y / v) *)
Lemma cval_FRightVec v f w y :
  cval w (FRightVec v f) y = cval w f (vmul y (map (fun a => 1 / a) v)).
Proof.
  unfold Rules.cval. cbn [cconj]. destruct (cj w f); reflexivity.
Qed.

(* (f + c)~ = f~ - c *)
Lemma cval_FScalarSum f c w y :
  cval w (FScalarSum f c) y = radd (cval w f y) (Ok (EFin (- 1 * c))).
Proof.
  unfold Rules.cval. cbn [cconj]. destruct (cj w f); reflexivity.
Qed.

(* (f(. - t))~(y) = f~(y) + <y, t> *)
Lemma cval_FTransl f t w y :
  cval w (FTransl f t) y =
  (v <- cval w f y ;; Ok (eadd (eadd (eadd v (EFin (0 * wdot w y y))) (EFin (wdot w y t))) (EFin 0))).
Proof.
  unfold Rules.cval. cbn [cconj]. destruct (cj w f); reflexivity.
Qed.

(* (f + <., u> + c)~(y) = f~(y - u) - c *)
Lemma cval_FQuadPert0 f u c w y :
  cval w (FQuadPert f 0 u c) y =
  if Reqb c 0 then cval w f (vsub y u)
  else radd (cval w f (vsub y u)) (Ok (EFin (- 1 * c))).
Proof.
  unfold Rules.cval. cbn [cconj]. numR. rewrite (Reqb_true 0 0) by reflexivity.
  destruct (cj w f) as [f'|]; cbn [rbind]; [|destruct (Reqb c 0); reflexivity].
  destruct (Reqb c 0); cbn [value]; rewrite val_mkTransl; reflexivity.
Qed.

Lemma cval_FQuadPert_a f a u c w y : a <> 0 -> cval w (FQuadPert f a u c) y = Err ENotImpl.
Proof.
  intros Ha. unfold Rules.cval. cbn [cconj]. numR. rewrite (Reqb_false a 0) by assumption. reflexivity.
Qed.

Lemma cval_FDefConj f w y : cval w (FDefConj f) y = val f w y.
Proof. reflexivity. Qed.
Lemma cval_FBreg q w y : cval w (FBreg q) y = cval w q y.
Proof. reflexivity. Qed.
Lemma cval_FSum f g w y : cval w (FSum f g) y = Err ENotImpl.
Proof. reflexivity. Qed.

(* SeparableSum(f, g)~ = SeparableSum(f~, g~);  (f infconv g)~ = f~ + g~  (inversion form) *)
Lemma cval_FSep2_inv k f g w y vy : cval w (FSep2 k f g) y = Ok vy ->
  exists v1 v2, cval (firstn k w) f (firstn k y) = Ok v1 /\ cval (skipn k w) g (skipn k y) = Ok v2
                /\ vy = eadd v1 v2.
Proof.
  unfold Rules.cval. cbn [cconj].
  destruct (cj (firstn k w) f) as [f'|]; cbn [rbind]; [|discriminate].
  destruct (cj (skipn k w) g) as [g'|]; cbn [rbind]; [|discriminate].
  cbn [value]. unfold radd.
  destruct (val f' (firstn k w) (firstn k y)) as [v1|]; cbn [rbind]; [|discriminate].
  destruct (val g' (skipn k w) (skipn k y)) as [v2|]; cbn [rbind]; [|discriminate].
  intros H; inversion H; subst. eauto.
Qed.
Lemma cval_FInfConv_inv f g w y vy : cval w (FInfConv f g) y = Ok vy ->
  exists v1 v2, cval w f y = Ok v1 /\ cval w g y = Ok v2 /\ vy = eadd v1 v2.
Proof.
  unfold Rules.cval. cbn [cconj].
  destruct (cj w f) as [f'|]; cbn [rbind]; [|discriminate].
  destruct (cj w g) as [g'|]; cbn [rbind]; [|discriminate].
  cbn [value]. unfold radd.
  destruct (val f' w y) as [v1|]; cbn [rbind]; [|discriminate].
  destruct (val g' w y) as [v2|]; cbn [rbind]; [|discriminate].
  intros H; inversion H; subst. eauto.
Qed.

End R.
