(* C08/VecLemmas.v -- list/vector algebra at R used by the C08 proofs
   (weighted dot product, scaling, translation, splitting, Cauchy-Schwarz). *)
From Coq Require Import ZArith Reals Lra Lia List Bool Psatz.
From Verif Require Import Base.Num Base.Vec Base.VecR.
Import ListNotations.
Local Open Scope R_scope.

Ltac vsimp := cbn [vadd vsub vmul vscal vopp vmap2 map sumf wdot dot length firstn skipn app]; numR.

Lemma wdot_nil_w (x y : Rvec) : wdot [] x y = 0.
Proof. reflexivity. Qed.
Lemma wdot_nil_x (w y : Rvec) : wdot w [] y = 0.
Proof. destruct w; reflexivity. Qed.
Lemma wdot_nil_y (w x : Rvec) : wdot w x [] = 0.
Proof. destruct w, x; reflexivity. Qed.

Lemma wdot_c w a b (ws x y : Rvec) :
  wdot (w :: ws) (a :: x) (b :: y) = w * (a * b) + wdot ws x y.
Proof. reflexivity. Qed.

(* a tactic for simultaneous induction over the weights and destructing the vectors *)
Ltac wind w :=
  induction w as [|c w IHw]; intros;
  repeat match goal with
  | x : Rvec |- _ => destruct x; try (cbn in *; lia)
  end.

Lemma vscal_length a (x : Rvec) : length (vscal a x) = length x.
Proof. apply map_length. Qed.
Lemma vmap2_len (f : R -> R -> R) (x y : Rvec) : length x = length y -> length (vmap2 f x y) = length x.
Proof. apply vmap2_length. Qed.
Lemma vadd_length (x y : Rvec) : length x = length y -> length (vadd x y) = length x.
Proof. apply vmap2_length. Qed.
Lemma vsub_length (x y : Rvec) : length x = length y -> length (vsub x y) = length x.
Proof. apply vmap2_length. Qed.
Lemma vmul_length (x y : Rvec) : length x = length y -> length (vmul x y) = length x.
Proof. apply vmap2_length. Qed.

Lemma wdot_vscal_r (w x y : Rvec) a : wdot w x (vscal a y) = a * wdot w x y.
Proof.
  revert x y; induction w as [|c w IH]; intros [|p x] [|q y]; unfold vscal in *; cbn [map];
    rewrite ?wdot_nil_w, ?wdot_nil_x, ?wdot_nil_y, ?wdot_c; try lra.
  rewrite IH; numR; lra.
Qed.
Lemma wdot_vscal_l (w x y : Rvec) a : wdot w (vscal a x) y = a * wdot w x y.
Proof. rewrite wdot_comm, wdot_vscal_r, wdot_comm; reflexivity. Qed.

Lemma wdot_vsub_l (w x t y : Rvec) : length x = length t ->
  wdot w (vsub x t) y = wdot w x y - wdot w t y.
Proof.
  revert x t y; induction w as [|c w IH]; intros [|p x] [|q t] [|r y] Hl; cbn in Hl; try lia;
    unfold vsub in *; cbn [vmap2]; rewrite ?wdot_nil_w, ?wdot_nil_x, ?wdot_nil_y, ?wdot_c; try lra.
  rewrite IH by lia; numR; lra.
Qed.
Lemma wdot_vsub_r (w x t y : Rvec) : length y = length t ->
  wdot w x (vsub y t) = wdot w x y - wdot w x t.
Proof. intros. rewrite wdot_comm, wdot_vsub_l by assumption. rewrite (wdot_comm w y x), (wdot_comm w t x); reflexivity. Qed.
Lemma wdot_vadd_l (w x t y : Rvec) : length x = length t ->
  wdot w (vadd x t) y = wdot w x y + wdot w t y.
Proof.
  revert x t y; induction w as [|c w IH]; intros [|p x] [|q t] [|r y] Hl; cbn in Hl; try lia;
    unfold vadd in *; cbn [vmap2]; rewrite ?wdot_nil_w, ?wdot_nil_x, ?wdot_nil_y, ?wdot_c; try lra.
  rewrite IH by lia; numR; lra.
Qed.
Lemma wdot_vadd_r (w x t y : Rvec) : length y = length t ->
  wdot w x (vadd y t) = wdot w x y + wdot w x t.
Proof. intros. rewrite wdot_comm, wdot_vadd_l by assumption. rewrite (wdot_comm w y x), (wdot_comm w t x); reflexivity. Qed.

Lemma wdot_zero_r (w x : Rvec) n : wdot w x (vconst n 0) = 0.
Proof.
  revert x n; induction w as [|c w IH]; intros [|p x] [|n]; unfold vconst in *; cbn [repeat];
    rewrite ?wdot_nil_w, ?wdot_nil_x, ?wdot_nil_y, ?wdot_c; try lra.
  rewrite IH; lra.
Qed.

(* weights nonnegative / positive *)
Definition wpos (w : Rvec) := Forall (fun c => 0 < c) w.

Lemma wdot_self_nonneg (w x : Rvec) : wpos w -> 0 <= wdot w x x.
Proof.
  intros Hw; revert x; induction Hw as [|c w Hc Hw IH]; intros [|p x];
    rewrite ?wdot_nil_w, ?wdot_nil_x, ?wdot_c; try lra.
  specialize (IH x). nra.
Qed.

(* Cauchy-Schwarz for the weighted dot product, by the discriminant argument *)
Lemma wdot_quad (w x y : Rvec) t : length x = length y ->
  wdot w (vadd x (vscal t y)) (vadd x (vscal t y)) =
  wdot w x x + 2 * t * wdot w x y + t * t * wdot w y y.
Proof.
  intros Hl.
  assert (Hl' : length x = length (vscal t y)) by (rewrite vscal_length; exact Hl).
  rewrite wdot_vadd_l, !wdot_vadd_r by assumption.
  rewrite !wdot_vscal_l, !wdot_vscal_r. rewrite (wdot_comm w y x). lra.
Qed.

Lemma wdot_cauchy_schwarz (w x y : Rvec) : wpos w -> length x = length y ->
  wdot w x y * wdot w x y <= wdot w x x * wdot w y y.
Proof.
  intros Hw Hl.
  pose proof (wdot_self_nonneg w y Hw) as Hy.
  pose proof (wdot_self_nonneg w x Hw) as Hx.
  destruct (Req_dec (wdot w y y) 0) as [Hz|Hnz].
  - (* <y,y> = 0: then <x,y> = 0 *)
    destruct (Req_dec (wdot w x y) 0) as [H0|H0]; [rewrite H0, Hz; lra|].
    set (t := - (wdot w x x + 1) / (2 * wdot w x y)).
    assert (H1 := wdot_self_nonneg w (vadd x (vscal t y)) Hw).
    rewrite wdot_quad in H1 by assumption. rewrite Hz in H1.
    assert (Ht : 2 * t * wdot w x y = - (wdot w x x + 1)) by (unfold t; field; assumption).
    lra.
  - set (t := - wdot w x y / wdot w y y).
    assert (H1 := wdot_self_nonneg w (vadd x (vscal t y)) Hw).
    rewrite wdot_quad in H1 by assumption.
    assert (Ht : t * wdot w y y = - wdot w x y) by (unfold t; field; assumption).
    nra.
Qed.

Lemma wdot_null_r (w x y : Rvec) : wpos w -> length x = length y ->
  wdot w y y = 0 -> wdot w x y = 0.
Proof.
  intros Hw Hl Hz. pose proof (wdot_cauchy_schwarz w x y Hw Hl) as H. rewrite Hz in H. nra.
Qed.

(* scaling algebra *)
Lemma vscal_vscal a b (x : Rvec) : vscal a (vscal b x) = vscal (a * b) x.
Proof. unfold vscal. rewrite map_map. apply map_ext. intros; numR; ring. Qed.
Lemma vscal_one (x : Rvec) : vscal 1 x = x.
Proof. unfold vscal. rewrite <- (map_id x) at 2. apply map_ext. intros; numR; ring. Qed.
Lemma vscal_inv_l a (x : Rvec) : a <> 0 -> vscal (1 / a) (vscal a x) = x.
Proof. intros. rewrite vscal_vscal. replace (1 / a * a) with 1 by (field; assumption). apply vscal_one. Qed.
Lemma vscal_inv_r a (x : Rvec) : a <> 0 -> vscal a (vscal (1 / a) x) = x.
Proof. intros. rewrite vscal_vscal. replace (a * (1 / a)) with 1 by (field; assumption). apply vscal_one. Qed.

Lemma vsub_vsub (y u t : Rvec) : vsub (vsub y u) t = vsub y (vadd t u).
Proof.
  revert u t; induction y as [|a y IH]; intros [|b u] [|c t]; unfold vsub, vadd in *; cbn [vmap2]; try reflexivity.
  rewrite IH; numR; f_equal; ring.
Qed.

(* splitting at k *)
Lemma wdot_split k (w x y : Rvec) :
  wdot w x y = wdot (firstn k w) (firstn k x) (firstn k y) + wdot (skipn k w) (skipn k x) (skipn k y).
Proof.
  revert w x y; induction k as [|k IH]; intros w x y.
  - cbn [firstn skipn]. rewrite wdot_nil_w. lra.
  - destruct w as [|c w]; [cbn [firstn skipn]; rewrite !wdot_nil_w; lra|].
    destruct x as [|a x]; [cbn [firstn skipn]; rewrite !wdot_nil_x; lra|].
    destruct y as [|b y]; [cbn [firstn skipn]; rewrite !wdot_nil_y; lra|].
    cbn [firstn skipn]. rewrite !wdot_c, (IH w x y). lra.
Qed.

Lemma wpos_firstn k w : wpos w -> wpos (firstn k w).
Proof. unfold wpos. revert w; induction k; intros [|c w] Hw; cbn; auto. inversion Hw; subst. constructor; auto. Qed.
Lemma wpos_skipn k w : wpos w -> wpos (skipn k w).
Proof. unfold wpos. revert w; induction k; intros [|c w] Hw; cbn; auto. inversion Hw; subst. auto. Qed.

(* pointwise multiplier *)
Lemma wdot_vmul_inv (w x y v : Rvec) : Forall (fun a => a <> 0) v ->
  length x = length v -> length y = length v ->
  wdot w (vmul x v) (vmul y (map (fun a => 1 / a) v)) = wdot w x y.
Proof.
  intros Hv; revert w x y; induction Hv as [|q v Hq Hv IH]; intros [|c w] [|a x] [|b y] H1 H2;
    cbn in H1, H2; try lia; unfold vmul in *; cbn [vmap2 map];
    rewrite ?wdot_nil_w, ?wdot_nil_x, ?wdot_nil_y, ?wdot_c; try lra.
  rewrite IH by lia. numR. field. assumption.
Qed.
Lemma wdot_vmul_move (w x y v : Rvec) :
  wdot w (vmul x v) y = wdot w x (vmul v y).
Proof.
  revert x y v; induction w as [|c w IH]; intros [|a x] [|b y] [|q v]; unfold vmul in *; cbn [vmap2];
    rewrite ?wdot_nil_w, ?wdot_nil_x, ?wdot_nil_y, ?wdot_c; try lra.
  rewrite IH; numR; lra.
Qed.

(* ------------------------------------------------------------------------- *)
(* identities used by the Moreau-decomposition proofs *)
Lemma vadd_assoc (a b c : Rvec) : vadd (vadd a b) c = vadd a (vadd b c).
Proof.
  revert b c; induction a as [|p a IH]; intros [|q b] [|r c]; unfold vadd in *; cbn [vmap2]; try reflexivity.
  rewrite IH; numR; f_equal; ring.
Qed.
Lemma vadd_comm (a b : Rvec) : vadd a b = vadd b a.
Proof.
  revert b; induction a as [|p a IH]; intros [|q b]; unfold vadd in *; cbn [vmap2]; try reflexivity.
  rewrite IH; numR; f_equal; ring.
Qed.
Lemma vadd_vsub_cancel (t x : Rvec) : length t = length x -> vadd t (vsub x t) = x.
Proof.
  revert x; induction t as [|p t IH]; intros [|q x] Hl; cbn in Hl; try lia; [reflexivity|].
  unfold vadd, vsub in *; cbn [vmap2]. rewrite IH by lia. numR. f_equal. ring.
Qed.
Lemma vsub_vadd_cancel (x u : Rvec) : length u = length x -> vadd (vsub x u) u = x.
Proof. intros. rewrite vadd_comm. apply vadd_vsub_cancel. assumption. Qed.
Lemma vscal_vadd a (u v : Rvec) : vscal a (vadd u v) = vadd (vscal a u) (vscal a v).
Proof.
  revert v; induction u as [|p u IH]; intros [|q v]; unfold vadd, vscal in *; cbn [vmap2 map]; try reflexivity.
  rewrite IH; numR; f_equal; ring.
Qed.
Lemma vscal_vsub a (u v : Rvec) : vscal a (vsub u v) = vsub (vscal a u) (vscal a v).
Proof.
  revert v; induction u as [|p u IH]; intros [|q v]; unfold vsub, vscal in *; cbn [vmap2 map]; try reflexivity.
  rewrite IH; numR; f_equal; ring.
Qed.
Lemma vadd_vsub_same (p x : Rvec) : length p = length x -> vadd p (vsub x p) = x.
Proof. apply vadd_vsub_cancel. Qed.

(* generic Moreau-by-definition: p + s (x/s - p/s) = x *)
Lemma moreau_by_def (p x : Rvec) s : s <> 0 -> length p = length x ->
  vadd p (vscal s (vsub (vscal (1 / s) x) (vscal (1 / s) p))) = x.
Proof.
  intros Hs Hl. rewrite vscal_vsub, !vscal_inv_r by assumption. apply vadd_vsub_cancel. assumption.
Qed.

(* pointwise Moreau: f a + s g(k a) = a entrywise *)
Lemma moreau_pointwise (f g : R -> R) s k (x : Rvec) :
  (forall a, f a + s * g (k * a) = a) ->
  vadd (map f x) (vscal s (map g (vscal k x))) = x.
Proof.
  intros H. induction x as [|a x IH]; [reflexivity|].
  unfold vadd, vscal in *. cbn [map vmap2]. rewrite IH. numR. f_equal. apply H.
Qed.

Lemma vadd_app (a1 a2 b1 b2 : Rvec) : length a1 = length b1 ->
  vadd (a1 ++ a2) (b1 ++ b2) = vadd a1 b1 ++ vadd a2 b2.
Proof.
  revert b1; induction a1 as [|p a1 IH]; intros [|q b1] Hl; cbn in Hl; try lia; [reflexivity|].
  unfold vadd in *. cbn [app vmap2]. rewrite IH by lia. reflexivity.
Qed.
Lemma vscal_app a (u v : Rvec) : vscal a (u ++ v) = vscal a u ++ vscal a v.
Proof. unfold vscal. apply map_app. Qed.
