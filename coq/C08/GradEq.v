(* C08/GradEq.v -- equality in Fenchel-Young at the gradient:
   f(x) + f~(grad f(x)) = <x, grad f(x)>  for all expression trees. *)
From Coq Require Import ZArith Reals Lra Lia List Bool Psatz.
From Verif Require Import Base.Num Base.Vec Base.VecR C08.Model C08.VecLemmas C08.Rules C08.ConjRules
  C08.Leaves C08.ProxRules.
Import ListNotations.
Local Open Scope R_scope.

Notation zmap := (map (fun _ : R => 0)).

Lemma zmap_length (x : Rvec) : length (zmap x) = length x.
Proof. apply map_length. Qed.
Lemma wdot_zmap_r (w x y : Rvec) : wdot w x (zmap y) = 0.
Proof.
  revert x y; induction w as [|c w IH]; intros [|a x] [|b y]; cbn [map];
    rewrite ?wdot_nil_w, ?wdot_nil_x, ?wdot_nil_y, ?wdot_c; try lra. rewrite IH; lra.
Qed.
Lemma vadd_zmap_r (p x : Rvec) : length p = length x -> vadd p (zmap x) = p.
Proof.
  revert x; induction p as [|a p IH]; intros [|b x] Hl; cbn in Hl; try lia; [reflexivity|].
  unfold vadd in *. cbn [map vmap2]. rewrite IH by lia. numR. f_equal. ring.
Qed.
Lemma vsub_self (b : Rvec) : vsub b b = zmap b.
Proof. induction b as [|a b IH]; [reflexivity|]. unfold vsub in *. cbn [map vmap2]. rewrite IH. numR. f_equal. ring. Qed.
Lemma vmul_comm (x v : Rvec) : vmul x v = vmul v x.
Proof.
  revert v; induction x as [|a x IH]; intros [|b v]; unfold vmul in *; cbn [vmap2]; try reflexivity.
  rewrite IH. numR. f_equal. ring.
Qed.
Lemma vmul_inv_cancel (g v : Rvec) : Forall (fun a => a <> 0) v -> length g = length v ->
  vmul (vmul v g) (map (fun a => 1 / a) v) = g.
Proof.
  intros Hv; revert g; induction Hv as [|q v Hq Hv IH]; intros [|a g] Hl; cbn in Hl; try lia; [reflexivity|].
  unfold vmul in *. cbn [vmap2 map]. rewrite IH by lia. numR. f_equal. field. assumption.
Qed.
Lemma vadd_vsub_right (g u : Rvec) : length g = length u -> vsub (vadd g u) u = g.
Proof.
  revert u; induction g as [|a g IH]; intros [|b u] Hl; cbn in Hl; try lia; [reflexivity|].
  unfold vsub, vadd in *. cbn [vmap2]. rewrite IH by lia. numR. f_equal. ring.
Qed.
Lemma vadd_vscal0 (p x : Rvec) : length p = length x -> vadd p (vscal (2 * 0) x) = p.
Proof.
  revert x; induction p as [|a p IH]; intros [|b x] Hl; cbn in Hl; try lia; [reflexivity|].
  unfold vadd, vscal in *. cbn [map vmap2]. rewrite IH by lia. numR. f_equal. ring.
Qed.

(* a + b = r exactly, both finite *)
Definition geq (a b : extR) (r : R) : Prop := eadd a b = EFin r.
Lemma geq_escal s a b r : geq a b r -> geq (escal s a) (escal s b) (s * r).
Proof. unfold geq. destruct a, b; cbn [eadd escal]; try discriminate. intros H; injection H as <-. numR. fin_ring. Qed.
Lemma geq_shift a b r c d : geq a b r -> geq (eadd a (EFin c)) (eadd b (EFin d)) (r + c + d).
Proof. unfold geq. destruct a, b; cbn [eadd]; try discriminate. intros H; injection H as <-. numR. fin_ring. Qed.
Lemma geq_shift_r a b r d : geq a b r -> geq a (eadd b (EFin d)) (r + d).
Proof. unfold geq. destruct a, b; cbn [eadd]; try discriminate. intros H; injection H as <-. numR. fin_ring. Qed.
Lemma geq_shift_l a b r c : geq a b r -> geq (eadd a (EFin c)) b (r + c).
Proof. unfold geq. destruct a, b; cbn [eadd]; try discriminate. intros H; injection H as <-. numR. fin_ring. Qed.
Lemma geq_sum a b c d r1 r2 : geq a b r1 -> geq c d r2 -> geq (eadd a c) (eadd b d) (r1 + r2).
Proof.
  unfold geq. destruct a, b; cbn [eadd]; try discriminate. intros H; injection H as <-.
  destruct c, d; cbn [eadd]; try discriminate. intros H; injection H as <-. numR. fin_ring.
Qed.
Lemma geq_eq a b r r' : r = r' -> geq a b r -> geq a b r'.
Proof. intros ->; auto. Qed.

Ltac fxind2 e :=
  induction e as [p|p| |c|c|g|a b c|s f IHf|s f IHf|v f IHf|f IHf g IHg|f IHf c|f IHf t|f IHf a u c
                 |f IHf g IHg|f IHf|qb IHq|k f IHf g IHg|pb P].

Section G.
Variable sqrtf : R -> R.
Hypothesis sqrtf_spec : forall a, 0 <= a -> 0 <= sqrtf a /\ sqrtf a * sqrtf a = a.
Notation val := (@value R _ sqrtf 0).
Notation grd := (@grad R _ sqrtf).
Notation cj := (@cconj R _).
Notation cval := (cval sqrtf).

Lemma sqrtf_0 : sqrtf 0 = 0.
Proof. destruct (sqrtf_spec 0 ltac:(lra)) as [H1 H2]. nra. Qed.
Lemma sqrtf_1 : sqrtf 1 = 1.
Proof. destruct (sqrtf_spec 1 ltac:(lra)) as [H1 H2]. nra. Qed.

(* ------------------------------------------------------------------ lengths *)
Lemma grad_length e : forall n w x g, lenwf n e -> length x = n -> grd e w x = Ok g -> length g = n.
Proof.
  fxind e; intros n w x r Hl Lx Hg; cbn [grad lenwf] in *; try discriminate.
  - destruct p; try discriminate; inv_ok.
    + rewrite map_length; assumption.
    + match goal with |- context [if ?c then _ else _] => destruct c end;
        rewrite ?map_length, ?vscal_length; assumption.
  - inv_ok. rewrite vscal_length; assumption.
  - inv_ok. rewrite map_length; assumption.
  - inv_ok. rewrite map_length; assumption.
  - destruct a as [a|], b as [b|]; try discriminate; inv_ok.
    + rewrite vadd_length; rewrite !vscal_length; congruence.
    + rewrite !vscal_length; assumption.
    + assumption.
  - destruct (grd f w x) as [q|] eqn:E; cbn [rbind] in Hg; inv_ok. rewrite vscal_length. eauto.
  - destruct (grd f w (vscal s x)) as [q|] eqn:E; cbn [rbind] in Hg; inv_ok. rewrite vscal_length.
    eapply IHf; [exact Hl| |exact E]. rewrite vscal_length; assumption.
  - destruct Hl as [Lv Hl]. destruct (grd f w (vmul v x)) as [q|] eqn:E; cbn [rbind] in Hg; inv_ok.
    assert (length q = n) by (eapply IHf; [exact Hl| |exact E]; rewrite vmul_length; congruence).
    rewrite vmul_length; congruence.
  - destruct Hl as [H1 H2]. destruct (grd f w x) as [p1|] eqn:E1; cbn [rbind] in Hg; inv_ok.
    destruct (grd g w x) as [p2|] eqn:E2; cbn [rbind] in Hg; inv_ok.
    rewrite vadd_length; [eauto|]. rewrite (IHf _ _ _ _ H1 Lx E1), (IHg _ _ _ _ H2 Lx E2). reflexivity.
  - destruct (grd f w x) as [p1|] eqn:E1; cbn [rbind] in Hg; inv_ok.
    rewrite vadd_length; [eauto|]. rewrite zmap_length, (IHf _ _ _ _ Hl Lx E1). congruence.
  - destruct Hl as [Lt Hl]. eapply IHf; [exact Hl| |exact Hg]. rewrite vsub_length; congruence.
  - destruct Hl as [Lu Hl]. destruct (grd f w x) as [p1|] eqn:E1; cbn [rbind] in Hg; inv_ok.
    pose proof (IHf _ _ _ _ Hl Lx E1) as L1.
    rewrite vadd_length; rewrite vadd_length; rewrite ?vscal_length; congruence.
  - eauto.
  - destruct Hl as (Hk & H1 & H2).
    destruct (grd f (firstn k w) (firstn k x)) as [p1|] eqn:E1; cbn [rbind] in Hg; inv_ok.
    destruct (grd g (skipn k w) (skipn k x)) as [p2|] eqn:E2; cbn [rbind] in Hg; inv_ok.
    assert (L1 : length (firstn k x) = k) by (rewrite firstn_length; lia).
    assert (L2 : length (skipn k x) = (n - k)%nat) by (rewrite skipn_length; lia).
    rewrite app_length, (IHf k _ _ _ H1 L1 E1), (IHg (n - k)%nat _ _ _ H2 L2 E2). lia.
  - (* FPair *) destruct Hl as [_ Hgl]. exact (Hgl w pb x r Lx Hg).
Qed.

(* -------------------------------------------------------------- leaf facts *)
Notation sgn := (@nsign R _).
Lemma sgn_abs a : Rabs a = a * sgn a /\ Rabs (sgn a) <= 1.
Proof.
  unfold nsign. numR. destruct (Rltb_spec 0 a) as [Hp|Hnp].
  - rewrite Rabs_right by lra. rewrite Rabs_R1. split; lra.
  - destruct (Rltb_spec a 0) as [Hn|Hnn].
    + rewrite Rabs_left by lra. rewrite Rabs_Ropp, Rabs_R1. split; lra.
    + assert (a = 0) by lra. subst. rewrite Rabs_R0. split; lra.
Qed.
Lemma l1_grad_vec (w x : Rvec) :
  wsum w (map Rabs x) = wdot w x (map sgn x) /\ vmaxabs (map sgn x) <= 1.
Proof.
  revert x; induction w as [|c w IH]; intros x.
  - split; [reflexivity|]. induction x as [|a x IHx]; cbn [map]; [cbn; numR; lra|].
    rewrite vmaxabs_cons. destruct (sgn_abs a). apply Rmax_lub; assumption.
  - destruct x as [|a x]; [split; [reflexivity | cbn; numR; lra]|]. cbn [map].
    destruct (IH x) as [H1 H2]. destruct (sgn_abs a) as [S1 S2].
    rewrite wsum_cons, wdot_c, vmaxabs_cons, H1, S1. split; [ring | apply Rmax_lub; assumption].
Qed.

Notation hgr := (@huber_grad1 R _).
Notation hub := (@huber1 R _).
Lemma huber_grad1_fact g t : 0 < g ->
  Rabs (hgr g t) <= 1 /\ hub g t + g / 2 * (hgr g t * hgr g t) = t * hgr g t.
Proof.
  intros Hg. unfold huber_grad1, huber1. numR. rewrite (Rltb_true 0 g Hg).
  destruct (Rleb_spec g (Rabs t)) as [H|H].
  - assert (Hpos : 0 < Rabs t) by lra.
    assert (Htt : t * t = Rabs t * Rabs t) by (unfold Rabs; destruct (Rcase_abs t); ring).
    split.
    + unfold Rdiv. rewrite Rabs_mult, Rabs_inv. rewrite Rabs_Rabsolu. rewrite Rinv_r by lra. lra.
    + assert (E1 : t / Rabs t * (t / Rabs t) = 1) by (unfold Rdiv; field_simplify_eq; [lra | lra]).
      assert (E2 : t * (t / Rabs t) = Rabs t) by (unfold Rdiv; field_simplify_eq; [lra | lra]).
      rewrite E1, E2. lra.
  - split.
    + unfold Rdiv. rewrite Rabs_mult, Rabs_inv. rewrite (Rabs_right g) by lra.
      apply (Rmult_le_reg_r g); [lra|]. rewrite Rmult_assoc, Rinv_l by lra. lra.
    + field. lra.
Qed.
Lemma huber_grad_vec g (w x : Rvec) : 0 < g ->
  vmaxabs (map (hgr g) x) <= 1 /\
  wsum w (map (hub g) x) + g / 2 * wdot w (map (hgr g) x) (map (hgr g) x) = wdot w x (map (hgr g) x).
Proof.
  intros Hg. revert x; induction w as [|c w IH]; intros x.
  - rewrite !wdot_nil_w. split; [|cbn; numR; lra].
    induction x as [|a x IHx]; cbn [map]; [cbn; numR; lra|]. rewrite vmaxabs_cons.
    destruct (huber_grad1_fact g a Hg). apply Rmax_lub; assumption.
  - destruct x as [|a x]; [split; [cbn; numR; lra | cbn; numR; lra]|]. cbn [map].
    destruct (IH x) as [H1 H2]. destruct (huber_grad1_fact g a Hg) as [S1 S2].
    rewrite wsum_cons, !wdot_c, vmaxabs_cons. split; [apply Rmax_lub; assumption|].
    assert (c * hub g a + c * (g / 2 * (hgr g a * hgr g a)) = c * (a * hgr g a)) by (rewrite <- S2; ring).
    lra.
Qed.

(* ------------------------------------------------------------- main theorem *)
Theorem grad_equality_all e : forall n w x g vx vg,
  wf n e -> wpos w -> wadm w e -> length w = n -> length x = n ->
  grd e w x = Ok g -> val e w x = Ok vx -> cval w e g = Ok vg -> geq vx vg (wdot w x g).
Proof.
  fxind2 e; intros n w x gx vx vg Hwf Hw Hwa Lw Lx Hg Hv Hc; cbn [wadm] in Hwa.
  - (* FLp *) destruct p; cbn in Hg, Hv, Hc; inv_ok.
    + destruct (l1_grad_vec w x) as [H1 H2]. unfold geq. numR.
      rewrite (Rltb_false (1 + 0)) by lra. cbn [eadd]. numR. fin_ring.
      change (@nabs R _) with Rabs. rewrite H1. ring.
    + unfold geq, norm2 in *. numR.
      destruct (Reqb_spec (sqrtf (wdot w x x)) 0) as [Hz|Hnz].
      * rewrite wdot_zmap_r, sqrtf_0. rewrite (Rltb_false (1 + 0) 0) by lra. cbn [eadd]. numR.
        rewrite Hz, wdot_zmap_r. fin_ring.
      * destruct (sqrtf_spec _ (wdot_self_nonneg w x Hw)) as [X1 X2].
        set (nx := sqrtf (wdot w x x)) in *.
        rewrite wdot_vscal_l, wdot_vscal_r.
        replace (1 / nx * (1 / nx * wdot w x x)) with 1 by (rewrite <- X2; field; assumption).
        rewrite sqrtf_1. rewrite (Rltb_false (1 + 0) 1) by lra. cbn [eadd]. numR.
        fin_ring. rewrite <- X2. field. assumption.
  - (* FIndBall *) cbn in Hg. discriminate.
  - (* FL2Sq *) cbn in Hg, Hv. inv_ok. unfold Rules.cval in Hc. cbn [cconj] in Hc.
    unfold rmul, quarter in Hc. numR. rewrite Reqb_false in Hc by lra. cbn in Hc. inv_ok.
    unfold geq. cbn [eadd]. numR. rewrite wdot_vscal_l, !wdot_vscal_r. fin_ring. field.
  - (* FConst *) cbn in Hg, Hv, Hc. inv_ok. unfold geq, norm2. numR.
    rewrite wdot_zmap_r, sqrtf_0. rewrite (Reqb_true 0 0) by reflexivity. cbn [eadd]. numR.
    rewrite wdot_zmap_r. fin_ring.
  - (* FIndZero *) cbn in Hg. discriminate.
  - (* FHuber *) cbn [wf] in Hwf. cbn [grad value] in Hg, Hv. inv_ok.
    unfold Rules.cval in Hc. cbn [cconj value rbind lpnorm] in Hc. numR. inv_ok.
    destruct (huber_grad_vec g w x Hwf) as [H1 H2]. unfold geq.
    rewrite (Rltb_false (1 + 0)) by lra. cbn [eadd]. numR. rewrite wdot_zero_r. fin_ring. lra.
  - (* FQuadS *) cbn [wf] in Hwf. destruct Hwf as [Ha Hb]. unfold Rules.cval in Hc.
    destruct a as [a|], b as [b|]; cbn [value cconj grad] in Hg, Hv, Hc; inv_ok.
    + numR. destruct (Reqb_spec a 0); [discriminate|]. cbn [value] in Hc. inv_ok.
      unfold geq, quarter. cbn [eadd]. numR.
      assert (Lg : length (vscal 2 (vscal a x)) = length b) by (rewrite !vscal_length; congruence).
      assert (Lax : length (vscal a x) = length b) by (rewrite !vscal_length; congruence).
      assert (Lib : length (vscal (1 / a) b) = length (vscal (1 / a) b)) by reflexivity.
      repeat (rewrite ?wdot_vadd_r, ?wdot_vadd_l, ?wdot_vscal_r, ?wdot_vscal_l
                by (rewrite ?vscal_length, ?vadd_length; rewrite ?vscal_length; congruence)).
      rewrite (wdot_comm w b x). fin_ring. field. lra.
    + numR. destruct (Reqb_spec a 0); [discriminate|]. cbn [value] in Hc. inv_ok.
      unfold geq, quarter. cbn [eadd]. numR.
      repeat rewrite ?wdot_vscal_r, ?wdot_vscal_l. fin_ring. field. lra.
    + cbn [mkTransl value] in Hc. inv_ok. unfold geq, norm2. numR.
      rewrite vsub_self, wdot_zmap_r, sqrtf_0. rewrite (Reqb_true 0 0) by reflexivity. cbn [eadd]. numR.
      rewrite (wdot_comm w b x). fin_ring.
  - (* FLeft *) cbn [wf] in Hwf. destruct Hwf as [Hs Hwf].
    rewrite cval_FLeft in Hc by assumption. cbn [value grad] in Hv, Hg.
    destruct (grd f w x) as [g0|] eqn:E0; cbn [rbind] in Hg; inv_ok.
    destruct (val f w x) as [v|] eqn:E1; cbn [rbind] in Hv; inv_ok.
    rewrite vscal_inv_l in Hc by lra.
    destruct (cval w f g0) as [v'|] eqn:E2; cbn [rbind] in Hc; inv_ok.
    pose proof (IHf n w x g0 v v' Hwf Hw Hwa Lw Lx E0 E1 E2) as H.
    apply (geq_escal s) in H. rewrite wdot_vscal_r. exact H.
  - (* FRight *) cbn [wf] in Hwf. destruct Hwf as [Hs Hwf].
    rewrite cval_FRight in Hc by assumption. cbn [value grad] in Hv, Hg.
    destruct (grd f w (vscal s x)) as [g0|] eqn:E0; cbn [rbind] in Hg; inv_ok.
    rewrite vscal_inv_l in Hc by assumption.
    pose proof (IHf n w (vscal s x) g0 vx vg Hwf Hw Hwa Lw ltac:(rewrite vscal_length; assumption) E0 Hv Hc) as H.
    rewrite wdot_vscal_l in H. rewrite wdot_vscal_r. exact H.
  - (* FRightVec *) cbn [wf] in Hwf. destruct Hwf as (Lv & Hnz & Hwf).
    rewrite cval_FRightVec in Hc. cbn [value grad] in Hv, Hg.
    destruct (grd f w (vmul v x)) as [g0|] eqn:E0; cbn [rbind] in Hg; inv_ok.
    assert (Lvx : length (vmul v x) = n) by (rewrite vmul_length; congruence).
    pose proof (grad_length f n w _ g0 (wf_lenwf f n Hwf) Lvx E0) as Lg0.
    rewrite vmul_inv_cancel in Hc by (assumption || congruence).
    rewrite (vmul_comm x v) in Hv.
    pose proof (IHf n w (vmul v x) g0 vx vg Hwf Hw Hwa Lw Lvx E0 Hv Hc) as H.
    rewrite (vmul_comm v x), wdot_vmul_move in H. exact H.
  - (* FSum *) rewrite cval_FSum in Hc. discriminate.
  - (* FScalarSum *) cbn [wf] in Hwf. rewrite cval_FScalarSum in Hc. cbn [value grad] in Hv, Hg. unfold radd in *.
    destruct (grd f w x) as [g0|] eqn:E0; cbn [rbind] in Hg; inv_ok.
    pose proof (grad_length f n w x g0 (wf_lenwf f n Hwf) Lx E0) as Lg0.
    rewrite vadd_zmap_r in * by congruence.
    destruct (val f w x) as [v|] eqn:E1; cbn [rbind] in Hv; inv_ok.
    destruct (cval w f g0) as [v'|] eqn:E2; cbn [rbind] in Hc; inv_ok.
    pose proof (IHf n w x g0 v v' Hwf Hw Hwa Lw Lx E0 E1 E2) as H.
    apply (geq_shift _ _ _ c (-1 * c)) in H. eapply geq_eq; [|exact H]. ring.
  - (* FTransl *) cbn [wf] in Hwf. destruct Hwf as [Lt Hwf].
    rewrite cval_FTransl in Hc. cbn [value grad] in Hv, Hg.
    destruct (cval w f gx) as [v'|] eqn:E2; cbn [rbind] in Hc; inv_ok.
    pose proof (IHf n w (vsub x t) gx vx v' Hwf Hw Hwa Lw ltac:(rewrite vsub_length; congruence) Hg Hv E2) as H.
    rewrite wdot_vsub_l in H by congruence.
    apply (geq_shift_r _ _ _ (0 * wdot w gx gx)) in H.
    apply (geq_shift_r _ _ _ (wdot w gx t)) in H.
    apply (geq_shift_r _ _ _ 0) in H.
    eapply geq_eq; [|exact H]. rewrite (wdot_comm w t gx). ring.
  - (* FQuadPert *) cbn [wf] in Hwf. destruct Hwf as (Ha & Lu & Hwf).
    destruct (Req_dec a 0) as [->|Hna]; [|rewrite cval_FQuadPert_a in Hc by assumption; discriminate].
    rewrite cval_FQuadPert0 in Hc. cbn [value grad] in Hv, Hg. numR.
    destruct (grd f w x) as [g0|] eqn:E0; cbn [rbind] in Hg; inv_ok.
    pose proof (grad_length f n w x g0 (wf_lenwf f n Hwf) Lx E0) as Lg0.
    rewrite vadd_vscal0 in * by congruence.
    rewrite vadd_vsub_right in Hc by congruence.
    destruct (val f w x) as [v|] eqn:E1; cbn [rbind] in Hv; inv_ok.
    assert (Hcore : forall v', cval w f g0 = Ok v' ->
              geq (eadd (eadd (eadd v (EFin (0 * wdot w x x))) (EFin (wdot w x u))) (EFin c))
                  (eadd v' (EFin (- 1 * c))) (wdot w x (vadd g0 u))).
    { intros v' E2. pose proof (IHf n w x g0 v v' Hwf Hw Hwa Lw Lx E0 E1 E2) as H.
      apply (geq_shift_l _ _ _ (0 * wdot w x x)) in H.
      apply (geq_shift_l _ _ _ (wdot w x u)) in H.
      apply (geq_shift _ _ _ c (-1 * c)) in H.
      eapply geq_eq; [|exact H]. rewrite wdot_vadd_r by congruence. ring. }
    destruct (Reqb_spec c 0) as [->|Hcn].
    + specialize (Hcore vg Hc). unfold geq in *.
      destruct v, vg; cbn [eadd] in *; try discriminate. injection Hcore as Hcore. fin_ring. lra.
    + unfold radd in Hc. destruct (cval w f g0) as [v'|] eqn:E2; cbn [rbind] in Hc; inv_ok.
      apply Hcore. reflexivity.
  - (* FInfConv *) cbn [grad] in Hg. discriminate.
  - (* FDefConj *) cbn [grad] in Hg. discriminate.
  - (* FBreg *) cbn [wf value grad] in *. rewrite cval_FBreg in Hc. eapply IHq; eauto.
  - (* FSep2 *) cbn [wf] in Hwf. destruct Hwf as (Hk & Hwf1 & Hwf2).
    cbn [value grad] in Hv, Hg. unfold radd in Hv.
    destruct (grd f (firstn k w) (firstn k x)) as [g1|] eqn:G1; cbn [rbind] in Hg; inv_ok.
    destruct (grd g (skipn k w) (skipn k x)) as [g2|] eqn:G2; cbn [rbind] in Hg; inv_ok.
    assert (Lf : forall l : Rvec, length l = n -> length (firstn k l) = k)
      by (intros l Hl; rewrite firstn_length; lia).
    assert (Ls : forall l : Rvec, length l = n -> length (skipn k l) = (n - k)%nat)
      by (intros l Hl; rewrite skipn_length; lia).
    pose proof (grad_length f k _ _ g1 (wf_lenwf f k Hwf1) (Lf x Lx) G1) as Lg1.
    apply cval_FSep2_inv in Hc. destruct Hc as (v1' & v2' & C1 & C2 & ->).
    assert (F1 : firstn k (g1 ++ g2) = g1).
    { rewrite firstn_app. replace (k - length g1)%nat with 0%nat by lia.
      rewrite firstn_all2 by lia. cbn [firstn]. apply app_nil_r. }
    assert (F2 : skipn k (g1 ++ g2) = g2).
    { rewrite skipn_app. replace (k - length g1)%nat with 0%nat by lia.
      rewrite skipn_all2 by lia. reflexivity. }
    rewrite F1 in C1. rewrite F2 in C2.
    destruct (val f (firstn k w) (firstn k x)) as [v1|] eqn:E1; cbn [rbind] in Hv; inv_ok.
    destruct (val g (skipn k w) (skipn k x)) as [v2|] eqn:E2; cbn [rbind] in Hv; inv_ok.
    pose proof (IHf k _ _ _ _ _ Hwf1 (wpos_firstn k w Hw) (proj1 Hwa) (Lf w Lw) (Lf x Lx) G1 E1 C1) as H1.
    pose proof (IHg (n - k)%nat _ _ _ _ _ Hwf2 (wpos_skipn k w Hw) (proj2 Hwa) (Ls w Lw) (Ls x Lx) G2 E2 C2) as H2.
    rewrite (wdot_split k w x (g1 ++ g2)).
    rewrite F1, F2. apply geq_sum; assumption.
  - (* FPair *) cbn [wf] in Hwf. destruct Hwf as (_ & _ & Hok). destruct (Hok w Hw Lw Hwa) as (_ & Hge).
    cbn [grad value] in Hg, Hv. unfold Rules.cval in Hc. cbn [cconj value] in Hc.
    exact (Hge pb x gx vx vg Lx Hg Hv Hc).
Qed.

End G.

Lemma grad_equality_tree (sqrtf : R -> R) :
  (forall a, 0 <= a -> 0 <= sqrtf a /\ sqrtf a * sqrtf a = a) ->
  forall (e e' : fxR) n w x g vx vg,
  wf n e -> wpos w -> wadm w e -> length w = n -> length x = n ->
  grad sqrtf e w x = Ok g -> value sqrtf 0 e w x = Ok vx ->
  cconj w e = Ok e' -> value sqrtf 0 e' w g = Ok vg ->
  eadd vx vg = EFin (wdot w x g).
Proof.
  intros Hsq e e' n w x g vx vg Hwf Hw Hwa Lw Lx Hg Hv Hc Hv'.
  apply (grad_equality_all sqrtf Hsq e n w x g vx vg); auto. unfold cval. rewrite Hc. exact Hv'.
Qed.
