(* C08/Group.v -- GroupL1Norm(exponent 2) <-> IndicatorGroupL1UnitBall(exponent 2) on a power space
   X^d (X with m points and weights wb; elements are flat lists of length d*m, component j occupying
   positions [j*m, (j+1)*m); the flat weights are wb repeated d times), as an abstract conjugate pair
   [group_pair] of C08/Model.v, and the proof that the pair is consistent ([pair_ok]) for ALL d and m:
   Fenchel-Young (pointwise Cauchy-Schwarz with an abstract square root) and the Moreau identity of
   proximal_l1_l2 / proximal_convex_conj_l1_l2.  Gradients of the pair are not modelled (pg = NotImpl). *)
From Coq Require Import ZArith Reals Lra Lia List Bool Psatz.
From Verif Require Import Base.Num Base.Vec Base.VecR C08.Model C08.VecLemmas C08.Rules C08.Leaves.
Import ListNotations.
Local Open Scope num_scope.

Section Def.
Context {T : Type} `{Num T}.
Variable sqrtf : T -> T.

(* pointwise squared weighted 2-norm over the components: sum_j cw_j x_j^2 (PointwiseNorm._call_vecfield_p with
   the component weights cw of the product space; cw = [1; ..; 1] on an unweighted power space) *)
Fixpoint pwsq (cw : list T) (m : nat) (x : list T) : list T :=
  match cw with
  | [] => vconst m nzero
  | c :: cw' => vadd (vscal c (vmul (firstn m x) (firstn m x))) (pwsq cw' m (skipn m x))
  end.
Definition pwn (cw : list T) (m : nat) (x : list T) : list T := map sqrtf (pwsq cw m x).
(* apply g to every entry of every component together with the per-point factor *)
Fixpoint bap (g : T -> T -> T) (d m : nat) (F x : list T) : list T :=
  match d with
  | O => []
  | S d' => vmap2 g (firstn m x) F ++ bap g d' m F (skipn m x)
  end.
Fixpoint list_eqb (a b : list T) : bool :=
  match a, b with
  | [], [] => true
  | u :: a', v :: b' => (u =? v) && list_eqb a' b'
  | _, _ => false
  end.
(* the flat weights of the product space: block j is cw_j * (weights wb of the base space) *)
Fixpoint blocks_eq (cw : list T) (m : nat) (wb w : list T) : bool :=
  match cw with
  | [] => match w with [] => true | _ => false end
  | c :: cw' => list_eqb (firstn m w) (vscal c wb) && blocks_eq cw' m wb (skipn m w)
  end.
Definition base_weights (cw : list T) (m : nat) (w : list T) : list T :=
  match cw with c :: _ => map (fun a => a / c) (firstn m w) | [] => [] end.

Definition group_pair (cw : list T) (m : nat) : cpair :=
  let d := length cw in
  {| pv := fun b w x =>
       let pn := pwn cw m x in
       if b then Ok (EFin (wsum (base_weights cw m w) pn))                                   (* GroupL1Norm._call *)
       else Ok (if none_ <? vmaxabs pn then EPInf else EFin nzero);                  (* IndicatorGroupL1UnitBall._call *)
     pp := fun b w sigma x =>
       let pn := pwn cw m x in
       if b then Ok (bap (fun a dn => a - a / dn) d m
                         (map (fun p => nmax (p / (sigma * none_)) none_) pn) x)    (* proximal_l1_l2 *)
       else Ok (bap (fun a dn => a / dn) d m (map (fun p => nmax p none_ / none_) pn) x);   (* proximal_convex_conj_l1_l2 *)
     pg := fun _ _ _ => Err ENotImpl;
     ptag := fun b => if b then 17%nat else 18%nat;
     pw := fun w => blocks_eq cw m (base_weights cw m w) w |}.
End Def.

(* =========================================================================================== *)
Local Open Scope R_scope.

Lemma firstn_len_le {A} (k : nat) (l : list A) : (k <= length l)%nat -> length (firstn k l) = k.
Proof. intros. rewrite firstn_length. lia. Qed.
Lemma wsum_nil_w (x : Rvec) : wsum [] x = 0.
Proof. reflexivity. Qed.
Lemma wsum_vadd (w a b : Rvec) : length a = length b -> wsum w (vadd a b) = wsum w a + wsum w b.
Proof.
  revert a b; induction w as [|c w IH]; intros [|p a] [|q b] Hl; cbn in Hl; try lia; unfold wsum, vadd, vmul in *;
    cbn [vmap2 sumf]; numR; try lra.
  specialize (IH a b ltac:(lia)). unfold wsum, vadd, vmul in IH. rewrite IH. lra.
Qed.
Lemma wsum_le (w a b : Rvec) : wpos w -> length a = length w -> length b = length w ->
  (forall i, (i < length w)%nat -> nth i a 0 <= nth i b 0) -> wsum w a <= wsum w b.
Proof.
  intros Hw; revert a b; induction Hw as [|c w Hc Hw IH]; intros [|p a] [|q b] La Lb Hi; cbn in La, Lb; try lia.
  - unfold wsum; cbn; lra.
  - rewrite !wsum_cons. specialize (IH a b ltac:(lia) ltac:(lia) (fun i Hlt => Hi (S i) ltac:(cbn; lia))).
    pose proof (Hi O ltac:(cbn; lia)) as H0. cbn in H0. nra.
Qed.
Lemma nth_vmap2 (f : R -> R -> R) (x y : Rvec) i : (i < length x)%nat -> (i < length y)%nat ->
  nth i (vmap2 f x y) 0 = f (nth i x 0) (nth i y 0).
Proof.
  revert x y; induction i as [|i IH]; intros [|a x] [|b y] Hx Hy; cbn in Hx, Hy; try lia; cbn [vmap2 nth]; [reflexivity|].
  apply IH; lia.
Qed.
Lemma nth_vconst n i : nth i (vconst n 0) 0 = 0.
Proof. unfold vconst. revert i; induction n; intros [|i]; cbn; auto. Qed.
Lemma vmaxabs_ge_nth (l : Rvec) i : Rabs (nth i l 0) <= vmaxabs l.
Proof.
  revert i; induction l as [|a l IH]; intros [|i]; cbn [nth]; try (rewrite Rabs_R0; apply vmaxabs_nonneg).
  - rewrite vmaxabs_cons. apply Rmax_l.
  - rewrite vmaxabs_cons. eapply Rle_trans; [apply IH | apply Rmax_r].
Qed.

Definition cwpos (cw : Rvec) := Forall (fun c => 0 < c) cw.

Section Pf.
Variable sqrtf : R -> R.
Hypothesis sqrtf_spec : forall a, 0 <= a -> 0 <= sqrtf a /\ sqrtf a * sqrtf a = a.
Variable m : nat.

(* pointwise weighted inner product of two fields *)
Fixpoint pdot (cw : Rvec) (x y : Rvec) : Rvec :=
  match cw with
  | [] => vconst m 0
  | c :: cw' => vadd (vscal c (vmul (firstn m x) (firstn m y))) (pdot cw' (skipn m x) (skipn m y))
  end.
Lemma pwsq_pdot cw x : pwsq cw m x = pdot cw x x.
Proof. revert x; induction cw as [|c cw IH]; intros x; cbn [pwsq pdot]; [reflexivity | rewrite IH; reflexivity]. Qed.
Lemma pdot_length cw : forall x y, length x = (length cw * m)%nat -> length y = (length cw * m)%nat ->
  length (pdot cw x y) = m.
Proof.
  induction cw as [|c cw IH]; intros x y Lx Ly; cbn [pdot]; [apply repeat_length|].
  cbn [length] in Lx, Ly. cbn in Lx, Ly.
  assert (L1 : length (firstn m x) = m) by (apply firstn_len_le; lia).
  assert (L2 : length (firstn m y) = m) by (apply firstn_len_le; lia).
  assert (L3 : length (pdot cw (skipn m x) (skipn m y)) = m) by (apply IH; rewrite skipn_length; lia).
  rewrite vadd_length; rewrite vscal_length, vmul_length; congruence.
Qed.

Lemma list_eqb_eq (a b : Rvec) : list_eqb a b = true -> a = b.
Proof.
  revert b; induction a as [|u a IH]; intros [|v b] Hl; cbn in Hl; try discriminate; [reflexivity|].
  apply andb_prop in Hl as [H1 H2]. numR. destruct (Reqb_spec u v); [|discriminate]. subst. f_equal. apply IH, H2.
Qed.
Lemma wsum_vconst0 (wb : Rvec) n : wsum wb (vconst n 0) = 0.
Proof.
  revert n; induction wb as [|c wb IH]; intros [|n]; unfold wsum, vconst, vmul in *; cbn [repeat vmap2 sumf]; numR; try lra.
  specialize (IH n). unfold vconst in IH. rewrite IH. lra.
Qed.
Lemma wdot_scaled_block c (wb a b : Rvec) : wdot (vscal c wb) a b = wsum wb (vscal c (vmul a b)).
Proof.
  revert a b; induction wb as [|u wb IH]; intros [|p a] [|q b]; unfold wdot, wsum, vscal, vmul in *; cbn [map vmap2 sumf];
    numR; try lra.
  rewrite IH. ring.
Qed.
(* <x, y> on the product space is the base-space weighted sum of the pointwise weighted inner products *)
Lemma wdot_blocks wb : length wb = m -> forall cw w x y, blocks_eq cw m wb w = true ->
  length x = (length cw * m)%nat -> length y = (length cw * m)%nat -> wdot w x y = wsum wb (pdot cw x y).
Proof.
  intros Lwb. induction cw as [|c cw IH]; intros w x y Hb Lx Ly; cbn [blocks_eq pdot] in *.
  - destruct w; [|discriminate]. rewrite wdot_nil_w, wsum_vconst0. reflexivity.
  - apply andb_prop in Hb as [H1 H2]. apply list_eqb_eq in H1. cbn [length] in Lx, Ly. cbn in Lx, Ly.
    rewrite (wdot_split m w x y), H1.
    rewrite (IH (skipn m w) (skipn m x) (skipn m y) H2) by (rewrite skipn_length; lia).
    rewrite wsum_vadd.
    2:{ rewrite vscal_length, vmul_length, pdot_length; rewrite ?firstn_len_le, ?skipn_length by lia; try reflexivity; lia. }
    rewrite wdot_scaled_block. reflexivity.
Qed.

Lemma pwsq_length cw x : length x = (length cw * m)%nat -> length (pwsq cw m x) = m.
Proof. intros Lx. rewrite pwsq_pdot. apply pdot_length; assumption. Qed.
Lemma nth_vscal c (l : Rvec) i : nth i (vscal c l) 0 = c * nth i l 0.
Proof.
  unfold vscal. replace 0 with (c * 0) at 1 by ring. rewrite (map_nth (fun a => c * a)). reflexivity.
Qed.
Lemma pwsq_nonneg cw : cwpos cw -> forall x i, length x = (length cw * m)%nat -> (i < m)%nat -> 0 <= nth i (pwsq cw m x) 0.
Proof.
  induction 1 as [|c cw Hc Hcw IH]; intros x i Lx Hi; cbn [pwsq]; [rewrite nth_vconst; lra|].
  cbn [length] in Lx. cbn in Lx.
  assert (L1 : length (firstn m x) = m) by (apply firstn_len_le; lia).
  assert (L3 : length (skipn m x) = (length cw * m)%nat) by (rewrite skipn_length; lia).
  unfold vadd. rewrite nth_vmap2; rewrite ?vscal_length, ?vmul_length, ?pwsq_length by congruence; try lia.
  rewrite nth_vscal. unfold vmul. rewrite nth_vmap2 by lia. numR.
  specialize (IH (skipn m x) i L3 Hi). pose proof (Rle_0_sqr (nth i (firstn m x) 0)) as Q. unfold Rsqr in Q. nra.
Qed.

(* two-term step of the pointwise weighted Cauchy-Schwarz inequality *)
Lemma sqrt_cs_step c a b t A B : 0 <= c -> 0 <= A -> 0 <= B -> t <= sqrtf A * sqrtf B ->
  c * (a * b) + t <= sqrtf (c * (a * a) + A) * sqrtf (c * (b * b) + B).
Proof.
  intros Hc HA HB Ht.
  destruct (sqrtf_spec A HA) as [a1 a2]. destruct (sqrtf_spec B HB) as [b1 b2].
  assert (Haa : 0 <= a * a) by apply Rle_0_sqr. assert (Hbb : 0 <= b * b) by apply Rle_0_sqr.
  assert (HA' : 0 <= c * (a * a) + A) by nra. assert (HB' : 0 <= c * (b * b) + B) by nra.
  destruct (sqrtf_spec _ HA') as [p1 p2]. destruct (sqrtf_spec _ HB') as [q1 q2].
  set (sA := sqrtf A) in *. set (sB := sqrtf B) in *.
  set (P := sqrtf (c * (a * a) + A)) in *. set (Q := sqrtf (c * (b * b) + B)) in *.
  assert (Hmain : c * (a * b) + sA * sB <= P * Q).
  { destruct (Rle_dec (c * (a * b) + sA * sB) (P * Q)); [assumption|]. exfalso.
    assert (0 <= P * Q) by nra.
    assert (Hsq : (c * (a * b) + sA * sB) * (c * (a * b) + sA * sB) <= (P * Q) * (P * Q)).
    { replace ((P * Q) * (P * Q)) with ((P * P) * (Q * Q)) by ring. rewrite p2, q2.
      assert (Hd : 0 <= c * ((a * sB - b * sA) * (a * sB - b * sA))) by (apply Rmult_le_pos; [assumption | apply Rle_0_sqr]).
      replace ((c * (a * b) + sA * sB) * (c * (a * b) + sA * sB))
        with (c * c * (a * a) * (b * b) + 2 * c * (a * sB) * (b * sA) + (sA * sA) * (sB * sB)) by ring.
      rewrite a2, b2.
      replace ((c * (a * a) + A) * (c * (b * b) + B))
        with (c * c * (a * a) * (b * b) + c * (a * a * B) + c * (A * (b * b)) + A * B) by ring.
      replace (a * a * B) with ((a * sB) * (a * sB)) by (rewrite <- b2; ring).
      replace (A * (b * b)) with ((b * sA) * (b * sA)) by (rewrite <- a2; ring).
      nra. }
    nra. }
  lra.
Qed.

Lemma pdot_cs cw : cwpos cw -> forall x y i, length x = (length cw * m)%nat -> length y = (length cw * m)%nat -> (i < m)%nat ->
  nth i (pdot cw x y) 0 <= sqrtf (nth i (pwsq cw m x) 0) * sqrtf (nth i (pwsq cw m y) 0).
Proof.
  intros Hcw. induction Hcw as [|c cw Hc Hcw IH]; intros x y i Lx Ly Hi; cbn [pdot pwsq].
  - rewrite !nth_vconst. destruct (sqrtf_spec 0 ltac:(lra)) as [s1 s2]. nra.
  - cbn [length] in Lx, Ly. cbn in Lx, Ly.
    assert (L1 : length (firstn m x) = m) by (apply firstn_len_le; lia).
    assert (L2 : length (firstn m y) = m) by (apply firstn_len_le; lia).
    assert (L3 : length (skipn m x) = (length cw * m)%nat) by (rewrite skipn_length; lia).
    assert (L4 : length (skipn m y) = (length cw * m)%nat) by (rewrite skipn_length; lia).
    unfold vadd.
    rewrite !nth_vmap2; rewrite ?vscal_length, ?vmul_length, ?pdot_length, ?pwsq_length; try congruence; try lia.
    rewrite !nth_vscal. unfold vmul. rewrite !nth_vmap2 by lia. numR.
    apply sqrt_cs_step; try lra; try (apply pwsq_nonneg; assumption). apply IH; assumption.
Qed.

End Pf.

Section Pair.
Variable sqrtf : R -> R.
Hypothesis sqrtf_spec : forall a, 0 <= a -> 0 <= sqrtf a /\ sqrtf a * sqrtf a = a.
Variable m : nat.

Lemma sqrtf_zero0 : sqrtf 0 = 0.
Proof. destruct (sqrtf_spec 0 ltac:(lra)) as [H1 H2]. nra. Qed.
Lemma nth_pwn cw x i : nth i (pwn sqrtf cw m x) 0 = sqrtf (nth i (pwsq cw m x) 0).
Proof. unfold pwn. rewrite <- sqrtf_zero0 at 1. apply map_nth. Qed.

Lemma base_weights_pos c cw w : 0 < c -> wpos w -> wpos (base_weights (c :: cw) m w).
Proof.
  intros Hc Hw. unfold base_weights. pose proof (wpos_firstn m w Hw) as Hf. unfold wpos in *.
  induction Hf as [|a l Ha Hl IH]; cbn [map]; constructor; [apply Rdiv_lt_0_compat; assumption | assumption].
Qed.

(* Fenchel-Young for the group pair *)
Lemma group_fy cw w x y : cwpos cw -> cw <> [] -> wpos w -> length w = (length cw * m)%nat ->
  blocks_eq cw m (base_weights cw m w) w = true -> length x = (length cw * m)%nat -> length y = (length cw * m)%nat ->
  vmaxabs (pwn sqrtf cw m y) <= 1 -> wdot w x y <= wsum (base_weights cw m w) (pwn sqrtf cw m x).
Proof.
  intros Hcw Hne Hw Lw Hb Lx Ly Hmax. destruct cw as [|c cw]; [contradiction|]. inversion Hcw as [|? ? Hc Hcw']; subst.
  assert (Lwb : length (base_weights (c :: cw) m w) = m).
  { unfold base_weights. rewrite map_length. apply firstn_len_le. cbn [length] in Lw. nia. }
  rewrite (wdot_blocks m _ Lwb (c :: cw) w x y Hb Lx Ly).
  apply wsum_le.
  - apply base_weights_pos; assumption.
  - rewrite pdot_length; congruence.
  - unfold pwn. rewrite map_length, pwsq_length; congruence.
  - intros i Hi. rewrite Lwb in Hi.
    pose proof (pdot_cs sqrtf sqrtf_spec m (c :: cw) Hcw x y i Lx Ly Hi) as Hcs.
    rewrite nth_pwn.
    destruct (sqrtf_spec _ (pwsq_nonneg m (c :: cw) Hcw x i Lx Hi)) as [sx _].
    destruct (sqrtf_spec _ (pwsq_nonneg m (c :: cw) Hcw y i Ly Hi)) as [sy _].
    pose proof (vmaxabs_ge_nth (pwn sqrtf (c :: cw) m y) i) as Hn. rewrite nth_pwn in Hn.
    rewrite Rabs_right in Hn by lra.
    assert (sqrtf (nth i (pwsq (c :: cw) m x) 0) * sqrtf (nth i (pwsq (c :: cw) m y) 0)
            <= sqrtf (nth i (pwsq (c :: cw) m x) 0) * 1) by (apply Rmult_le_compat_l; lra).
    lra.
Qed.

(* scaling *)
Lemma Forall_vadd_nonneg (a b : Rvec) : Forall (fun u => 0 <= u) a -> Forall (fun u => 0 <= u) b ->
  Forall (fun u => 0 <= u) (vadd a b).
Proof.
  intros Ha; revert b; induction Ha as [|p a Hp Ha IH]; intros b Hb; destruct Hb as [|q b Hq Hb]; unfold vadd; cbn [vmap2];
    constructor; [numR; lra | apply IH; assumption].
Qed.
Lemma pwsq_all_nonneg cw : cwpos cw -> forall x, Forall (fun u => 0 <= u) (pwsq cw m x).
Proof.
  induction 1 as [|c cw Hc Hcw IH]; intros x; cbn [pwsq].
  - unfold vconst. induction m; cbn; constructor; [lra | assumption].
  - apply Forall_vadd_nonneg; [|apply IH]. unfold vmul, vscal.
    generalize (firstn m x). intros l. induction l as [|a l IHl]; cbn [vmap2 map]; constructor; [|assumption].
    numR. pose proof (Rle_0_sqr a) as Q. unfold Rsqr in Q. nra.
Qed.
Lemma vmul_vscal2 k (a : Rvec) : vmul (vscal k a) (vscal k a) = vscal (k * k) (vmul a a).
Proof. induction a as [|p a IH]; unfold vmul, vscal in *; cbn [map vmap2]; [reflexivity|]. rewrite IH. numR. f_equal. ring. Qed.
Lemma pwsq_scale k cw : forall x, pwsq cw m (vscal k x) = vscal (k * k) (pwsq cw m x).
Proof.
  induction cw as [|c cw IH]; intros x; cbn [pwsq].
  - unfold vconst, vscal. induction m; cbn [repeat map]; [reflexivity|]. rewrite <- IHn. numR. f_equal. ring.
  - rewrite firstn_vscal, skipn_vscal, IH, vmul_vscal2, vscal_vadd, !vscal_vscal. do 2 f_equal. ring.
Qed.
Lemma sqrtf_scale k s : 0 < k -> 0 <= s -> sqrtf (k * k * s) = k * sqrtf s.
Proof.
  intros Hk Hs. destruct (sqrtf_spec s Hs) as [a1 a2].
  assert (Hks : 0 <= k * k * s) by (apply Rmult_le_pos; nra).
  destruct (sqrtf_spec _ Hks) as [b1 b2].
  set (A := sqrtf (k * k * s)) in *. set (B := sqrtf s) in *.
  assert (E : A * A = (k * B) * (k * B)) by (rewrite b2; replace (k * B * (k * B)) with (k * k * (B * B)) by ring; rewrite a2; ring).
  assert (0 <= k * B) by nra. nra.
Qed.
Lemma pwn_scale k cw x : cwpos cw -> 0 < k -> pwn sqrtf cw m (vscal k x) = map (fun p => k * p) (pwn sqrtf cw m x).
Proof.
  intros Hcw Hk. unfold pwn. rewrite pwsq_scale. unfold vscal. rewrite !map_map.
  pose proof (pwsq_all_nonneg cw Hcw x) as Hnn. induction Hnn as [|s l Hs Hl IH]; cbn [map]; [reflexivity|].
  rewrite IH. numR. f_equal. apply sqrtf_scale; assumption.
Qed.

(* block application *)
Lemma bap_length (g : R -> R -> R) d0 : forall (F x : Rvec), length x = (d0 * m)%nat -> length F = m ->
  length (bap g d0 m F x) = (d0 * m)%nat.
Proof.
  induction d0 as [|d0 IH]; intros F x Lx LF; cbn [bap]; [reflexivity|]. cbn in Lx.
  rewrite app_length, vmap2_length, firstn_len_le, IH by (rewrite ?firstn_len_le, ?skipn_length by lia; lia). lia.
Qed.
Lemma vmap2_moreau (g1 g2 : R -> R -> R) (h1 h2 : R -> R) s k : (forall a p, g1 a (h1 p) + s * g2 (k * a) (h2 p) = a) ->
  forall (X P : Rvec), length X = length P ->
  vadd (vmap2 g1 X (map h1 P)) (vscal s (vmap2 g2 (vscal k X) (map h2 P))) = X.
Proof.
  intros Hg X; induction X as [|a X IH]; intros [|p P] Hl; cbn in Hl; try lia; [reflexivity|].
  unfold vadd, vscal in *. cbn [map vmap2]. rewrite IH by lia. numR. f_equal. apply Hg.
Qed.
Lemma bap_moreau (g1 g2 : R -> R -> R) (h1 h2 : R -> R) s k : (forall a p, g1 a (h1 p) + s * g2 (k * a) (h2 p) = a) ->
  forall d0 (P x : Rvec), length x = (d0 * m)%nat -> length P = m ->
  vadd (bap g1 d0 m (map h1 P) x) (vscal s (bap g2 d0 m (map h2 P) (vscal k x))) = x.
Proof.
  intros Hg. induction d0 as [|d0 IH]; intros P x Lx LP; cbn [bap].
  - destruct x; [reflexivity | discriminate].
  - cbn in Lx. rewrite vscal_app, vadd_app.
    2:{ rewrite vscal_length, !vmap2_length; rewrite ?firstn_vscal, ?vscal_length, ?map_length, ?firstn_len_le by lia; try lia. }
    rewrite firstn_vscal, skipn_vscal.
    rewrite (vmap2_moreau g1 g2 h1 h2 s k Hg) by (rewrite firstn_len_le by lia; congruence).
    rewrite IH by (rewrite ?skipn_length; lia). apply firstn_skipn.
Qed.

Lemma group_moreau cw : cwpos cw -> pair_moreau (length cw * m) (group_pair sqrtf cw m).
Proof.
  intros Hcw w b s x p q Lw Lx Hs Hp Hq. assert (Hks : 0 < 1 / s) by (apply Rdiv_lt_0_compat; lra).
  assert (LP : length (pwn sqrtf cw m x) = m) by (unfold pwn; rewrite map_length; apply pwsq_length; assumption).
  destruct b; cbn [group_pair pp negb] in Hp, Hq; injection Hp as <-; injection Hq as <-;
    rewrite (pwn_scale (1 / s)) by assumption; rewrite map_map.
  - apply (bap_moreau (fun a dn => a - a / dn) (fun a dn => a / dn)
             (fun p => nmax (p / (s * 1)) 1) (fun p => nmax (1 / s * p) 1 / 1)); try assumption.
    intros a p0. rewrite !nmax_R. numR.
    replace (1 / s * p0) with (p0 / (s * 1)) by (field; lra).
    pose proof (Rmax_r (p0 / (s * 1)) 1). set (M := Rmax (p0 / (s * 1)) 1) in *. field. lra.
  - apply (bap_moreau (fun a dn => a / dn) (fun a dn => a - a / dn)
             (fun p => nmax p 1 / 1) (fun p => nmax (1 / s * p / (1 / s * 1)) 1)); try assumption.
    intros a p0. rewrite !nmax_R. numR.
    replace (1 / s * p0 / (1 / s * 1)) with p0 by (field; lra).
    pose proof (Rmax_r p0 1). set (M := Rmax p0 1) in *. field. lra.
Qed.

Theorem group_pair_ok cw : cwpos cw -> cw <> [] -> pair_ok (length cw * m) (group_pair sqrtf cw m).
Proof.
  intros Hcw Hne. split; [|split].
  - split.
    + intros w b s x p Lx Hp.
      assert (LP : length (pwn sqrtf cw m x) = m) by (unfold pwn; rewrite map_length; apply pwsq_length; assumption).
      destruct b; cbn [group_pair pp] in Hp; injection Hp as <-; apply bap_length; rewrite ?map_length; assumption.
    + intros w b x g Lx Hg. discriminate Hg.
  - apply group_moreau; assumption.
  - intros w Hw Lw Hpw. cbn [group_pair pw] in Hpw. split.
    + intros b x y vx vy Lx Ly Hvx Hvy.
      destruct b; cbn [group_pair pv negb] in Hvx, Hvy; injection Hvx as <-; injection Hvy as <-; numR.
      * destruct (Rltb_spec 1 (vmaxabs (pwn sqrtf cw m y))) as [Hgt|Hle]; cbn [eadd]; [exact I|]. numR.
        pose proof (group_fy cw w x y Hcw Hne Hw Lw Hpw Lx Ly ltac:(lra)). lra.
      * destruct (Rltb_spec 1 (vmaxabs (pwn sqrtf cw m x))) as [Hgt|Hle]; cbn [eadd]; [exact I|]. numR.
        rewrite wdot_comm. pose proof (group_fy cw w y x Hcw Hne Hw Lw Hpw Ly Lx ltac:(lra)). lra.
    + intros b x g vx vg Lx Hg. discriminate Hg.
Qed.

End Pair.
