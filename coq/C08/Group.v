(* C08/Group.v -- GroupL1Norm(exponent 2) <-> IndicatorGroupL1UnitBall(exponent 2) on a power space
   X^d (X with m points and weights wb; elements are flat lists of length d*m, component j occupying
   positions [j*m, (j+1)*m); the flat weights are wb repeated d times), as an abstract conjugate pair
   [group_pair] of C08/Model.v, and the proof that the pair is consistent ([pair_ok]) for ALL d and m:
   Fenchel-Young (pointwise Cauchy-Schwarz with an abstract square root) and the Moreau identity of
   proximal_l1_l2 / proximal_convex_conj_l1_l2.  Gradients of the pair are not modelled (pg = NotImpl). *)
From Coq Require Import ZArith Reals Lra Lia List Bool Psatz.
From Verif Require Import Base.Num Base.Vec Base.VecR C08.Model C08.VecLemmas C08.Rules C08.Leaves.
Import ListNotations.
Local Open Scope num_scope.

Section Def.
Context {T : Type} `{Num T}.
Variable sqrtf : T -> T.

(* pointwise squared 2-norm over the d components *)
Fixpoint pwsq (d m : nat) (x : list T) : list T :=
  match d with
  | O => vconst m nzero
  | S d' => vadd (vmul (firstn m x) (firstn m x)) (pwsq d' m (skipn m x))
  end.
Definition pwn (d m : nat) (x : list T) : list T := map sqrtf (pwsq d m x).
(* apply g to every entry of every component together with the per-point factor *)
Fixpoint bap (g : T -> T -> T) (d m : nat) (F x : list T) : list T :=
  match d with
  | O => []
  | S d' => vmap2 g (firstn m x) F ++ bap g d' m F (skipn m x)
  end.
Fixpoint list_eqb (a b : list T) : bool :=
  match a, b with
  | [], [] => true
  | u :: a', v :: b' => (u =? v) && list_eqb a' b'
  | _, _ => false
  end.
Fixpoint blocks_eq (d m : nat) (wb w : list T) : bool :=
  match d with
  | O => match w with [] => true | _ => false end
  | S d' => list_eqb (firstn m w) wb && blocks_eq d' m wb (skipn m w)
  end.

Definition group_pair (d m : nat) : cpair :=
  {| pv := fun b w x =>
       let pn := pwn d m x in
       if b then Ok (EFin (wsum (firstn m w) pn))                                   (* GroupL1Norm._call *)
       else Ok (if none_ <? vmaxabs pn then EPInf else EFin nzero);                  (* IndicatorGroupL1UnitBall._call *)
     pp := fun b w sigma x =>
       let pn := pwn d m x in
       if b then Ok (bap (fun a dn => a - a / dn) d m
                         (map (fun p => nmax (p / (sigma * none_)) none_) pn) x)    (* proximal_l1_l2 *)
       else Ok (bap (fun a dn => a / dn) d m (map (fun p => nmax p none_ / none_) pn) x);   (* proximal_convex_conj_l1_l2 *)
     pg := fun _ _ _ => Err ENotImpl;
     ptag := fun b => if b then 17%nat else 18%nat;
     pw := fun w => blocks_eq d m (firstn m w) w |}.
End Def.

(* =========================================================================================== *)
Local Open Scope R_scope.

Lemma firstn_len_le {A} (k : nat) (l : list A) : (k <= length l)%nat -> length (firstn k l) = k.
Proof. intros. rewrite firstn_length. lia. Qed.
Lemma wsum_nil_w (x : Rvec) : wsum [] x = 0.
Proof. reflexivity. Qed.
Lemma wsum_vadd (w a b : Rvec) : length a = length b -> wsum w (vadd a b) = wsum w a + wsum w b.
Proof.
  revert a b; induction w as [|c w IH]; intros [|p a] [|q b] Hl; cbn in Hl; try lia; unfold wsum, vadd, vmul in *;
    cbn [vmap2 sumf]; numR; try lra.
  specialize (IH a b ltac:(lia)). unfold wsum, vadd, vmul in IH. rewrite IH. lra.
Qed.
Lemma wsum_le (w a b : Rvec) : wpos w -> length a = length w -> length b = length w ->
  (forall i, (i < length w)%nat -> nth i a 0 <= nth i b 0) -> wsum w a <= wsum w b.
Proof.
  intros Hw; revert a b; induction Hw as [|c w Hc Hw IH]; intros [|p a] [|q b] La Lb Hi; cbn in La, Lb; try lia.
  - unfold wsum; cbn; lra.
  - rewrite !wsum_cons. specialize (IH a b ltac:(lia) ltac:(lia) (fun i Hlt => Hi (S i) ltac:(cbn; lia))).
    pose proof (Hi O ltac:(cbn; lia)) as H0. cbn in H0. nra.
Qed.
Lemma nth_vmap2 (f : R -> R -> R) (x y : Rvec) i : (i < length x)%nat -> (i < length y)%nat ->
  nth i (vmap2 f x y) 0 = f (nth i x 0) (nth i y 0).
Proof.
  revert x y; induction i as [|i IH]; intros [|a x] [|b y] Hx Hy; cbn in Hx, Hy; try lia; cbn [vmap2 nth]; [reflexivity|].
  apply IH; lia.
Qed.
Lemma nth_vconst n i : nth i (vconst n 0) 0 = 0.
Proof. unfold vconst. revert i; induction n; intros [|i]; cbn; auto. Qed.
Lemma vmaxabs_ge_nth (l : Rvec) i : Rabs (nth i l 0) <= vmaxabs l.
Proof.
  revert i; induction l as [|a l IH]; intros [|i]; cbn [nth]; try (rewrite Rabs_R0; apply vmaxabs_nonneg).
  - rewrite vmaxabs_cons. apply Rmax_l.
  - rewrite vmaxabs_cons. eapply Rle_trans; [apply IH | apply Rmax_r].
Qed.

Section Pf.
Variable sqrtf : R -> R.
Hypothesis sqrtf_spec : forall a, 0 <= a -> 0 <= sqrtf a /\ sqrtf a * sqrtf a = a.
Variables d m : nat.

(* pointwise inner product of two fields *)
Fixpoint pdot (d : nat) (x y : Rvec) : Rvec :=
  match d with
  | O => vconst m 0
  | S d' => vadd (vmul (firstn m x) (firstn m y)) (pdot d' (skipn m x) (skipn m y))
  end.
Lemma pwsq_pdot d0 x : pwsq d0 m x = pdot d0 x x.
Proof. revert x; induction d0 as [|d0 IH]; intros x; cbn [pwsq pdot]; [reflexivity | rewrite IH; reflexivity]. Qed.
Lemma pdot_length d0 : forall x y, length x = (d0 * m)%nat -> length y = (d0 * m)%nat -> length (pdot d0 x y) = m.
Proof.
  induction d0 as [|d0 IH]; intros x y Lx Ly; cbn [pdot]; [apply repeat_length|].
  cbn in Lx, Ly.
  assert (L1 : length (firstn m x) = m) by (apply firstn_len_le; lia).
  assert (L2 : length (firstn m y) = m) by (apply firstn_len_le; lia).
  assert (L3 : length (pdot d0 (skipn m x) (skipn m y)) = m) by (apply IH; rewrite skipn_length; lia).
  rewrite vadd_length; rewrite vmul_length; congruence.
Qed.

(* <x, y> on the power space is the base-space weighted sum of the pointwise inner products *)
Lemma list_eqb_eq (a b : Rvec) : list_eqb a b = true -> a = b.
Proof.
  revert b; induction a as [|u a IH]; intros [|v b] Hl; cbn in Hl; try discriminate; [reflexivity|].
  apply andb_prop in Hl as [H1 H2]. numR. destruct (Reqb_spec u v); [|discriminate]. subst. f_equal. apply IH, H2.
Qed.
Lemma wdot_blocks wb : length wb = m -> forall d0 w x y, blocks_eq d0 m wb w = true ->
  length x = (d0 * m)%nat -> length y = (d0 * m)%nat -> wdot w x y = wsum wb (pdot d0 x y).
Proof.
  intros Lwb. induction d0 as [|d0 IH]; intros w x y Hb Lx Ly; cbn [blocks_eq pdot] in *.
  - destruct w; [|discriminate]. rewrite wdot_nil_w.
    assert (E : forall n, wsum wb (vconst n 0) = 0).
    { clear. induction wb as [|c wb IH]; intros [|n]; unfold wsum, vconst, vmul in *; cbn [repeat vmap2 sumf]; numR; try lra.
      specialize (IH n). unfold vconst in IH. rewrite IH. lra. }
    rewrite E. reflexivity.
  - apply andb_prop in Hb as [H1 H2]. apply list_eqb_eq in H1.
    rewrite (wdot_split m w x y), H1. cbn in Lx, Ly.
    rewrite (IH (skipn m w) (skipn m x) (skipn m y) H2) by (rewrite skipn_length; lia).
    rewrite wsum_vadd.
    2:{ rewrite vmul_length, pdot_length; rewrite ?firstn_len_le, ?skipn_length by lia; try reflexivity; lia. }
    f_equal.
Qed.

Lemma pwsq_length d0 x : length x = (d0 * m)%nat -> length (pwsq d0 m x) = m.
Proof. intros Lx. rewrite pwsq_pdot. apply pdot_length; assumption. Qed.
Lemma pwsq_nonneg d0 : forall x i, length x = (d0 * m)%nat -> (i < m)%nat -> 0 <= nth i (pwsq d0 m x) 0.
Proof.
  induction d0 as [|d0 IH]; intros x i Lx Hi; cbn [pwsq]; [rewrite nth_vconst; lra|].
  cbn in Lx.
  assert (L1 : length (firstn m x) = m) by (apply firstn_len_le; lia).
  assert (L3 : length (skipn m x) = (d0 * m)%nat) by (rewrite skipn_length; lia).
  unfold vadd, vmul. rewrite !nth_vmap2; rewrite ?vmap2_length, ?pwsq_length by congruence; try lia. numR.
  specialize (IH (skipn m x) i L3 Hi). pose proof (Rle_0_sqr (nth i (firstn m x) 0)) as Q. unfold Rsqr in Q. lra.
Qed.

(* two-term step of the pointwise Cauchy-Schwarz inequality *)
Lemma sqrt_cs_step a b c A B : 0 <= A -> 0 <= B -> c <= sqrtf A * sqrtf B ->
  a * b + c <= sqrtf (a * a + A) * sqrtf (b * b + B).
Proof.
  intros HA HB Hc.
  destruct (sqrtf_spec A HA) as [a1 a2]. destruct (sqrtf_spec B HB) as [b1 b2].
  assert (HA' : 0 <= a * a + A) by nra. assert (HB' : 0 <= b * b + B) by nra.
  destruct (sqrtf_spec _ HA') as [p1 p2]. destruct (sqrtf_spec _ HB') as [q1 q2].
  set (sA := sqrtf A) in *. set (sB := sqrtf B) in *.
  set (P := sqrtf (a * a + A)) in *. set (Q := sqrtf (b * b + B)) in *.
  assert (Hmain : a * b + sA * sB <= P * Q).
  { destruct (Rle_dec (a * b + sA * sB) (P * Q)); [assumption|]. exfalso.
    assert (0 <= P * Q) by nra.
    assert (Hsq : (a * b + sA * sB) * (a * b + sA * sB) <= (P * Q) * (P * Q)).
    { replace ((P * Q) * (P * Q)) with ((P * P) * (Q * Q)) by ring. rewrite p2, q2.
      assert (0 <= (a * sB - b * sA) * (a * sB - b * sA)) by apply Rle_0_sqr.
      replace ((a * b + sA * sB) * (a * b + sA * sB))
        with (a * a * (b * b) + 2 * (a * sB) * (b * sA) + (sA * sA) * (sB * sB)) by ring.
      rewrite a2, b2.
      replace ((a * a + A) * (b * b + B)) with (a * a * (b * b) + a * a * B + A * (b * b) + A * B) by ring.
      replace (a * a * B) with ((a * sB) * (a * sB)) by (rewrite <- b2; ring).
      replace (A * (b * b)) with ((b * sA) * (b * sA)) by (rewrite <- a2; ring).
      nra. }
    nra. }
  lra.
Qed.

Lemma pdot_cs d0 : forall x y i, length x = (d0 * m)%nat -> length y = (d0 * m)%nat -> (i < m)%nat ->
  nth i (pdot d0 x y) 0 <= sqrtf (nth i (pwsq d0 m x) 0) * sqrtf (nth i (pwsq d0 m y) 0).
Proof.
  induction d0 as [|d0 IH]; intros x y i Lx Ly Hi; cbn [pdot pwsq].
  - rewrite !nth_vconst. destruct (sqrtf_spec 0 ltac:(lra)) as [s1 s2]. nra.
  - cbn in Lx, Ly.
    assert (L1 : length (firstn m x) = m) by (apply firstn_len_le; lia).
    assert (L2 : length (firstn m y) = m) by (apply firstn_len_le; lia).
    assert (L3 : length (skipn m x) = (d0 * m)%nat) by (rewrite skipn_length; lia).
    assert (L4 : length (skipn m y) = (d0 * m)%nat) by (rewrite skipn_length; lia).
    unfold vadd, vmul.
    rewrite !nth_vmap2; rewrite ?vmap2_length, ?pdot_length, <- ?pwsq_pdot; rewrite ?pwsq_pdot, ?pdot_length;
      try assumption; try congruence; try lia. numR.
    rewrite <- !pwsq_pdot.
    apply sqrt_cs_step; try (apply pwsq_nonneg; assumption). apply IH; assumption.
Qed.

End Pf.

Section Pair.
Variable sqrtf : R -> R.
Hypothesis sqrtf_spec : forall a, 0 <= a -> 0 <= sqrtf a /\ sqrtf a * sqrtf a = a.
Variable m : nat.

Lemma sqrtf_zero0 : sqrtf 0 = 0.
Proof. destruct (sqrtf_spec 0 ltac:(lra)) as [H1 H2]. nra. Qed.
Lemma nth_pwn d0 x i : nth i (pwn sqrtf d0 m x) 0 = sqrtf (nth i (pwsq d0 m x) 0).
Proof. unfold pwn. rewrite <- sqrtf_zero0 at 1. apply map_nth. Qed.

(* Fenchel-Young for the group pair *)
Lemma group_fy d0 w x y : wpos w -> (1 <= d0)%nat -> length w = (d0 * m)%nat ->
  blocks_eq d0 m (firstn m w) w = true -> length x = (d0 * m)%nat -> length y = (d0 * m)%nat ->
  vmaxabs (pwn sqrtf d0 m y) <= 1 -> wdot w x y <= wsum (firstn m w) (pwn sqrtf d0 m x).
Proof.
  intros Hw Hd Lw Hb Lx Ly Hmax.
  assert (Lwb : length (firstn m w) = m) by (apply firstn_len_le; nia).
  rewrite (wdot_blocks m (firstn m w) Lwb d0 w x y Hb Lx Ly).
  apply wsum_le.
  - apply wpos_firstn; assumption.
  - rewrite pdot_length; congruence.
  - unfold pwn. rewrite map_length, pwsq_length; congruence.
  - intros i Hi. rewrite Lwb in Hi.
    pose proof (pdot_cs sqrtf sqrtf_spec m d0 x y i Lx Ly Hi) as Hcs.
    rewrite nth_pwn.
    destruct (sqrtf_spec _ (pwsq_nonneg m d0 x i Lx Hi)) as [sx _].
    destruct (sqrtf_spec _ (pwsq_nonneg m d0 y i Ly Hi)) as [sy _].
    pose proof (vmaxabs_ge_nth (pwn sqrtf d0 m y) i) as Hn. rewrite nth_pwn in Hn.
    rewrite Rabs_right in Hn by lra.
    assert (sqrtf (nth i (pwsq d0 m x) 0) * sqrtf (nth i (pwsq d0 m y) 0) <= sqrtf (nth i (pwsq d0 m x) 0) * 1)
      by (apply Rmult_le_compat_l; lra).
    lra.
Qed.

(* scaling *)
Lemma Forall_vmap2 (P : R -> Prop) (f : R -> R -> R) (a b : Rvec) :
  (forall u v, P (f u v)) -> Forall P (vmap2 f a b).
Proof. intros Hf. revert b; induction a as [|p a IH]; intros [|q b]; cbn [vmap2]; constructor; auto. Qed.
Lemma Forall_vadd_nonneg (a b : Rvec) : Forall (fun u => 0 <= u) a -> Forall (fun u => 0 <= u) b ->
  Forall (fun u => 0 <= u) (vadd a b).
Proof.
  intros Ha; revert b; induction Ha as [|p a Hp Ha IH]; intros b Hb; destruct Hb as [|q b Hq Hb]; unfold vadd; cbn [vmap2];
    constructor; [numR; lra | apply IH; assumption].
Qed.
Lemma pwsq_all_nonneg d0 : forall x, Forall (fun u => 0 <= u) (pwsq d0 m x).
Proof.
  induction d0 as [|d0 IH]; intros x; cbn [pwsq].
  - unfold vconst. induction m; cbn; constructor; [lra | assumption].
  - apply Forall_vadd_nonneg; [|apply IH]. unfold vmul.
    generalize (firstn m x). intros l. induction l as [|a l IHl]; cbn [vmap2]; constructor; [numR; apply Rle_0_sqr | assumption].
Qed.
Lemma vmul_vscal2 k (a : Rvec) : vmul (vscal k a) (vscal k a) = vscal (k * k) (vmul a a).
Proof. induction a as [|p a IH]; unfold vmul, vscal in *; cbn [map vmap2]; [reflexivity|]. rewrite IH. numR. f_equal. ring. Qed.
Lemma pwsq_scale k d0 : forall x, pwsq d0 m (vscal k x) = vscal (k * k) (pwsq d0 m x).
Proof.
  induction d0 as [|d0 IH]; intros x; cbn [pwsq].
  - unfold vconst, vscal. induction m; cbn [repeat map]; [reflexivity|]. rewrite <- IHn. numR. f_equal. ring.
  - rewrite firstn_vscal, skipn_vscal, IH, vmul_vscal2, vscal_vadd. reflexivity.
Qed.
Lemma sqrtf_scale k s : 0 < k -> 0 <= s -> sqrtf (k * k * s) = k * sqrtf s.
Proof.
  intros Hk Hs. destruct (sqrtf_spec s Hs) as [a1 a2].
  assert (Hks : 0 <= k * k * s) by (apply Rmult_le_pos; nra).
  destruct (sqrtf_spec _ Hks) as [b1 b2].
  set (A := sqrtf (k * k * s)) in *. set (B := sqrtf s) in *.
  assert (E : A * A = (k * B) * (k * B)) by (rewrite b2; replace (k * B * (k * B)) with (k * k * (B * B)) by ring; rewrite a2; ring).
  assert (0 <= k * B) by nra. nra.
Qed.
Lemma pwn_scale k d0 x : 0 < k -> pwn sqrtf d0 m (vscal k x) = map (fun p => k * p) (pwn sqrtf d0 m x).
Proof.
  intros Hk. unfold pwn. rewrite pwsq_scale. unfold vscal. rewrite !map_map.
  pose proof (pwsq_all_nonneg d0 x) as Hnn. induction Hnn as [|s l Hs Hl IH]; cbn [map]; [reflexivity|].
  rewrite IH. numR. f_equal. apply sqrtf_scale; assumption.
Qed.

(* block application *)
Lemma bap_length (g : R -> R -> R) d0 : forall (F x : Rvec), length x = (d0 * m)%nat -> length F = m -> length (bap g d0 m F x) = (d0 * m)%nat.
Proof.
  induction d0 as [|d0 IH]; intros F x Lx LF; cbn [bap]; [reflexivity|]. cbn in Lx.
  rewrite app_length, vmap2_length, firstn_len_le, IH by (rewrite ?firstn_len_le, ?skipn_length by lia; lia). lia.
Qed.
Lemma vmap2_moreau (g1 g2 : R -> R -> R) (h1 h2 : R -> R) s k : (forall a p, g1 a (h1 p) + s * g2 (k * a) (h2 p) = a) ->
  forall (X P : Rvec), length X = length P ->
  vadd (vmap2 g1 X (map h1 P)) (vscal s (vmap2 g2 (vscal k X) (map h2 P))) = X.
Proof.
  intros Hg X; induction X as [|a X IH]; intros [|p P] Hl; cbn in Hl; try lia; [reflexivity|].
  unfold vadd, vscal in *. cbn [map vmap2]. rewrite IH by lia. numR. f_equal. apply Hg.
Qed.
Lemma bap_moreau (g1 g2 : R -> R -> R) (h1 h2 : R -> R) s k : (forall a p, g1 a (h1 p) + s * g2 (k * a) (h2 p) = a) ->
  forall d0 (P x : Rvec), length x = (d0 * m)%nat -> length P = m ->
  vadd (bap g1 d0 m (map h1 P) x) (vscal s (bap g2 d0 m (map h2 P) (vscal k x))) = x.
Proof.
  intros Hg. induction d0 as [|d0 IH]; intros P x Lx LP; cbn [bap].
  - destruct x; [reflexivity | discriminate].
  - cbn in Lx. rewrite vscal_app, vadd_app.
    2:{ rewrite vscal_length, !vmap2_length; rewrite ?firstn_vscal, ?vscal_length, ?map_length, ?firstn_len_le by lia; try lia. }
    rewrite firstn_vscal, skipn_vscal.
    rewrite (vmap2_moreau g1 g2 h1 h2 s k Hg) by (rewrite firstn_len_le by lia; congruence).
    rewrite IH by (rewrite ?skipn_length; lia). apply firstn_skipn.
Qed.

Lemma group_moreau d0 : pair_moreau (d0 * m) (group_pair sqrtf d0 m).
Proof.
  intros w b s x p q Lw Lx Hs Hp Hq. assert (Hks : 0 < 1 / s) by (apply Rdiv_lt_0_compat; lra).
  assert (LP : length (pwn sqrtf d0 m x) = m) by (unfold pwn; rewrite map_length; apply pwsq_length; assumption).
  destruct b; cbn [group_pair pp negb] in Hp, Hq; injection Hp as <-; injection Hq as <-;
    rewrite (pwn_scale (1 / s)) by assumption; rewrite map_map.
  - apply (bap_moreau (fun a dn => a - a / dn) (fun a dn => a / dn)
             (fun p => nmax (p / (s * 1)) 1) (fun p => nmax (1 / s * p) 1 / 1)); try assumption.
    intros a p0. rewrite !nmax_R. numR.
    replace (1 / s * p0) with (p0 / (s * 1)) by (field; lra).
    pose proof (Rmax_r (p0 / (s * 1)) 1). set (M := Rmax (p0 / (s * 1)) 1) in *. field. lra.
  - apply (bap_moreau (fun a dn => a / dn) (fun a dn => a - a / dn)
             (fun p => nmax p 1 / 1) (fun p => nmax (1 / s * p / (1 / s * 1)) 1)); try assumption.
    intros a p0. rewrite !nmax_R. numR.
    replace (1 / s * p0 / (1 / s * 1)) with p0 by (field; lra).
    pose proof (Rmax_r p0 1). set (M := Rmax p0 1) in *. field. lra.
Qed.

Theorem group_pair_ok d0 : (1 <= d0)%nat -> pair_ok (d0 * m) (group_pair sqrtf d0 m).
Proof.
  intros Hd. split; [|split].
  - split.
    + intros w b s x p Lx Hp.
      assert (LP : length (pwn sqrtf d0 m x) = m) by (unfold pwn; rewrite map_length; apply pwsq_length; assumption).
      destruct b; cbn [group_pair pp] in Hp; injection Hp as <-; apply bap_length; rewrite ?map_length; assumption.
    + intros w b x g Lx Hg. discriminate Hg.
  - apply group_moreau.
  - intros w Hw Lw Hpw. cbn [group_pair pw] in Hpw. split.
    + intros b x y vx vy Lx Ly Hvx Hvy.
      destruct b; cbn [group_pair pv negb] in Hvx, Hvy; injection Hvx as <-; injection Hvy as <-; numR.
      * destruct (Rltb_spec 1 (vmaxabs (pwn sqrtf d0 m y))) as [Hgt|Hle]; cbn [eadd]; [exact I|]. numR.
        pose proof (group_fy d0 w x y Hw Hd Lw Hpw Lx Ly ltac:(lra)). lra.
      * destruct (Rltb_spec 1 (vmaxabs (pwn sqrtf d0 m x))) as [Hgt|Hle]; cbn [eadd]; [exact I|]. numR.
        rewrite wdot_comm. pose proof (group_fy d0 w y x Hw Hd Lw Hpw Ly Lx ltac:(lra)). lra.
    + intros b x g vx vg Lx Hg. discriminate Hg.
Qed.

End Pair.
