(* C08/ConjTables.v -- semantics of the `convex_conj` property bodies regenerated into
   Gen/Conjugates.v by translate/conjugates.py, and the proof that the hand-written [cconj] of
   C08/Model.v satisfies every generated equation:

       cconj w e  =  (what the generated body of e's class denotes, given cconj of e's operands).

   The interpreter gives meaning to the source constructs (attribute reads of the node, the class
   constructors, the operator overloads  s * f,  f * s,  f * v,  f - c,  f + g,  .translated,
   conj_exponent through its generated case table, ScalingOperator.inverse); everything else in the
   bodies -- which class is built, with which exponent, which constant (1/4, gamma/2, -c), which
   reciprocal, which branch condition, the order of evaluation -- is READ FROM THE SOURCE, so changing
   any of it in /repo changes the generated term and breaks [cconj_generated]. *)
From Coq Require Import ZArith QArith Reals Lra String List Bool.
From Verif Require Import C07.BindSyntax Gen.Conjugates.
From Verif Require Import Base.Num Base.Vec C08.Model.
Import ListNotations.
Local Open Scope string_scope.

Notation bexp := BindSyntax.pexp.

Section Sem.
Context {T : Type} `{Num T}.

Inductive cv :=
| CFun (e : @fexpr T) | CNum (c : T) | CVec (v : list T) | CExp (p : pnum) | COp (a : T)
| CNone | CSpace | CFuns (l : list (list T * @fexpr T)) | CList (l : list (@fexpr T))
| CErr (er : err) | CBad.
Definition env := string -> cv.
Definition upd (rho : env) (x : string) (v : cv) : env := fun y => if String.eqb x y then v else rho y.
Definition of_res (r : res (@fexpr T)) : cv := match r with Ok f => CFun f | Err er => CErr er end.

(* exponents: source numbers <-> the three modelled exponents *)
Definition pnum_of (p : Model.pexp) : pnum := match p with P1 => NInt 1 | P2 => NInt 2 | Pinf => NInf end.
Definition pnum_eqb (a b : pnum) : bool :=
  match a, b with
  | NInt x, NInt y => Z.eqb x y | NInf, NInf => true
  | NFrac a b, NFrac c d => Z.eqb a c && Pos.eqb b d | _, _ => false
  end.
Definition mexp (p : pnum) : option Model.pexp :=
  match p with NInt 1 => Some P1 | NInt 2 => Some P2 | NInf => Some Pinf | _ => None end.
(* conj_exponent: generated special cases, otherwise p / (p - 1) (on integers: only 2 stays an integer) *)
Fixpoint lookup (p : pnum) (l : list (pnum * pnum)) : option pnum :=
  match l with [] => None | (a, b) :: l' => if pnum_eqb a p then Some b else lookup p l' end.
Definition conj_exp (p : pnum) : pnum :=
  match lookup p conj_exponent_cases with
  | Some q => q
  | None => match p with NInt z => if Z.eqb (z mod (z - 1)) 0 then NInt (z / (z - 1)) else NFrac z (Z.to_pos (z - 1))
                        | _ => p end
  end.

Definition num_of (n : pnum) : cv :=
  match n with NInt z => CNum (of_Z z) | NFrac a b => CNum (ndiv (of_Z a) (of_Z (Zpos b))) | NInf => CExp NInf end.

Definition exc_of (name : string) : err :=
  if String.eqb name "ValueError" then EValue else if String.eqb name "TypeError" then EType
  else if String.eqb name "NotImplementedError" then ENotImpl else if String.eqb name "ZeroDivisionError" then EZeroDiv
  else EOther.

Variable w : list T.                      (* weights of the space of the node *)

(* operator overloads of Functional / LinearSpaceElement / Operator (hand-written meaning) *)
Definition binop (op : string) (a b : cv) : cv :=
  match a with CErr er => CErr er | _ =>
  match b with CErr er => CErr er | _ =>
  if String.eqb op "*" then
    match a, b with
    | CNum s, CFun f => CFun (rmul s f)                        (* Functional.__rmul__ *)
    | CFun f, CNum s => CFun (mul_right f s)                   (* Functional.__mul__, scalar *)
    | CFun f, CVec v => CFun (FRightVec v f)                   (* Functional.__mul__, element *)
    | CNum c, CNum d => CNum (nmul c d)
    | CNum c, CVec v => CVec (vscal c v)
    | CNum c, COp k => COp (nmul c k)                          (* scalar * ScalingOperator *)
    | _, _ => CBad
    end
  else if String.eqb op "/" then
    match a, b with
    | CNum c, CNum d => if neqb d nzero then CErr EZeroDiv else CNum (ndiv c d)   (* python float division *)
    | CNum c, CVec v => CVec (map (fun t => ndiv c t) v)                          (* numpy: no exception *)
    | _, _ => CBad
    end
  else if String.eqb op "-" then
    match a, b with
    | CFun f, CNum c => CFun (FScalarSum f (nmul (nopp none_) c))   (* __sub__: self + (-1) * other *)
    | CNum c, CNum d => CNum (nsub c d)
    | _, _ => CBad
    end
  else if String.eqb op "+" then
    match a, b with
    | CFun f, CFun g => CFun (FSum f g)
    | CVec u, CVec v => CVec (vadd u v)
    | CNum c, CNum d => CNum (nadd c d)
    | _, _ => CBad
    end
  else CBad end end.

Fixpoint kwfind (k : string) (l : list bexp) : option bexp :=
  match l with
  | [] => None
  | PKw k' v :: l' => if String.eqb k k' then Some v else kwfind k l'
  | _ :: l' => kwfind k l'
  end.

Definition rec := @cconj T _.              (* conjugate of an operand / of a functional built on the way *)

Fixpoint eval (fuel : nat) (rho : env) (e : bexp) {struct fuel} : cv :=
  match fuel with O => CBad | S fuel =>
  let ev := eval fuel rho in
  let kwnum k l := match kwfind k l with None => CNum nzero | Some v => ev v end in
  match e with
  | PNum n => num_of n
  | PName x => rho x
  | PAttr "norm.convex_conj" => match rho "norm" with CFun g => of_res (rec w g) | v => v end
  | PAttr "self.operator.inverse" =>
      match rho "self.operator" with
      | COp a => if neqb a nzero then CErr EZeroDiv else COp (ndiv none_ a)      (* ScalingOperator.inverse *)
      | v => v end
  | PAttr x => rho x
  | PNeg a => match ev a with CNum c => CNum (nopp c) | CErr er => CErr er | _ => CBad end
  | PBin op a b => binop op (ev a) (ev b)
  | PGet (PCall "super" _) "convex_conj" => match rho "self" with CFun f => CFun (FDefConj f) | v => v end
  | PCall "FunctionalDefaultConvexConjugate" [a] => match ev a with CFun f => CFun (FDefConj f) | v => v end
  | PCall "conj_exponent" [a] => match ev a with CExp p => CExp (conj_exp p) | v => v end
  | PCall "IndicatorLpUnitBall" [_; PKw "exponent" a] =>
      match ev a with CExp p => match mexp p with Some q => CFun (FIndBall q) | None => CBad end | v => v end
  | PCall "LpNorm" [_; PKw "exponent" a] =>
      match ev a with CExp p => match mexp p with Some q => CFun (FLp q) | None => CBad end | v => v end
  | PCall "L1Norm" [_] => CFun (FLp P1)
  | PCall "L2Norm" [_] => CFun (FLp P2)
  | PCall "L2NormSquared" [_] => CFun FL2Sq
  | PCall "IndicatorZero" [PKw "space" _; PKw "constant" a] | PCall "IndicatorZero" [_; a] =>
      match ev a with CNum c => CFun (FIndZero c) | CErr er => CErr er | _ => CBad end
  | PCall "ConstantFunctional" [_; a] =>
      match ev a with CNum c => CFun (FConst c) | CErr er => CErr er | _ => CBad end
  | PCall "FunctionalQuadraticPerturb" (a :: kws) =>
      match ev a with
      | CFun f =>
          match kwnum "quadratic_coeff" kws, kwnum "constant" kws,
                match kwfind "linear_term" kws with None => CVec (vconst (length w) nzero) | Some v => ev v end with
          | CNum qa, CNum qc, CVec u => CFun (FQuadPert f qa u qc)
          | _, _, _ => CBad
          end
      | v => v end
  | PCall "self.functional.convex_conj.translated" [a] =>
      match rho "self.functional.convex_conj", ev a with
      | CFun f, CVec t => CFun (mkTransl f t) | CErr er, _ => CErr er | _, _ => CBad end
  | PCall "tmp.translated" [a] =>
      match rho "tmp", ev a with CFun f, CVec t => CFun (mkTransl f t) | CErr er, _ => CErr er | _, _ => CBad end
  | PCall "opinv.adjoint" [a] | PCall "opinv" [a] =>
      match rho "opinv", ev a with COp k, CVec v => CVec (vscal k v) | CErr er, _ => CErr er | _, _ => CBad end
  | PCall "self.vector.inner" [a] =>
      match rho "self.vector", ev a with CVec b, CVec u => CNum (wdot w b u) | _, CErr er => CErr er | _, _ => CBad end
  | PCall "QuadraticForm" kws =>
      match kwfind "operator" kws with
      | Some o =>
          match ev o, kwnum "constant" kws with
          | COp k, CNum c =>
              match kwfind "vector" kws with
              | None => CFun (FQuadS (Some k) None c)
              | Some v => match ev v with CVec b => CFun (FQuadS (Some k) (Some b) c) | CErr er => CErr er | _ => CBad end
              end
          | CErr er, _ => CErr er
          | _, _ => CBad
          end
      | None => CBad
      end
  | PComp (PAttr "func.convex_conj") "func" (PAttr "self.functionals") =>
      match rho "self.functionals" with
      | CFuns l =>
          (fix go (l : list (list T * @fexpr T)) (acc : list (@fexpr T)) : cv :=
             match l with
             | [] => CList (rev acc)
             | (wi, fi) :: l' => match rec wi fi with Ok g => go l' (g :: acc) | Err er => CErr er end
             end) l []
      | v => v end
  | PCall "SeparableSum" [PStar x] =>
      match rho x, rho "self.split" with
      | CList [f; g], CExp (NInt k) => CFun (FSep2 (Z.to_nat k) f g)
      | CErr er, _ => CErr er
      | _, _ => CBad end
  | _ => CBad
  end end.

Definition cmpnum (op : string) (c d : T) : bool :=
  if String.eqb op "==" then neqb c d else if String.eqb op "!=" then negb (neqb c d)
  else if String.eqb op "<=" then nleb c d else if String.eqb op "<" then nltb c d else false.

Definition evcond (fuel : nat) (rho : env) (c : pcond) : option bool :=
  match c with
  | CCmp attr op k =>
      match rho attr, k with
      | CExp p, _ => Some (if String.eqb op "==" then pnum_eqb p k else negb (pnum_eqb p k))
      | CNum x, NInt z => Some (cmpnum op x (of_Z z))
      | _, _ => None
      end
  | CCmpE op a b =>
      match eval fuel rho a, eval fuel rho b with CNum x, CNum y => Some (cmpnum op x y) | _, _ => None end
  | CIs "is" (PAttr x) (PName "None") => Some (match rho x with CNone => true | _ => false end)
  | CIsInstance (PAttr "self.domain") "ProductSpace" => Some false   (* the modelled Huber lives on a tensor space *)
  | _ => None
  end.

(* append k where b falls through *)
Fixpoint seq (b k : pbody) : pbody :=
  match b with
  | BEnd => k
  | BLet x e b' => BLet x e (seq b' k)
  | BIf c t e => BIf c (seq t k) (seq e k)
  | BIfSeq c t e k' => BIfSeq c t e (seq k' k)
  | other => other
  end.

Fixpoint run (fuel : nat) (rho : env) (b : pbody) {struct fuel} : cv :=
  match fuel with O => CBad | S fuel =>
  match b with
  | BLet x e k => match eval (S fuel) rho e with CErr er => CErr er | v => run fuel (upd rho x v) k end
  | BRet e => eval (S fuel) rho e
  | BRaise x => CErr (exc_of x)
  | BIf c t e => match evcond (S fuel) rho c with Some true => run fuel rho t | Some false => run fuel rho e | None => CBad end
  | BIfSeq c t e k =>
      match evcond (S fuel) rho c with
      | Some true => run fuel rho (seq t k) | Some false => run fuel rho (seq e k) | None => CBad end
  | _ => CBad
  end end.

(* ------------------------------------------------- node -> generated body and attribute values *)
Definition body_of (e : @fexpr T) : pbody :=
  match e with
  | FLp _ => cc_LpNorm | FIndBall _ => cc_IndicatorLpUnitBall | FL2Sq => cc_L2NormSquared
  | FConst _ => cc_ConstantFunctional | FIndZero _ => cc_IndicatorZero | FHuber _ => cc_Huber
  | FQuadS _ _ _ => cc_QuadraticForm
  | FLeft _ _ => cc_FunctionalLeftScalarMult | FRight _ _ => cc_FunctionalRightScalarMult
  | FRightVec _ _ => cc_FunctionalRightVectorMult
  | FSum _ _ => cc_Functional                       (* FunctionalSum inherits the default *)
  | FScalarSum _ _ => cc_FunctionalScalarSum | FTransl _ _ => cc_FunctionalTranslation
  | FQuadPert _ _ _ _ => cc_FunctionalQuadraticPerturb | FInfConv _ _ => cc_InfimalConvolution
  | FDefConj _ => cc_FunctionalDefaultConvexConjugate | FBreg _ => cc_BregmanDistance
  | FSep2 _ _ _ => cc_SeparableSum
  | FPair _ _ => BEnd                               (* abstract pairs: see the *_pair_wired examples *)
  end.

Definition attr (e : @fexpr T) (x : string) : cv :=
  if String.eqb x "self" then CFun e else if String.eqb x "self.domain" then CSpace else
  match e with
  | FLp p | FIndBall p => if String.eqb x "self.exponent" then CExp (pnum_of p) else CBad
  | FConst c | FIndZero c => if String.eqb x "self.constant" then CNum c else CBad
  | FHuber g => if String.eqb x "self.gamma" then CNum g else CBad
  | FQuadS a b c =>
      if String.eqb x "self.operator" then match a with Some k => COp k | None => CNone end
      else if String.eqb x "self.vector" then match b with Some v => CVec v | None => CNone end
      else if String.eqb x "self.constant" then CNum c else CBad
  | FLeft s f | FRight s f =>
      if String.eqb x "self.scalar" then CNum s
      else if String.eqb x "self.functional.convex_conj" then of_res (rec w f) else CBad
  | FRightVec v f =>
      if String.eqb x "self.vector" then CVec v
      else if String.eqb x "self.functional.convex_conj" then of_res (rec w f) else CBad
  | FScalarSum f c =>
      if String.eqb x "self.scalar" then CNum c
      else if String.eqb x "self.left.convex_conj" then of_res (rec w f) else CBad
  | FTransl f t =>
      if String.eqb x "self.translation" then CVec t
      else if String.eqb x "self.functional.convex_conj" then of_res (rec w f) else CBad
  | FQuadPert f a u c =>
      if String.eqb x "self.quadratic_coeff" then CNum a else if String.eqb x "self.linear_term" then CVec u
      else if String.eqb x "self.constant" then CNum c
      else if String.eqb x "self.functional.convex_conj" then of_res (rec w f) else CBad
  | FInfConv f g =>
      if String.eqb x "self.left.convex_conj" then of_res (rec w f)
      else if String.eqb x "self.right.convex_conj" then of_res (rec w g) else CBad
  | FDefConj f => if String.eqb x "self.__convex_conj" then CFun f else CBad
  | FBreg q => if String.eqb x "self.__bregman_dist.convex_conj" then of_res (rec w q) else CBad
  | FSep2 k f g =>
      if String.eqb x "self.functionals" then CFuns [(firstn k w, f); (skipn k w, g)]
      else if String.eqb x "self.split" then CExp (NInt (Z.of_nat k)) else CBad
  | _ => CBad
  end.

Definition FUEL : nat := 12.
Definition interp (e : @fexpr T) : res (@fexpr T) :=
  match run FUEL (attr e) (body_of e) with CFun f => Ok f | CErr er => Err er | _ => Err EOther end.

End Sem.

(* ------------------------------------------------------------------ the theorem *)
Section Thm.
Context {T : Type} `{Num T}.
(* the source writes 1.0 and 0 where the model uses the constants of the carrier *)
Hypothesis Hone : of_Z 1 = none_.
Hypothesis Hzero : of_Z 0 = nzero.

Definition constructible (e : @fexpr T) : Prop :=
  match e with FQuadS None None _ | FPair _ _ => False | _ => True end.   (* QuadraticForm() without operator and vector raises in __init__ *)

(* python: 1.0 / s raises ZeroDivisionError only at s = 0, which the guard s <= 0 has excluded *)
Hypothesis Hle0 : forall s : T, neqb s nzero = true -> nleb s nzero = true.
(* the literal divisors 4 and 2 of the source are not zero *)
Hypothesis Hnz4 : neqb (of_Z 4) nzero = false.
Hypothesis Hnz2 : neqb (of_Z 2) nzero = false.

Ltac red_interp :=
  lazy -[cconj rmul mul_right mkLeft mkRight mkTransl of_Z nzero none_ nadd nsub nmul ndiv nopp
         nleb neqb nltb vscal vadd wdot vconst quarter pconj length firstn skipn map rec Z.of_nat Z.to_nat].

Ltac crush :=
  repeat first
    [ reflexivity
    | match goal with
      | H1 : nleb ?s nzero = false, H2 : neqb ?s nzero = true |- _ => rewrite (Hle0 s H2) in H1; discriminate H1
      | |- context [cconj ?w ?f] => is_var f; destruct (cconj w f); cbn [rbind]
      | |- context [if ?c then _ else _] => destruct c eqn:?
      end ].

Theorem cconj_generated w e : constructible e -> cconj w e = interp w e.
Proof.
  intros Hc. destruct e as [p|p| |c|c|g|a b c|s f|s f|v f|f g|f c|f t|f a u c|f g|f|q|k f g|pb P]; [..|contradiction].
  all: try destruct p.
  all: try (destruct a as [a|], b as [b|]; try contradiction).
  all: unfold interp, FUEL, body_of; red_interp; unfold rec, quarter; rewrite ?Hone, ?Hzero, ?Nat2Z.id; cbn [cconj rbind pconj].
  all: unfold quarter; rewrite ?Hone, ?Hzero, ?Hnz4, ?Hnz2.
  all: crush.
Qed.
End Thm.

(* the hypotheses hold at both carriers used by the framework *)
Lemma cconj_generated_R (w : list R) (e : @fexpr R) : constructible e -> cconj w e = interp w e.
Proof.
  apply cconj_generated; try reflexivity.
  - intros s Hs. cbn in *. destruct (Reqb_spec s 0); [|discriminate]. subst. unfold Rleb.
    destruct (Rle_dec 0 0) as [|n]; [reflexivity | exfalso; apply n; apply Rle_refl].
  - cbn. unfold Reqb. destruct (Req_EM_T 4 0) as [E|]; [|reflexivity]. exfalso. lra.
  - cbn. unfold Reqb. destruct (Req_EM_T 2 0) as [E|]; [|reflexivity]. exfalso. lra.
Qed.
Lemma cconj_generated_Q (w : list Q) (e : @fexpr Q) : constructible e -> cconj w e = interp w e.
Proof.
  apply cconj_generated; try reflexivity.
  intros s Hs. cbn in *. apply Qeq_bool_iff in Hs. apply Qle_bool_iff. rewrite Hs. apply Qle_refl.
Qed.

(* ------------------------------------------------------------------------------------------
   Pairs that the numeric model does not contain: the generated bodies are pinned at the level of
   "which class is built from which attributes" (mutual conjugacy of the class names and the
   conj_exponent wiring); their values are covered by C08/KL.v + probes. *)
Definition built (b : pbody) : option (string * list bexp) :=
  match b with
  | BRet (PCall c args) => Some (c, args)
  | BLet x e (BRet (PCall c [d; PKw k (PName y)])) => if String.eqb x y then Some (c, [d; PKw k e]) else None
  | _ => None
  end.
Definition conj_of_attr (a : string) : bexp := PCall "conj_exponent" [PAttr a].

Example kl_pairs_wired :
  built cc_KullbackLeibler = Some ("KullbackLeiblerConvexConj", [PAttr "self.domain"; PAttr "self.prior"]) /\
  built cc_KullbackLeiblerConvexConj = Some ("KullbackLeibler", [PAttr "self.domain"; PAttr "self.prior"]) /\
  built cc_KullbackLeiblerCrossEntropy = Some ("KullbackLeiblerCrossEntropyConvexConj", [PAttr "self.domain"; PAttr "self.prior"]) /\
  built cc_KullbackLeiblerCrossEntropyConvexConj = Some ("KullbackLeiblerCrossEntropy", [PAttr "self.domain"; PAttr "self.prior"]).
Proof. repeat split; reflexivity. Qed.
Example group_l1_pair_wired :
  built cc_GroupL1Norm = Some ("IndicatorGroupL1UnitBall",
                               [PAttr "self.domain"; PKw "exponent" (conj_of_attr "self.pointwise_norm.exponent")]) /\
  built cc_IndicatorGroupL1UnitBall = Some ("GroupL1Norm",
                               [PAttr "self.domain"; PKw "exponent" (conj_of_attr "self.pointwise_norm.exponent")]).
Proof. split; reflexivity. Qed.
Example nuclear_pair_wired :
  built cc_NuclearNorm = Some ("IndicatorNuclearNormUnitBall",
       [PAttr "self.domain"; conj_of_attr "self.outernorm.exponent"; conj_of_attr "self.pwisenorm.exponent"]) /\
  built cc_IndicatorNuclearNormUnitBall = Some ("NuclearNorm",
       [PAttr "self.domain"; conj_of_attr "self.__norm.outernorm.exponent"; conj_of_attr "self.__norm.pwisenorm.exponent"]).
Proof. split; reflexivity. Qed.
(* classes that must keep the inherited conjugate *)
Example conj_inheritance :
  cc_inherits_L1Norm = "LpNorm" /\ cc_inherits_L2Norm = "LpNorm" /\ cc_inherits_ZeroFunctional = "ConstantFunctional" /\
  cc_inherits_FunctionalSum = "Functional" /\ cc_inherits_IndicatorBox = "Functional" /\
  cc_inherits_IndicatorNonnegativity = "Functional".
Proof. repeat split; reflexivity. Qed.
(* conj_exponent on the modelled exponents, through the generated case table *)
Example conj_exponent_modelled :
  map conj_exp [NInt 1; NInt 2; NInf] = [NInf; NInt 2; NInt 1].
Proof. reflexivity. Qed.
