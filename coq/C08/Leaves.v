(* C08/Leaves.v -- the real-analysis facts behind the built-in conjugate pairs
   (Hoelder 1/inf, Cauchy-Schwarz with an abstract square root, Young for squares,
   Huber, scaled quadratic forms), on weighted lists. *)
From Coq Require Import ZArith Reals Lra Lia List Bool Psatz.
From Verif Require Import Base.Num Base.Vec Base.VecR C08.Model C08.VecLemmas.
Import ListNotations.
Local Open Scope R_scope.

Lemma vmaxabs_cons (a : R) (x : Rvec) : vmaxabs (a :: x) = Rmax (Rabs a) (vmaxabs x).
Proof. unfold vmaxabs. cbn [fold_right]. rewrite nmax_R. reflexivity. Qed.
Lemma vmaxabs_nonneg (x : Rvec) : 0 <= vmaxabs x.
Proof.
  induction x as [|a x IH]; [cbn; numR; lra|]. rewrite vmaxabs_cons.
  pose proof (Rmax_r (Rabs a) (vmaxabs x)). lra.
Qed.
Lemma wsum_cons c a (w x : Rvec) : wsum (c :: w) (a :: x) = c * a + wsum w x.
Proof. reflexivity. Qed.
Lemma wsum_abs_nonneg (w x : Rvec) : wpos w -> 0 <= wsum w (map Rabs x).
Proof.
  intros Hw; revert x; induction Hw as [|c w Hc Hw IH]; intros [|a x]; cbn [map];
    try (cbn; numR; lra).
  rewrite wsum_cons. specialize (IH x). pose proof (Rabs_pos a). nra.
Qed.

(* Hoelder, exponents 1 and infinity *)
Lemma holder_1_inf (w x y : Rvec) : wpos w ->
  wdot w x y <= wsum w (map Rabs x) * vmaxabs y.
Proof.
  intros Hw; revert x y; induction Hw as [|c w Hc Hw IH]; intros x y.
  { rewrite wdot_nil_w. unfold wsum, vmul. cbn [vmap2 sumf]. numR. lra. }
  pose proof (wsum_abs_nonneg (c :: w) x (Forall_cons _ Hc Hw)) as Hnn.
  pose proof (vmaxabs_nonneg y) as Hmm.
  destruct x as [|a x]; [rewrite wdot_nil_x; nra|].
  destruct y as [|b y]; [rewrite wdot_nil_y; nra|]. clear Hnn Hmm. cbn [map].
  - rewrite wdot_c, wsum_cons, vmaxabs_cons. specialize (IH x y).
    pose proof (wsum_abs_nonneg w x Hw) as Hs.
    pose proof (vmaxabs_nonneg y) as Hm.
    pose proof (Rmax_l (Rabs b) (vmaxabs y)) as M1. pose proof (Rmax_r (Rabs b) (vmaxabs y)) as M2.
    set (M := Rmax (Rabs b) (vmaxabs y)) in *.
    assert (Hab : a * b <= Rabs a * Rabs b).
    { rewrite <- Rabs_mult. apply Rle_abs. }
    pose proof (Rabs_pos a) as Pa. pose proof (Rabs_pos b) as Pb.
    assert (H1 : Rabs a * Rabs b <= Rabs a * M) by (apply Rmult_le_compat_l; assumption).
    assert (H2 : c * (a * b) <= c * (Rabs a * M)) by (apply Rmult_le_compat_l; lra).
    assert (H3 : wsum w (map Rabs x) * vmaxabs y <= wsum w (map Rabs x) * M)
      by (apply Rmult_le_compat_l; assumption).
    lra.
Qed.

(* square root as a parameter *)
Section Sqrt.
Variable sqrtf : R -> R.
Hypothesis sqrtf_spec : forall a, 0 <= a -> 0 <= sqrtf a /\ sqrtf a * sqrtf a = a.

Lemma sqrtf_zero a : 0 <= a -> (sqrtf a = 0 <-> a = 0).
Proof. intros Ha. destruct (sqrtf_spec a Ha) as [H1 H2]. split; intros; nra. Qed.

Lemma cauchy_schwarz_sqrt (w x y : Rvec) : wpos w -> length x = length y ->
  wdot w x y <= sqrtf (wdot w x x) * sqrtf (wdot w y y).
Proof.
  intros Hw Hl.
  pose proof (wdot_cauchy_schwarz w x y Hw Hl) as CS.
  destruct (sqrtf_spec _ (wdot_self_nonneg w x Hw)) as [X1 X2].
  destruct (sqrtf_spec _ (wdot_self_nonneg w y Hw)) as [Y1 Y2].
  set (sx := sqrtf (wdot w x x)) in *. set (sy := sqrtf (wdot w y y)) in *.
  rewrite <- X2, <- Y2 in CS.
  destruct (Rle_dec (wdot w x y) (sx * sy)); [assumption|]. exfalso.
  assert (0 <= sx * sy) by nra. nra.
Qed.
End Sqrt.

(* Young for squares:  <x,x> + <y,y>/4 >= <x,y> *)
Lemma young_sq (w x y : Rvec) : wpos w ->
  wdot w x y <= wdot w x x + 1 / 4 * wdot w y y.
Proof.
  intros Hw; revert x y; induction Hw as [|c w Hc Hw IH]; intros [|a x] [|b y];
    rewrite ?wdot_nil_w, ?wdot_nil_x, ?wdot_nil_y; try lra.
  - rewrite wdot_c. pose proof (wdot_self_nonneg w y Hw). nra.
  - rewrite wdot_c. pose proof (wdot_self_nonneg w x Hw). nra.
  - rewrite !wdot_c. specialize (IH x y).
    pose proof (Rle_0_sqr (a - b / 2)) as Q. unfold Rsqr in Q.
    assert (H0 : 0 <= c * ((a - b / 2) * (a - b / 2))) by (apply Rmult_le_pos; lra).
    replace (c * ((a - b / 2) * (a - b / 2))) with (c * (a * a) - c * (a * b) + 1 / 4 * (c * (b * b))) in H0 by field.
    lra.
Qed.

(* scaled quadratic forms:  a<x,x> + <x,b> + c  and its conjugate  <y-b,y-b>/(4a) - c *)
Lemma quad_scal_fy (w x y b : Rvec) a : wpos w -> 0 < a ->
  length x = length w -> length y = length w -> length b = length w ->
  wdot w x y <=
    wdot w x (vadd (vscal a x) b)
    + wdot w y (vadd (vscal (1 / 4 * (1 / a)) y)
                     (vscal (- (1 / 4)) (vadd (vscal (1 / a) b) (vscal (1 / a) b))))
    + 1 / 4 * wdot w b (vscal (1 / a) b).
Proof.
  intros Hw Ha; revert x y b; induction Hw as [|c w Hc Hw IH]; intros [|p x] [|q y] [|r b] H1 H2 H3;
    cbn in H1, H2, H3; try lia.
  - rewrite !wdot_nil_w. lra.
  - unfold vadd, vscal in *. cbn [map vmap2]. rewrite !wdot_c. numR.
    specialize (IH x y b ltac:(lia) ltac:(lia) ltac:(lia)).
    assert (Hk : c * (p * q) <= c * (p * (a * p + r)) + c * (q * (1 / 4 * (1 / a) * q + - (1 / 4) * (1 / a * r + 1 / a * r)))
                 + 1 / 4 * (c * (r * (1 / a * r)))).
    { assert (E : c * (p * (a * p + r)) + c * (q * (1 / 4 * (1 / a) * q + - (1 / 4) * (1 / a * r + 1 / a * r)))
                 + 1 / 4 * (c * (r * (1 / a * r))) - c * (p * q)
                 = c * (1 / (4 * a)) * ((2 * a * p + r - q) * (2 * a * p + r - q))) by (field; lra).
      assert (0 < 1 / (4 * a)) by (apply Rdiv_lt_0_compat; lra).
      assert (0 <= (2 * a * p + r - q) * (2 * a * p + r - q)) by (apply Rle_0_sqr).
      assert (0 <= c * (1 / (4 * a)) * ((2 * a * p + r - q) * (2 * a * p + r - q))) by (apply Rmult_le_pos; [apply Rmult_le_pos; lra | assumption]).
      lra. }
    lra.
Qed.
Lemma quad_scal_fy0 (w x y : Rvec) a : wpos w -> 0 < a ->
  wdot w x y <= wdot w x (vscal a x) + wdot w y (vscal (1 / 4 * (1 / a)) y).
Proof.
  intros Hw Ha. rewrite !wdot_vscal_r.
  revert x y; induction Hw as [|c w Hc Hw IH]; intros [|p x] [|q y];
    rewrite ?wdot_nil_w, ?wdot_nil_x, ?wdot_nil_y; try lra.
  - rewrite wdot_c. pose proof (wdot_self_nonneg w y Hw).
    assert (0 < 1 / 4 * (1 / a)) by (apply Rmult_lt_0_compat; [lra | apply Rdiv_lt_0_compat; lra]).
    pose proof (Rle_0_sqr q) as Q; unfold Rsqr in Q.
    assert (0 <= c * (q * q)) by (apply Rmult_le_pos; lra).
    assert (0 <= 1 / 4 * (1 / a) * (c * (q * q) + wdot w y y)) by (apply Rmult_le_pos; lra). lra.
  - rewrite wdot_c. pose proof (wdot_self_nonneg w x Hw).
    pose proof (Rle_0_sqr p) as Q; unfold Rsqr in Q.
    assert (0 <= c * (p * p)) by (apply Rmult_le_pos; lra).
    assert (0 <= a * (c * (p * p) + wdot w x x)) by (apply Rmult_le_pos; lra). lra.
  - rewrite !wdot_c. specialize (IH x y).
    assert (E : a * (c * (p * p)) + 1 / 4 * (1 / a) * (c * (q * q)) - c * (p * q)
                = c * (1 / (4 * a)) * ((2 * a * p - q) * (2 * a * p - q))) by (field; lra).
    assert (0 < 1 / (4 * a)) by (apply Rdiv_lt_0_compat; lra).
    assert (0 <= (2 * a * p - q) * (2 * a * p - q)) by (apply Rle_0_sqr).
    assert (0 <= c * (1 / (4 * a)) * ((2 * a * p - q) * (2 * a * p - q))) by (apply Rmult_le_pos; [apply Rmult_le_pos; lra | assumption]).
    lra.
Qed.

(* Huber *)
Definition huberR (g t : R) : R := @huber1 R _ g t.
Lemma huber1_fy g t s : 0 < g -> Rabs s <= 1 -> t * s <= huberR g t + g / 2 * (s * s).
Proof.
  intros Hg Hs. unfold huberR, huber1. numR.
  destruct (Rltb_spec 0 g) as [_|Hn]; [|contradiction].
  destruct (Rleb_spec g (Rabs t)) as [H|H].
  - (* |t| >= g *)
    assert (t * s <= Rabs t * Rabs s) by (rewrite <- Rabs_mult; apply Rle_abs).
    assert (Hss : s * s = Rabs s * Rabs s) by (unfold Rabs; destruct (Rcase_abs s); ring).
    rewrite Hss. clear Hss.
    pose proof (Rabs_pos s). pose proof (Rabs_pos t).
    set (S := Rabs s) in *. set (T := Rabs t) in *.
    assert (0 <= g * (1 - S)) by (apply Rmult_le_pos; lra).
    assert (0 <= (1 - S) * (T - g * (1 + S) / 2)) by (apply Rmult_le_pos; lra).
    lra.
  - assert (E : t * t * (1 / (2 * g)) + g / 2 * (s * s) - t * s = (t - g * s) * (t - g * s) / (2 * g)) by (field; lra).
    assert (0 <= (t - g * s) * (t - g * s) / (2 * g)).
    { apply Rmult_le_pos; [apply Rle_0_sqr | left; apply Rinv_0_lt_compat; lra]. }
    lra.
Qed.
