(* C08/Rules.v -- well-formedness, transparency of the merging constructors, and the
   value-level form of every conjugation rule (at R). *)
From Coq Require Import ZArith Reals Lra Lia List Bool Psatz.
From Verif Require Import Base.Num Base.Vec Base.VecR C08.Model C08.VecLemmas.
Import ListNotations.
Local Open Scope R_scope.

Notation fxR := (@fexpr R).
Notation extR := (@ext R).

(* ---------------------------------------------------------------- hypotheses *)
(* what the theorems assume of a tree on an n-dimensional space: convexity-preserving
   scalars and vectors of the right length *)
(* consistency of an abstract conjugate pair on an n-dimensional space: lengths are preserved, and for
   positive weights the two sides satisfy Fenchel-Young, equality at the gradient and the Moreau identity *)
Definition pair_len (n : nat) (P : @cpair R) : Prop :=
  (forall w b s x p, length x = n -> pp P b w s x = Ok p -> length p = n) /\
  (forall w b x g, length x = n -> pg P b w x = Ok g -> length g = n).
Definition pair_moreau (n : nat) (P : @cpair R) : Prop :=
  forall w b s x p q, length w = n -> length x = n -> 0 < s -> pp P b w s x = Ok p ->
    pp P (negb b) w (1 / s) (vscal (1 / s) x) = Ok q -> vadd p (vscal s q) = x.
Definition pair_ok (n : nat) (P : @cpair R) : Prop :=
  pair_len n P /\ pair_moreau n P /\
  forall w, wpos w -> length w = n -> pw P w = true ->
  (forall b x y vx vy, length x = n -> length y = n -> pv P b w x = Ok vx -> pv P (negb b) w y = Ok vy ->
     match eadd vx vy with EFin v => wdot w x y <= v | EPInf => True | EJunk => False end) /\
  (forall b x g vx vg, length x = n -> pg P b w x = Ok g -> pv P b w x = Ok vx -> pv P (negb b) w g = Ok vg ->
     eadd vx vg = EFin (wdot w x g)).

Fixpoint wf (n : nat) (e : fxR) : Prop :=
  match e with
  | FLp _ | FIndBall _ | FL2Sq | FConst _ | FIndZero _ => True
  | FHuber g => 0 < g
  | FQuadS a b _ =>
      match a with Some a' => 0 < a' | None => True end /\
      match b with Some b' => length b' = n | None => True end
  | FLeft s f => 0 < s /\ wf n f
  | FRight s f => s <> 0 /\ wf n f
  | FRightVec v f => length v = n /\ Forall (fun a => a <> 0) v /\ wf n f
  | FSum f g | FInfConv f g => wf n f /\ wf n g
  | FScalarSum f _ | FDefConj f | FBreg f => wf n f
  | FTransl f t => length t = n /\ wf n f
  | FQuadPert f a u _ => 0 <= a /\ length u = n /\ wf n f
  | FSep2 k f g => (k <= n)%nat /\ wf k f /\ wf (n - k) g
  | FPair _ P => pair_ok n P
  end.

(* the weights are admissible for every abstract pair of the tree (a power-space pair needs the same
   weights on every component); trivially true for all other nodes *)
Fixpoint wadm (w : Rvec) (e : fxR) : Prop :=
  match e with
  | FPair _ P => pw P w = true
  | FSep2 k f g => wadm (firstn k w) f /\ wadm (skipn k w) g
  | FLeft _ f | FRight _ f | FRightVec _ f | FScalarSum f _ | FTransl f _ | FQuadPert f _ _ _ | FDefConj f | FBreg f => wadm w f
  | FSum f g | FInfConv f g => wadm w f /\ wadm w g
  | _ => True
  end.

Ltac fxind e :=
  induction e as [p|p| |c|c|g|a b c|s f IHf|s f IHf|v f IHf|f IHf g IHg|f IHf c|f IHf t|f IHf a u c
                 |f IHf g IHg|f IHf|q IHq|k f IHf g IHg|pb P].

Lemma fin_ok_eq (a b : R) : a = b -> @Ok extR (EFin a) = Ok (EFin b).
Proof. intros ->; reflexivity. Qed.
Lemma fin_eq (a b : R) : a = b -> @EFin R a = EFin b.
Proof. intros ->; reflexivity. Qed.
Ltac fin_ring := first [apply fin_ok_eq | apply fin_eq]; numR; try ring.

Section R.
Variable sqrtf : R -> R.

Notation val := (@value R _ sqrtf 0).
Notation cj := (@cconj R _).

Definition cval (w : Rvec) (e : fxR) (y : Rvec) : res extR :=
  match cj w e with Ok e' => val e' w y | Err er => Err er end.

(* ---------------------------------------------------------- ext arithmetic *)
Lemma Rltb_true a b : a < b -> Rltb a b = true.
Proof. intros; destruct (Rltb_spec a b); [reflexivity | contradiction]. Qed.
Lemma Rltb_false a b : ~ a < b -> Rltb a b = false.
Proof. intros; destruct (Rltb_spec a b); [contradiction | reflexivity]. Qed.
Lemma Rleb_true a b : a <= b -> Rleb a b = true.
Proof. intros; destruct (Rleb_spec a b); [reflexivity | contradiction]. Qed.
Lemma Rleb_false a b : ~ a <= b -> Rleb a b = false.
Proof. intros; destruct (Rleb_spec a b); [contradiction | reflexivity]. Qed.
Lemma Reqb_true a b : a = b -> Reqb a b = true.
Proof. intros; destruct (Reqb_spec a b); [reflexivity | contradiction]. Qed.
Lemma Reqb_false a b : a <> b -> Reqb a b = false.
Proof. intros; destruct (Reqb_spec a b); [contradiction | reflexivity]. Qed.

Lemma escal_escal s s' (v : extR) : 0 < s -> escal (s * s') v = escal s (escal s' v).
Proof.
  intros Hs. destruct v; cbn [escal]; numR; [fin_ring| |reflexivity].
  destruct (Rltb_spec 0 s') as [H1|H1].
  - rewrite Rltb_true by nra. cbn [escal]; numR. rewrite Rltb_true by assumption. reflexivity.
  - rewrite Rltb_false by nra. reflexivity.
Qed.

(* ------------------------------------------- transparency of the constructors *)
Lemma vscal_comm a b (x : Rvec) : vscal a (vscal b x) = vscal b (vscal a x).
Proof. rewrite !vscal_vscal. f_equal. ring. Qed.

Lemma val_mkRight a g w x : val (mkRight a g) w x = val g w (vscal a x).
Proof.
  destruct g; try reflexivity. cbn [mkRight value]. numR. rewrite vscal_vscal. f_equal. f_equal. ring.
Qed.

Lemma mkLeft_cases s (g : fxR) :
  (exists s' g', g = FLeft s' g' /\ mkLeft s g = FLeft (s * s') g') \/ mkLeft s g = FLeft s g.
Proof. destruct g; try (right; reflexivity). left; eauto. Qed.
Lemma val_FLeft s g w x : val (FLeft s g) w x = (v <- val g w x ;; Ok (escal s v)).
Proof. reflexivity. Qed.

Lemma val_mkLeft s g w x : 0 < s ->
  val (mkLeft s g) w x = (v <- val g w x ;; Ok (escal s v)).
Proof.
  intros Hs. destruct (mkLeft_cases s g) as [(s' & g' & -> & ->)| ->]; [|reflexivity].
  rewrite !val_FLeft. numR. destruct (val g' w x); cbn [rbind]; [|reflexivity].
  rewrite escal_escal by assumption; reflexivity.
Qed.

Lemma val_mkLeft_fin s g w x r : val g w x = Ok (EFin r) ->
  val (mkLeft s g) w x = Ok (EFin (s * r)).
Proof.
  intros Hv. destruct (mkLeft_cases s g) as [(s' & g' & -> & ->)| ->]; rewrite val_FLeft in *.
  - destruct (val g' w x) as [v|]; cbn [rbind] in *; [|discriminate].
    destruct v; cbn [escal] in *; numR.
    + inversion Hv; subst. fin_ring.
    + match type of Hv with context [if ?c then _ else _] => destruct c end; discriminate.
    + discriminate.
  - rewrite Hv. reflexivity.
Qed.
Lemma val_mkLeft_err s g w x er : val g w x = Err er -> val (mkLeft s g) w x = Err er.
Proof.
  intros Hv. destruct (mkLeft_cases s g) as [(s' & g' & -> & ->)| ->]; rewrite val_FLeft in *.
  - destruct (val g' w x); cbn [rbind] in *; [discriminate | assumption].
  - rewrite Hv. reflexivity.
Qed.

Lemma val_mkTransl f u w y : val (mkTransl f u) w y = val f w (vsub y u).
Proof. destruct f; try reflexivity. cbn [mkTransl value]. rewrite vsub_vsub. reflexivity. Qed.

Lemma is_linear_mkLeft s (g : fxR) : is_linear (mkLeft s g) = is_linear g.
Proof. destruct g; reflexivity. Qed.
Lemma is_linear_mkRight s (g : fxR) : is_linear (mkRight s g) = is_linear g.
Proof. destruct g; reflexivity. Qed.
(* ---------------------------------------------- soundness of the linear flag *)
Lemma firstn_vscal k a (x : Rvec) : firstn k (vscal a x) = vscal a (firstn k x).
Proof. unfold vscal. apply firstn_map. Qed.
Lemma skipn_vscal k a (x : Rvec) : skipn k (vscal a x) = vscal a (skipn k x).
Proof. unfold vscal. apply skipn_map. Qed.

Lemma vmul_vscal_x a (x v : Rvec) : vmul (vscal a x) v = vscal a (vmul x v).
Proof.
  revert v; induction x as [|p x IH]; intros [|q v]; unfold vmul, vscal in *; cbn [map vmap2]; try reflexivity.
  rewrite IH. numR. f_equal. ring.
Qed.

Lemma lin_sound e : is_linear e = true -> forall w x a,
  match val e w x with
  | Ok v => exists r, v = EFin r /\ val e w (vscal a x) = Ok (EFin (a * r))
  | Err er => val e w (vscal a x) = Err er
  end.
Proof.
  fxind e; intros Hlin w x k0; cbn [is_linear] in *; try discriminate.
  - (* FConst *) numR. destruct (Reqb_spec c 0); [|discriminate]. subst.
    cbn [value]. eexists; split; [reflexivity|]. fin_ring.
  - (* FQuadS *) destruct a; [discriminate|]. numR. destruct (Reqb_spec c 0); [|discriminate]. subst.
    destruct b; cbn [value]; [|reflexivity]. eexists; split; [reflexivity|].
    rewrite wdot_vscal_r. numR. fin_ring.
  - (* FLeft *) specialize (IHf Hlin w x k0). cbn [value].
    destruct (val f w x) as [v|]; [|rewrite IHf; reflexivity].
    destruct IHf as (r & -> & ->). cbn [rbind escal]. eexists; split; [reflexivity|]. numR. fin_ring.
  - (* FRight *) specialize (IHf Hlin w (vscal s x) k0). cbn [value].
    rewrite (vscal_comm s k0). exact IHf.
  - (* FRightVec *) specialize (IHf Hlin w (vmul x v) k0). cbn [value].
    rewrite vmul_vscal_x. exact IHf.
  - (* FSum *) apply andb_true_iff in Hlin. destruct Hlin as [L1 L2].
    specialize (IHf L1 w x k0). specialize (IHg L2 w x k0). cbn [value]. unfold radd.
    destruct (val f w x) as [v1|]; [|rewrite IHf; reflexivity]. destruct IHf as (r1 & -> & ->). cbn [rbind].
    destruct (val g w x) as [v2|]; [|rewrite IHg; reflexivity]. destruct IHg as (r2 & -> & ->). cbn [rbind eadd].
    eexists; split; [reflexivity|]. numR. fin_ring.
  - (* FScalarSum *) apply andb_true_iff in Hlin. destruct Hlin as [L1 L2]. numR.
    destruct (Reqb_spec c 0); [|discriminate]. subst.
    specialize (IHf L1 w x k0). cbn [value]. unfold radd.
    destruct (val f w x) as [v1|]; [|rewrite IHf; reflexivity]. destruct IHf as (r1 & -> & ->). cbn [rbind eadd].
    eexists; split; [reflexivity|]. numR. fin_ring.
  - (* FQuadPert *) apply andb_true_iff in Hlin. destruct Hlin as [L12 L3].
    apply andb_true_iff in L12. destruct L12 as [L1 L2]. numR.
    destruct (Reqb_spec a 0); [|discriminate]. destruct (Reqb_spec c 0); [|discriminate]. subst.
    specialize (IHf L1 w x k0). cbn [value].
    destruct (val f w x) as [v1|]; [|rewrite IHf; reflexivity]. destruct IHf as (r1 & -> & ->). cbn [rbind eadd].
    eexists; split; [reflexivity|]. rewrite !wdot_vscal_l, ?wdot_vscal_r. numR. fin_ring.
  - (* FSep2 *) apply andb_true_iff in Hlin. destruct Hlin as [L1 L2].
    specialize (IHf L1 (firstn k w) (firstn k x) k0). specialize (IHg L2 (skipn k w) (skipn k x) k0).
    cbn [value]. unfold radd. rewrite firstn_vscal, skipn_vscal.
    destruct (val f (firstn k w) (firstn k x)) as [v1|]; [|rewrite IHf; reflexivity].
    destruct IHf as (r1 & -> & ->). cbn [rbind].
    destruct (val g (skipn k w) (skipn k x)) as [v2|]; [|rewrite IHg; reflexivity].
    destruct IHg as (r2 & -> & ->). cbn [rbind eadd].
    eexists; split; [reflexivity|]. numR. fin_ring.
Qed.

(* Functional.__mul__(scalar): the LeftScalarMult chosen for flagged-linear operands
   has the same values as the RightScalarMult *)
Lemma val_mul_right g a w y :
  val (mul_right g a) w y = val g w (vscal a y).
Proof.
  unfold mul_right. destruct (is_linear g) eqn:L; [|apply val_mkRight].
  pose proof (lin_sound g L w y a) as H.
  destruct (val g w y) as [v|] eqn:E.
  - destruct H as (r & -> & ->). apply val_mkLeft_fin. assumption.
  - rewrite H. apply val_mkLeft_err. assumption.
Qed.

End R.
