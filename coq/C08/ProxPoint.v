(* C08/ProxPoint.v -- Fenchel-Young EQUALITY at the proximal point, for all expression trees over the
   leaves L1, unit inf-ball, L2^2, Constant, IndicatorZero, Huber:

       p = prox_{sigma f}(x)   ==>   f(p) + f~((x - p)/sigma) = <p, (x - p)/sigma>

   i.e. (x - p)/sigma is a subgradient of f at p (p is the minimiser of f + |. - x|^2/(2 sigma)).
   Unlike the Moreau identity this is NOT blind to an error made consistently in prox_f and prox_f~ --
   in particular it pins the REFLECTION rule: for f(s .) with s < 0 the proximal must be
   (1/s) prox_{sigma s^2 f}(s x), not prox_{sigma s^2 f}(x) (proximal_arg_scaling), and likewise the signs
   in proximal_translation and proximal_quadratic_perturbation. *)
From Coq Require Import ZArith Reals Lra Lia List Bool Psatz.
From Verif Require Import Base.Num Base.Vec Base.VecR C08.Model C08.VecLemmas C08.Rules C08.ConjRules
  C08.Leaves C08.ProxRules C08.Moreau C08.GradEq.
Import ListNotations.
Local Open Scope R_scope.

(* leaves for which the equality is proved (L2Norm, LpNorm(inf), their balls and abstract pairs are left to C07) *)
Fixpoint PPok (e : fxR) : Prop :=
  match e with
  | FLp P1 | FIndBall Pinf | FL2Sq | FConst _ | FIndZero _ | FHuber _ => True
  | FLp _ | FIndBall _ | FQuadS _ _ _ | FPair _ _ => False
  | FLeft _ f | FRight _ f | FRightVec _ f | FScalarSum f _ | FTransl f _ | FQuadPert f _ _ _ | FDefConj f | FBreg f => PPok f
  | FSum f g | FInfConv f g | FSep2 _ f g => PPok f /\ PPok g
  end.

(* ------------------------------------------------------------ pointwise -> vector *)
Lemma wdot_maps (f g : R -> R) (w x : Rvec) : wdot w (map f x) (map g x) = wsum w (map (fun a => f a * g a) x).
Proof.
  revert x; induction w as [|c w IH]; intros [|a x]; cbn [map]; rewrite ?wdot_nil_w, ?wdot_nil_x; try reflexivity.
  rewrite wdot_c, wsum_cons, IH. reflexivity.
Qed.
Lemma wsum_map_lin (F G : R -> R) k (w x : Rvec) :
  wsum w (map F x) + k * wsum w (map G x) = wsum w (map (fun a => F a + k * G a) x).
Proof.
  revert x; induction w as [|c w IH]; intros [|a x]; cbn [map]; try (unfold wsum; cbn; numR; lra).
  rewrite !wsum_cons, <- IH. ring.
Qed.
Lemma wsum_map_ext (F G : R -> R) (w x : Rvec) : (forall a, F a = G a) -> wsum w (map F x) = wsum w (map G x).
Proof. intros E. f_equal. apply map_ext, E. Qed.
Lemma vmaxabs_map_le (y : R -> R) (x : Rvec) : (forall a, Rabs (y a) <= 1) -> vmaxabs (map y x) <= 1.
Proof.
  intros Hy. induction x as [|a x IH]; cbn [map]; [cbn; numR; lra|]. rewrite vmaxabs_cons. apply Rmax_lub; auto.
Qed.
Lemma vscal_vsub_map k (f : R -> R) (x : Rvec) : vscal k (vsub x (map f x)) = map (fun a => k * (a - f a)) x.
Proof. induction x as [|a x IH]; [reflexivity|]. unfold vscal, vsub in *. cbn [map vmap2]. rewrite IH. reflexivity. Qed.

Lemma vscal_vsub_self c k (x : Rvec) : vscal c (vsub x (vscal k x)) = vscal (c * (1 - k)) x.
Proof. induction x as [|a x IH]; [reflexivity|]. unfold vscal, vsub in *. cbn [map vmap2]. rewrite IH. numR. f_equal. ring. Qed.

(* ------------------------------------------------------------ entrywise leaf facts *)
Lemma soft_point sigma a : 0 < sigma ->
  let p := @soft1 R _ (sigma * 1) a in let y := 1 / sigma * (a - p) in Rabs y <= 1 /\ Rabs p = p * y.
Proof.
  intros Hs. cbv zeta. unfold soft1. rewrite nmax_R. numR.
  destruct (Rle_dec (Rabs a) sigma) as [Hle|Hgt].
  - rewrite Rmax_right.
    2:{ apply (Rmult_le_reg_r (sigma * 1)); [lra|]. unfold Rdiv. rewrite Rmult_assoc, Rinv_l by lra. lra. }
    replace (a - a / 1) with 0 by field. rewrite Rabs_R0.
    replace (1 / sigma * (a - 0)) with (a / sigma) by (field; lra). split; [|ring].
    unfold Rdiv. rewrite Rabs_mult, Rabs_inv, (Rabs_right sigma) by lra.
    apply (Rmult_le_reg_r sigma); [lra|]. rewrite Rmult_assoc, Rinv_l by lra. lra.
  - assert (Hgt' : sigma < Rabs a) by lra. assert (Hpos : 0 < Rabs a) by lra.
    rewrite Rmax_left.
    2:{ apply (Rmult_le_reg_r (sigma * 1)); [lra|]. unfold Rdiv. rewrite Rmult_assoc, Rinv_l by lra. lra. }
    assert (Ep : a - a / (Rabs a / (sigma * 1)) = a * (1 - sigma / Rabs a)) by (field; lra).
    rewrite Ep.
    assert (Ey : 1 / sigma * (a - a * (1 - sigma / Rabs a)) = a / Rabs a) by (field; lra).
    rewrite Ey.
    assert (Haa : a * a = Rabs a * Rabs a) by (unfold Rabs; destruct (Rcase_abs a); ring).
    assert (Hfac : 0 < 1 - sigma / Rabs a).
    { apply Rlt_Rminus. apply (Rmult_lt_reg_r (Rabs a)); [lra|]. unfold Rdiv. rewrite Rmult_assoc, Rinv_l by lra. lra. }
    split.
    + unfold Rdiv. rewrite Rabs_mult, Rabs_inv, Rabs_Rabsolu. rewrite Rinv_r by lra. lra.
    + rewrite Rabs_mult, (Rabs_right (1 - sigma / Rabs a)) by lra.
      replace (a * (1 - sigma / Rabs a) * (a / Rabs a)) with ((a * a) / Rabs a * (1 - sigma / Rabs a)) by (field; lra).
      rewrite Haa. field. lra.
Qed.

Lemma clip_point sigma a : 0 < sigma ->
  let p := @clip1 R _ a in let y := 1 / sigma * (a - p) in Rabs p <= 1 /\ Rabs y = p * y.
Proof.
  intros Hs. cbv zeta. unfold clip1. rewrite nmax_R. numR.
  destruct (Rle_dec (Rabs a) 1) as [Hle|Hgt].
  - rewrite Rmax_right by assumption. replace (a / (1 / 1)) with a by field.
    replace (1 / sigma * (a - a)) with 0 by ring. rewrite Rabs_R0. split; [assumption | ring].
  - assert (Hgt' : 1 < Rabs a) by lra. rewrite Rmax_left by lra.
    replace (a / (Rabs a / 1)) with (a / Rabs a) by (field; lra).
    assert (Haa : a * a = Rabs a * Rabs a) by (unfold Rabs; destruct (Rcase_abs a); ring).
    split.
    + unfold Rdiv. rewrite Rabs_mult, Rabs_inv, Rabs_Rabsolu. rewrite Rinv_r by lra. lra.
    + assert (Ey : 1 / sigma * (a - a / Rabs a) = a * ((1 - 1 / Rabs a) / sigma)) by (field; lra).
      rewrite Ey.
      assert (Hfac : 0 < (1 - 1 / Rabs a) / sigma).
      { apply Rdiv_lt_0_compat; [|assumption]. apply Rlt_Rminus.
        apply (Rmult_lt_reg_r (Rabs a)); [lra|]. unfold Rdiv. rewrite Rmult_assoc, Rinv_l by lra. lra. }
      rewrite Rabs_mult, (Rabs_right ((1 - 1 / Rabs a) / sigma)) by lra.
      replace (a / Rabs a * (a * ((1 - 1 / Rabs a) / sigma))) with ((a * a) / Rabs a * ((1 - 1 / Rabs a) / sigma)) by (field; lra).
      rewrite Haa. field. lra.
Qed.

Lemma huber_point g sigma a : 0 < g -> 0 < sigma ->
  let p := @huber_prox1 R _ g sigma a in let y := 1 / sigma * (a - p) in
  Rabs y <= 1 /\ @huber1 R _ g p + g / 2 * (y * y) = p * y.
Proof.
  intros Hg Hs. cbv zeta. unfold huber_prox1, huber1. numR. rewrite (Rltb_true 0 g Hg).
  destruct (Rleb_spec (Rabs a) (g + sigma)) as [Hle|Hgt].
  - (* quadratic zone: p = g a / (g + sigma), y = a / (g + sigma) *)
    assert (Ey : 1 / sigma * (a - g / (g + sigma) * a) = a / (g + sigma)) by (field; lra).
    rewrite Ey.
    assert (Hy : Rabs (a / (g + sigma)) <= 1).
    { unfold Rdiv. rewrite Rabs_mult, Rabs_inv, (Rabs_right (g + sigma)) by lra.
      apply (Rmult_le_reg_r (g + sigma)); [lra|]. rewrite Rmult_assoc, Rinv_l by lra. lra. }
    split; [assumption|].
    assert (Ep : g / (g + sigma) * a = g * (a / (g + sigma))) by (field; lra). rewrite Ep.
    set (y := a / (g + sigma)) in *.
    assert (Habs : Rabs (g * y) = g * Rabs y) by (rewrite Rabs_mult, (Rabs_right g) by lra; reflexivity).
    destruct (Rleb_spec g (Rabs (g * y))) as [Hb|Hb].
    + (* |p| = g exactly: both formulas agree *)
      rewrite Habs in *. assert (Rabs y = 1) by nra.
      assert (y * y = 1) by (replace (y * y) with (Rabs y * Rabs y) by (unfold Rabs; destruct (Rcase_abs y); ring); nra).
      nra.
    + field. lra.
  - (* linear zone: p = a (1 - sigma/|a|), y = a/|a| *)
    assert (Hgt' : g + sigma < Rabs a) by lra. assert (Hpos : 0 < Rabs a) by lra.
    assert (Ey : 1 / sigma * (a - (1 - sigma / Rabs a) * a) = a / Rabs a) by (field; lra).
    rewrite Ey.
    assert (Haa : a * a = Rabs a * Rabs a) by (unfold Rabs; destruct (Rcase_abs a); ring).
    assert (Hy1 : Rabs (a / Rabs a) = 1).
    { unfold Rdiv. rewrite Rabs_mult, Rabs_inv, Rabs_Rabsolu. rewrite Rinv_r by lra. reflexivity. }
    split; [lra|].
    assert (Hfac : 0 < 1 - sigma / Rabs a).
    { apply Rlt_Rminus. apply (Rmult_lt_reg_r (Rabs a)); [lra|]. unfold Rdiv. rewrite Rmult_assoc, Rinv_l by lra. lra. }
    assert (Hp : Rabs ((1 - sigma / Rabs a) * a) = Rabs a - sigma).
    { rewrite Rabs_mult, (Rabs_right (1 - sigma / Rabs a)) by lra. field. lra. }
    rewrite Hp. rewrite (Rleb_true g (Rabs a - sigma)) by lra.
    assert (Eyy : a / Rabs a * (a / Rabs a) = 1) by (unfold Rdiv; field_simplify_eq; [lra | lra]).
    rewrite Eyy.
    replace ((1 - sigma / Rabs a) * a * (a / Rabs a)) with ((a * a) / Rabs a * (1 - sigma / Rabs a)) by (field; lra).
    rewrite Haa. field. lra.
Qed.

Section PP.
Variable sqrtf : R -> R.
Hypothesis sqrtf_spec : forall a, 0 <= a -> 0 <= sqrtf a /\ sqrtf a * sqrtf a = a.
Notation val := (@value R _ sqrtf 0).
Notation prx := (@prox R _ sqrtf).
Notation cj := (@cconj R _).
Notation cval := (cval sqrtf).

Ltac fxind2 e :=
  induction e as [p|p| |c|c|g|a b c|s f IHf|s f IHf|v f IHf|f IHf g IHg|f IHf c|f IHf t|f IHf a u c
                 |f IHf g IHg|f IHf|qb IHq|k f IHf g IHg|pb P].

(* the subgradient read off the proximal point *)
Definition sg (sigma : R) (x p : Rvec) : Rvec := vscal (1 / sigma) (vsub x p).


Lemma sqrtf_z : sqrtf 0 = 0.
Proof. destruct (sqrtf_spec 0 ltac:(lra)) as [H1 H2]. nra. Qed.

(* vector identities for the rules *)
Lemma sg_right s sigma (x p0 : Rvec) : s <> 0 -> sigma <> 0 ->
  vscal (1 / s) (vscal (1 / sigma) (vsub x (vscal (1 / s) p0)))
  = vscal (1 / (sigma * (s * s))) (vsub (vscal s x) p0).
Proof.
  intros Hs Hg. rewrite !vscal_vsub, !vscal_vscal. f_equal; f_equal; field; split; assumption.
Qed.
Lemma vadd_sub_left (t p0 : Rvec) : length t = length p0 -> vsub (vadd t p0) t = p0.
Proof.
  revert p0; induction t as [|a t IH]; intros [|b p0] Hl; cbn in Hl; try lia; [reflexivity|].
  unfold vsub, vadd in *. cbn [vmap2]. rewrite IH by lia. numR. f_equal. ring.
Qed.
Lemma vsub_vadd_assoc (x t p0 : Rvec) : vsub x (vadd t p0) = vsub (vsub x t) p0.
Proof. rewrite vsub_vsub. f_equal. apply vadd_comm. Qed.

Theorem prox_point_all e : forall n w x sigma p vp vq,
  wf n e -> PPok e -> wpos w -> length w = n -> length x = n -> 0 < sigma ->
  prx e w sigma x = Ok p -> val e w p = Ok vp -> cval w e (sg sigma x p) = Ok vq ->
  geq vp vq (wdot w p (sg sigma x p)).
Proof.
  fxind2 e; intros n w x sigma r vp vq Hwf Hpp Hw Lw Lx Hs Hp Hv Hc; cbn [PPok] in Hpp; try contradiction; unfold sg in *.
  - (* L1 *) destruct p; try contradiction. cbn in Hp, Hv, Hc. inv_ok. unfold geq. numR.
    rewrite vscal_vsub_map in *.
    rewrite (Rltb_false (1 + 0)).
    2:{ pose proof (vmaxabs_map_le (fun a => 1 / sigma * (a - @soft1 R _ (sigma * 1) a)) x
                      (fun a => proj1 (soft_point sigma a Hs))). lra. }
    cbn [eadd]. fin_ring. change (@nabs R _) with Rabs. rewrite wdot_maps, map_map.
    rewrite Rplus_0_r. apply wsum_map_ext. intros a. exact (proj2 (soft_point sigma a Hs)).
  - (* unit inf-ball *) destruct p; try contradiction. cbn in Hp, Hv, Hc. inv_ok. unfold geq. numR.
    rewrite vscal_vsub_map in *.
    rewrite (Rltb_false (1 + 0)).
    2:{ pose proof (vmaxabs_map_le (@clip1 R _) x (fun a => proj1 (clip_point sigma a Hs))). lra. }
    cbn [eadd]. fin_ring. change (@nabs R _) with Rabs. rewrite wdot_maps, map_map.
    rewrite Rplus_0_l. apply wsum_map_ext. intros a. exact (proj2 (clip_point sigma a Hs)).
  - (* L2^2 *) cbn [prox value] in Hp, Hv. inv_ok.
    unfold Rules.cval in Hc. cbn [cconj] in Hc. unfold rmul, quarter in Hc. numR.
    rewrite Reqb_false in Hc by lra. cbn in Hc. inv_ok. unfold geq. cbn [eadd]. numR.
    rewrite vscal_vsub_self, !wdot_vscal_l, !wdot_vscal_r. fin_ring. field. lra.
  - (* Constant *) cbn in Hp, Hv, Hc. inv_ok. unfold geq, norm2. numR.
    rewrite vsub_self, !wdot_vscal_l, !wdot_vscal_r, !wdot_zmap_r.
    replace (1 / sigma * (1 / sigma * 0)) with 0 by ring. rewrite sqrtf_z, (Reqb_true 0 0) by reflexivity.
    cbn [eadd]. fin_ring.
  - (* IndicatorZero *) cbn in Hp, Hv, Hc. inv_ok. unfold geq, norm2. numR.
    rewrite wdot_zmap_r, sqrtf_z, (Reqb_true 0 0) by reflexivity. cbn [eadd]. numR.
    rewrite wdot_comm, wdot_zmap_r. fin_ring.
  - (* Huber *) cbn [wf] in Hwf. cbn [prox value] in Hp, Hv. inv_ok.
    unfold Rules.cval in Hc. cbn [cconj value rbind lpnorm] in Hc. numR. inv_ok. unfold geq.
    rewrite vscal_vsub_map in *.
    rewrite (Rltb_false (1 + 0)).
    2:{ pose proof (vmaxabs_map_le (fun a => 1 / sigma * (a - @huber_prox1 R _ g sigma a)) x
                      (fun a => proj1 (huber_point g sigma a Hwf Hs))). lra. }
    cbn [eadd]. numR. rewrite wdot_zero_r. fin_ring.
    rewrite !wdot_maps, map_map.
    transitivity (wsum w (map (fun a => @huber1 R _ g (@huber_prox1 R _ g sigma a)) x)
                  + g / 2 * wsum w (map (fun a => 1 / sigma * (a - @huber_prox1 R _ g sigma a) *
                                                  (1 / sigma * (a - @huber_prox1 R _ g sigma a))) x)); [lra|].
    rewrite wsum_map_lin. apply wsum_map_ext. intros a. exact (proj2 (huber_point g sigma a Hwf Hs)).
  - (* FLeft *) cbn [wf] in Hwf. destruct Hwf as [Hpos Hwf]. rewrite prox_FLeft_pos in Hp by assumption.
    rewrite cval_FLeft in Hc by assumption. cbn [value] in Hv.
    destruct (val f w r) as [v|] eqn:E1; cbn [rbind] in Hv; inv_ok.
    rewrite vscal_vscal in Hc. replace (1 / s * (1 / sigma)) with (1 / (sigma * s)) in Hc by (field; lra).
    destruct (cval w f _) as [v'|] eqn:E2; cbn [rbind] in Hc; inv_ok.
    pose proof (IHf n w x (sigma * s) r v v' Hwf Hpp Hw Lw Lx ltac:(nra) Hp E1 E2) as H.
    apply (geq_escal s) in H. eapply geq_eq; [|exact H].
    rewrite !wdot_vscal_r. field. lra.
  - (* FRight: the reflection rule for s < 0 *) cbn [wf] in Hwf. destruct Hwf as [Hnz Hwf].
    cbn [prox] in Hp. unfold arg_scaling in Hp. numR. rewrite (Reqb_false s 0) in Hp by assumption.
    destruct (prx f w (sigma * (s * s)) (vscal s x)) as [p0|] eqn:E0; cbn [rbind] in Hp; inv_ok.
    cbn [value] in Hv. rewrite vscal_inv_r in Hv by assumption.
    rewrite cval_FRight in Hc by assumption. rewrite sg_right in Hc by (assumption || lra).
    assert (Hss : 0 < sigma * (s * s)) by (assert (0 < s * s) by nra; nra).
    pose proof (IHf n w (vscal s x) (sigma * (s * s)) p0 vp vq Hwf Hpp Hw Lw
                  ltac:(rewrite vscal_length; assumption) Hss E0 Hv Hc) as H.
    eapply geq_eq; [|exact H].
    rewrite (wdot_vscal_l w p0), <- wdot_vscal_r, sg_right by (assumption || lra). reflexivity.
  - (* FRightVec *) cbn [prox] in Hp. discriminate.
  - (* FSum *) cbn [prox] in Hp. discriminate.
  - (* FScalarSum *) cbn [wf prox value] in *. rewrite cval_FScalarSum in Hc. unfold radd in *.
    destruct (val f w r) as [v|] eqn:E1; cbn [rbind] in Hv; inv_ok.
    destruct (cval w f _) as [v'|] eqn:E2; cbn [rbind] in Hc; inv_ok.
    pose proof (IHf n w x sigma r v v' Hwf Hpp Hw Lw Lx Hs Hp E1 E2) as H.
    apply (geq_shift _ _ _ c (-1 * c)) in H. eapply geq_eq; [|exact H]. ring.
  - (* FTransl *) cbn [wf] in Hwf. destruct Hwf as [Lt Hwf]. cbn [prox] in Hp.
    destruct (prx f w sigma (vsub x t)) as [p0|] eqn:E0; cbn [rbind] in Hp; inv_ok.
    assert (Lp0 : length p0 = n).
    { eapply (prox_length sqrtf f n); [apply wf_lenwf; exact Hwf| |exact E0]. rewrite vsub_length; congruence. }
    cbn [value] in Hv. rewrite vadd_sub_left in Hv by congruence.
    rewrite cval_FTransl in Hc. rewrite vsub_vadd_assoc in Hc.
    destruct (cval w f _) as [v'|] eqn:E2; cbn [rbind] in Hc; inv_ok.
    pose proof (IHf n w (vsub x t) sigma p0 vp v' Hwf Hpp Hw Lw ltac:(rewrite vsub_length; congruence) Hs E0 Hv E2) as H.
    set (y := vscal (1 / sigma) (vsub (vsub x t) p0)) in *.
    apply (geq_shift_r _ _ _ (0 * wdot w y y)) in H.
    apply (geq_shift_r _ _ _ (wdot w y t)) in H.
    apply (geq_shift_r _ _ _ 0) in H.
    eapply geq_eq; [|exact H].
    rewrite vsub_vadd_assoc. fold y. rewrite wdot_vadd_l by congruence. rewrite (wdot_comm w t y). ring.
  - (* FQuadPert *) cbn [wf] in Hwf. destruct Hwf as (Ha & Lu & Hwf).
    destruct (Req_dec a 0) as [->|Hna]; [|rewrite cval_FQuadPert_a in Hc by assumption; discriminate].
    rewrite (prox_QP0 sqrtf sqrtf_spec) in Hp. rewrite cval_FQuadPert0 in Hc. cbn [value] in Hv.
    destruct (val f w r) as [v|] eqn:E1; cbn [rbind] in Hv; inv_ok.
    assert (Lr : length r = n).
    { eapply (prox_length sqrtf f n); [apply wf_lenwf; exact Hwf| |exact Hp]. rewrite vsub_length; rewrite ?vscal_length; congruence. }
    assert (Ey : vsub (vscal (1 / sigma) (vsub x r)) u = vscal (1 / sigma) (vsub (vsub x (vscal sigma u)) r)).
    { rewrite !vscal_vsub, vscal_inv_l by lra. rewrite !vsub_vsub. f_equal. apply vadd_comm. }
    rewrite Ey in Hc.
    assert (Hcore : forall v', cval w f (vscal (1 / sigma) (vsub (vsub x (vscal sigma u)) r)) = Ok v' ->
              geq (eadd (eadd (eadd v (EFin (0 * wdot w r r))) (EFin (wdot w r u))) (EFin c))
                  (eadd v' (EFin (- 1 * c))) (wdot w r (vscal (1 / sigma) (vsub x r)))).
    { intros v' E2.
      pose proof (IHf n w (vsub x (vscal sigma u)) sigma r v v' Hwf Hpp Hw Lw
                    ltac:(rewrite vsub_length; rewrite ?vscal_length; congruence) Hs Hp E1 E2) as H.
      apply (geq_shift_l _ _ _ (0 * wdot w r r)) in H.
      apply (geq_shift_l _ _ _ (wdot w r u)) in H.
      apply (geq_shift _ _ _ c (-1 * c)) in H. numR.
      eapply geq_eq; [|exact H].
      rewrite <- Ey. rewrite wdot_vsub_r by (rewrite vscal_length, vsub_length; congruence). ring. }
    destruct (Reqb_spec c 0) as [->|Hcn].
    + specialize (Hcore vq Hc). unfold geq in *.
      destruct v, vq; cbn [eadd] in *; try discriminate. injection Hcore as Hcore. fin_ring. lra.
    + unfold radd in Hc. destruct (cval w f _) as [v'|] eqn:E2; cbn [rbind] in Hc; inv_ok.
      apply Hcore. reflexivity.
  - (* FInfConv *) cbn [prox] in Hp. discriminate.
  - (* FDefConj *) cbn [value] in Hv. discriminate.
  - (* FBreg *) cbn [wf prox value] in *. rewrite cval_FBreg in Hc. exact (IHq n w x sigma r vp vq Hwf Hpp Hw Lw Lx Hs Hp Hv Hc).
  - (* FSep2 *) cbn [wf] in Hwf. destruct Hwf as (Hk & Hwf1 & Hwf2). destruct Hpp as [P1 P2].
    cbn [prox] in Hp.
    destruct (prx f (firstn k w) sigma (firstn k x)) as [p1|] eqn:E1; cbn [rbind] in Hp; inv_ok.
    destruct (prx g (skipn k w) sigma (skipn k x)) as [p2|] eqn:E2; cbn [rbind] in Hp; inv_ok.
    assert (Lf : forall l : Rvec, length l = n -> length (firstn k l) = k) by (intros l Hl; rewrite firstn_length; lia).
    assert (Ls : forall l : Rvec, length l = n -> length (skipn k l) = (n - k)%nat) by (intros l Hl; rewrite skipn_length; lia).
    pose proof (prox_length sqrtf f k _ _ _ _ (wf_lenwf f k Hwf1) (Lf x Lx) E1) as Lp1.
    assert (F1 : firstn k (p1 ++ p2) = p1).
    { rewrite firstn_app. replace (k - length p1)%nat with 0%nat by lia. rewrite firstn_all2 by lia. cbn [firstn]. apply app_nil_r. }
    assert (F2 : skipn k (p1 ++ p2) = p2).
    { rewrite skipn_app. replace (k - length p1)%nat with 0%nat by lia. rewrite skipn_all2 by lia. reflexivity. }
    cbn [value] in Hv. unfold radd in Hv. rewrite F1, F2 in Hv.
    destruct (val f (firstn k w) p1) as [v1|] eqn:V1; cbn [rbind] in Hv; inv_ok.
    destruct (val g (skipn k w) p2) as [v2|] eqn:V2; cbn [rbind] in Hv; inv_ok.
    apply cval_FSep2_inv in Hc. destruct Hc as (u1 & u2 & C1 & C2 & ->).
    assert (G1 : firstn k (vscal (1 / sigma) (vsub x (p1 ++ p2))) = vscal (1 / sigma) (vsub (firstn k x) p1)).
    { rewrite firstn_vscal. f_equal. rewrite <- (firstn_skipn k x) at 1. rewrite vsub_app by (rewrite Lf; congruence).
      rewrite firstn_app, firstn_all2 by (rewrite vsub_length; rewrite Lf; try congruence; lia).
      replace (k - length (vsub (firstn k x) p1))%nat with 0%nat by (rewrite vsub_length; rewrite Lf; try congruence; lia).
      cbn [firstn]. apply app_nil_r. }
    assert (G2 : skipn k (vscal (1 / sigma) (vsub x (p1 ++ p2))) = vscal (1 / sigma) (vsub (skipn k x) p2)).
    { rewrite skipn_vscal. f_equal. rewrite <- (firstn_skipn k x) at 1. rewrite vsub_app by (rewrite Lf; congruence).
      rewrite skipn_app, skipn_all2 by (rewrite vsub_length; rewrite Lf; try congruence; lia).
      replace (k - length (vsub (firstn k x) p1))%nat with 0%nat by (rewrite vsub_length; rewrite Lf; try congruence; lia).
      reflexivity. }
    rewrite G1 in C1. rewrite G2 in C2.
    pose proof (IHf k _ _ sigma p1 v1 u1 Hwf1 P1 (wpos_firstn k w Hw) (Lf w Lw) (Lf x Lx) Hs E1 V1 C1) as H1.
    pose proof (IHg (n - k)%nat _ _ sigma p2 v2 u2 Hwf2 P2 (wpos_skipn k w Hw) (Ls w Lw) (Ls x Lx) Hs E2 V2 C2) as H2.
    rewrite (wdot_split k w (p1 ++ p2)), F1, F2, G1, G2. apply geq_sum; assumption.
Qed.

End PP.

Lemma prox_point_tree (sqrtf : R -> R) :
  (forall a, 0 <= a -> 0 <= sqrtf a /\ sqrtf a * sqrtf a = a) ->
  forall (e e' : fxR) n w x sigma p vp vq,
  wf n e -> PPok e -> wpos w -> length w = n -> length x = n -> 0 < sigma ->
  prox sqrtf e w sigma x = Ok p -> value sqrtf 0 e w p = Ok vp ->
  cconj w e = Ok e' -> value sqrtf 0 e' w (vscal (1 / sigma) (vsub x p)) = Ok vq ->
  eadd vp vq = EFin (wdot w p (vscal (1 / sigma) (vsub x p))).
Proof.
  intros Hsq e e' n w x sigma p vp vq Hwf Hpp Hw Lw Lx Hs Hp Hv Hc Hv'.
  apply (prox_point_all sqrtf Hsq e n w x sigma p vp vq); auto. unfold cval, sg. rewrite Hc. exact Hv'.
Qed.

(* a reflected, translated L1 norm: |-(x) - t|_1 *)
Lemma PP_example_proof :
  let e : fxR := FRight (-1) (FTransl (FLp P1) [1; -2]) in
  wf 2 e /\ PPok e /\ (exists p, prox sqrt e [1; 1] (1 / 2) [3; 0] = Ok p).
Proof.
  cbv zeta. split; [|split].
  - cbn [wf length]. repeat split; lra.
  - exact I.
  - cbn [prox]. unfold arg_scaling. numR. rewrite (Reqb_false (-1) 0) by lra. cbn [prox rbind]. eexists. reflexivity.
Qed.
