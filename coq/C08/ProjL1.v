(* C08/ProjL1.v -- positive homogeneity of the sort-based l1-ball projection
   (proximal_operators.py: proj_l1 / proj_simplex):  proj_l1(k x, k r) = k proj_l1(x, r), k > 0.
   This is all the Moreau identity of the LpNorm(inf) <-> IndicatorLpUnitBall(1) pair needs. *)
From Coq Require Import ZArith Reals Lra Lia List Bool Psatz.
From Verif Require Import Base.Num Base.Vec Base.VecR C08.Model C08.VecLemmas C08.Rules.
Import ListNotations.
Local Open Scope R_scope.

Section H.
Variable k : R.
Hypothesis Hk : 0 < k.

Lemma Rleb_scale a b : Rleb (k * a) (k * b) = Rleb a b.
Proof.
  destruct (Rleb_spec a b) as [H|H].
  - apply Rleb_true. nra.
  - apply Rleb_false. nra.
Qed.

Lemma insert_desc_scale a (l : Rvec) :
  @insert_desc R _ (k * a) (vscal k l) = vscal k (@insert_desc R _ a l).
Proof.
  induction l as [|b l IH]; [reflexivity|]. unfold vscal in *. cbn [map insert_desc]. numR.
  rewrite Rleb_scale. destruct (Rleb b a); cbn [map]; numR; [reflexivity|]. rewrite IH. reflexivity.
Qed.
Lemma sort_desc_scale (l : Rvec) : @sort_desc R _ (vscal k l) = vscal k (@sort_desc R _ l).
Proof.
  unfold sort_desc. induction l as [|a l IH]; [reflexivity|].
  unfold vscal in *. cbn [map fold_right]. rewrite IH. numR. apply insert_desc_scale.
Qed.

Definition oscale (o : option R) : option R := match o with Some t => Some (k * t) | None => None end.

Lemma simplex_scan_scale d j cum best (l : Rvec) : (0 < j)%Z ->
  @simplex_scan R _ (k * d) j (k * cum) (oscale best) (vscal k l)
  = oscale (@simplex_scan R _ d j cum best l).
Proof.
  revert j cum best; induction l as [|a l IH]; intros j cum best Hj; [reflexivity|].
  unfold vscal in *. cbn [map simplex_scan]. numR.
  replace (k * cum + k * a) with (k * (cum + a)) by ring.
  assert (Havg : 1 / IZR j * (k * (cum + a) - k * d) = k * (1 / IZR j * (cum + a - d))) by ring.
  rewrite Havg.
  replace (k * a - k * (1 / IZR j * (cum + a - d))) with (k * (a - 1 / IZR j * (cum + a - d))) by ring.
  replace 0 with (k * 0) at 1 by ring. rewrite Rleb_scale.
  destruct (Rleb 0 (a - 1 / IZR j * (cum + a - d))).
  - change (Some (k * (1 / IZR j * (cum + a - d)))) with (oscale (Some (1 / IZR j * (cum + a - d)))).
    apply IH. lia.
  - apply IH. lia.
Qed.

Lemma Rmax_scale a b : Rmax (k * a) (k * b) = k * Rmax a b.
Proof. apply RmaxRmult. lra. Qed.

Lemma proj_simplex_scale (u : Rvec) d :
  @proj_simplex R _ (vscal k u) (k * d) =
  match @proj_simplex R _ u d with Ok p => Ok (vscal k p) | Err er => Err er end.
Proof.
  unfold proj_simplex. rewrite sort_desc_scale.
  replace (@nzero R _) with (k * 0) at 1 by (numR; ring).
  change (@None R) with (oscale None) at 1.
  rewrite simplex_scan_scale by lia. numR.
  destruct (simplex_scan d 1 0 None (sort_desc u)) as [th|]; cbn [oscale]; [|reflexivity].
  f_equal. unfold vscal. rewrite !map_map. apply map_ext. intros a. rewrite !nmax_R. numR.
  replace (k * a - k * th) with (k * (a - th)) by ring. replace 0 with (k * 0) at 1 by ring.
  apply Rmax_scale.
Qed.

Lemma nsign_scale a : @nsign R _ (k * a) = @nsign R _ a.
Proof.
  unfold nsign. numR.
  destruct (Rltb_spec 0 a) as [Hp|Hnp].
  - rewrite Rltb_true by nra. reflexivity.
  - rewrite (Rltb_false 0 (k * a)) by nra.
    destruct (Rltb_spec a 0) as [Hn|Hnn].
    + rewrite Rltb_true by nra. reflexivity.
    + rewrite Rltb_false by nra. reflexivity.
Qed.

Lemma sumf_vscal (l : Rvec) : sumf (vscal k l) = k * sumf l.
Proof. induction l as [|a l IH]; unfold vscal in *; cbn [map sumf]; numR; [ring | rewrite IH; ring]. Qed.
Lemma map_abs_vscal (x : Rvec) : map (@nabs R _) (vscal k x) = vscal k (map (@nabs R _) x).
Proof.
  unfold vscal. rewrite !map_map. apply map_ext. intros a. numR.
  rewrite Rabs_mult, (Rabs_right k) by lra. reflexivity.
Qed.
Lemma vmul_vscal_l (p s : Rvec) : vmul (vscal k p) s = vscal k (vmul p s).
Proof.
  revert s; induction p as [|a p IH]; intros [|b s]; unfold vmul, vscal in *; cbn [map vmap2]; try reflexivity.
  rewrite IH. numR. f_equal. ring.
Qed.

Theorem proj_l1_scale (x : Rvec) r :
  @proj_l1 R _ (vscal k x) (k * r) =
  match @proj_l1 R _ x r with Ok p => Ok (vscal k p) | Err er => Err er end.
Proof.
  unfold proj_l1. rewrite map_abs_vscal, sumf_vscal. numR. rewrite Rleb_scale.
  match goal with |- context [if ?c then _ else _] => destruct c end; [reflexivity|].
  rewrite proj_simplex_scale.
  match goal with |- context [proj_simplex ?u ?d] => destruct (proj_simplex u d) as [p|] end;
    cbn [rbind]; [|reflexivity].
  f_equal. rewrite vmul_vscal_l. f_equal. f_equal.
  unfold vscal. rewrite map_map. apply map_ext. intros a. apply nsign_scale.
Qed.

End H.
