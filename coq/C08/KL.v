(* C08/KL.v -- the Kullback-Leibler pairs (default_functionals.py: KullbackLeibler <->
   KullbackLeiblerConvexConj, KullbackLeiblerCrossEntropy <-> ...ConvexConj), on weighted R^n.
   The value formulas are transcribed by hand from the four _call bodies (scipy's xlogy with its
   0 * log(.) = 0 convention); they use ln/exp and are therefore NOT executed by the correspondence:
   tie = the probes of harness/c08.py only.  Proved: Fenchel-Young on the domains, and equality at
   the gradients 1 - g/x and ln(x/g). *)
From Coq Require Import ZArith Reals Lra Lia List Bool Psatz.
From Verif Require Import Base.Num Base.Vec Base.VecR C08.VecLemmas.
Import ListNotations.
Local Open Scope R_scope.

Definition xlogy (a b : R) : R := if Req_EM_T a 0 then 0 else a * ln b.

(* entrywise integrands *)
Definition kl1 (g x : R) : R := x - g + xlogy g (g / x).          (* KullbackLeibler, prior g *)
Definition klc1 (g y : R) : R := - xlogy g (1 - y).               (* its convex conjugate *)
Definition kce1 (g x : R) : R := g - x + xlogy x (x / g).         (* KullbackLeiblerCrossEntropy *)
Definition kcec1 (g y : R) : R := g * (exp y - 1).                (* its convex conjugate *)

Lemma ln_div a b : 0 < a -> 0 < b -> ln (a / b) = ln a - ln b.
Proof.
  intros Ha Hb. unfold Rdiv. rewrite ln_mult by (try assumption; apply Rinv_0_lt_compat; assumption).
  rewrite ln_Rinv by assumption. ring.
Qed.

Lemma ln_le_sub1 t : 0 < t -> ln t <= t - 1.
Proof.
  intros Ht. pose proof (exp_ineq1_le (ln t)) as H. rewrite exp_ln in H by assumption. lra.
Qed.

Lemma kl1_fy g x y : 0 <= g -> 0 < x -> y < 1 -> x * y <= kl1 g x + klc1 g y.
Proof.
  intros Hg Hx Hy. unfold kl1, klc1, xlogy. destruct (Req_EM_T g 0) as [->|Hnz]; [nra|].
  assert (Hgp : 0 < g) by lra.
  set (t := x * (1 - y) / g).
  assert (Ht : 0 < t) by (unfold t; apply Rdiv_lt_0_compat; nra).
  pose proof (ln_le_sub1 t Ht) as Hl.
  assert (Elt : ln t = ln x + ln (1 - y) - ln g).
  { unfold t. rewrite ln_div by (try assumption; nra). rewrite ln_mult by lra. reflexivity. }
  rewrite ln_div by lra.
  assert (Egt : g * t = x * (1 - y)) by (unfold t; field; lra).
  assert (g * ln t <= g * (t - 1)) by (apply Rmult_le_compat_l; lra).
  rewrite Elt in H. nra.
Qed.
Lemma kl1_eq g x : 0 < g -> 0 < x -> kl1 g x + klc1 g (1 - g / x) = x * (1 - g / x).
Proof.
  intros Hg Hx. unfold kl1, klc1, xlogy. destruct (Req_EM_T g 0) as [->|Hnz]; [lra|].
  replace (1 - (1 - g / x)) with (g / x) by ring. field. lra.
Qed.

Lemma kce1_fy g x y : 0 < g -> 0 <= x -> x * y <= kce1 g x + kcec1 g y.
Proof.
  intros Hg Hx. unfold kce1, kcec1, xlogy. destruct (Req_EM_T x 0) as [->|Hnz].
  - pose proof (exp_pos y). nra.
  - assert (Hxp : 0 < x) by lra.
    set (u := ln (x / g) - y).
    pose proof (exp_ineq1_le (- u)) as He.
    assert (Eexp : g * exp y = x * exp (- u)).
    { unfold u. replace (- (ln (x / g) - y)) with (y - ln (x / g)) by ring.
      unfold Rminus. rewrite exp_plus, exp_Ropp, exp_ln by (apply Rdiv_lt_0_compat; lra). field. lra. }
    assert (x * (1 + - u) <= x * exp (- u)) by (apply Rmult_le_compat_l; lra).
    replace (g * (exp y - 1)) with (g * exp y - g) by ring. rewrite Eexp.
    assert (Eln : ln (x / g) = u + y) by (unfold u; ring). rewrite Eln. nra.
Qed.
Lemma kce1_eq g x : 0 < g -> 0 < x -> kce1 g x + kcec1 g (ln (x / g)) = x * ln (x / g).
Proof.
  intros Hg Hx. unfold kce1, kcec1, xlogy. destruct (Req_EM_T x 0) as [->|Hnz]; [lra|].
  rewrite exp_ln by (apply Rdiv_lt_0_compat; lra). field. lra.
Qed.

(* the functionals:  (integrand applied entrywise).inner(one) = sum_i w_i * integrand_i *)
Fixpoint wsum2 (h : R -> R -> R) (w g x : Rvec) : R :=
  match w, g, x with
  | c :: w', a :: g', b :: x' => c * h a b + wsum2 h w' g' x'
  | _, _, _ => 0
  end.

Definition KL (w g x : Rvec) := wsum2 kl1 w g x.
Definition KLconj (w g y : Rvec) := wsum2 klc1 w g y.
Definition KLCE (w g x : Rvec) := wsum2 kce1 w g x.
Definition KLCEconj (w g y : Rvec) := wsum2 kcec1 w g y.

Lemma wsum2_fy (h h' : R -> R -> R) (P : R -> Prop) (Q : R -> Prop) (G : R -> Prop) :
  (forall g x y, G g -> P x -> Q y -> x * y <= h g x + h' g y) ->
  forall w g x y, wpos w -> Forall G g -> Forall P x -> Forall Q y ->
  length g = length w -> length x = length w -> length y = length w ->
  wdot w x y <= wsum2 h w g x + wsum2 h' w g y.
Proof.
  intros Hh w g x y Hw; revert g x y; induction Hw as [|c w Hc Hw IH]; intros [|a g] [|b x] [|d y] HG HP HQ L1 L2 L3;
    cbn in L1, L2, L3; try lia.
  - rewrite wdot_nil_w. cbn. lra.
  - inversion HG; inversion HP; inversion HQ; subst. cbn [wsum2]. rewrite wdot_c.
    specialize (IH g x y ltac:(assumption) ltac:(assumption) ltac:(assumption) ltac:(lia) ltac:(lia) ltac:(lia)).
    assert (c * (b * d) <= c * (h a b + h' a d)) by (apply Rmult_le_compat_l; [lra | auto]).
    lra.
Qed.

Theorem kl_fenchel_young_proof w g x y :
  wpos w -> Forall (fun a => 0 <= a) g -> Forall (fun a => 0 < a) x -> Forall (fun a => a < 1) y ->
  length g = length w -> length x = length w -> length y = length w ->
  wdot w x y <= KL w g x + KLconj w g y.
Proof. intros. apply (wsum2_fy kl1 klc1 _ _ _ (fun g x y Hg Hx Hy => kl1_fy g x y Hg Hx Hy)); assumption. Qed.

Theorem klce_fenchel_young_proof w g x y :
  wpos w -> Forall (fun a => 0 < a) g -> Forall (fun a => 0 <= a) x ->
  length g = length w -> length x = length w -> length y = length w ->
  wdot w x y <= KLCE w g x + KLCEconj w g y.
Proof.
  intros Hw Hg Hx L1 L2 L3.
  apply (wsum2_fy kce1 kcec1 (fun a => 0 <= a) (fun _ => True) (fun a => 0 < a)
           (fun g x y Hg Hx _ => kce1_fy g x y Hg Hx)); try assumption.
  clear. induction y; constructor; auto.
Qed.

Lemma kl_equality_at_gradient_proof (g x : R) : 0 < g -> 0 < x ->
  kl1 g x + klc1 g (1 - g / x) = x * (1 - g / x) /\ kce1 g x + kcec1 g (ln (x / g)) = x * ln (x / g).
Proof. intros Hg Hx. split; [apply kl1_eq | apply kce1_eq]; assumption. Qed.
