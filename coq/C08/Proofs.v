(* C08/Proofs.v -- lemmas (filled in below). *)
From Coq Require Import ZArith QArith Reals Lra Lia List Bool.
From Verif Require Import Base.Num Base.Vec Base.VecR C08.Model.
Import ListNotations.
