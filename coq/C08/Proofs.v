(* C08/Proofs.v -- Fenchel-Young inequality for all functional expression trees. *)
From Coq Require Import ZArith QArith Reals Lra Lia List Bool Psatz.
From Verif Require Import Base.Num Base.Vec Base.VecR C08.Model C08.VecLemmas C08.Rules C08.ConjRules C08.Leaves.
Import ListNotations.
Local Open Scope R_scope.

(* a + b >= r  on extended values (EJunk = -inf/nan never satisfies it) *)
Definition fy (a b : extR) (r : R) : Prop :=
  match eadd a b with EFin v => r <= v | EPInf => True | EJunk => False end.

Lemma fy_escal s a b r : 0 < s -> fy a b r -> fy (escal s a) (escal s b) (s * r).
Proof.
  intros Hs. unfold fy. destruct a, b; cbn [eadd escal]; numR; rewrite ?(Rltb_true 0 s Hs); cbn [eadd]; auto.
  intros. nra.
Qed.
Lemma fy_weaken a b r r' : r' <= r -> fy a b r -> fy a b r'.
Proof. unfold fy. destruct (eadd a b); auto. intros; lra. Qed.
Lemma fy_shift a b r c d : fy a b r -> fy (eadd a (EFin c)) (eadd b (EFin d)) (r + c + d).
Proof. unfold fy. destruct a, b; cbn [eadd]; numR; auto. intros; lra. Qed.
Lemma fy_shift_r a b r d : fy a b r -> fy a (eadd b (EFin d)) (r + d).
Proof. unfold fy. destruct a, b; cbn [eadd]; numR; auto. intros; lra. Qed.
Lemma fy_shift_l a b r c : fy a b r -> fy (eadd a (EFin c)) b (r + c).
Proof. unfold fy. destruct a, b; cbn [eadd]; numR; auto. intros; lra. Qed.
Lemma fy_sum a b c d r1 r2 : fy a b r1 -> fy c d r2 -> fy (eadd a c) (eadd b d) (r1 + r2).
Proof. unfold fy. destruct a, b, c, d; cbn [eadd]; numR; auto; try tauto. intros; lra. Qed.

Section FY.
Variable sqrtf : R -> R.
Hypothesis sqrtf_spec : forall a, 0 <= a -> 0 <= sqrtf a /\ sqrtf a * sqrtf a = a.
Notation val := (@value R _ sqrtf 0).
Notation cj := (@cconj R _).
Notation cval := (cval sqrtf).
Notation lpn := (@lpnorm R _ sqrtf).

Lemma pconj_invol p : pconj (pconj p) = p.
Proof. destruct p; reflexivity. Qed.

(* Hoelder for the three modelled exponent pairs *)
Lemma lp_holder p w x y : wpos w -> length x = length y ->
  lpn (pconj p) w y <= 1 -> wdot w x y <= lpn p w x.
Proof.
  intros Hw Hl H1. destruct p; cbn [lpnorm pconj] in *; numR.
  - pose proof (holder_1_inf w x y Hw). pose proof (wsum_abs_nonneg w x Hw).
    pose proof (vmaxabs_nonneg y).
    assert (wsum w (map Rabs x) * vmaxabs y <= wsum w (map Rabs x) * 1) by (apply Rmult_le_compat_l; lra).
    change (@nabs R _) with Rabs. lra.
  - unfold norm2 in *.
    pose proof (cauchy_schwarz_sqrt sqrtf sqrtf_spec w x y Hw Hl).
    destruct (sqrtf_spec _ (wdot_self_nonneg w x Hw)) as [X1 _].
    destruct (sqrtf_spec _ (wdot_self_nonneg w y Hw)) as [Y1 _].
    assert (sqrtf (wdot w x x) * sqrtf (wdot w y y) <= sqrtf (wdot w x x) * 1) by (apply Rmult_le_compat_l; lra).
    lra.
  - change (@nabs R _) with Rabs in *.
    pose proof (holder_1_inf w y x Hw). pose proof (wsum_abs_nonneg w y Hw).
    pose proof (vmaxabs_nonneg x). rewrite wdot_comm.
    assert (wsum w (map Rabs y) * vmaxabs x <= 1 * vmaxabs x) by (apply Rmult_le_compat_r; lra).
    lra.
Qed.

Lemma norm2_zero w y : wpos w -> norm2 sqrtf w y = 0 -> wdot w y y = 0.
Proof. intros Hw H. unfold norm2 in H. apply (sqrtf_zero sqrtf sqrtf_spec); [apply wdot_self_nonneg; assumption | assumption]. Qed.

Lemma huber_vec_fy g w x y : wpos w -> 0 < g -> length x = length w -> length y = length w ->
  vmaxabs y <= 1 -> wdot w x y <= wsum w (map (@huber1 R _ g) x) + g / 2 * wdot w y y.
Proof.
  intros Hw Hg; revert x y; induction Hw as [|c w Hc Hw IH]; intros [|a x] [|b y] H1 H2 Hm;
    cbn in H1, H2; try lia.
  - rewrite !wdot_nil_w. cbn. numR. lra.
  - cbn [map]. rewrite !wdot_c, wsum_cons. rewrite vmaxabs_cons in Hm.
    pose proof (Rmax_l (Rabs b) (vmaxabs y)). pose proof (Rmax_r (Rabs b) (vmaxabs y)).
    specialize (IH x y ltac:(lia) ltac:(lia) ltac:(lra)).
    pose proof (huber1_fy g a b Hg ltac:(lra)) as Hh. unfold huberR in Hh.
    assert (c * (a * b) <= c * (@huber1 R _ g a + g / 2 * (b * b))) by (apply Rmult_le_compat_l; lra).
    lra.
Qed.

Ltac inv_ok :=
  repeat match goal with
  | H : Ok _ = Ok _ |- _ => inversion H; clear H; subst
  | H : Err _ = Ok _ |- _ => discriminate H
  end.

Theorem fenchel_young_all e : forall n w x y vx vy,
  wf n e -> wpos w -> wadm w e -> length w = n -> length x = n -> length y = n ->
  val e w x = Ok vx -> cval w e y = Ok vy -> fy vx vy (wdot w x y).
Proof.
  fxind e; intros n w x y vx vy Hwf Hw Hwa Lw Lx Ly Hv Hc; subst n; cbn [wadm] in Hwa.
  - (* FLp *) cbn in Hv, Hc. inv_ok. unfold fy. numR.
    destruct (Rltb_spec (1 + 0) (lpn (pconj p) w y)); cbn [eadd]; [exact I|].
    numR. pose proof (lp_holder p w x y Hw ltac:(congruence) ltac:(lra)). lra.
  - (* FIndBall *) cbn in Hv, Hc. inv_ok. unfold fy. numR.
    destruct (Rltb_spec (1 + 0) (lpn p w x)); cbn [eadd]; [exact I|].
    numR. rewrite wdot_comm.
    pose proof (lp_holder (pconj p) w y x Hw ltac:(congruence)) as H. rewrite pconj_invol in H.
    specialize (H ltac:(lra)). lra.
  - (* FL2Sq *) cbn [value] in Hv. inv_ok. unfold Rules.cval in Hc. cbn [cconj] in Hc.
    unfold rmul, quarter in Hc. numR. rewrite Reqb_false in Hc by lra. cbn in Hc. inv_ok.
    unfold fy. cbn [eadd]. numR. pose proof (young_sq w x y Hw). lra.
  - (* FConst *) cbn in Hv, Hc. inv_ok. unfold fy. numR.
    destruct (Reqb_spec (norm2 sqrtf w y) 0) as [Hz|Hz]; cbn [eadd]; [|exact I].
    numR. rewrite (wdot_null_r w x y Hw ltac:(congruence) (norm2_zero w y Hw Hz)). lra.
  - (* FIndZero *) cbn in Hv, Hc. inv_ok. unfold fy. numR.
    destruct (Reqb_spec (norm2 sqrtf w x) 0) as [Hz|Hz]; cbn [eadd]; [|exact I].
    numR. rewrite wdot_comm.
    rewrite (wdot_null_r w y x Hw ltac:(congruence) (norm2_zero w x Hw Hz)). lra.
  - (* FHuber *) cbn [wf] in Hwf. cbn [value] in Hv. inv_ok.
    unfold Rules.cval in Hc. cbn [cconj value rbind lpnorm] in Hc. numR. inv_ok.
    unfold fy.
    destruct (Rltb_spec (1 + 0) (vmaxabs y)); cbn [eadd]; [exact I|]. numR.
    rewrite wdot_zero_r.
    pose proof (huber_vec_fy g w x y Hw Hwf ltac:(congruence) ltac:(congruence) ltac:(lra)) as H.
    numR. lra.
  - (* FQuadS *) cbn [wf] in Hwf. destruct Hwf as [Ha Hb]. unfold Rules.cval in Hc.
    destruct a as [a|], b as [b|]; cbn [value cconj] in Hv, Hc; inv_ok.
    + numR. destruct (Reqb_spec a 0); [discriminate|]. cbn [value] in Hc. inv_ok.
      unfold fy. cbn [eadd]. numR. unfold quarter. numR.
      pose proof (quad_scal_fy w x y b a Hw Ha ltac:(congruence) ltac:(congruence) ltac:(congruence)) as H.
      lra.
    + numR. destruct (Reqb_spec a 0); [discriminate|]. cbn [value] in Hc. inv_ok.
      unfold fy. cbn [eadd]. numR. unfold quarter. numR.
      pose proof (quad_scal_fy0 w x y a Hw Ha) as H. lra.
    + cbn [mkTransl value] in Hc. inv_ok. unfold fy. numR.
      destruct (Reqb_spec (norm2 sqrtf w (vsub y b)) 0) as [Hz|Hz]; cbn [eadd]; [|exact I]. numR.
      pose proof (wdot_null_r w x (vsub y b) Hw ltac:(rewrite vsub_length; congruence)
                    (norm2_zero w _ Hw Hz)) as H0.
      rewrite wdot_vsub_r in H0 by congruence. rewrite (wdot_comm w b x). lra.
  - (* FLeft *) cbn [wf] in Hwf. destruct Hwf as [Hs Hwf].
    rewrite cval_FLeft in Hc by assumption. cbn [value] in Hv.
    destruct (val f w x) as [v|] eqn:E1; cbn [rbind] in Hv; inv_ok.
    destruct (cval w f (vscal (1 / s) y)) as [v'|] eqn:E2; cbn [rbind] in Hc; inv_ok.
    pose proof (IHf _ w x (vscal (1 / s) y) v v' Hwf Hw Hwa eq_refl Lx ltac:(rewrite vscal_length; assumption) E1 E2) as H.
    apply (fy_escal s) in H; [|assumption]. rewrite wdot_vscal_r in H.
    replace (s * (1 / s * wdot w x y)) with (wdot w x y) in H by (field; lra). exact H.
  - (* FRight *) cbn [wf] in Hwf. destruct Hwf as [Hs Hwf].
    rewrite cval_FRight in Hc by assumption. cbn [value] in Hv.
    pose proof (IHf _ w (vscal s x) (vscal (1 / s) y) vx vy Hwf Hw Hwa eq_refl
                  ltac:(rewrite vscal_length; assumption) ltac:(rewrite vscal_length; assumption) Hv Hc) as H.
    rewrite wdot_vscal_r, wdot_vscal_l in H.
    replace (1 / s * (s * wdot w x y)) with (wdot w x y) in H by (field; lra). exact H.
  - (* FRightVec *) cbn [wf] in Hwf. destruct Hwf as (Lv & Hnz & Hwf).
    rewrite cval_FRightVec in Hc. cbn [value] in Hv.
    pose proof (IHf _ w (vmul x v) (vmul y (map (fun a => 1 / a) v)) vx vy Hwf Hw Hwa eq_refl
                  ltac:(rewrite vmul_length; congruence)
                  ltac:(rewrite vmul_length; [congruence | rewrite map_length; congruence]) Hv Hc) as H.
    rewrite wdot_vmul_inv in H by (assumption || congruence). exact H.
  - (* FSum *) rewrite cval_FSum in Hc. discriminate.
  - (* FScalarSum *) cbn [wf] in Hwf. rewrite cval_FScalarSum in Hc. cbn [value] in Hv. unfold radd in *.
    destruct (val f w x) as [v|] eqn:E1; cbn [rbind] in Hv; inv_ok.
    destruct (cval w f y) as [v'|] eqn:E2; cbn [rbind] in Hc; inv_ok.
    pose proof (IHf _ w x y v v' Hwf Hw Hwa eq_refl Lx Ly E1 E2) as H.
    apply (fy_shift _ _ _ c (-1 * c)) in H. eapply fy_weaken; [|exact H]. lra.
  - (* FTransl *) cbn [wf] in Hwf. destruct Hwf as [Lt Hwf].
    rewrite cval_FTransl in Hc. cbn [value] in Hv.
    destruct (cval w f y) as [v'|] eqn:E2; cbn [rbind] in Hc; inv_ok.
    pose proof (IHf _ w (vsub x t) y vx v' Hwf Hw Hwa eq_refl ltac:(rewrite vsub_length; congruence) Ly Hv E2) as H.
    rewrite wdot_vsub_l in H by congruence.
    apply (fy_shift_r _ _ _ (0 * wdot w y y)) in H.
    apply (fy_shift_r _ _ _ (wdot w y t)) in H.
    apply (fy_shift_r _ _ _ 0) in H.
    eapply fy_weaken; [|exact H]. rewrite (wdot_comm w t y). lra.
  - (* FQuadPert *) cbn [wf] in Hwf. destruct Hwf as (Ha & Lu & Hwf).
    destruct (Req_dec a 0) as [->|Hna]; [|rewrite cval_FQuadPert_a in Hc by assumption; discriminate].
    rewrite cval_FQuadPert0 in Hc. cbn [value] in Hv.
    destruct (val f w x) as [v|] eqn:E1; cbn [rbind] in Hv; inv_ok.
    assert (Hcore : forall v', cval w f (vsub y u) = Ok v' ->
              fy (eadd (eadd (eadd v (EFin (0 * wdot w x x)%num)) (EFin (wdot w x u))) (EFin c))
                 (eadd v' (EFin (- 1 * c))) (wdot w x y)).
    { intros v' E2.
      pose proof (IHf _ w x (vsub y u) v v' Hwf Hw Hwa eq_refl Lx ltac:(rewrite vsub_length; congruence) E1 E2) as H.
      rewrite wdot_vsub_r in H by congruence.
      apply (fy_shift_l _ _ _ (0 * wdot w x x)) in H.
      apply (fy_shift_l _ _ _ (wdot w x u)) in H.
      apply (fy_shift _ _ _ c (-1 * c)) in H. numR.
      eapply fy_weaken; [|exact H]. lra. }
    destruct (Reqb_spec c 0) as [->|Hcn].
    + specialize (Hcore vy Hc). unfold fy in *. destruct v, vy; cbn [eadd] in *; numR; auto; lra.
    + unfold radd in Hc. destruct (cval w f (vsub y u)) as [v'|] eqn:E2; cbn [rbind] in Hc; inv_ok.
      apply Hcore. reflexivity.
  - (* FInfConv *) cbn [value] in Hv. discriminate.
  - (* FDefConj *) cbn [value] in Hv. discriminate.
  - (* FBreg *) cbn [wf value] in *. rewrite cval_FBreg in Hc. eapply IHq; eauto.
  - (* FSep2 *) cbn [wf] in Hwf. destruct Hwf as (Hk & Hwf1 & Hwf2).
    apply cval_FSep2_inv in Hc. destruct Hc as (v1' & v2' & C1 & C2 & ->).
    cbn [value] in Hv. unfold radd in Hv.
    destruct (val f (firstn k w) (firstn k x)) as [v1|] eqn:E1; cbn [rbind] in Hv; inv_ok.
    destruct (val g (skipn k w) (skipn k x)) as [v2|] eqn:E2; cbn [rbind] in Hv; inv_ok.
    assert (Lf : forall l : Rvec, length l = length w -> length (firstn k l) = k)
      by (intros l Hl; rewrite firstn_length; lia).
    assert (Ls : forall l : Rvec, length l = length w -> length (skipn k l) = (length w - k)%nat)
      by (intros l Hl; rewrite skipn_length; lia).
    pose proof (IHf k _ _ _ _ _ Hwf1 (wpos_firstn k w Hw) (proj1 Hwa) (Lf w eq_refl) (Lf x Lx) (Lf y Ly) E1 C1) as H1.
    pose proof (IHg (length w - k)%nat _ _ _ _ _ Hwf2 (wpos_skipn k w Hw) (proj2 Hwa) (Ls w eq_refl) (Ls x Lx) (Ls y Ly) E2 C2) as H2.
    rewrite (wdot_split k w x y). apply fy_sum; assumption.
  - (* FPair *) cbn [wf] in Hwf. destruct Hwf as (_ & _ & Hok). destruct (Hok w Hw eq_refl Hwa) as (Hfy & _).
    cbn [value] in Hv. unfold Rules.cval in Hc. cbn [cconj value] in Hc.
    exact (Hfy pb x y vx vy Lx Ly Hv Hc).
Qed.


(* the same statement with the conjugate tree made explicit *)
Corollary fenchel_young_tree e e' n w x y vx vy :
  wf n e -> wpos w -> wadm w e -> length w = n -> length x = n -> length y = n ->
  val e w x = Ok vx -> cj w e = Ok e' -> val e' w y = Ok vy -> fy vx vy (wdot w x y).
Proof.
  intros Hwf Hw Ha Lw Lx Ly Hv Hc Hv'. eapply fenchel_young_all; eauto.
  unfold Rules.cval. rewrite Hc. exact Hv'.
Qed.

End FY.

(* the hypothesis on the square root is satisfied by the real square root *)
Lemma Rsqrt_spec : forall a, 0 <= a -> 0 <= sqrt a /\ sqrt a * sqrt a = a.
Proof. intros a Ha. split; [apply sqrt_pos | apply sqrt_sqrt; assumption]. Qed.

Lemma wf_example_proof :
  let e : fxR := FLeft 2 (FTransl (FSep2 1 (FHuber 1) (FRight (-3) (FLp P2))) [1; 0; 2]) in
  wf 3 e /\ (exists vx, value sqrt 0 e [1; 2; 2] [0; 1; 1] = Ok vx)
  /\ (exists e' vy, cconj [1; 2; 2] e = Ok e' /\ value sqrt 0 e' [1; 2; 2] [1; 0; 0] = Ok vy).
Proof.
  cbv zeta. split; [|split].
  - cbn [wf length]. repeat split; try lra; try lia.
  - eexists. cbn [value rbind radd firstn skipn]. reflexivity.
  - cbn [cconj firstn skipn rbind]. numR.
    rewrite (Rleb_false 2 0) by lra. rewrite (Reqb_false (-3) 0) by lra.
    cbn [rbind]. unfold mul_right, rmul. numR.
    rewrite (Reqb_false 2 0) by lra. cbn [is_linear mkLeft mkRight andb].
    eexists. eexists. split; [reflexivity|]. cbn [value rbind radd firstn skipn]. reflexivity.
Qed.
