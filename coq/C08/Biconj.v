(* C08/Biconj.v -- f.convex_conj.convex_conj takes the same values as f, for all trees on which
   it can be evaluated (partial: scalar multiples of functionals whose conjugate is flagged
   linear are excluded, see [B]). *)
From Coq Require Import ZArith Reals Lra Lia List Bool Psatz.
From Verif Require Import Base.Num Base.Vec Base.VecR C08.Model C08.VecLemmas C08.Rules C08.ConjRules
  C08.Leaves C08.ProxRules C08.Moreau.
Import ListNotations.
Local Open Scope R_scope.

(* side condition: a reflection f(s .), s < 0, must not sit on a functional whose conjugate is
   flagged linear (e.g. IndicatorZero(S) * (-1.0)): the library's conjugate is then a LeftScalarMult with a
   negative scalar, whose own convex_conj raises ValueError, so the biconjugate cannot be evaluated
   anyway; the same clause as in [D]. *)
Fixpoint B (e : fxR) : Prop :=
  match e with
  | FRight s f => (s < 0 -> forall w f', @cconj R _ w f = Ok f' -> is_linear f' = false) /\ B f
  | FLeft _ f | FRightVec _ f | FScalarSum f _ | FTransl f _ | FQuadPert f _ _ _ | FDefConj f | FBreg f => B f
  | FSum f g | FInfConv f g | FSep2 _ f g => B f /\ B g
  | _ => True
  end.

Ltac fxind2 e :=
  induction e as [p|p| |c|c|g|a b c|s f IHf|s f IHf|v f IHf|f IHf g IHg|f IHf c|f IHf t|f IHf a u c
                 |f IHf g IHg|f IHf|qb IHq|k f IHf g IHg|pb P].

Lemma pconj_invol p : pconj (pconj p) = p.
Proof. destruct p; reflexivity. Qed.

Lemma map_inv_inv (v : Rvec) : Forall (fun a => a <> 0) v ->
  map (fun a => 1 / a) (map (fun a => 1 / a) v) = v.
Proof.
  intros Hv. induction Hv as [|q v Hq Hv IH]; [reflexivity|]. cbn [map]. rewrite IH. f_equal. field. assumption.
Qed.

Section BC.
Variable sqrtf : R -> R.
Hypothesis sqrtf_spec : forall a, 0 <= a -> 0 <= sqrtf a /\ sqrtf a * sqrtf a = a.
Notation val := (@value R _ sqrtf 0).
Notation cj := (@cconj R _).
Notation cval := (cval sqrtf).

Definition ccval (w : Rvec) (e : fxR) (x : Rvec) : res extR :=
  match cj w e with Ok e' => cval w e' x | Err er => Err er end.

(* value equality up to the real arithmetic inside EFin *)
Definition veq (a b : res extR) : Prop :=
  match a, b with
  | Ok (EFin u), Ok (EFin v) => u = v
  | Ok EPInf, Ok EPInf => True
  | Ok EJunk, Ok EJunk => True
  | Err e1, Err e2 => e1 = e2
  | _, _ => False
  end.
Lemma veq_refl a : veq a a.
Proof. destruct a as [[| |]|]; cbn; auto. Qed.
Lemma veq_of_eq a b : a = b -> veq a b.
Proof. intros ->; apply veq_refl. Qed.
Lemma veq_trans a b c : veq a b -> veq b c -> veq a c.
Proof. destruct a as [[| |]|], b as [[| |]|], c as [[| |]|]; cbn; try tauto; congruence. Qed.
Lemma veq_escal s a b : veq a b -> veq (v <- a ;; Ok (escal s v)) (v <- b ;; Ok (escal s v)).
Proof.
  destruct a as [[| |]|], b as [[| |]|]; cbn; try tauto; try congruence; try (intros; subst; reflexivity).
  all: destruct (Rltb 0 s); cbn; auto.
Qed.
Lemma veq_radd a b a' b' : veq a a' -> veq b b' -> veq (radd a b) (radd a' b').
Proof.
  destruct a as [[| |]|], a' as [[| |]|]; cbn; try tauto;
  destruct b as [[| |]|], b' as [[| |]|]; cbn; try tauto; try congruence; numR; intros; subst; auto.
Qed.

(* ------------------------------------ conjugate values of the merging constructors *)
Definition left_pos (g : fxR) := forall s' g', g = FLeft s' g' -> 0 < s'.
Definition right_nz (g : fxR) := forall s' g', g = FRight s' g' -> s' <> 0.

Lemma cval_mkLeft s g w y : 0 < s -> left_pos g ->
  cval w (mkLeft s g) y = cval w (FLeft s g) y.
Proof.
  intros Hs Hlp. destruct (mkLeft_cases s g) as [(s' & g' & -> & ->)| ->]; [|reflexivity].
  specialize (Hlp s' g' eq_refl).
  rewrite (cval_FLeft sqrtf (s * s')) by (try assumption; nra).
  rewrite (cval_FLeft sqrtf s) by assumption. rewrite (cval_FLeft sqrtf s') by assumption.
  rewrite vscal_vscal. replace (1 / s' * (1 / s)) with (1 / (s * s')) by (field; lra).
  destruct (cval w g' _); cbn [rbind]; [|reflexivity]. rewrite escal_escal by assumption. reflexivity.
Qed.
Lemma cval_mkRight a g w y : a <> 0 -> right_nz g ->
  cval w (mkRight a g) y = cval w (FRight a g) y.
Proof.
  intros Ha Hnz. destruct (mkRight_cases a g) as [(s' & g' & -> & ->)| ->]; [|reflexivity].
  specialize (Hnz s' g' eq_refl).
  rewrite (cval_FRight sqrtf (a * s')) by (try assumption; nra).
  rewrite (cval_FRight sqrtf a) by assumption. rewrite (cval_FRight sqrtf s') by assumption.
  rewrite vscal_vscal. replace (1 / s' * (1 / a)) with (1 / (a * s')) by (field; lra). reflexivity.
Qed.

Lemma cval_mkTransl g u n w x : lenwf n g -> length u = n -> length x = n ->
  veq (cval w (mkTransl g u) x) (cval w (FTransl g u) x).
Proof.
  intros Hl Lu Lx. destruct (mkTransl_cases g u) as [(g' & t' & -> & ->)| ->]; [|apply veq_refl].
  cbn [lenwf] in Hl. destruct Hl as [Lt _].
  rewrite !(cval_FTransl sqrtf).
  destruct (cval w g' x) as [[v| |]|]; cbn [rbind eadd veq]; auto. numR.
  rewrite wdot_vadd_r by congruence. ring.
Qed.

(* values of a functional whose conjugate is flagged linear are 0 or +inf *)
Definition zinf (v : extR) : Prop := match v with EFin r => r = 0 | EPInf => True | EJunk => False end.

Lemma is_linear_mul_right (g : fxR) a : is_linear (mul_right g a) = is_linear g.
Proof. unfold mul_right. destruct (is_linear g) eqn:L; [rewrite is_linear_mkLeft | rewrite is_linear_mkRight]; assumption. Qed.
Lemma is_linear_mkTransl (g : fxR) u : is_linear (mkTransl g u) = false.
Proof. destruct g; reflexivity. Qed.

Ltac fxind3 e :=
  induction e as [p|p| |c|c|g|a b c|s f IHf|s f IHf|mv f IHf|f IHf g IHg|f IHf c|f IHf t|f IHf a u c
                 |f IHf g IHg|f IHf|qb IHq|k f IHf g IHg|pb P].

Lemma zi e : forall n w e' x v, wf n e -> cj w e = Ok e' -> is_linear e' = true -> val e w x = Ok v -> zinf v.
Proof.
  fxind3 e; intros n w e' x v Hwf Hc Hl Hv; cbn [cconj wf value] in *;
    try (injection Hc as <-; cbn [is_linear] in Hl; discriminate).
  - (* FL2Sq *) injection Hc as <-. unfold rmul, quarter in Hl. numR. rewrite Reqb_false in Hl by lra.
    cbn in Hl. discriminate.
  - (* FIndZero *) injection Hc as <-. cbn [is_linear] in Hl. numR.
    destruct (Reqb_spec (- c) 0) as [Hz|]; [|discriminate]. inv_ok.
    match goal with |- context [if ?b then _ else _] => destruct b end; cbn; lra.
  - (* FQuadS *) destruct a as [a|], b as [b|]; try discriminate;
      try (destruct (a =? nzero)%num; [discriminate|]; injection Hc as <-; cbn [is_linear] in Hl; discriminate).
    injection Hc as <-. cbn in Hl. discriminate.
  - (* FLeft *) destruct Hwf as [Hs Hwf]. numR. rewrite (Rleb_false s 0) in Hc by lra.
    destruct (cj w f) as [f'|] eqn:E; cbn [rbind] in Hc; [|discriminate]. injection Hc as <-.
    rewrite is_linear_mul_right in Hl. unfold rmul in Hl. numR. rewrite (Reqb_false s 0) in Hl by lra.
    rewrite is_linear_mkLeft in Hl.
    destruct (val f w x) as [v0|] eqn:E1; cbn [rbind] in Hv; inv_ok.
    pose proof (IHf n w f' x v0 Hwf E Hl E1) as H0.
    destruct v0; cbn [escal zinf] in *; numR; [subst; ring | rewrite (Rltb_true 0 s Hs); exact I | assumption].
  - (* FRight *) destruct Hwf as [Hs Hwf].
    destruct (cj w f) as [f'|] eqn:E; cbn [rbind] in Hc; [|discriminate]. numR.
    rewrite (Reqb_false s 0) in Hc by assumption. injection Hc as <-.
    rewrite is_linear_mul_right in Hl. exact (IHf n w f' _ v Hwf E Hl Hv).
  - (* FRightVec *) destruct Hwf as (Lv & Hnz & Hwf).
    destruct (cj w f) as [f'|] eqn:E; cbn [rbind] in Hc; [|discriminate]. injection Hc as <-.
    cbn [is_linear] in Hl. exact (IHf n w f' _ v Hwf E Hl Hv).
  - (* FScalarSum *) destruct (cj w f) as [f'|] eqn:E; cbn [rbind] in Hc; [|discriminate]. injection Hc as <-.
    cbn [is_linear] in Hl. apply andb_true_iff in Hl. destruct Hl as [L1 L2]. numR.
    destruct (Reqb_spec (- (1) * c) 0) as [Hz|]; [|discriminate].
    unfold radd in Hv. destruct (val f w x) as [v0|] eqn:E1; cbn [rbind] in Hv; inv_ok.
    pose proof (IHf n w f' x v0 Hwf E L1 E1) as H0.
    destruct v0; cbn [eadd zinf] in *; numR; [lra | exact I | assumption].
  - (* FTransl *) destruct Hwf as [Lt Hwf].
    destruct (cj w f) as [f'|] eqn:E; cbn [rbind] in Hc; [|discriminate]. injection Hc as <-.
    cbn [is_linear] in Hl. apply andb_true_iff in Hl. destruct Hl as [L12 _].
    apply andb_true_iff in L12. destruct L12 as [L1 _]. exact (IHf n w f' _ v Hwf E L1 Hv).
  - (* FQuadPert *) destruct (a =? nzero)%num.
    + destruct (cj w f) as [f'|] eqn:E; cbn [rbind] in Hc; [|discriminate].
      destruct (c =? nzero)%num; injection Hc as <-; cbn [is_linear] in Hl;
        rewrite is_linear_mkTransl in Hl; discriminate.
    + injection Hc as <-. cbn [is_linear] in Hl. discriminate.
  - (* FInfConv *) discriminate.
  - (* FBreg *) exact (IHq n w e' x v Hwf Hc Hl Hv).
  - (* FSep2 *) destruct Hwf as (Hk & H1 & H2).
    destruct (cj (firstn k w) f) as [f'|] eqn:E1; cbn [rbind] in Hc; [|discriminate].
    destruct (cj (skipn k w) g) as [g'|] eqn:E2; cbn [rbind] in Hc; [|discriminate]. injection Hc as <-.
    cbn [is_linear] in Hl. apply andb_true_iff in Hl. destruct Hl as [L1 L2].
    unfold radd in Hv.
    destruct (val f (firstn k w) (firstn k x)) as [v1|] eqn:V1; cbn [rbind] in Hv; inv_ok.
    destruct (val g (skipn k w) (skipn k x)) as [v2|] eqn:V2; cbn [rbind] in Hv; inv_ok.
    pose proof (IHf k _ f' _ v1 H1 E1 L1 V1) as Z1.
    pose proof (IHg (n - k)%nat _ g' _ v2 H2 E2 L2 V2) as Z2.
    destruct v1, v2; cbn [eadd zinf] in *; numR; try tauto; lra.
Qed.

Lemma left_pos_mkLeft a g : 0 < a -> left_pos g -> left_pos (mkLeft a g).
Proof.
  intros Ha Hg s' g' He. destruct (mkLeft_cases a g) as [(s2 & g2 & -> & Hm)|Hm]; rewrite Hm in He;
    injection He as <- _; [|assumption]. specialize (Hg s2 g2 eq_refl). nra.
Qed.

Lemma conj_left_pos e : forall n w e', wf n e -> B e -> cj w e = Ok e' -> left_pos e'.
Proof.
  fxind2 e; intros n w e' Hwf HB Hc s' g' He; cbn [cconj wf B] in *; subst e';
    try (injection Hc as Hc; discriminate Hc).
  - (* FL2Sq *) injection Hc as Hc. unfold rmul, quarter in Hc. numR. rewrite Reqb_false in Hc by lra.
    cbn [mkLeft] in Hc. injection Hc as <- _. lra.
  - (* FQuadS *) destruct a as [a|], b as [b|]; try discriminate;
      try (destruct (a =? nzero)%num; [discriminate|]; injection Hc as Hc; discriminate Hc);
      try (injection Hc as Hc; discriminate Hc).
  - (* FLeft *) destruct Hwf as [Hs Hwf]. numR. rewrite (Rleb_false s 0) in Hc by lra.
    destruct (cj w f) as [f'|] eqn:E; cbn [rbind] in Hc; [|discriminate]. injection Hc as Hc.
    unfold mul_right, rmul in Hc. numR. rewrite (Reqb_false s 0) in Hc by lra.
    rewrite is_linear_mkLeft in Hc. destruct (is_linear f').
    + assert (Hlp : left_pos (mkLeft (1 / s) (mkLeft s f'))).
      { apply left_pos_mkLeft; [apply Rdiv_lt_0_compat; lra|]. apply left_pos_mkLeft; [assumption|].
        exact (IHf n w f' Hwf HB E). }
      exact (Hlp s' g' Hc).
    + destruct (mkRight_cases (1 / s) (mkLeft s f')) as [(? & ? & _ & Hm)|Hm]; rewrite Hm in Hc; discriminate.
  - (* FRight *) destruct Hwf as [Hs Hwf]. destruct HB as [Hneg HB].
    destruct (cj w f) as [f'|] eqn:E; cbn [rbind] in Hc; [|discriminate]. numR.
    rewrite (Reqb_false s 0) in Hc by assumption. injection Hc as Hc.
    unfold mul_right in Hc. destruct (is_linear f') eqn:L.
    + assert (Hpos : 0 < s).
      { destruct (Rlt_dec 0 s); [assumption|]. assert (Hn : s < 0) by lra. rewrite (Hneg Hn w f' E) in L. discriminate. }
      assert (Hlp : left_pos (mkLeft (1 / s) f')).
      { apply left_pos_mkLeft; [apply Rdiv_lt_0_compat; lra|]. exact (IHf n w f' Hwf HB E). }
      exact (Hlp s' g' Hc).
    + destruct (mkRight_cases (1 / s) f') as [(? & ? & _ & Hm)|Hm]; rewrite Hm in Hc; discriminate.
  - (* FRightVec *) destruct (cj w f); cbn [rbind] in Hc; [injection Hc as Hc|]; discriminate.
  - (* FScalarSum *) destruct (cj w f); cbn [rbind] in Hc; [injection Hc as Hc|]; discriminate.
  - (* FTransl *) destruct (cj w f); cbn [rbind] in Hc; [injection Hc as Hc|]; discriminate.
  - (* FQuadPert *) destruct (a =? nzero)%num.
    + destruct (cj w f) as [f'|]; cbn [rbind] in Hc; [|discriminate].
      destruct (c =? nzero)%num; injection Hc as Hc; [|discriminate].
      destruct (mkTransl_cases f' u) as [(? & ? & _ & Hm)|Hm]; rewrite Hm in Hc; discriminate.
    + injection Hc as Hc; discriminate.
  - (* FInfConv *) destruct (cj w f); cbn [rbind] in Hc; [|discriminate].
    destruct (cj w g); cbn [rbind] in Hc; [injection Hc as Hc|]; discriminate.
  - (* FDefConj *) injection Hc as ->. cbn [wf] in Hwf. tauto.
  - (* FBreg *) exact (IHq n w _ Hwf HB Hc s' g' eq_refl).
  - (* FSep2 *) destruct (cj (firstn k w) f); cbn [rbind] in Hc; [|discriminate].
    destruct (cj (skipn k w) g); cbn [rbind] in Hc; [injection Hc as Hc|]; discriminate.
Qed.

Lemma ccval_of_conj w e e' x : cj w e = Ok e' -> cval w e' x = ccval w e x.
Proof. intros H. unfold ccval. rewrite H. reflexivity. Qed.

Lemma veq_shift3 v' v c1 c2 c3 d1 d2 d3 : veq (Ok v') (Ok v) -> c1 + c2 + c3 = d1 + d2 + d3 ->
  veq (Ok (eadd (eadd (eadd v' (EFin c1)) (EFin c2)) (EFin c3)))
      (Ok (eadd (eadd (eadd v (EFin d1)) (EFin d2)) (EFin d3))).
Proof. destruct v', v; cbn; try tauto. numR. intros; subst; lra. Qed.
Lemma veq_shift1 v' v c d : veq (Ok v') (Ok v) -> c = d ->
  veq (Ok (eadd v' (EFin c))) (Ok (eadd v (EFin d))).
Proof. destruct v', v; cbn; try tauto. numR. intros; subst; lra. Qed.
Lemma veq_eadd a a' b b' : veq (Ok a) (Ok a') -> veq (Ok b) (Ok b') -> veq (Ok (eadd a b)) (Ok (eadd a' b')).
Proof. destruct a, a'; cbn; try tauto; destruct b, b'; cbn; try tauto. numR. intros; subst; lra. Qed.
Lemma veq_escal1 s a b : veq (Ok a) (Ok b) -> veq (Ok (escal s a)) (Ok (escal s b)).
Proof. intros H. exact (veq_escal s (Ok a) (Ok b) H). Qed.

Theorem biconj_all e : forall n w x vx vxx,
  wf n e -> B e -> length w = n -> length x = n ->
  val e w x = Ok vx -> ccval w e x = Ok vxx -> veq (Ok vxx) (Ok vx).
Proof.
  fxind2 e; intros n w x vx vxx Hwf HB Lw Lx Hv Hcc; cbn [B] in HB.
  - (* FLp *) unfold ccval, Rules.cval in Hcc. cbn [cconj] in Hcc. rewrite pconj_invol in Hcc.
    rewrite Hv in Hcc. inv_ok. apply veq_refl.
  - (* FIndBall *) unfold ccval, Rules.cval in Hcc. cbn [cconj] in Hcc. rewrite pconj_invol in Hcc.
    rewrite Hv in Hcc. inv_ok. apply veq_refl.
  - (* FL2Sq *) unfold ccval in Hcc. cbn [cconj] in Hcc. unfold rmul, quarter in Hcc. numR.
    rewrite Reqb_false in Hcc by lra. cbn [mkLeft] in Hcc.
    rewrite (cval_FLeft sqrtf) in Hcc by lra.
    unfold Rules.cval in Hcc. cbn [cconj] in Hcc. unfold rmul, quarter in Hcc. numR.
    rewrite Reqb_false in Hcc by lra. cbn in Hcc, Hv. inv_ok. cbn. numR.
    rewrite wdot_vscal_l, wdot_vscal_r. field.
  - (* FConst *) cbn in Hv, Hcc. inv_ok. cbn. numR. ring.
  - (* FIndZero *) cbn in Hv, Hcc. inv_ok.
    match goal with |- context [if ?c then _ else _] => destruct c end; cbn; auto. numR. ring.
  - (* FHuber *) cbn [wf] in Hwf. unfold ccval in Hcc. cbn [cconj] in Hcc.
    rewrite cval_FQuadPert_a in Hcc by (numR; lra). discriminate.
  - (* FQuadS *) cbn [wf] in Hwf. destruct Hwf as [Ha Hb]. unfold ccval in Hcc.
    destruct a as [a|], b as [b|]; try contradiction; cbn [value cconj] in Hv, Hcc; inv_ok.
    + (* operator and vector *)
      numR. destruct (Reqb_spec a 0); [discriminate|]. unfold Rules.cval in Hcc. cbn [cconj] in Hcc. numR.
      assert (Hk : quarter * (1 / a) <> 0).
      { unfold quarter. numR. intros H0. assert (1 / 4 * (1 / a) * (4 * a) = 1) by (field; lra). rewrite H0 in H. lra. }
      rewrite (Reqb_false _ 0 Hk) in Hcc. cbn [value] in Hcc. inv_ok. cbn [veq]. numR.
      assert (Hd : forall p r (z : Rvec), vscal p (vadd (vscal r z) (vscal r z)) = vscal (2 * p * r) z).
      { intros. rewrite vadd_vscal_same, vscal_vscal. f_equal. ring. }
      unfold quarter in *. numR. rewrite !Hd. rewrite !vscal_vscal.
      replace (1 / 4 * (1 / (1 / 4 * (1 / a)))) with a by (field; lra).
      replace (2 * - (1 / 4) * (1 / (1 / 4 * (1 / a))) * (2 * - (1 / 4) * (1 / a))) with 1 by (field; lra).
      rewrite vscal_one, !wdot_vscal_l, !wdot_vscal_r. field. lra.
    + numR. destruct (Reqb_spec a 0); [discriminate|]. unfold Rules.cval in Hcc. cbn [cconj] in Hcc. numR.
      assert (Hk : quarter * (1 / a) <> 0).
      { unfold quarter. numR. intros H0. assert (1 / 4 * (1 / a) * (4 * a) = 1) by (field; lra). rewrite H0 in H. lra. }
      rewrite (Reqb_false _ 0 Hk) in Hcc. cbn [value] in Hcc. inv_ok. cbn. numR.
      rewrite !wdot_vscal_r. unfold quarter. numR. field. lra.
    + cbn [mkTransl] in Hcc. rewrite (cval_FTransl sqrtf) in Hcc. cbn in Hcc. inv_ok. cbn. numR.
      rewrite (wdot_comm w x b). ring.
  - (* FLeft *) cbn [wf] in Hwf. destruct Hwf as [Hs Hwf].
    cbn [value] in Hv. destruct (val f w x) as [v|] eqn:E1; cbn [rbind] in Hv; inv_ok.
    unfold ccval in Hcc. cbn [cconj] in Hcc. numR. rewrite (Rleb_false s 0) in Hcc by lra.
    destruct (cj w f) as [f'|] eqn:E; cbn [rbind] in Hcc; [|discriminate].
    unfold rmul, mul_right in Hcc. numR. rewrite (Reqb_false s 0) in Hcc by lra.
    rewrite is_linear_mkLeft in Hcc.
    assert (H1s : 0 < 1 / s) by (apply Rdiv_lt_0_compat; lra).
    pose proof (conj_left_pos f n w f' Hwf HB E) as Hlp.
    destruct (is_linear f') eqn:L.
    + (* the conjugate of f is flagged linear: Functional.__mul__ built LeftScalarMult(1/s) of LeftScalarMult(s) *)
      rewrite cval_mkLeft in Hcc by (try assumption; apply left_pos_mkLeft; assumption).
      rewrite (cval_FLeft sqrtf) in Hcc by assumption.
      rewrite cval_mkLeft in Hcc by assumption.
      rewrite (cval_FLeft sqrtf) in Hcc by assumption.
      rewrite (vscal_inv_r (1 / s)) in Hcc by lra.
      rewrite (ccval_of_conj w f f' x E) in Hcc.
      destruct (ccval w f x) as [v'|] eqn:E2; cbn [rbind] in Hcc; inv_ok.
      pose proof (IHf n w x v v' Hwf HB Lw Lx E1 E2) as Hveq.
      pose proof (zi f n w f' x v Hwf E L E1) as Hz.
      destruct v', v; cbn [veq zinf escal] in *; numR; try tauto.
      * subst. ring.
      * rewrite (Rltb_true 0 s Hs). cbn [escal]. numR. rewrite (Rltb_true 0 (1 / s) H1s). exact I.
    + assert (H1n : 1 / s <> 0) by lra.
      rewrite cval_mkRight in Hcc; [|assumption|].
      2:{ intros s2 g2 Hm. destruct (mkLeft_cases s f') as [(? & ? & _ & Hm')|Hm']; rewrite Hm' in Hm; discriminate. }
      rewrite (cval_FRight sqrtf) in Hcc by assumption.
      rewrite cval_mkLeft in Hcc by assumption.
      rewrite (cval_FLeft sqrtf) in Hcc by assumption.
      rewrite (vscal_inv_r (1 / s)) in Hcc by assumption.
      rewrite (ccval_of_conj w f f' x E) in Hcc.
      destruct (ccval w f x) as [v'|] eqn:E2; cbn [rbind] in Hcc; inv_ok.
      apply veq_escal1. exact (IHf n w x v v' Hwf HB Lw Lx E1 E2).
  - (* FRight *) cbn [wf] in Hwf. destruct Hwf as [Hs Hwf]. destruct HB as [Hneg HB].
    cbn [value] in Hv.
    unfold ccval in Hcc. cbn [cconj] in Hcc. numR.
    destruct (cj w f) as [f'|] eqn:E; cbn [rbind] in Hcc; [|discriminate].
    rewrite (Reqb_false s 0) in Hcc by assumption. unfold mul_right in Hcc.
    assert (H1s : 1 / s <> 0) by (intros H0; apply Hs; field_simplify_eq in H0; lra).
    destruct (is_linear f') eqn:L.
    + assert (Hpos : 0 < s).
      { destruct (Rlt_dec 0 s); [assumption|]. assert (Hn : s < 0) by lra. rewrite (Hneg Hn w f' E) in L. discriminate. }
      assert (H1p : 0 < 1 / s) by (apply Rdiv_lt_0_compat; lra).
      rewrite cval_mkLeft in Hcc by (try assumption; exact (conj_left_pos f n w f' Hwf HB E)).
      rewrite (cval_FLeft sqrtf) in Hcc by assumption.
      replace (1 / (1 / s)) with s in Hcc by (field; assumption).
      rewrite (ccval_of_conj w f f' _ E) in Hcc.
      destruct (ccval w f (vscal s x)) as [v'|] eqn:E2; cbn [rbind] in Hcc; inv_ok.
      pose proof (IHf n w (vscal s x) vx v' Hwf HB Lw ltac:(rewrite vscal_length; assumption) Hv E2) as Hveq.
      pose proof (zi f n w f' _ vx Hwf E L Hv) as Hz.
      destruct v', vx; cbn [veq zinf escal] in *; numR; try tauto.
      * subst. ring.
      * rewrite (Rltb_true 0 (1 / s) H1p). exact I.
    + rewrite cval_mkRight in Hcc; [|assumption|].
      2:{ intros s2 g2 Hm. exact (Moreau.conj_right_nz f n w f' Hwf E s2 g2 Hm). }
      rewrite (cval_FRight sqrtf) in Hcc by assumption.
      replace (1 / (1 / s)) with s in Hcc by (field; assumption).
      rewrite (ccval_of_conj w f f' _ E) in Hcc.
      exact (IHf n w (vscal s x) vx vxx Hwf HB Lw ltac:(rewrite vscal_length; assumption) Hv Hcc).
  - (* FRightVec *) cbn [wf] in Hwf. destruct Hwf as (Lv & Hnz & Hwf). cbn [value] in Hv.
    unfold ccval in Hcc. cbn [cconj] in Hcc.
    destruct (cj w f) as [f'|] eqn:E; cbn [rbind] in Hcc; [|discriminate].
    rewrite (cval_FRightVec sqrtf) in Hcc. rewrite map_inv_inv in Hcc by assumption.
    rewrite (ccval_of_conj w f f' _ E) in Hcc.
    exact (IHf n w (vmul x v) vx vxx Hwf HB Lw ltac:(rewrite vmul_length; congruence) Hv Hcc).
  - (* FSum *) unfold ccval in Hcc. cbn [cconj] in Hcc. rewrite (cval_FDefConj sqrtf) in Hcc.
    rewrite Hv in Hcc. inv_ok. apply veq_refl.
  - (* FScalarSum *) cbn [wf value] in *. unfold radd in Hv.
    destruct (val f w x) as [v|] eqn:E1; cbn [rbind] in Hv; inv_ok.
    unfold ccval in Hcc. cbn [cconj] in Hcc.
    destruct (cj w f) as [f'|] eqn:E; cbn [rbind] in Hcc; [|discriminate].
    rewrite (cval_FScalarSum sqrtf) in Hcc. rewrite (ccval_of_conj w f f' _ E) in Hcc. unfold radd in Hcc.
    destruct (ccval w f x) as [v'|] eqn:E2; cbn [rbind] in Hcc; inv_ok.
    apply veq_shift1; [exact (IHf n w x v v' Hwf HB Lw Lx E1 E2) | numR; ring].
  - (* FTransl *) cbn [wf] in Hwf. destruct Hwf as [Lt Hwf]. cbn [value] in Hv.
    unfold ccval in Hcc. cbn [cconj] in Hcc.
    destruct (cj w f) as [f'|] eqn:E; cbn [rbind] in Hcc; [|discriminate].
    numR. rewrite (cval_FQuadPert0 sqrtf) in Hcc. rewrite (Reqb_true 0 0) in Hcc by reflexivity.
    rewrite (ccval_of_conj w f f' _ E) in Hcc.
    exact (IHf n w (vsub x t) vx vxx Hwf HB Lw ltac:(rewrite vsub_length; congruence) Hv Hcc).
  - (* FQuadPert *) cbn [wf] in Hwf. destruct Hwf as (Ha & Lu & Hwf).
    unfold ccval in Hcc. cbn [cconj] in Hcc. numR.
    destruct (Reqb_spec a 0) as [->|Hna].
    2:{ rewrite (cval_FDefConj sqrtf) in Hcc. rewrite Hv in Hcc. inv_ok. apply veq_refl. }
    cbn [value] in Hv. destruct (val f w x) as [v|] eqn:E1; cbn [rbind] in Hv; inv_ok.
    destruct (cj w f) as [f'|] eqn:E; cbn [rbind] in Hcc; [|discriminate].
    assert (Hl' : lenwf n f') by (eapply lenwf_conj; [apply wf_lenwf; exact Hwf | exact Lw | exact E]).
    pose proof (cval_mkTransl f' u n w x Hl' Lu Lx) as HT.
    rewrite (cval_FTransl sqrtf) in HT. rewrite (ccval_of_conj w f f' _ E) in HT.
    destruct (Reqb_spec c 0) as [->|Hcn].
    + rewrite Hcc in HT.
      destruct (ccval w f x) as [v'|] eqn:E2; cbn [rbind] in HT; [|cbn in HT; destruct vxx; contradiction].
      eapply veq_trans; [exact HT|].
      apply veq_shift3; [exact (IHf n w x v v' Hwf HB Lw Lx E1 E2) | numR; ring].
    + rewrite (cval_FScalarSum sqrtf) in Hcc. unfold radd in Hcc.
      destruct (cval w (mkTransl f' u) x) as [vt|] eqn:Et; cbn [rbind] in Hcc; inv_ok.
      destruct (ccval w f x) as [v'|] eqn:E2; cbn [rbind] in HT; [|cbn in HT; destruct vt; contradiction].
      assert (Hin : veq (Ok vt) (Ok (eadd (eadd (eadd v (EFin (0 * wdot w x x))) (EFin (wdot w x u))) (EFin 0)))).
      { eapply veq_trans; [exact HT|]. apply veq_shift3; [exact (IHf n w x v v' Hwf HB Lw Lx E1 E2) | numR; ring]. }
      clear HT. destruct vt, v; cbn in Hin |- *; try tauto. numR. lra.
  - (* FInfConv *) cbn [value] in Hv. discriminate.
  - (* FDefConj *) cbn [value] in Hv. discriminate.
  - (* FBreg *) cbn [wf value] in *. exact (IHq n w x vx vxx Hwf HB Lw Lx Hv Hcc).
  - (* FSep2 *) cbn [wf] in Hwf. destruct Hwf as (Hk & Hwf1 & Hwf2). destruct HB as [B1 B2].
    cbn [value] in Hv. unfold radd in Hv.
    destruct (val f (firstn k w) (firstn k x)) as [v1|] eqn:E1; cbn [rbind] in Hv; inv_ok.
    destruct (val g (skipn k w) (skipn k x)) as [v2|] eqn:E2; cbn [rbind] in Hv; inv_ok.
    unfold ccval in Hcc. cbn [cconj] in Hcc.
    destruct (cj (firstn k w) f) as [f'|] eqn:C1; cbn [rbind] in Hcc; [|discriminate].
    destruct (cj (skipn k w) g) as [g'|] eqn:C2; cbn [rbind] in Hcc; [|discriminate].
    apply (cval_FSep2_inv sqrtf) in Hcc. destruct Hcc as (u1 & u2 & D1 & D2 & ->).
    rewrite (ccval_of_conj _ f f' _ C1) in D1. rewrite (ccval_of_conj _ g g' _ C2) in D2.
    assert (Lf : forall l : Rvec, length l = n -> length (firstn k l) = k)
      by (intros l Hl; rewrite firstn_length; lia).
    assert (Ls : forall l : Rvec, length l = n -> length (skipn k l) = (n - k)%nat)
      by (intros l Hl; rewrite skipn_length; lia).
    apply veq_eadd.
    + exact (IHf k _ _ v1 u1 Hwf1 B1 (Lf w Lw) (Lf x Lx) E1 D1).
    + exact (IHg (n - k)%nat _ _ v2 u2 Hwf2 B2 (Ls w Lw) (Ls x Lx) E2 D2).
  - (* FPair *) unfold ccval, Rules.cval in Hcc. cbn [cconj value] in Hcc, Hv. rewrite negb_involutive in Hcc.
    rewrite Hv in Hcc. inv_ok. apply veq_refl.
Qed.

End BC.

Lemma biconj_tree (sqrtf : R -> R) :
  (forall a, 0 <= a -> 0 <= sqrtf a /\ sqrtf a * sqrtf a = a) ->
  forall (e e' e'' : fxR) n w x vx vxx,
  wf n e -> B e -> length w = n -> length x = n ->
  value sqrtf 0 e w x = Ok vx -> cconj w e = Ok e' -> cconj w e' = Ok e'' ->
  value sqrtf 0 e'' w x = Ok vxx -> veq (Ok vxx) (Ok vx).
Proof.
  intros Hsq e e' e'' n w x vx vxx Hwf HB Lw Lx Hv H1 H2 Hv2.
  apply (biconj_all sqrtf e n w x vx vxx); auto.
  unfold ccval, cval. rewrite H1, H2. exact Hv2.
Qed.

Lemma B_example_proof :
  let e : fxR := FLeft 2 (FTransl (FSep2 1 (FHuber 1) (FRight (-3) (FLp P2))) [1; 0; 2]) in
  wf 3 e /\ B e.
Proof.
  cbv zeta. split.
  - cbn [wf length]. repeat split; try lra; try lia.
  - cbn [B]. repeat split. intros _ w f' H. cbn in H. injection H as <-. reflexivity.
Qed.
