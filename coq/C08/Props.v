(* C08/Props.v -- property theorems only; each is closed by [exact] of a lemma from
   C08/Proofs*.v and followed by Print Assumptions.

   Objects (C08/Model.v, tied to /repo by the correspondence of harness/c08.py):
     fexpr          functional expression trees, one constructor per Functional class
     value e w x    e(x) on the space with weights w  (Ok (EFin v | EPInf | EJunk) | Err exception)
     cconj w e      the tree that e.convex_conj builds (Err = the exception it raises)
     prox / grad    e.proximal(sigma)(x), e.gradient(x)
   [wf n e] (C08/Rules.v) are the side conditions under which the library's rules are meant
   to hold: LeftScalarMult s > 0, RightScalarMult s <> 0, RightVectorMult entries <> 0,
   QuadraticPerturb a >= 0, Huber gamma > 0, QuadraticForm scaling > 0, vectors of length n.
   [sqrtf] is np.sqrt: any function with the defining property of the square root. *)
From Coq Require Import Reals Qreals List Bool.
From Verif Require Import Base.Num Base.Vec Base.VecR C08.Model C08.VecLemmas C08.Rules C08.Proofs
  C08.ProxRules C08.Moreau C08.GradEq C08.Biconj C08.KL C08.ConjTables C08.Transfer C08.Group C08.ProxPoint.
Import ListNotations.
Local Open Scope R_scope.

(* T1  Fenchel-Young for EVERY expression tree (all depths), every dimension n, all positive
   weights, all x, y: whenever the library can evaluate f(x) and f.convex_conj(y),
       f(x) + f.convex_conj(y) >= <x, y>_w
   ([fy a b r] reads a + b >= r on extended values; it is False for -inf/nan, so the theorem
   also says that these never occur).  The conjugate tree e' is the one the rules of
   FunctionalLeftScalarMult / RightScalarMult / RightVectorMult / ScalarSum / Translation /
   QuadraticPerturb / InfimalConvolution / BregmanDistance / DefaultConvexConjugate /
   SeparableSum and the built-in pairs L1<->ball_inf, L2<->ball_2, Linf<->ball_1, L2^2,
   Constant<->IndicatorZero, Huber, QuadraticForm(scaling) construct. *)
Theorem fenchel_young :
  forall (sqrtf : R -> R), (forall a, 0 <= a -> 0 <= sqrtf a /\ sqrtf a * sqrtf a = a) ->
  forall (e e' : fxR) (n : nat) (w x y : list R) (vx vy : extR),
  wf n e -> wpos w -> wadm w e -> length w = n -> length x = n -> length y = n ->
  value sqrtf 0 e w x = Ok vx -> cconj w e = Ok e' -> value sqrtf 0 e' w y = Ok vy ->
  fy vx vy (wdot w x y).
Proof. exact fenchel_young_tree. Qed.
Print Assumptions fenchel_young.

(* non-vacuity: the premises hold for the real square root and a depth-3 tree *)
Example sqrt_instance : forall a, 0 <= a -> 0 <= sqrt a /\ sqrt a * sqrt a = a.
Proof. exact Rsqrt_spec. Qed.
Example wf_example :
  let e : fxR := FLeft 2 (FTransl (FSep2 1 (FHuber 1) (FRight (-3) (FLp P2))) [1; 0; 2]) in
  wf 3 e /\ (exists vx, value sqrt 0 e [1; 2; 2] [0; 1; 1] = Ok vx)
  /\ (exists e' vy, cconj [1; 2; 2] e = Ok e' /\ value sqrt 0 e' [1; 2; 2] [1; 0; 0] = Ok vy).
Proof. exact wf_example_proof. Qed.

(* T1  Moreau decomposition for EVERY expression tree: whenever both proximals exist,
       prox_{sigma f}(x) + sigma * prox_{f.convex_conj / sigma}(x / sigma) = x
   for all sigma > 0, all x, all dimensions and weights (incl. the sort-based l1-ball projection of the
   LpNorm(inf) <-> IndicatorLpUnitBall(1) pair, through its positive homogeneity, C08/ProjL1.v).
   [D e] (C08/ProxRules.v) excludes, besides the classes that have no proximal (for which the premise is
   false anyway), only a reflection f(s .), s < 0, of a functional whose conjugate is flagged linear
   (the library's conjugate is then a LeftScalarMult with a negative scalar, which has no proximal). *)
Theorem moreau_decomposition :
  forall (sqrtf : R -> R), (forall a, 0 <= a -> 0 <= sqrtf a /\ sqrtf a * sqrtf a = a) ->
  forall (e e' : fxR) (n : nat) (w x : list R) (sigma : R) (p q : list R),
  wf n e -> D e -> length w = n -> length x = n -> 0 < sigma ->
  prox sqrtf e w sigma x = Ok p -> cconj w e = Ok e' ->
  prox sqrtf e' w (1 / sigma) (vscal (1 / sigma) x) = Ok q ->
  vadd p (vscal sigma q) = x.
Proof. exact moreau_tree. Qed.
Print Assumptions moreau_decomposition.

Example D_example :
  let e : fxR := FLeft 2 (FTransl (FSep2 1 (FHuber 1) (FRight (-3) (FLp P2))) [1; 0; 2]) in
  wf 3 e /\ D e /\ (exists p, prox sqrt e [1; 2; 2] (1 / 2) [0; 1; 1] = Ok p).
Proof. exact D_example_proof. Qed.

(* T1  Equality in Fenchel-Young at the gradient, for EVERY expression tree: whenever the library
   can evaluate grad f(x), f(x) and f.convex_conj(grad f(x)),
       f(x) + f.convex_conj(grad f(x)) = <x, grad f(x)>_w      (both values finite).
   Gradients modelled: L1 (sign), L2 (x/|x|, 0 at 0), L2^2, Constant, Huber, QuadraticForm(scaling) and the
   rules of Left/RightScalarMult, RightVectorMult, ScalarSum, Translation, QuadraticPerturb,
   BregmanDistance, SeparableSum. *)
Theorem fenchel_young_equality_at_gradient :
  forall (sqrtf : R -> R), (forall a, 0 <= a -> 0 <= sqrtf a /\ sqrtf a * sqrtf a = a) ->
  forall (e e' : fxR) (n : nat) (w x g : list R) (vx vg : extR),
  wf n e -> wpos w -> wadm w e -> length w = n -> length x = n ->
  grad sqrtf e w x = Ok g -> value sqrtf 0 e w x = Ok vx ->
  cconj w e = Ok e' -> value sqrtf 0 e' w g = Ok vg ->
  eadd vx vg = EFin (wdot w x g).
Proof. exact grad_equality_tree. Qed.
Print Assumptions fenchel_young_equality_at_gradient.

(* T1  f.convex_conj.convex_conj takes the same values as f, for every tree on which the library can
   evaluate both: [veq (Ok a) (Ok b)] is equality of extended values (finite values equal as reals,
   +inf = +inf).  Trees for which f** is only the unevaluable default conjugate (Huber, QuadraticPerturb with
   a <> 0 inside a conjugate, ...) make the premise false.  Includes the LeftScalarMult that
   Functional.__mul__ builds when the conjugate is flagged linear (e.g. 2 * IndicatorZero: [zi] shows such
   functionals only take the values 0 and +inf) and QuadraticForm with operator and vector.
   [B e] (C08/Biconj.v) is the same single clause as in [D]: no reflection f(s .), s < 0, of a functional
   whose conjugate is flagged linear -- there the library's conjugate is a LeftScalarMult with a negative
   scalar whose own convex_conj raises ValueError, i.e. the biconjugate cannot be evaluated (hence the name
   _partial is kept only because that last fact is not proved for un-merged nested reflections).
   Before fix de676f9 of /repo the statement was false (finding defaultconj-linear-flag, guarded by a probe). *)
Theorem biconjugate_partial :
  forall (sqrtf : R -> R), (forall a, 0 <= a -> 0 <= sqrtf a /\ sqrtf a * sqrtf a = a) ->
  forall (e e' e'' : fxR) (n : nat) (w x : list R) (vx vxx : extR),
  wf n e -> B e -> length w = n -> length x = n ->
  value sqrtf 0 e w x = Ok vx -> cconj w e = Ok e' -> cconj w e' = Ok e'' ->
  value sqrtf 0 e'' w x = Ok vxx -> veq (Ok vxx) (Ok vx).
Proof. exact biconj_tree. Qed.
Print Assumptions biconjugate_partial.

Example B_example :
  let e : fxR := FLeft 2 (FTransl (FSep2 1 (FHuber 1) (FRight (-3) (FLp P2))) [1; 0; 2]) in
  wf 3 e /\ B e.
Proof. exact B_example_proof. Qed.

(* T2  The Kullback-Leibler pairs (formulas transcribed by hand from the four _call bodies, with
   scipy's xlogy; NOT executed by the correspondence because of ln/exp -- tie = probes only):
   Fenchel-Young on the natural domains, all dimensions and positive weights, any prior g. *)
Theorem kl_fenchel_young : forall (w g x y : list R),
  wpos w -> Forall (fun a => 0 <= a) g -> Forall (fun a => 0 < a) x -> Forall (fun a => a < 1) y ->
  length g = length w -> length x = length w -> length y = length w ->
  wdot w x y <= KL w g x + KLconj w g y.
Proof. exact kl_fenchel_young_proof. Qed.
Theorem kl_cross_entropy_fenchel_young : forall (w g x y : list R),
  wpos w -> Forall (fun a => 0 < a) g -> Forall (fun a => 0 <= a) x ->
  length g = length w -> length x = length w -> length y = length w ->
  wdot w x y <= KLCE w g x + KLCEconj w g y.
Proof. exact klce_fenchel_young_proof. Qed.
Print Assumptions kl_cross_entropy_fenchel_young.
(* entrywise equality at the gradients 1 - g/x  and  ln(x/g) *)
Theorem kl_equality_at_gradient : forall g x : R, 0 < g -> 0 < x ->
  kl1 g x + klc1 g (1 - g / x) = x * (1 - g / x) /\ kce1 g x + kcec1 g (ln (x / g)) = x * ln (x / g).
Proof. exact kl_equality_at_gradient_proof. Qed.
Print Assumptions kl_fenchel_young.

(* TIE  The conjugation rules are REGENERATED from the source on every run (translate/conjugates.py ->
   Gen/Conjugates.v: the body of every `convex_conj` property of functional.py and
   default_functionals.py and the case table of conj_exponent).  [interp w e] (C08/ConjTables.v) is what
   the generated body of e's class denotes given the conjugates of e's operands; the hand-written
   [cconj] used by all theorems above satisfies every generated equation, at both carriers.  A changed
   exponent, 1/4, gamma/2, sign, reciprocal, class name, branch condition or evaluation order in the
   source therefore breaks this proof.  ([constructible] only excludes QuadraticForm() without operator
   and vector, which the constructor rejects.) *)
Theorem cconj_is_generated_R : forall (w : list R) (e : fxR),
  constructible e -> cconj w e = interp w e.
Proof. exact cconj_generated_R. Qed.
Theorem cconj_is_generated_Q : forall (w : list QArith_base.Q) (e : @fexpr QArith_base.Q),
  constructible e -> cconj w e = interp w e.
Proof. exact cconj_generated_Q. Qed.
Print Assumptions cconj_is_generated_Q.

(* TRANSFER  The model run at Q by the correspondence shards is the rational restriction of the model
   the theorems are about: Q2R commutes with [value] on every tree in which no square root is taken
   (no L2Norm / IndicatorLpUnitBall(2) / IndicatorZero in value position; any sq, sr may be plugged in)
   and with [cconj] on every tree whose RightVectorMult multipliers have nonzero entries. *)
Theorem value_Q_is_restriction_of_R : forall (sq : QArith_base.Q -> QArith_base.Q) (sr : R -> R) (e : fxQ),
  sqrt_free e = true -> forall w x,
  rmap eR (value sq nzero e w x) = value sr nzero (fR e) (map Q2R w) (map Q2R x).
Proof. exact value_transfer. Qed.
Theorem cconj_Q_is_restriction_of_R : forall (e : fxQ), vec_nz e -> forall w,
  rmap fR (cconj w e) = cconj (map Q2R w) (fR e).
Proof. exact cconj_transfer. Qed.
Print Assumptions cconj_Q_is_restriction_of_R.

(* GROUP PAIR  GroupL1Norm(S, 2) <-> IndicatorGroupL1UnitBall(S, 2) on a product space S = X^d with positive
   component weights cw (ProductSpace(X, d, weighting=cw); X with m points and its own weights; flat vectors
   of length d*m) enters the trees as the abstract pair [FPair b (group_pair sqrtf cw m)] with the WEIGHTED
   pointwise norm |x_i| = sqrt(sum_j cw_j x_ji^2) in value, conjugate and both proximals.  All theorems above
   hold for trees containing it because the pair is consistent for ALL d >= 1, m and cw > 0: lengths
   preserved, Moreau identity of proximal_l1_l2 / proximal_convex_conj_l1_l2, Fenchel-Young in the space's own
   inner product sum_j cw_j <x_j, y_j>_X (weighted pointwise Cauchy-Schwarz).  Gradient not modelled. *)
Theorem group_pair_consistent :
  forall (sqrtf : R -> R), (forall a, 0 <= a -> 0 <= sqrtf a /\ sqrtf a * sqrtf a = a) ->
  forall (m : nat) (cw : list R), cwpos cw -> cw <> [] -> pair_ok (length cw * m) (group_pair sqrtf cw m).
Proof. exact group_pair_ok. Qed.
Print Assumptions group_pair_consistent.

(* PROX POINT  Fenchel-Young EQUALITY at the proximal point, for every tree over the leaves L1, unit inf-ball,
   L2^2, Constant, IndicatorZero, Huber (PPok) and every proximal rule:
       p = prox_{sigma f}(x)  ==>  f(p) + f.convex_conj((x - p)/sigma) = <p, (x - p)/sigma>,
   i.e. (x - p)/sigma is a subgradient at p: p IS the minimiser of f + |. - x|^2/(2 sigma).  Unlike the Moreau
   identity this is not blind to an error made consistently in prox_f and prox_{f*}; in particular it holds for the
   REFLECTION f(s .) with s < 0 only because the model's proximal_arg_scaling is (1/s) prox_{sigma s^2 f}(s x)
   (a sign-blind shortcut for s^2 = 1 breaks the correspondence of [prox] and the 'prox-point' probes). *)
Theorem prox_point_fenchel_equality :
  forall (sqrtf : R -> R), (forall a, 0 <= a -> 0 <= sqrtf a /\ sqrtf a * sqrtf a = a) ->
  forall (e e' : fxR) (n : nat) (w x : list R) (sigma : R) (p : list R) (vp vq : extR),
  wf n e -> PPok e -> wpos w -> length w = n -> length x = n -> 0 < sigma ->
  prox sqrtf e w sigma x = Ok p -> value sqrtf 0 e w p = Ok vp ->
  cconj w e = Ok e' -> value sqrtf 0 e' w (vscal (1 / sigma) (vsub x p)) = Ok vq ->
  eadd vp vq = EFin (wdot w p (vscal (1 / sigma) (vsub x p))).
Proof. exact prox_point_tree. Qed.
Print Assumptions prox_point_fenchel_equality.
Example PP_example :
  let e : fxR := FRight (-1) (FTransl (FLp P1) [1; -2]) in
  wf 2 e /\ PPok e /\ (exists p, prox sqrt e [1; 1] (1 / 2) [3; 0] = Ok p).
Proof. exact PP_example_proof. Qed.
