(* C08/Props.v -- property theorems only. *)
From Coq Require Import Reals List Bool.
From Verif Require Import Base.Num Base.Vec Base.VecR C08.Model C08.Proofs.
