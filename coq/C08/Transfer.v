(* C08/Transfer.v -- the model executed at Q by the correspondence shards is the rational
   restriction of the model the theorems are about: Q2R commutes with [value], [is_linear] and
   [cconj] (the tree that convex_conj builds) for every tree without a square root, i.e. without
   L2Norm / IndicatorLpUnitBall(2) / IndicatorZero in VALUE position (cconj needs no restriction
   beyond nonzero multiplier entries).  So for those trees the rational sqrt approximation of
   C08/Corr.v is irrelevant and the Q-instance/R-instance link is a theorem, not an assumption. *)
From Coq Require Import ZArith QArith Qabs Qreals Reals Lra Lia List Bool.
From Verif Require Import Base.Num Base.Vec Base.Transfer C08.Model.
Import ListNotations.

Notation QR := (map Q2R).
Notation fxQ := (@fexpr Q).
Notation fxRr := (@fexpr R).

(* ------------------------------------------------------------------ lists *)
Lemma QR_vmap2 (f : Q -> Q -> Q) (g : R -> R -> R) (x y : list Q) :
  (forall a b, Q2R (f a b) = g (Q2R a) (Q2R b)) -> QR (vmap2 f x y) = vmap2 g (QR x) (QR y).
Proof.
  intros Hf. revert y; induction x as [|a x IH]; intros [|b y]; cbn [vmap2 map]; try reflexivity.
  rewrite Hf, IH. reflexivity.
Qed.
Lemma QR_vadd x y : QR (vadd x y) = vadd (QR x) (QR y).
Proof. apply QR_vmap2, Q2R_nadd. Qed.
Lemma QR_vsub x y : QR (vsub x y) = vsub (QR x) (QR y).
Proof. apply QR_vmap2, Q2R_nsub. Qed.
Lemma QR_vmul x y : QR (vmul x y) = vmul (QR x) (QR y).
Proof. apply QR_vmap2, Q2R_nmul. Qed.
Lemma QR_vscal a x : QR (vscal a x) = vscal (Q2R a) (QR x).
Proof. unfold vscal. rewrite !map_map. apply map_ext. intros; apply Q2R_nmul. Qed.
Lemma Q2R_sumf l : Q2R (sumf l) = sumf (QR l).
Proof. induction l as [|a l IH]; cbn [sumf map]; [apply Q2R_nzero | rewrite Q2R_nadd, IH; reflexivity]. Qed.
Lemma Q2R_wdot w x y : Q2R (wdot w x y) = wdot (QR w) (QR x) (QR y).
Proof. unfold wdot. rewrite Q2R_sumf, !QR_vmul. reflexivity. Qed.
Lemma Q2R_wsum w x : Q2R (wsum w x) = wsum (QR w) (QR x).
Proof. unfold wsum. rewrite Q2R_sumf, QR_vmul. reflexivity. Qed.
Lemma Q2R_nmax a b : Q2R (nmax a b) = nmax (Q2R a) (Q2R b).
Proof. unfold nmax. rewrite <- Q2R_nleb. destruct (nleb a b); reflexivity. Qed.
Lemma Q2R_vmaxabs x : Q2R (vmaxabs x) = vmaxabs (QR x).
Proof.
  unfold vmaxabs. induction x as [|a x IH]; cbn [fold_right map]; [apply Q2R_nzero|].
  rewrite Q2R_nmax, Q2R_nabs, IH. reflexivity.
Qed.
Lemma QR_map_abs x : QR (map nabs x) = map nabs (QR x).
Proof. rewrite !map_map. apply map_ext. intros; apply Q2R_nabs. Qed.
Lemma QR_vconst n : QR (vconst n nzero) = vconst n nzero.
Proof. unfold vconst. induction n; cbn [repeat map]; [reflexivity | rewrite IHn, Q2R_nzero; reflexivity]. Qed.

(* ------------------------------------------------------------------ trees *)
Definition omap {A B} (f : A -> B) (o : option A) : option B := match o with Some a => Some (f a) | None => None end.
Fixpoint fR (e : fxQ) : fxRr :=
  match e with
  | FLp p => FLp p | FIndBall p => FIndBall p | FL2Sq => FL2Sq
  | FConst c => FConst (Q2R c) | FIndZero c => FIndZero (Q2R c) | FHuber g => FHuber (Q2R g)
  | FQuadS a b c => FQuadS (omap Q2R a) (omap QR b) (Q2R c)
  | FLeft s f => FLeft (Q2R s) (fR f) | FRight s f => FRight (Q2R s) (fR f)
  | FRightVec v f => FRightVec (QR v) (fR f)
  | FSum f g => FSum (fR f) (fR g) | FScalarSum f c => FScalarSum (fR f) (Q2R c)
  | FTransl f t => FTransl (fR f) (QR t)
  | FQuadPert f a u c => FQuadPert (fR f) (Q2R a) (QR u) (Q2R c)
  | FInfConv f g => FInfConv (fR f) (fR g) | FDefConj f => FDefConj (fR f) | FBreg q => FBreg (fR q)
  | FSep2 k f g => FSep2 k (fR f) (fR g)
  | FPair _ _ => FIndZero nzero       (* abstract pairs carry functions: outside the transfer theorems *)
  end.
Definition eR (v : @ext Q) : @ext R := match v with EFin c => EFin (Q2R c) | EPInf => EPInf | EJunk => EJunk end.
Definition rmap {A B} (f : A -> B) (r : res A) : res B := match r with Ok a => Ok (f a) | Err e => Err e end.

Lemma Q2R_zero_test (a : Q) : neqb a nzero = neqb (Q2R a) nzero.
Proof. rewrite Q2R_neqb, Q2R_nzero. reflexivity. Qed.

Lemma is_linear_fR e : is_linear (fR e) = is_linear e.
Proof.
  induction e; cbn [fR is_linear]; try reflexivity; rewrite ?IHe, ?IHe1, ?IHe2, <- ?Q2R_zero_test; try reflexivity.
  destruct a; reflexivity.
Qed.
Lemma fR_mkLeft s f : fR (mkLeft s f) = mkLeft (Q2R s) (fR f).
Proof. destruct f; cbn [mkLeft fR]; try reflexivity. rewrite Q2R_nmul. reflexivity. Qed.
Lemma fR_mkRight s f : fR (mkRight s f) = mkRight (Q2R s) (fR f).
Proof. destruct f; cbn [mkRight fR]; try reflexivity. rewrite Q2R_nmul. reflexivity. Qed.
Lemma fR_mkTransl f t : fR (mkTransl f t) = mkTransl (fR f) (QR t).
Proof. destruct f; cbn [mkTransl fR]; try reflexivity. rewrite QR_vadd. reflexivity. Qed.
Lemma fR_mul_right f s : fR (mul_right f s) = mul_right (fR f) (Q2R s).
Proof. unfold mul_right. rewrite is_linear_fR. destruct (is_linear f); [apply fR_mkLeft | apply fR_mkRight]. Qed.
Lemma fR_rmul s f : fR (rmul s f) = rmul (Q2R s) (fR f).
Proof.
  unfold rmul. rewrite <- Q2R_zero_test. destruct (neqb s nzero); [cbn [fR]; rewrite Q2R_nzero; reflexivity | apply fR_mkLeft].
Qed.

(* ---------------------------------------------------------------- value *)
(* no square root is taken while evaluating e *)
Fixpoint sqrt_free (e : fxQ) : bool :=
  match e with
  | FLp P2 | FIndBall P2 | FIndZero _ | FPair _ _ => false
  | FLp _ | FIndBall _ | FL2Sq | FConst _ | FHuber _ | FQuadS _ _ _ | FInfConv _ _ | FDefConj _ => true
  | FLeft _ f | FRight _ f | FRightVec _ f | FScalarSum f _ | FTransl f _ | FQuadPert f _ _ _ | FBreg f => sqrt_free f
  | FSum f g | FSep2 _ f g => sqrt_free f && sqrt_free g
  end.

Lemma two_nz : ~ (@of_Z Q _ 2 == 0)%Q.
Proof. cbn. intros H. discriminate H. Qed.

Lemma Q2R_huber1 g t : Q2R (huber1 g t) = huber1 (Q2R g) (Q2R t).
Proof.
  unfold huber1. rewrite <- (Q2R_nzero) at 1. rewrite <- Q2R_nltb.
  destruct (nltb nzero g) eqn:Hg; [|apply Q2R_nabs].
  rewrite <- Q2R_nabs, <- Q2R_nleb. destruct (nleb g (nabs t)).
  - rewrite Q2R_nsub, Q2R_ndiv, Q2R_of_Z by apply two_nz. reflexivity.
  - assert (Hnz : ~ (nmul (of_Z 2) g == 0)%Q).
    { cbn [nltb nzero Num_Q] in Hg. apply negb_true_iff in Hg.
      assert (Hpos : (0 < g)%Q) by (apply Qnot_le_lt; intros Hle; apply Qle_bool_iff in Hle; congruence).
      cbn [nmul of_Z Num_Q]. rewrite Qred_correct. intros Hz.
      assert (H2 : (0 < inject_Z 2 * g)%Q) by (apply Qmult_lt_0_compat; [reflexivity | assumption]).
      rewrite Hz in H2. apply Qlt_irrefl in H2. exact H2. }
    rewrite !Q2R_nmul, Q2R_ndiv, Q2R_none, Q2R_nmul, Q2R_of_Z by exact Hnz. reflexivity.
Qed.
Lemma QR_map_huber g x : QR (map (huber1 g) x) = map (huber1 (Q2R g)) (QR x).
Proof. rewrite !map_map. apply map_ext. intros; apply Q2R_huber1. Qed.

Lemma eR_eadd a b : eR (eadd a b) = eadd (eR a) (eR b).
Proof. destruct a, b; cbn [eadd eR]; try reflexivity. rewrite Q2R_nadd. reflexivity. Qed.
Lemma eR_escal s a : eR (escal s a) = escal (Q2R s) (eR a).
Proof.
  destruct a; cbn [escal eR]; try reflexivity.
  - rewrite Q2R_nmul. reflexivity.
  - rewrite <- Q2R_nzero at 1. rewrite <- Q2R_nltb. destruct (nltb nzero s); reflexivity.
Qed.

Lemma ball_transfer (a : Q) :
  eR (if nltb (nadd none_ nzero) a then EPInf else EFin nzero)
  = if nltb (nadd none_ nzero) (Q2R a) then EPInf else EFin nzero.
Proof.
  assert (E : @nadd R _ none_ nzero = Q2R (nadd none_ nzero)) by (rewrite Q2R_nadd, Q2R_none, Q2R_nzero; reflexivity).
  rewrite E, <- Q2R_nltb. destruct (nltb _ a); cbn [eR]; rewrite ?Q2R_nzero; reflexivity.
Qed.

Theorem value_transfer (sq : Q -> Q) (sr : R -> R) (e : fxQ) : sqrt_free e = true -> forall w x,
  rmap eR (value sq nzero e w x) = value sr nzero (fR e) (QR w) (QR x).
Proof.
  induction e; intros Hsf w x; cbn [sqrt_free] in Hsf; cbn [value fR rmap].
  - destruct p; try discriminate; cbn [lpnorm eR]; f_equal; f_equal.
    + rewrite Q2R_wsum, QR_map_abs. reflexivity.
    + apply Q2R_vmaxabs.
  - destruct p; try discriminate; cbn [lpnorm]; f_equal.
    + rewrite <- QR_map_abs, <- Q2R_wsum. apply ball_transfer.
    + rewrite <- Q2R_vmaxabs. apply ball_transfer.
  - cbn [eR]. rewrite Q2R_wdot. reflexivity.
  - reflexivity.
  - discriminate.
  - cbn [eR]. rewrite Q2R_wsum, QR_map_huber. reflexivity.
  - destruct a as [a|], b as [b|]; cbn [omap rmap eR]; try reflexivity.
    + rewrite Q2R_nadd, Q2R_wdot, QR_vadd, QR_vscal. reflexivity.
    + rewrite Q2R_nadd, Q2R_wdot, QR_vscal. reflexivity.
    + rewrite Q2R_nadd, Q2R_wdot. reflexivity.
  - rewrite <- (IHe Hsf). destruct (value sq nzero e w x); cbn [rbind rmap]; [rewrite eR_escal|]; reflexivity.
  - rewrite <- QR_vscal. apply IHe, Hsf.
  - rewrite <- QR_vmul. apply IHe, Hsf.
  - apply andb_prop in Hsf as [H1 H2]. unfold radd. rewrite <- (IHe1 H1), <- (IHe2 H2).
    destruct (value sq nzero e1 w x); cbn [rbind rmap]; [|reflexivity].
    destruct (value sq nzero e2 w x); cbn [rbind rmap]; [rewrite eR_eadd|]; reflexivity.
  - unfold radd. rewrite <- (IHe Hsf).
    destruct (value sq nzero e w x); cbn [rbind rmap]; [rewrite eR_eadd|]; reflexivity.
  - rewrite <- QR_vsub. apply IHe, Hsf.
  - rewrite <- (IHe Hsf). destruct (value sq nzero e w x); cbn [rbind rmap]; [|reflexivity].
    rewrite !eR_eadd. cbn [eR]. rewrite Q2R_nmul, !Q2R_wdot. reflexivity.
  - reflexivity.
  - reflexivity.
  - apply IHe, Hsf.
  - apply andb_prop in Hsf as [H1 H2]. unfold radd.
    rewrite !firstn_map, !skipn_map, <- (IHe1 H1), <- (IHe2 H2).
    destruct (value sq nzero e1 _ _); cbn [rbind rmap]; [|reflexivity].
    destruct (value sq nzero e2 _ _); cbn [rbind rmap]; [rewrite eR_eadd|]; reflexivity.
  - discriminate.
Qed.

(* ---------------------------------------------------------------- cconj *)
(* divisions by the entries of a RightVectorMult multiplier must be by nonzero numbers *)
Fixpoint vec_nz (e : fxQ) : Prop :=
  match e with
  | FRightVec v f => Forall (fun a => ~ (a == 0)%Q) v /\ vec_nz f
  | FLeft _ f | FRight _ f | FScalarSum f _ | FTransl f _ | FQuadPert f _ _ _ | FDefConj f | FBreg f => vec_nz f
  | FSum f g | FInfConv f g | FSep2 _ f g => vec_nz f /\ vec_nz g
  | FPair _ _ => False
  | _ => True
  end.

Lemma neqb_false_nz (a : Q) : neqb a nzero = false -> ~ (a == 0)%Q.
Proof. cbn. intros H E. apply Qeq_bool_iff in E. congruence. Qed.
Lemma nleb_false_nz (a : Q) : nleb a nzero = false -> ~ (a == 0)%Q.
Proof. cbn. intros H E. assert (Qle_bool a 0 = true) by (apply Qle_bool_iff; rewrite E; apply Qle_refl). congruence. Qed.
Lemma four_nz : ~ (@of_Z Q _ 4 == 0)%Q.
Proof. cbn. intros H. discriminate H. Qed.
Lemma Q2R_quarter : Q2R quarter = quarter.
Proof. unfold quarter. rewrite Q2R_ndiv, Q2R_none, Q2R_of_Z by apply four_nz. reflexivity. Qed.
Lemma QR_map_inv v : Forall (fun a => ~ (a == 0)%Q) v ->
  QR (map (fun a => ndiv none_ a) v) = map (fun a => ndiv none_ a) (QR v).
Proof.
  induction 1 as [|a v Ha Hv IH]; cbn [map]; [reflexivity|].
  rewrite IH, Q2R_ndiv, Q2R_none by assumption. reflexivity.
Qed.

Theorem cconj_transfer (e : fxQ) : vec_nz e -> forall w,
  rmap fR (cconj w e) = cconj (QR w) (fR e).
Proof.
  induction e; intros Hnz w; cbn [vec_nz] in Hnz; cbn [cconj fR rmap]; try reflexivity.
  - (* FL2Sq *) rewrite fR_rmul, Q2R_quarter. reflexivity.
  - rewrite Q2R_nopp. reflexivity.
  - rewrite Q2R_nopp. reflexivity.
  - (* FHuber *) cbn [fR]. rewrite Q2R_ndiv, Q2R_of_Z, QR_vconst, Q2R_nzero, map_length by apply two_nz. reflexivity.
  - (* FQuadS *) destruct a as [a|], b as [b|]; cbn [omap]; try reflexivity.
    + rewrite <- Q2R_zero_test. destruct (neqb a nzero) eqn:Ea; [reflexivity|]. pose proof (neqb_false_nz a Ea) as Ha.
      cbn [rmap fR omap]. rewrite !Q2R_nmul, Q2R_quarter, !Q2R_ndiv, Q2R_none by assumption.
      rewrite QR_vscal, QR_vadd, !QR_vscal, Q2R_nopp, Q2R_quarter, Q2R_ndiv, Q2R_none by assumption.
      rewrite Q2R_nsub, Q2R_nmul, Q2R_quarter, Q2R_wdot, QR_vscal, Q2R_ndiv, Q2R_none by assumption. reflexivity.
    + rewrite <- Q2R_zero_test. destruct (neqb a nzero) eqn:Ea; [reflexivity|]. pose proof (neqb_false_nz a Ea) as Ha.
      cbn [rmap fR omap]. rewrite Q2R_nmul, Q2R_quarter, Q2R_ndiv, Q2R_none, Q2R_nopp by assumption. reflexivity.
    + cbn [rmap]. rewrite fR_mkTransl. cbn [fR]. rewrite Q2R_nopp. reflexivity.
  - (* FLeft *) rewrite <- Q2R_nzero, <- Q2R_nleb. destruct (nleb s nzero) eqn:Es; [reflexivity|].
    rewrite <- (IHe Hnz). destruct (cconj w e); cbn [rbind rmap]; [|reflexivity].
    rewrite fR_mul_right, fR_rmul, Q2R_ndiv, Q2R_none by (apply nleb_false_nz, Es). reflexivity.
  - (* FRight *) rewrite <- (IHe Hnz). destruct (cconj w e); cbn [rbind rmap]; [|reflexivity].
    rewrite <- Q2R_zero_test. destruct (neqb s nzero) eqn:Es; [reflexivity|].
    cbn [rmap]. rewrite fR_mul_right, Q2R_ndiv, Q2R_none by (apply neqb_false_nz, Es). reflexivity.
  - (* FRightVec *) destruct Hnz as [Hv Hnz]. rewrite <- (IHe Hnz). destruct (cconj w e); cbn [rbind rmap]; [|reflexivity].
    cbn [fR]. rewrite QR_map_inv by assumption. reflexivity.
  - (* FScalarSum *) rewrite <- (IHe Hnz). destruct (cconj w e); cbn [rbind rmap fR]; [|reflexivity].
    rewrite Q2R_nmul, Q2R_nopp, Q2R_none. reflexivity.
  - (* FTransl *) rewrite <- (IHe Hnz). destruct (cconj w e); cbn [rbind rmap fR]; [|reflexivity].
    rewrite Q2R_nzero. reflexivity.
  - (* FQuadPert *) rewrite <- Q2R_zero_test. destruct (neqb a nzero); [|reflexivity].
    rewrite <- (IHe Hnz). destruct (cconj w e); cbn [rbind rmap]; [|reflexivity].
    rewrite <- Q2R_zero_test. destruct (neqb c nzero); cbn [fR]; rewrite fR_mkTransl; [reflexivity|].
    rewrite Q2R_nmul, Q2R_nopp, Q2R_none. reflexivity.
  - (* FInfConv *) destruct Hnz as [H1 H2]. rewrite <- (IHe1 H1), <- (IHe2 H2).
    destruct (cconj w e1); cbn [rbind rmap]; [|reflexivity]. destruct (cconj w e2); reflexivity.
  - (* FBreg *) apply IHe, Hnz.
  - (* FSep2 *) destruct Hnz as [H1 H2]. rewrite !firstn_map, !skipn_map, <- (IHe1 H1), <- (IHe2 H2).
    destruct (cconj _ e1); cbn [rbind rmap]; [|reflexivity]. destruct (cconj _ e2); reflexivity.
  - contradiction.
Qed.
