(* C08/Moreau.v -- Moreau decomposition  prox_{s f}(x) + s prox_{f*/s}(x/s) = x
   for all expression trees (under wf and D). *)
From Coq Require Import ZArith Reals Lra Lia List Bool Psatz.
From Verif Require Import Base.Num Base.Vec Base.VecR C08.Model C08.VecLemmas C08.Rules C08.ConjRules
  C08.Leaves C08.ProxRules C08.ProjL1.
Import ListNotations.
Local Open Scope R_scope.

Lemma vsub_zero n tau (y : Rvec) : length y = n -> vsub y (vscal tau (vconst n 0)) = y.
Proof.
  revert n; induction y as [|a y IH]; intros [|n] Hl; cbn in Hl; try lia; [reflexivity|].
  unfold vsub, vscal, vconst in *. cbn [repeat map vmap2]. rewrite IH by lia. numR. f_equal. ring.
Qed.
Lemma vconst_length n (c : R) : length (vconst n c) = n.
Proof. apply repeat_length. Qed.
Lemma vsub_app (a1 a2 b1 b2 : Rvec) : length a1 = length b1 ->
  vsub (a1 ++ a2) (b1 ++ b2) = vsub a1 b1 ++ vsub a2 b2.
Proof.
  revert b1; induction a1 as [|p a1 IH]; intros [|q b1] Hl; cbn in Hl; try lia; [reflexivity|].
  unfold vsub in *. cbn [app vmap2]. rewrite IH by lia. reflexivity.
Qed.

Section M.
Variable sqrtf : R -> R.
Hypothesis sqrtf_spec : forall a, 0 <= a -> 0 <= sqrtf a /\ sqrtf a * sqrtf a = a.
Notation prx := (@prox R _ sqrtf).
Notation cj := (@cconj R _).
Notation cprox := (cprox sqrtf).

Lemma sqrtf_one : sqrtf 1 = 1.
Proof. destruct (sqrtf_spec 1 ltac:(lra)) as [H1 H2]. nra. Qed.

(* the proximal of a functional flagged linear is  y - tau b  (or it never exists) *)
Definition LPform (g : fxR) (w : Rvec) (n : nat) : Prop :=
  (exists er, forall tau y, length y = n -> prx g w tau y = Err er) \/
  (exists b, length b = n /\ forall tau y, length y = n -> prx g w tau y = Ok (vsub y (vscal tau b))).

Lemma lp_sound g : forall n w, lwf n g -> is_linear g = true -> LPform g w n.
Proof.
  fxind g; intros n w Hl Hlin; cbn [is_linear lwf] in *; try discriminate.
  - (* FConst *) right. exists (vconst n 0). split; [apply vconst_length|].
    intros tau y Ly. rewrite vsub_zero by assumption. reflexivity.
  - (* FQuadS *) left. exists ENotImpl. reflexivity.
  - (* FLeft *) specialize (IHf n w Hl Hlin).
    assert (Hp : forall tau y, prx (FLeft s f) w tau y =
              if Rltb s 0 then Err EValue else if Reqb s 0 then Ok y else prx f w (tau * s) y) by reflexivity.
    destruct (Rltb_spec s 0) as [Hn|Hn]; [left; exists EValue; intros; rewrite Hp; reflexivity|].
    destruct (Reqb_spec s 0) as [Hz|Hz].
    + right. exists (vconst n 0). split; [apply vconst_length|]. intros tau y Ly.
      rewrite Hp, vsub_zero by assumption. reflexivity.
    + destruct IHf as [(er & He)|(b & Lb & Hb)].
      * left. exists er. intros; rewrite Hp; apply He; assumption.
      * right. exists (vscal s b). split; [rewrite vscal_length; assumption|].
        intros tau y Ly. rewrite Hp, Hb by assumption. rewrite vscal_vscal. reflexivity.
  - (* FRight *) specialize (IHf n w Hl Hlin).
    assert (Hp : forall tau y, prx (FRight s f) w tau y =
              if Reqb s 0 then (_ <- prx f w 1 y ;; Ok y)
              else (q <- prx f w (tau * (s * s)) (vscal s y) ;; Ok (vscal (1 / s) q))) by reflexivity.
    destruct (Reqb_spec s 0) as [Hz|Hz].
    + destruct IHf as [(er & He)|(b & Lb & Hb)].
      * left. exists er. intros tau y Ly. rewrite Hp, He by assumption. reflexivity.
      * right. exists (vconst n 0). split; [apply vconst_length|]. intros tau y Ly.
        rewrite Hp, Hb by assumption. cbn [rbind]. rewrite vsub_zero by assumption. reflexivity.
    + destruct IHf as [(er & He)|(b & Lb & Hb)].
      * left. exists er. intros tau y Ly. rewrite Hp, He by (rewrite vscal_length; assumption). reflexivity.
      * right. exists (vscal s b). split; [rewrite vscal_length; assumption|]. intros tau y Ly.
        rewrite Hp, Hb by (rewrite vscal_length; assumption). cbn [rbind].
        rewrite vscal_vsub, vscal_inv_l, !vscal_vscal by assumption.
        do 3 f_equal. field. assumption.
  - (* FRightVec *) left. exists ENotImpl. reflexivity.
  - (* FSum *) left. exists ENotImpl. reflexivity.
  - (* FScalarSum *) apply andb_true_iff in Hlin. destruct Hlin as [L1 _]. exact (IHf n w Hl L1).
  - (* FQuadPert *) apply andb_true_iff in Hlin. destruct Hlin as [L12 L3].
    apply andb_true_iff in L12. destruct L12 as [L1 L2]. numR.
    destruct (Reqb_spec a 0) as [->|]; [|discriminate]. destruct (Reqb_spec c 0) as [->|]; [|discriminate].
    destruct Hl as (Lu & Hl). specialize (IHf n w Hl L1).
    assert (Hprox : forall tau y, prx (FQuadPert f 0 u 0) w tau y =
              (q <- prx f w (tau * (1 * 1)) (vscal 1 (vsub (vscal 1 y) (vscal (tau * 1) u))) ;;
               Ok (vscal 1 (vscal 1 q)))).
    { intros tau y. cbn [prox]. unfold arg_scaling. numR. rewrite (Rltb_false 0 0) by lra.
      replace (tau * 2 * 0 + 1) with 1 by ring. rewrite sqrtf_one.
      assert (E11 : 1 / 1 = 1) by field. rewrite !E11. rewrite (Reqb_false 1 0) by lra.
      destruct (prx f w _ _); reflexivity. }
    destruct IHf as [(er & He)|(b & Lb & Hb)].
    + left. exists er. intros tau y Ly. rewrite Hprox, He; [reflexivity|].
      rewrite vscal_length, vsub_length; rewrite !vscal_length; congruence.
    + right. exists (vadd b u). split; [rewrite vadd_length; congruence|]. intros tau y Ly.
      rewrite Hprox, Hb by (rewrite vscal_length, vsub_length; rewrite !vscal_length; congruence).
      cbn [rbind]. rewrite !vscal_one.
      rewrite vsub_vsub. replace (tau * (1 * 1)) with tau by ring. replace (tau * 1) with tau by ring.
      rewrite vscal_vadd. reflexivity.
  - (* FSep2 *) apply andb_true_iff in Hlin. destruct Hlin as [L1 L2]. destruct Hl as (Hk & Hl1 & Hl2).
    specialize (IHf k (firstn k w) Hl1 L1). specialize (IHg (n - k)%nat (skipn k w) Hl2 L2).
    assert (Lf : forall y : Rvec, length y = n -> length (firstn k y) = k)
      by (intros y Hy; rewrite firstn_length; lia).
    assert (Ls : forall y : Rvec, length y = n -> length (skipn k y) = (n - k)%nat)
      by (intros y Hy; rewrite skipn_length; lia).
    assert (Hp : forall tau y, prx (FSep2 k f g) w tau y =
              (p <- prx f (firstn k w) tau (firstn k y) ;; q <- prx g (skipn k w) tau (skipn k y) ;; Ok (p ++ q)))
      by reflexivity.
    destruct IHf as [(er & He)|(b1 & Lb1 & Hb1)].
    + left. exists er. intros tau y Ly. rewrite Hp, He by auto. reflexivity.
    + destruct IHg as [(er & He)|(b2 & Lb2 & Hb2)].
      * left. exists er. intros tau y Ly. rewrite Hp, Hb1, He by auto. reflexivity.
      * right. exists (b1 ++ b2). split; [rewrite app_length; lia|]. intros tau y Ly.
        rewrite Hp, Hb1, Hb2 by auto. cbn [rbind].
        rewrite vscal_app, <- vsub_app by (rewrite vscal_length, Lf by assumption; congruence).
        rewrite firstn_skipn. reflexivity.
Qed.

(* ---------------------------------------------- properties of conjugate trees *)
Lemma lwf_conj e : forall n w e', wf n e -> D e -> length w = n -> cj w e = Ok e' -> lwf n e'.
Proof.
  fxind e; intros n w e' Hwf HD Lw Hc; cbn [cconj wf D] in *; try contradiction;
    try (injection Hc as <-; cbn [lwf]; auto; fail).
  - (* FL2Sq *) injection Hc as <-. unfold rmul. destruct (_ =? _)%num; exact I.
  - (* FHuber *) injection Hc as <-. cbn [lwf is_linear]. rewrite vconst_length.
    repeat split; auto; discriminate.
  - (* FLeft *) destruct Hwf as [Hs Hwf]. destruct (s <=? nzero)%num; [discriminate|].
    destruct (cj w f) as [f'|] eqn:E; cbn [rbind] in Hc; [|discriminate]. injection Hc as <-.
    apply lwf_mul_right. unfold rmul. destruct (s =? nzero)%num; [exact I|]. apply lwf_mkLeft. eauto.
  - (* FRight *) destruct Hwf as [Hs Hwf]. destruct HD as [_ HD].
    destruct (cj w f) as [f'|] eqn:E; cbn [rbind] in Hc; [|discriminate].
    destruct (s =? nzero)%num; [discriminate|]. injection Hc as <-. apply lwf_mul_right. eauto.
  - (* FScalarSum *) destruct (cj w f) as [f'|] eqn:E; cbn [rbind] in Hc; [|discriminate].
    injection Hc as <-. cbn [lwf]. eauto.
  - (* FTransl *) destruct Hwf as [Lt Hwf]. destruct (cj w f) as [f'|] eqn:E; cbn [rbind] in Hc; [|discriminate].
    injection Hc as <-. cbn [lwf]. repeat split; eauto.
  - (* FQuadPert *) destruct Hwf as (Ha & Lu & Hwf). numR.
    destruct (Reqb_spec a 0) as [Hz|Hz].
    + destruct (cj w f) as [f'|] eqn:E; cbn [rbind] in Hc; [|discriminate].
      destruct (Reqb c 0); injection Hc as <-; cbn [lwf]; apply lwf_mkTransl.
    + injection Hc as <-. exact I.
  - (* FDefConj *) injection Hc as <-. eapply wf_D_lwf; eauto.
  - (* FBreg *) eauto.
  - (* FSep2 *) destruct Hwf as (Hk & H1 & H2). destruct HD as [D1 D2].
    destruct (cj (firstn k w) f) as [f'|] eqn:E1; cbn [rbind] in Hc; [|discriminate].
    destruct (cj (skipn k w) g) as [g'|] eqn:E2; cbn [rbind] in Hc; [|discriminate].
    injection Hc as <-. cbn [lwf]. repeat split; [assumption| |].
    + eapply IHf; [exact H1|exact D1| |exact E1]. rewrite firstn_length; lia.
    + eapply IHg; [exact H2|exact D2| |exact E2]. rewrite skipn_length; lia.
Qed.

Lemma conj_right_nz e : forall n w e', wf n e -> cj w e = Ok e' ->
  forall s' g', e' = FRight s' g' -> s' <> 0.
Proof.
  fxind e; intros n w e' Hwf Hc s' g' He; cbn [cconj wf] in *; subst e';
    try (injection Hc as Hc; discriminate Hc).
  - (* FL2Sq *) injection Hc as Hc. unfold rmul in Hc. destruct (_ =? _)%num; [discriminate|]. discriminate.
  - (* FQuadS *) destruct a as [a|], b as [b|]; try discriminate;
      try (destruct (a =? nzero)%num; [discriminate|]; injection Hc as Hc; discriminate Hc);
      try (injection Hc as Hc; discriminate Hc).
  - (* FLeft *) destruct Hwf as [Hs Hwf]. destruct (s <=? nzero)%num; [discriminate|].
    destruct (cj w f) as [f'|] eqn:E; cbn [rbind] in Hc; [|discriminate]. injection Hc as Hc.
    unfold mul_right, rmul in Hc. numR. rewrite (Reqb_false s 0) in Hc by lra.
    rewrite is_linear_mkLeft in Hc. destruct (is_linear f').
    + destruct (mkLeft_cases (1 / s) (mkLeft s f')) as [(? & ? & _ & Hm)|Hm]; rewrite Hm in Hc; discriminate.
    + destruct (mkLeft_cases s f') as [(? & ? & _ & Hm)|Hm]; rewrite Hm in Hc; cbn [mkRight] in Hc;
        injection Hc as <- _; apply Rgt_not_eq; apply Rdiv_lt_0_compat; lra.
  - (* FRight *) destruct Hwf as [Hs Hwf].
    destruct (cj w f) as [f'|] eqn:E; cbn [rbind] in Hc; [|discriminate]. numR.
    rewrite (Reqb_false s 0) in Hc by assumption. injection Hc as Hc.
    unfold mul_right in Hc. destruct (is_linear f').
    + destruct (mkLeft_cases (1 / s) f') as [(? & ? & _ & Hm)|Hm]; rewrite Hm in Hc; discriminate.
    + assert (H1s : 1 / s <> 0) by (intros H0; apply Hs; field_simplify_eq in H0; lra).
      destruct (mkRight_cases (1 / s) f') as [(s2 & g2 & Hf & Hm)|Hm]; rewrite Hm in Hc; injection Hc as <- _.
      * specialize (IHf n w f' Hwf E s2 g2 Hf). apply Rmult_integral_contrapositive_currified; assumption.
      * assumption.
  - (* FRightVec *) destruct (cj w f); cbn [rbind] in Hc; [injection Hc as Hc|]; discriminate.
  - (* FScalarSum *) destruct (cj w f); cbn [rbind] in Hc; [injection Hc as Hc|]; discriminate.
  - (* FTransl *) destruct (cj w f); cbn [rbind] in Hc; [injection Hc as Hc|]; discriminate.
  - (* FQuadPert *) destruct (a =? nzero)%num.
    + destruct (cj w f) as [f'|]; cbn [rbind] in Hc; [|discriminate].
      destruct (c =? nzero)%num; injection Hc as Hc; [|discriminate].
      destruct (mkTransl_cases f' u) as [(? & ? & _ & Hm)|Hm]; rewrite Hm in Hc; discriminate.
    + injection Hc as Hc; discriminate.
  - (* FInfConv *) destruct (cj w f); cbn [rbind] in Hc; [|discriminate].
    destruct (cj w g); cbn [rbind] in Hc; [injection Hc as Hc|]; discriminate.
  - (* FDefConj *) injection Hc as ->. cbn [wf] in Hwf. tauto.
  - (* FBreg *) eauto.
  - (* FSep2 *) destruct (cj (firstn k w) f); cbn [rbind] in Hc; [|discriminate].
    destruct (cj (skipn k w) g); cbn [rbind] in Hc; [injection Hc as Hc|]; discriminate.
Qed.

(* ------------------------------------------------------------ proximal rules *)
(* quadratic perturbation with a = 0: the factor 1/sqrt(2 sigma a + 1) is 1 *)
Lemma prox_QP0 f u c0 w tau y :
  prx (FQuadPert f 0 u c0) w tau y = prx f w tau (vsub y (vscal tau u)).
Proof.
  cbn [prox]. unfold arg_scaling. numR. rewrite (Rltb_false 0 0) by lra.
  replace (tau * 2 * 0 + 1) with 1 by ring. rewrite sqrtf_one.
  assert (E11 : 1 / 1 = 1) by field. rewrite !E11. rewrite (Reqb_false 1 0) by lra.
  rewrite !vscal_one. replace (tau * (1 * 1)) with tau by ring. replace (tau * 1) with tau by ring.
  destruct (prx f w tau _); cbn [rbind]; [|reflexivity]. rewrite !vscal_one. reflexivity.
Qed.

Lemma moreau_conj_inv (P : R -> Rvec -> res Rvec) sigma x q : sigma <> 0 ->
  @moreau_conj R _ P (1 / sigma) (vscal (1 / sigma) x) = Ok q ->
  exists p, P sigma x = Ok p /\ q = vsub (vscal (1 / sigma) x) (vscal (1 / sigma) p).
Proof.
  intros Hs. unfold moreau_conj. numR.
  replace (1 / (1 / sigma)) with sigma by (field; assumption).
  rewrite vscal_inv_r by assumption.
  destruct (P sigma x) as [p|]; cbn [rbind]; [|discriminate]. intros H. injection H as <-. eauto.
Qed.

Lemma cprox_FScalarSum f c w tau y : cprox w (FScalarSum f c) tau y = cprox w f tau y.
Proof. unfold ProxRules.cprox. cbn [cconj]. destruct (cj w f); reflexivity. Qed.
Lemma cprox_FBreg q w tau y : cprox w (FBreg q) tau y = cprox w q tau y.
Proof. reflexivity. Qed.
Lemma cprox_FDefConj f w tau y : cprox w (FDefConj f) tau y = prx f w tau y.
Proof. reflexivity. Qed.
Lemma cprox_FTransl f t w tau y :
  cprox w (FTransl f t) tau y = cprox w f tau (vsub y (vscal tau t)).
Proof.
  unfold ProxRules.cprox. cbn [cconj]. destruct (cj w f) as [f'|]; cbn [rbind]; [|reflexivity].
  apply prox_QP0.
Qed.
Lemma cprox_FQuadPert0 f u c w tau y :
  cprox w (FQuadPert f 0 u c) tau y = (q <- cprox w f tau (vsub y u) ;; Ok (vadd u q)).
Proof.
  unfold ProxRules.cprox. cbn [cconj]. numR. rewrite (Reqb_true 0 0) by reflexivity.
  destruct (cj w f) as [f'|]; cbn [rbind]; [|reflexivity].
  destruct (Reqb c 0); cbn [prox]; apply prox_mkTransl.
Qed.
Lemma cprox_FQuadPert_a f a u c w tau y : a <> 0 ->
  cprox w (FQuadPert f a u c) tau y = moreau_conj (prx (FQuadPert f a u c) w) tau y.
Proof.
  intros Ha. unfold ProxRules.cprox. cbn [cconj]. numR. rewrite (Reqb_false a 0) by assumption. reflexivity.
Qed.
Lemma cprox_FSep2_inv k f g w tau y q : cprox w (FSep2 k f g) tau y = Ok q ->
  exists q1 q2, cprox (firstn k w) f tau (firstn k y) = Ok q1 /\ cprox (skipn k w) g tau (skipn k y) = Ok q2
                /\ q = q1 ++ q2.
Proof.
  unfold ProxRules.cprox. cbn [cconj].
  destruct (cj (firstn k w) f) as [f'|]; cbn [rbind]; [|discriminate].
  destruct (cj (skipn k w) g) as [g'|]; cbn [rbind]; [|discriminate]. cbn [prox].
  destruct (prx f' _ _ _) as [q1|]; cbn [rbind]; [|discriminate].
  destruct (prx g' _ _ _) as [q2|]; cbn [rbind]; [|discriminate].
  intros H; injection H as <-. eauto.
Qed.

Lemma vscal_vsub_scal k t (u b : Rvec) :
  vscal k (vsub u (vscal t b)) = vsub (vscal k u) (vscal (k * t) b).
Proof. rewrite vscal_vsub, vscal_vscal. reflexivity. Qed.

(* (s f)~ : the proximal of  s f~(. / s) *)
Lemma cprox_FLeft s f n w tau y q : 0 < s -> wf n f -> D f -> length w = n -> length y = n ->
  cprox w (FLeft s f) tau y = Ok q ->
  exists q', cprox w f (tau * (1 / s * (1 / s)) * s) (vscal (1 / s) y) = Ok q' /\ q = vscal (1 / (1 / s)) q'.
Proof.
  intros Hs Hwf HD Lw Ly. unfold ProxRules.cprox. cbn [cconj]. numR. rewrite (Rleb_false s 0) by lra.
  destruct (cj w f) as [f'|] eqn:E; cbn [rbind]; [|discriminate].
  unfold rmul, mul_right. numR. rewrite (Reqb_false s 0) by lra. rewrite is_linear_mkLeft.
  assert (H1s : 0 < 1 / s) by (apply Rdiv_lt_0_compat; lra).
  destruct (is_linear f') eqn:L.
  - rewrite !prox_mkLeft by assumption.
    destruct (lp_sound f' n w (lwf_conj f n w f' Hwf HD Lw E) L) as [(er & He)|(b & Lb & Hb)].
    + rewrite He by assumption. discriminate.
    + rewrite Hb by assumption. intros H. injection H as <-.
      rewrite Hb by (rewrite vscal_length; assumption). eexists. split; [reflexivity|].
      rewrite vscal_vsub_scal, vscal_inv_l by lra. do 2 f_equal. field. lra.
  - rewrite prox_mkRight; [|lra|].
    2:{ intros s' g' Hm. destruct (mkLeft_cases s f') as [(? & ? & _ & Hm')|Hm']; rewrite Hm' in Hm; discriminate. }
    unfold arg_scaling. numR. rewrite (Reqb_false (1 / s) 0) by lra.
    rewrite prox_mkLeft by assumption.
    destruct (prx f' w _ _) as [q'|]; cbn [rbind]; [|discriminate]. intros H. injection H as <-. eauto.
Qed.

(* (f(s .))~ : the proximal of  f~(. / s) *)
Lemma cprox_FRight s f n w tau y q : s <> 0 -> wf n f -> D (FRight s f) -> length w = n -> length y = n ->
  cprox w (FRight s f) tau y = Ok q ->
  exists q', cprox w f (tau * (1 / s * (1 / s))) (vscal (1 / s) y) = Ok q' /\ q = vscal (1 / (1 / s)) q'.
Proof.
  intros Hs Hwf HD Lw Ly. cbn [D] in HD. destruct HD as [Hneg HD].
  unfold ProxRules.cprox. cbn [cconj]. numR.
  destruct (cj w f) as [f'|] eqn:E; cbn [rbind]; [|discriminate].
  rewrite (Reqb_false s 0) by assumption. unfold mul_right.
  assert (H1s : 1 / s <> 0) by (intros H0; apply Hs; field_simplify_eq in H0; lra).
  destruct (is_linear f') eqn:L.
  - assert (Hpos : 0 < s).
    { destruct (Rlt_dec 0 s); [assumption|]. assert (Hn : s < 0) by lra.
      rewrite (Hneg Hn w f' E) in L. discriminate. }
    rewrite prox_mkLeft by (apply Rdiv_lt_0_compat; lra).
    destruct (lp_sound f' n w (lwf_conj f n w f' Hwf HD Lw E) L) as [(er & He)|(b & Lb & Hb)].
    + rewrite He by assumption. discriminate.
    + rewrite Hb by assumption. intros H. injection H as <-.
      rewrite Hb by (rewrite vscal_length; assumption). eexists. split; [reflexivity|].
      rewrite vscal_vsub_scal, vscal_inv_l by assumption. do 2 f_equal. field. assumption.
  - rewrite prox_mkRight; [|assumption|exact (conj_right_nz f n w f' Hwf E)].
    unfold arg_scaling. numR. rewrite (Reqb_false (1 / s) 0) by assumption.
    destruct (prx f' w _ _) as [q'|]; cbn [rbind]; [|discriminate]. intros H. injection H as <-. eauto.
Qed.

(* ------------------------------------------------------- entrywise leaf facts *)
Lemma Rmax_ge1 a : 1 <= Rmax a 1.
Proof. apply Rmax_r. Qed.

Lemma soft_clip sigma a : 0 < sigma ->
  @soft1 R _ (sigma * 1) a + sigma * @clip1 R _ (1 / sigma * a) = a.
Proof.
  intros Hs. unfold soft1, clip1. rewrite !nmax_R. numR.
  assert (E : Rabs (1 / sigma * a) = Rabs a / (sigma * 1)).
  { rewrite Rabs_mult, (Rabs_right (1 / sigma)); [field; lra|].
    apply Rle_ge. left. apply Rdiv_lt_0_compat; lra. }
  rewrite E. pose proof (Rmax_ge1 (Rabs a / (sigma * 1))) as Hm.
  set (m := Rmax (Rabs a / (sigma * 1)) 1) in *. field. lra.
Qed.
Lemma clip_soft sigma a : 0 < sigma ->
  @clip1 R _ a + sigma * @soft1 R _ (1 / sigma * 1) (1 / sigma * a) = a.
Proof.
  intros Hs. unfold soft1, clip1. rewrite !nmax_R. numR.
  assert (E : Rabs (1 / sigma * a) / (1 / sigma * 1) = Rabs a).
  { rewrite Rabs_mult, (Rabs_right (1 / sigma)); [field; lra|].
    apply Rle_ge. left. apply Rdiv_lt_0_compat; lra. }
  rewrite E. pose proof (Rmax_ge1 (Rabs a)) as Hm.
  set (m := Rmax (Rabs a) 1) in *. field. lra.
Qed.
Lemma huber_clip g sigma k a : 0 < g -> 0 < sigma -> k = 1 / (g + sigma) ->
  @huber_prox1 R _ g sigma a + sigma * @clip1 R _ (k * a) = a.
Proof.
  intros Hg Hs ->. unfold huber_prox1, clip1, nsign. rewrite !nmax_R. numR.
  assert (E : Rabs (1 / (g + sigma) * a) = Rabs a / (g + sigma)).
  { rewrite Rabs_mult, (Rabs_right (1 / (g + sigma))); [field; lra|].
    apply Rle_ge. left. apply Rdiv_lt_0_compat; lra. }
  rewrite E.
  destruct (Rleb_spec (Rabs a) (g + sigma)) as [Hle|Hgt].
  - rewrite Rmax_right; [field; lra|].
    apply (Rmult_le_reg_r (g + sigma)); [lra|]. unfold Rdiv. rewrite Rmult_assoc, Rinv_l by lra. lra.
  - assert (Hgt' : g + sigma < Rabs a) by lra.
    rewrite Rmax_left.
    2:{ apply (Rmult_le_reg_r (g + sigma)); [lra|]. unfold Rdiv. rewrite Rmult_assoc, Rinv_l by lra. lra. }
    destruct (Rltb_spec 0 a) as [Hp|Hnp].
    + rewrite (Rabs_right a) in * by lra. field. lra.
    + destruct (Rltb_spec a 0) as [Hn|Hnn].
      * rewrite (Rabs_left a) in * by lra. field. lra.
      * assert (a = 0) by lra. subst. rewrite Rabs_R0 in Hgt'. lra.
Qed.

Lemma vlin_neg_add (q x : Rvec) : length q = length x -> vadd (vlin (- (1)) q 1 x) q = x.
Proof.
  revert x; induction q as [|a q IH]; intros [|b x] Hl; cbn in Hl; try lia; [reflexivity|].
  unfold vadd, vlin in *. cbn [vmap2]. rewrite IH by lia. numR. f_equal. ring.
Qed.
Lemma vlin_neg_add_scaled (r x : Rvec) sigma : sigma <> 0 -> length r = length x ->
  vadd r (vscal sigma (vlin (- (1)) (vscal (1 / sigma) r) 1 (vscal (1 / sigma) x))) = x.
Proof.
  intros Hs. revert x; induction r as [|a r IH]; intros [|b x] Hl; cbn in Hl; try lia; [reflexivity|].
  unfold vadd, vlin, vscal in *. cbn [map vmap2]. rewrite IH by lia. numR. f_equal. field. assumption.
Qed.

Lemma vadd_vscal_same a c (x : Rvec) : vadd (vscal a x) (vscal c x) = vscal (a + c) x.
Proof. induction x as [|p x IH]; [reflexivity|]. unfold vadd, vscal in *. cbn [map vmap2]. rewrite IH. numR. f_equal. ring. Qed.
Lemma vadd_zero_r_map s (x y : Rvec) : length y = length x ->
  vadd x (vscal s (map (fun _ => 0) y)) = x.
Proof.
  revert y; induction x as [|p x IH]; intros [|q y] Hl; cbn in Hl; try lia; [reflexivity|].
  unfold vadd, vscal in *. cbn [map vmap2]. rewrite IH by lia. numR. f_equal. ring.
Qed.
Lemma vadd_zero_l_map (x : Rvec) : vadd (map (fun _ => 0) x) x = x.
Proof. induction x as [|p x IH]; [reflexivity|]. unfold vadd in *. cbn [map vmap2]. rewrite IH. numR. f_equal. ring. Qed.

(* ------------------------------------------------------------- main theorem *)
Ltac fxind2 e :=
  induction e as [p|p| |c|c|g|a b c|s f IHf|s f IHf|v f IHf|f IHf g IHg|f IHf c|f IHf t|f IHf a u c
                 |f IHf g IHg|f IHf|qb IHq|k f IHf g IHg|pb P].

Theorem moreau_all e : forall n w x sigma p q,
  wf n e -> D e -> length w = n -> length x = n -> 0 < sigma ->
  prx e w sigma x = Ok p -> cprox w e (1 / sigma) (vscal (1 / sigma) x) = Ok q ->
  vadd p (vscal sigma q) = x.
Proof.
  fxind2 e; intros n w x sigma r q Hwf HD Lw Lx Hs Hp Hq; cbn [D] in HD; try contradiction.
  - (* FLp *) destruct p.
    3:{ (* LpNorm(inf): x - proj_l1(x, sigma)  and  proj_l1(x / sigma, 1) *)
      unfold ProxRules.cprox in Hq. cbn [cconj pconj prox] in Hp, Hq. numR.
      replace (proj_l1 (vscal (1 / sigma) x) 1) with (proj_l1 (vscal (1 / sigma) x) (1 / sigma * sigma)) in Hq
        by (f_equal; field; lra).
      rewrite (proj_l1_scale (1 / sigma) ltac:(apply Rdiv_lt_0_compat; lra)) in Hq.
      destruct (proj_l1 x sigma) as [q0|] eqn:E0; cbn [rbind] in Hp; inv_ok.
      rewrite vscal_inv_r by lra. apply vlin_neg_add.
      rewrite (proj_l1_length x sigma q0 E0). reflexivity. }
    + cbn in Hp, Hq. inv_ok. apply moreau_pointwise. intros a. apply soft_clip. assumption.
    + unfold ProxRules.cprox in Hq. cbn [cconj pconj prox] in Hp, Hq. inv_ok.
      apply moreau_conj_inv in Hq; [|lra]. destruct Hq as (p' & Hp' & ->). cbv beta in Hp'. inv_ok.
      apply moreau_by_def; [lra|]. rewrite prox_l2_length. reflexivity.
  - (* FIndBall *) destruct p.
    1:{ (* l1 ball: proj_l1(x, 1)  and  x/sigma - proj_l1(x / sigma, 1 / sigma) *)
      unfold ProxRules.cprox in Hq. cbn [cconj pconj prox] in Hp, Hq. numR.
      replace (proj_l1 (vscal (1 / sigma) x) (1 / sigma)) with (proj_l1 (vscal (1 / sigma) x) (1 / sigma * 1)) in Hq
        by (f_equal; field; lra).
      rewrite (proj_l1_scale (1 / sigma) ltac:(apply Rdiv_lt_0_compat; lra)) in Hq.
      rewrite Hp in Hq. cbn [rbind] in Hq. inv_ok.
      apply vlin_neg_add_scaled; [lra|]. rewrite (proj_l1_length x 1 r Hp). reflexivity. }
    + unfold ProxRules.cprox in Hq. cbn [cconj pconj prox] in Hp, Hq. inv_ok.
      unfold moreau_conj in Hp. cbn [rbind] in Hp. inv_ok.
      apply vsub_vadd_cancel. rewrite vscal_length, prox_l2_length, vscal_length. reflexivity.
    + cbn in Hp, Hq. inv_ok. apply moreau_pointwise. intros a. apply clip_soft. assumption.
  - (* FL2Sq *) unfold ProxRules.cprox in Hq. cbn [cconj] in Hq. unfold rmul, quarter in Hq. numR.
    rewrite Reqb_false in Hq by lra. cbn [mkLeft] in Hq. rewrite prox_FLeft_pos in Hq by lra.
    cbn [prox] in Hp, Hq. inv_ok. numR. rewrite !vscal_vscal, vadd_vscal_same.
    rewrite <- (vscal_one x) at 2. f_equal. field. lra.
  - (* FConst *) cbn in Hp, Hq. inv_ok. apply vadd_zero_r_map. rewrite vscal_length. reflexivity.
  - (* FIndZero *) cbn in Hp, Hq. inv_ok. rewrite vscal_inv_r by lra. apply vadd_zero_l_map.
  - (* FHuber *) cbn [wf] in Hwf. cbn [prox] in Hp. inv_ok.
    unfold ProxRules.cprox in Hq. cbn [cconj prox] in Hq. unfold arg_scaling in Hq. numR.
    set (A := 1 / sigma * 2 * (g / 2) + 1) in *.
    assert (HA : 0 < A) by (unfold A; assert (0 < 1 / sigma) by (apply Rdiv_lt_0_compat; lra); nra).
    destruct (sqrtf_spec A ltac:(lra)) as [Q1 Q2].
    assert (Q0 : 0 < sqrtf A) by (destruct (Req_dec (sqrtf A) 0) as [Z|Z]; [rewrite Z in Q2; lra | lra]).
    assert (Hc : 0 < 1 / sqrtf A) by (apply Rdiv_lt_0_compat; lra).
    rewrite (Rltb_false (g / 2) 0) in Hq by lra.
    rewrite (Reqb_false (1 / sqrtf A) 0) in Hq by lra.
    cbn [rbind] in Hq. inv_ok.
    rewrite vsub_zero by (rewrite !vscal_length; congruence).
    rewrite vscal_inv_r by lra. rewrite !vscal_vscal.
    apply moreau_pointwise. intros a. apply huber_clip; try assumption.
    unfold A in *. field_simplify_eq; [|lra].
    assert (E : sqrtf (1 / sigma * 2 * (g / 2) + 1) * sqrtf (1 / sigma * 2 * (g / 2) + 1) * sigma = g + sigma)
      by (rewrite Q2; field; lra).
    replace (sigma + g) with (g + sigma) by ring. rewrite <- E. ring.
  - (* FLeft *) cbn [wf] in Hwf. destruct Hwf as [Hpos Hwf]. rewrite prox_FLeft_pos in Hp by assumption.
    apply (cprox_FLeft s f n) in Hq; try assumption; [|rewrite vscal_length; assumption].
    destruct Hq as (q' & Hq' & ->).
    rewrite vscal_vscal in Hq'.
    replace (1 / sigma * (1 / s * (1 / s)) * s) with (1 / (sigma * s)) in Hq' by (field; lra).
    replace (1 / s * (1 / sigma)) with (1 / (sigma * s)) in Hq' by (field; lra).
    pose proof (IHf n w x (sigma * s) r q' Hwf HD Lw Lx ltac:(nra) Hp Hq') as H.
    rewrite vscal_vscal. replace (sigma * (1 / (1 / s))) with (sigma * s) by (field; lra). exact H.
  - (* FRight *) cbn [wf] in Hwf. destruct Hwf as [Hnz Hwf].
    apply (cprox_FRight s f n) in Hq; try assumption; [|rewrite vscal_length; assumption].
    destruct Hq as (q' & Hq' & ->).
    cbn [prox] in Hp. unfold arg_scaling in Hp. numR. rewrite (Reqb_false s 0) in Hp by assumption.
    destruct (prx f w (sigma * (s * s)) (vscal s x)) as [p0|] eqn:E0; cbn [rbind] in Hp; inv_ok.
    assert (Hss : 0 < sigma * (s * s)) by (assert (0 < s * s) by nra; nra).
    rewrite vscal_vscal in Hq'.
    replace (1 / sigma * (1 / s * (1 / s))) with (1 / (sigma * (s * s))) in Hq' by (field; lra).
    assert (Ev : vscal (1 / s * (1 / sigma)) x = vscal (1 / (sigma * (s * s))) (vscal s x)).
    { rewrite vscal_vscal. f_equal. field. lra. }
    rewrite Ev in Hq'. destruct HD as [_ HD].
    pose proof (IHf n w (vscal s x) (sigma * (s * s)) p0 q' Hwf HD Lw
                  ltac:(rewrite vscal_length; assumption) Hss E0 Hq') as H.
    rewrite vscal_vscal.
    replace (sigma * (1 / (1 / s))) with (1 / s * (sigma * (s * s))) by (field; lra).
    rewrite <- vscal_vscal, <- vscal_vadd, H. apply vscal_inv_l. assumption.
  - (* FScalarSum *) cbn [wf prox] in *. rewrite cprox_FScalarSum in Hq. eauto.
  - (* FTransl *) cbn [wf] in Hwf. destruct Hwf as [Lt Hwf]. cbn [prox] in Hp.
    destruct (prx f w sigma (vsub x t)) as [p0|] eqn:E0; cbn [rbind] in Hp; inv_ok.
    rewrite cprox_FTransl, <- vscal_vsub in Hq.
    pose proof (IHf n w (vsub x t) sigma p0 q Hwf HD Lw ltac:(rewrite vsub_length; congruence) Hs E0 Hq) as H.
    rewrite vadd_assoc, H. apply vadd_vsub_cancel. congruence.
  - (* FQuadPert *) cbn [wf] in Hwf. destruct Hwf as (Ha & Lu & Hwf).
    destruct (Req_dec a 0) as [->|Hna].
    + rewrite prox_QP0 in Hp. rewrite cprox_FQuadPert0 in Hq.
      destruct (cprox w f (1 / sigma) (vsub (vscal (1 / sigma) x) u)) as [q'|] eqn:Eq; cbn [rbind] in Hq; inv_ok.
      assert (Ev : vsub (vscal (1 / sigma) x) u = vscal (1 / sigma) (vsub x (vscal sigma u)))
        by (rewrite vscal_vsub, vscal_inv_l by lra; reflexivity).
      rewrite Ev in Eq.
      pose proof (IHf n w (vsub x (vscal sigma u)) sigma r q' Hwf HD Lw
                    ltac:(rewrite vsub_length; rewrite ?vscal_length; congruence) Hs Hp Eq) as H.
      rewrite vscal_vadd, (vadd_comm (vscal sigma u)), <- vadd_assoc, H.
      apply vsub_vadd_cancel. rewrite vscal_length. congruence.
    + rewrite cprox_FQuadPert_a in Hq by assumption.
      apply moreau_conj_inv in Hq; [|lra]. destruct Hq as (p' & Hp' & ->).
      assert (Lr : length r = n).
      { eapply (prox_length sqrtf (FQuadPert f a u c)); [|exact Lx|exact Hp].
        cbn [lenwf]. split; [assumption | apply wf_lenwf; assumption]. }
      rewrite Hp in Hp'. inv_ok. apply moreau_by_def; [lra | congruence].
  - (* FDefConj *) cbn [wf] in Hwf. rewrite cprox_FDefConj in Hq.
    cbn [prox] in Hp. unfold moreau_conj in Hp. numR. rewrite Hq in Hp. cbn [rbind] in Hp. inv_ok.
    apply vsub_vadd_cancel. rewrite vscal_length.
    assert (Lq : length q = n).
    { eapply (prox_length sqrtf f n); [apply wf_lenwf; exact Hwf| |exact Hq]. rewrite vscal_length; assumption. }
    congruence.
  - (* FBreg *) cbn [wf prox] in *. rewrite cprox_FBreg in Hq. eauto.
  - (* FSep2 *) cbn [wf] in Hwf. destruct Hwf as (Hk & Hwf1 & Hwf2). destruct HD as [D1 D2].
    apply cprox_FSep2_inv in Hq. destruct Hq as (q1 & q2 & C1 & C2 & ->).
    rewrite firstn_vscal in C1. rewrite skipn_vscal in C2.
    cbn [prox] in Hp.
    destruct (prx f (firstn k w) sigma (firstn k x)) as [p1|] eqn:E1; cbn [rbind] in Hp; inv_ok.
    destruct (prx g (skipn k w) sigma (skipn k x)) as [p2|] eqn:E2; cbn [rbind] in Hp; inv_ok.
    assert (Lf : forall l : Rvec, length l = n -> length (firstn k l) = k)
      by (intros l Hl; rewrite firstn_length; lia).
    assert (Ls : forall l : Rvec, length l = n -> length (skipn k l) = (n - k)%nat)
      by (intros l Hl; rewrite skipn_length; lia).
    pose proof (IHf k _ _ _ _ _ Hwf1 D1 (Lf w Lw) (Lf x Lx) Hs E1 C1) as H1.
    pose proof (IHg (n - k)%nat _ _ _ _ _ Hwf2 D2 (Ls w Lw) (Ls x Lx) Hs E2 C2) as H2.
    (* lengths of the pieces *)
    pose proof (prox_length sqrtf f k _ _ _ _ (wf_lenwf f k Hwf1) (Lf x Lx) E1) as Lp1.
    assert (Lq1 : length q1 = k).
    { unfold ProxRules.cprox in C1. destruct (cj (firstn k w) f) as [f'|] eqn:Ec; [|discriminate].
      eapply (prox_length sqrtf f' k); [|..|exact C1].
      - eapply lenwf_conj; [apply wf_lenwf; exact Hwf1| |exact Ec]. auto.
      - rewrite vscal_length. auto. }
    rewrite vscal_app, vadd_app by (rewrite vscal_length; congruence).
    rewrite H1, H2. apply firstn_skipn.
  - (* FPair *) cbn [wf] in Hwf. destruct Hwf as (_ & Hm & _).
    cbn [prox] in Hp. unfold ProxRules.cprox in Hq. cbn [cconj prox] in Hq.
    exact (Hm w pb sigma x r q Lw Lx Hs Hp Hq).
Qed.

End M.

(* explicit-tree form, and non-vacuity of the side conditions *)
Lemma moreau_tree (sqrtf : R -> R) :
  (forall a, 0 <= a -> 0 <= sqrtf a /\ sqrtf a * sqrtf a = a) ->
  forall (e e' : fxR) n w x sigma p q,
  wf n e -> D e -> length w = n -> length x = n -> 0 < sigma ->
  prox sqrtf e w sigma x = Ok p -> cconj w e = Ok e' ->
  prox sqrtf e' w (1 / sigma) (vscal (1 / sigma) x) = Ok q ->
  vadd p (vscal sigma q) = x.
Proof.
  intros Hsq e e' n w x sigma p q Hwf HD Lw Lx Hs Hp Hc Hq.
  apply (moreau_all sqrtf Hsq e n w x sigma p q); auto. unfold cprox. rewrite Hc. exact Hq.
Qed.

Lemma D_example_proof :
  let e : fxR := FLeft 2 (FTransl (FSep2 1 (FHuber 1) (FRight (-3) (FLp P2))) [1; 0; 2]) in
  wf 3 e /\ D e /\ (exists p, prox sqrt e [1; 2; 2] (1 / 2) [0; 1; 1] = Ok p).
Proof.
  cbv zeta. split; [|split].
  - cbn [wf length]. repeat split; try lra; try lia.
  - cbn [D]. repeat split. intros _ w f' H. cbn in H. injection H as <-. reflexivity.
  - cbn [prox]. numR. rewrite (Rltb_false 2 0), (Reqb_false 2 0) by lra.
    cbn [prox rbind firstn skipn vsub vmap2]. unfold arg_scaling. numR.
    rewrite (Reqb_false (-3) 0) by lra. cbn [prox rbind]. eexists. reflexivity.
Qed.
