(* C08/Moreau.v -- Moreau decomposition  prox_{s f}(x) + s prox_{f*/s}(x/s) = x
   for all expression trees (under wf and D). *)
From Coq Require Import ZArith Reals Lra Lia List Bool Psatz.
From Verif Require Import Base.Num Base.Vec Base.VecR C08.Model C08.VecLemmas C08.Rules C08.ConjRules
  C08.Leaves C08.ProxRules.
Import ListNotations.
Local Open Scope R_scope.

Lemma vsub_zero n tau (y : Rvec) : length y = n -> vsub y (vscal tau (vconst n 0)) = y.
Proof.
  revert n; induction y as [|a y IH]; intros [|n] Hl; cbn in Hl; try lia; [reflexivity|].
  unfold vsub, vscal, vconst in *. cbn [repeat map vmap2]. rewrite IH by lia. numR. f_equal. ring.
Qed.
Lemma vconst_length n (c : R) : length (vconst n c) = n.
Proof. apply repeat_length. Qed.
Lemma vsub_app (a1 a2 b1 b2 : Rvec) : length a1 = length b1 ->
  vsub (a1 ++ a2) (b1 ++ b2) = vsub a1 b1 ++ vsub a2 b2.
Proof.
  revert b1; induction a1 as [|p a1 IH]; intros [|q b1] Hl; cbn in Hl; try lia; [reflexivity|].
  unfold vsub in *. cbn [app vmap2]. rewrite IH by lia. reflexivity.
Qed.

Section M.
Variable sqrtf : R -> R.
Hypothesis sqrtf_spec : forall a, 0 <= a -> 0 <= sqrtf a /\ sqrtf a * sqrtf a = a.
Notation prx := (@prox R _ sqrtf).
Notation cj := (@cconj R _).
Notation cprox := (cprox sqrtf).

Lemma sqrtf_one : sqrtf 1 = 1.
Proof. destruct (sqrtf_spec 1 ltac:(lra)) as [H1 H2]. nra. Qed.

(* the proximal of a functional flagged linear is  y - tau b  (or it never exists) *)
Definition LPform (g : fxR) (w : Rvec) (n : nat) : Prop :=
  (exists er, forall tau y, length y = n -> prx g w tau y = Err er) \/
  (exists b, length b = n /\ forall tau y, length y = n -> prx g w tau y = Ok (vsub y (vscal tau b))).

Lemma lp_sound g : forall n w, lwf n g -> is_linear g = true -> LPform g w n.
Proof.
  fxind g; intros n w Hl Hlin; cbn [is_linear lwf] in *; try discriminate.
  - (* FConst *) right. exists (vconst n 0). split; [apply vconst_length|].
    intros tau y Ly. rewrite vsub_zero by assumption. reflexivity.
  - (* FQuadS *) left. exists ENotImpl. reflexivity.
  - (* FLeft *) specialize (IHf n w Hl Hlin).
    assert (Hp : forall tau y, prx (FLeft s f) w tau y =
              if Rltb s 0 then Err EValue else if Reqb s 0 then Ok y else prx f w (tau * s) y) by reflexivity.
    destruct (Rltb_spec s 0) as [Hn|Hn]; [left; exists EValue; intros; rewrite Hp; reflexivity|].
    destruct (Reqb_spec s 0) as [Hz|Hz].
    + right. exists (vconst n 0). split; [apply vconst_length|]. intros tau y Ly.
      rewrite Hp, vsub_zero by assumption. reflexivity.
    + destruct IHf as [(er & He)|(b & Lb & Hb)].
      * left. exists er. intros; rewrite Hp; apply He; assumption.
      * right. exists (vscal s b). split; [rewrite vscal_length; assumption|].
        intros tau y Ly. rewrite Hp, Hb by assumption. rewrite vscal_vscal. reflexivity.
  - (* FRight *) specialize (IHf n w Hl Hlin).
    assert (Hp : forall tau y, prx (FRight s f) w tau y =
              if Reqb s 0 then (_ <- prx f w 1 y ;; Ok y)
              else (q <- prx f w (tau * (s * s)) (vscal s y) ;; Ok (vscal (1 / s) q))) by reflexivity.
    destruct (Reqb_spec s 0) as [Hz|Hz].
    + destruct IHf as [(er & He)|(b & Lb & Hb)].
      * left. exists er. intros tau y Ly. rewrite Hp, He by assumption. reflexivity.
      * right. exists (vconst n 0). split; [apply vconst_length|]. intros tau y Ly.
        rewrite Hp, Hb by assumption. cbn [rbind]. rewrite vsub_zero by assumption. reflexivity.
    + destruct IHf as [(er & He)|(b & Lb & Hb)].
      * left. exists er. intros tau y Ly. rewrite Hp, He by (rewrite vscal_length; assumption). reflexivity.
      * right. exists (vscal s b). split; [rewrite vscal_length; assumption|]. intros tau y Ly.
        rewrite Hp, Hb by (rewrite vscal_length; assumption). cbn [rbind].
        rewrite vscal_vsub, vscal_inv_l, !vscal_vscal by assumption.
        do 3 f_equal. field. assumption.
  - (* FSum *) left. exists ENotImpl. reflexivity.
  - (* FScalarSum *) apply andb_true_iff in Hlin. destruct Hlin as [L1 _]. exact (IHf n w Hl L1).
  - (* FQuadPert *) apply andb_true_iff in Hlin. destruct Hlin as [L1 L2]. numR.
    destruct (Reqb_spec a 0) as [->|]; [|discriminate]. destruct Hl as (Lu & Hl & Hc0).
    specialize (Hc0 L1 eq_refl). subst c. specialize (IHf n w Hl L1).
    assert (Hprox : forall tau y, prx (FQuadPert f 0 u 0) w tau y =
              (q <- prx f w (tau * (1 * 1)) (vscal 1 (vsub (vscal 1 y) (vscal (tau * 1) u))) ;;
               Ok (vscal 1 (vscal 1 q)))).
    { intros tau y. cbn [prox]. unfold arg_scaling. numR. rewrite (Rltb_false 0 0) by lra.
      replace (tau * 2 * 0 + 1) with 1 by ring. rewrite sqrtf_one.
      assert (E11 : 1 / 1 = 1) by field. rewrite !E11. rewrite (Reqb_false 1 0) by lra.
      destruct (prx f w _ _); reflexivity. }
    destruct IHf as [(er & He)|(b & Lb & Hb)].
    + left. exists er. intros tau y Ly. rewrite Hprox, He; [reflexivity|].
      rewrite vscal_length, vsub_length; rewrite !vscal_length; congruence.
    + right. exists (vadd b u). split; [rewrite vadd_length; congruence|]. intros tau y Ly.
      rewrite Hprox, Hb by (rewrite vscal_length, vsub_length; rewrite !vscal_length; congruence).
      cbn [rbind]. rewrite !vscal_one.
      rewrite vsub_vsub. replace (tau * (1 * 1)) with tau by ring. replace (tau * 1) with tau by ring.
      rewrite vscal_vadd. reflexivity.
  - (* FDefConj *) congruence.
  - (* FSep2 *) apply andb_true_iff in Hlin. destruct Hlin as [L1 L2]. destruct Hl as (Hk & Hl1 & Hl2).
    specialize (IHf k (firstn k w) Hl1 L1). specialize (IHg (n - k)%nat (skipn k w) Hl2 L2).
    assert (Lf : forall y : Rvec, length y = n -> length (firstn k y) = k)
      by (intros y Hy; rewrite firstn_length; lia).
    assert (Ls : forall y : Rvec, length y = n -> length (skipn k y) = (n - k)%nat)
      by (intros y Hy; rewrite skipn_length; lia).
    assert (Hp : forall tau y, prx (FSep2 k f g) w tau y =
              (p <- prx f (firstn k w) tau (firstn k y) ;; q <- prx g (skipn k w) tau (skipn k y) ;; Ok (p ++ q)))
      by reflexivity.
    destruct IHf as [(er & He)|(b1 & Lb1 & Hb1)].
    + left. exists er. intros tau y Ly. rewrite Hp, He by auto. reflexivity.
    + destruct IHg as [(er & He)|(b2 & Lb2 & Hb2)].
      * left. exists er. intros tau y Ly. rewrite Hp, Hb1, He by auto. reflexivity.
      * right. exists (b1 ++ b2). split; [rewrite app_length; lia|]. intros tau y Ly.
        rewrite Hp, Hb1, Hb2 by auto. cbn [rbind].
        rewrite vscal_app, <- vsub_app by (rewrite vscal_length, Lf by assumption; congruence).
        rewrite firstn_skipn. reflexivity.
Qed.

(* ---------------------------------------------- properties of conjugate trees *)
Lemma lwf_conj e : forall n w e', wf n e -> D e -> length w = n -> cj w e = Ok e' -> lwf n e'.
Proof.
  fxind e; intros n w e' Hwf HD Lw Hc; cbn [cconj wf D] in *; try contradiction;
    try (injection Hc as <-; cbn [lwf]; auto; fail).
  - (* FL2Sq *) injection Hc as <-. unfold rmul. destruct (_ =? _)%num; exact I.
  - (* FHuber *) injection Hc as <-. cbn [lwf is_linear]. rewrite vconst_length.
    repeat split; auto; discriminate.
  - (* FLeft *) destruct Hwf as [Hs Hwf]. destruct (s <=? nzero)%num; [discriminate|].
    destruct (cj w f) as [f'|] eqn:E; cbn [rbind] in Hc; [|discriminate]. injection Hc as <-.
    apply lwf_mul_right. unfold rmul. destruct (s =? nzero)%num; [exact I|]. apply lwf_mkLeft. eauto.
  - (* FRight *) destruct Hwf as [Hs Hwf]. destruct HD as [_ HD].
    destruct (cj w f) as [f'|] eqn:E; cbn [rbind] in Hc; [|discriminate].
    destruct (s =? nzero)%num; [discriminate|]. injection Hc as <-. apply lwf_mul_right. eauto.
  - (* FScalarSum *) destruct (cj w f) as [f'|] eqn:E; cbn [rbind] in Hc; [|discriminate].
    injection Hc as <-. cbn [lwf]. eauto.
  - (* FTransl *) destruct Hwf as [Lt Hwf]. destruct (cj w f) as [f'|] eqn:E; cbn [rbind] in Hc; [|discriminate].
    injection Hc as <-. cbn [lwf]. repeat split; eauto.
  - (* FQuadPert *) destruct Hwf as (Ha & Lu & Hwf & Hflag). numR.
    destruct (Reqb_spec a 0) as [Hz|Hz].
    + destruct (cj w f) as [f'|] eqn:E; cbn [rbind] in Hc; [|discriminate].
      destruct (Reqb c 0); injection Hc as <-; cbn [lwf]; apply lwf_mkTransl.
    + injection Hc as <-. cbn [lwf is_linear]. numR. rewrite (Reqb_false a 0) by assumption.
      apply andb_false_r.
  - (* FDefConj *) destruct HD as [_ HD]. injection Hc as <-. eapply wf_D_lwf; eauto.
  - (* FBreg *) eauto.
  - (* FSep2 *) destruct Hwf as (Hk & H1 & H2). destruct HD as [D1 D2].
    destruct (cj (firstn k w) f) as [f'|] eqn:E1; cbn [rbind] in Hc; [|discriminate].
    destruct (cj (skipn k w) g) as [g'|] eqn:E2; cbn [rbind] in Hc; [|discriminate].
    injection Hc as <-. cbn [lwf]. repeat split; [assumption| |].
    + eapply IHf; [exact H1|exact D1| |exact E1]. rewrite firstn_length; lia.
    + eapply IHg; [exact H2|exact D2| |exact E2]. rewrite skipn_length; lia.
Qed.

Lemma conj_right_nz e : forall n w e', wf n e -> cj w e = Ok e' ->
  forall s' g', e' = FRight s' g' -> s' <> 0.
Proof.
  fxind e; intros n w e' Hwf Hc s' g' He; cbn [cconj wf] in *; subst e';
    try (injection Hc as Hc; discriminate Hc).
  - (* FL2Sq *) injection Hc as Hc. unfold rmul in Hc. destruct (_ =? _)%num; [discriminate|]. discriminate.
  - (* FQuadS *) destruct a as [a|], b as [b|]; try discriminate;
      try (destruct (a =? nzero)%num; [discriminate|]; injection Hc as Hc; discriminate Hc);
      try (injection Hc as Hc; discriminate Hc).
  - (* FLeft *) destruct Hwf as [Hs Hwf]. destruct (s <=? nzero)%num; [discriminate|].
    destruct (cj w f) as [f'|] eqn:E; cbn [rbind] in Hc; [|discriminate]. injection Hc as Hc.
    unfold mul_right, rmul in Hc. numR. rewrite (Reqb_false s 0) in Hc by lra.
    rewrite is_linear_mkLeft in Hc. destruct (is_linear f').
    + destruct (mkLeft_cases (1 / s) (mkLeft s f')) as [(? & ? & _ & Hm)|Hm]; rewrite Hm in Hc; discriminate.
    + destruct (mkLeft_cases s f') as [(? & ? & _ & Hm)|Hm]; rewrite Hm in Hc; cbn [mkRight] in Hc;
        injection Hc as <- _; apply Rgt_not_eq; apply Rdiv_lt_0_compat; lra.
  - (* FRight *) destruct Hwf as [Hs Hwf].
    destruct (cj w f) as [f'|] eqn:E; cbn [rbind] in Hc; [|discriminate]. numR.
    rewrite (Reqb_false s 0) in Hc by assumption. injection Hc as Hc.
    unfold mul_right in Hc. destruct (is_linear f').
    + destruct (mkLeft_cases (1 / s) f') as [(? & ? & _ & Hm)|Hm]; rewrite Hm in Hc; discriminate.
    + assert (H1s : 1 / s <> 0) by (intros H0; apply Hs; field_simplify_eq in H0; lra).
      destruct (mkRight_cases (1 / s) f') as [(s2 & g2 & Hf & Hm)|Hm]; rewrite Hm in Hc; injection Hc as <- _.
      * specialize (IHf n w f' Hwf E s2 g2 Hf). apply Rmult_integral_contrapositive_currified; assumption.
      * assumption.
  - (* FRightVec *) destruct (cj w f); cbn [rbind] in Hc; [injection Hc as Hc|]; discriminate.
  - (* FScalarSum *) destruct (cj w f); cbn [rbind] in Hc; [injection Hc as Hc|]; discriminate.
  - (* FTransl *) destruct (cj w f); cbn [rbind] in Hc; [injection Hc as Hc|]; discriminate.
  - (* FQuadPert *) destruct (a =? nzero)%num.
    + destruct (cj w f) as [f'|]; cbn [rbind] in Hc; [|discriminate].
      destruct (c =? nzero)%num; injection Hc as Hc; [|discriminate].
      destruct (mkTransl_cases f' u) as [(? & ? & _ & Hm)|Hm]; rewrite Hm in Hc; discriminate.
    + injection Hc as Hc; discriminate.
  - (* FInfConv *) destruct (cj w f); cbn [rbind] in Hc; [|discriminate].
    destruct (cj w g); cbn [rbind] in Hc; [injection Hc as Hc|]; discriminate.
  - (* FDefConj *) injection Hc as ->. cbn [wf] in Hwf. tauto.
  - (* FBreg *) eauto.
  - (* FSep2 *) destruct (cj (firstn k w) f); cbn [rbind] in Hc; [|discriminate].
    destruct (cj (skipn k w) g); cbn [rbind] in Hc; [injection Hc as Hc|]; discriminate.
Qed.

End M.
