(* C08/Model.v -- executable model of functionals, their convex conjugates,
   proximals and gradients (odl/solvers/functional/{functional,default_functionals}.py,
   odl/solvers/nonsmooth/proximal_operators.py).  Definitions only; proofs are in
   C08/Proofs*.v.

   Space: weighted R^n, elements are [list T], the inner product is
   [wdot w x y = sum_i w_i x_i y_i]  (rn: w = 1; rn(weighting=c) and uniform_discr:
   w = c (cell volume); rn(weighting=array): w = array; a ProductSpace of such
   spaces is the concatenation, see FSep2).
   Extended values: [EFin v | EPInf | EJunk]  (EJunk = -inf or nan, absorbing).
   Python exceptions are a small enum [err].
   [sqrtf] is the square root (np.sqrt): an explicit parameter; executed at Q by a
   40-digit rational approximation that is exact on perfect squares (Corr.v), taken
   with its defining property in the proofs. *)
From Coq Require Import ZArith QArith List Bool.
From Verif Require Import Base.Num Base.Vec.
Import ListNotations.
Local Open Scope num_scope.

Inductive err := ENotImpl | EValue | EZeroDiv | EType | EOther.
Inductive res (A : Type) := Ok (a : A) | Err (e : err).
Arguments Ok {A} a.
Arguments Err {A} e.
Definition rbind {A B} (r : res A) (k : A -> res B) : res B :=
  match r with Ok a => k a | Err e => Err e end.
Notation "x <- r ;; k" := (rbind r (fun x => k)) (at level 61, r at next level, right associativity).

Inductive pexp := P1 | P2 | Pinf.

Section M.
Context {T : Type} `{Num T}.
Variable sqrtf : T -> T.
(* rounding slack of the unit-ball test (0 in every theorem; the correspondence also
   accepts +-1e-12 so that a point that is on the sphere up to float rounding may fall
   on either side) *)
Variable slack : T.

Inductive ext := EFin (v : T) | EPInf | EJunk.

Definition eadd (a b : ext) : ext :=
  match a, b with
  | EFin u, EFin v => EFin (u + v)
  | EJunk, _ | _, EJunk => EJunk
  | _, _ => EPInf
  end.
(* python float product  s * value *)
Definition escal (s : T) (a : ext) : ext :=
  match a with
  | EFin v => EFin (s * v)
  | EPInf => if nzero <? s then EPInf else EJunk
  | EJunk => EJunk
  end.
Definition radd (a b : res ext) : res ext := u <- a ;; v <- b ;; Ok (eadd u v).

(* ------------------------------------------------------------------ syntax *)
(* One constructor per Functional class of the anchors.  Vectors stored in a
   node (translation, linear term, multiplier) are full-length lists. *)
(* an abstract pair of mutually conjugate leaves given by its observables (side true / side false are
   each other's convex_conj): used for leaves whose formulas live outside this file (GroupL1Norm <->
   IndicatorGroupL1UnitBall on power spaces, C08/Group.v).  The theorems take the pair's own consistency
   ([pair_ok], C08/Rules.v) as part of [wf] and every concrete pair used by the harness is proved to satisfy it. *)
Record cpair := {
  pv : bool -> list T -> list T -> res ext;              (* value of the side on the space with weights w *)
  pp : bool -> list T -> T -> list T -> res (list T);    (* proximal *)
  pg : bool -> list T -> list T -> res (list T);         (* gradient *)
  ptag : bool -> nat;                                    (* class tag of the side (Corr.shape) *)
  pw : list T -> bool }.                                 (* weights on which the pair lives (e.g. a power space) *)

Inductive fexpr :=
| FLp (p : pexp)                    (* L1Norm / L2Norm / LpNorm(inf) *)
| FIndBall (p : pexp)               (* IndicatorLpUnitBall(exponent p) *)
| FL2Sq                             (* L2NormSquared *)
| FConst (c : T)                    (* ConstantFunctional / ZeroFunctional *)
| FIndZero (c : T)                  (* IndicatorZero(constant=c) *)
| FHuber (g : T)                    (* Huber(gamma) on a non-product space *)
| FQuadS (a : option T) (b : option (list T)) (c : T)
                                    (* QuadraticForm(ScalingOperator(a) | None, vector | None, constant) *)
| FLeft (s : T) (f : fexpr)         (* FunctionalLeftScalarMult:  s * f *)
| FRight (s : T) (f : fexpr)        (* FunctionalRightScalarMult: f(s * .) *)
| FRightVec (v : list T) (f : fexpr)(* FunctionalRightVectorMult: f(v * .) *)
| FSum (f g : fexpr)                (* FunctionalSum *)
| FScalarSum (f : fexpr) (c : T)    (* FunctionalScalarSum *)
| FTransl (f : fexpr) (t : list T)  (* FunctionalTranslation *)
| FQuadPert (f : fexpr) (a : T) (u : list T) (c : T)   (* FunctionalQuadraticPerturb *)
| FInfConv (f g : fexpr)            (* InfimalConvolution *)
| FDefConj (f : fexpr)              (* FunctionalDefaultConvexConjugate *)
| FBreg (q : fexpr)                 (* BregmanDistance: wraps its private QuadraticPerturb q (see [bregman]);
                                       delegates _call/convex_conj/proximal/gradient, but is flagged nonlinear *)
| FSep2 (k : nat) (f g : fexpr)    (* SeparableSum(f, g): f on the first k entries, g on the rest;
                                       SeparableSum(f1, f2, f3) = FSep2 k1 f1 (FSep2 k2 f2 f3) *)
| FPair (b : bool) (P : cpair).     (* one side of an abstract conjugate pair *)

(* ------------------------------------------------------------ constructors *)
(* the [linear=] flag each class passes to Operator.__init__ *)
Fixpoint is_linear (e : fexpr) : bool :=
  match e with
  | FLp _ | FIndBall _ | FL2Sq | FIndZero _ | FHuber _ => false
  | FConst c => c =? nzero
  | FQuadS a _ c => match a with None => c =? nzero | Some _ => false end
  | FLeft _ f | FRight _ f => is_linear f
  | FRightVec _ f => is_linear f
  | FSum f g => is_linear f && is_linear g
  | FScalarSum f c => is_linear f && (c =? nzero)
  | FTransl _ _ | FInfConv _ _ | FBreg _ | FPair _ _ => false
  | FQuadPert f a _ c => is_linear f && (a =? nzero) && (c =? nzero)
  | FDefConj _ => false
  | FSep2 _ f g => is_linear f && is_linear g
  end.

(* Operator{Left,Right}ScalarMult.__init__ merge a directly nested multiple *)
Definition mkLeft (s : T) (f : fexpr) : fexpr :=
  match f with FLeft s' f' => FLeft (s * s') f' | _ => FLeft s f end.
Definition mkRight (s : T) (f : fexpr) : fexpr :=
  match f with FRight s' f' => FRight (s * s') f' | _ => FRight s f end.
(* FunctionalTranslation.__init__ merges a directly nested translation *)
Definition mkTransl (f : fexpr) (t : list T) : fexpr :=
  match f with FTransl f' t' => FTransl f' (vadd t' t) | _ => FTransl f t end.
(* Functional.__rmul__ :  s * f  *)
Definition rmul (s : T) (f : fexpr) : fexpr :=
  if s =? nzero then FConst nzero else mkLeft s f.
(* Functional.__mul__ :  f * s   for s <> 0  (s = 0 evaluates f(0) eagerly: not used by
   any conjugation rule, the harness does not build it) *)
Definition mul_right (f : fexpr) (s : T) : fexpr :=
  if is_linear f then mkLeft s f else mkRight s f.

(* ------------------------------------------------------------------- value *)
Definition wsum (w x : list T) : T := sumf (vmul w x).
Definition huber1 (g t : T) : T :=
  if nzero <? g then
    (if g <=? nabs t then nabs t - g / of_Z 2 else (t * t) * (none_ / (of_Z 2 * g)))
  else nabs t.
Definition norm2 (w x : list T) : T := sqrtf (wdot w x x).
Definition lpnorm (p : pexp) (w x : list T) : T :=
  match p with
  | P1 => wsum w (map nabs x)
  | P2 => norm2 w x
  | Pinf => vmaxabs x
  end.

Fixpoint value (e : fexpr) (w x : list T) : res ext :=
  match e with
  | FLp p => Ok (EFin (lpnorm p w x))
  | FIndBall p => Ok (if none_ + slack <? lpnorm p w x then EPInf else EFin nzero)
  | FL2Sq => Ok (EFin (wdot w x x))
  | FConst c => Ok (EFin c)
  | FIndZero c => Ok (if norm2 w x =? nzero then EFin c else EPInf)
  | FHuber g => Ok (EFin (wsum w (map (huber1 g) x)))
  | FQuadS a b c =>
      match a, b with
      | None, None => Err EOther
      | None, Some b => Ok (EFin (wdot w b x + c))
      | Some a, None => Ok (EFin (wdot w x (vscal a x) + c))
      | Some a, Some b => Ok (EFin (wdot w x (vadd (vscal a x) b) + c))
      end
  | FLeft s f => v <- value f w x ;; Ok (escal s v)
  | FRight s f => value f w (vscal s x)
  | FRightVec v f => value f w (vmul x v)
  | FSum f g => radd (value f w x) (value g w x)
  | FScalarSum f c => radd (value f w x) (Ok (EFin c))
  | FTransl f t => value f w (vsub x t)
  | FQuadPert f a u c =>
      v <- value f w x ;;
      Ok (eadd (eadd (eadd v (EFin (a * wdot w x x))) (EFin (wdot w x u))) (EFin c))
  | FInfConv _ _ => Err ENotImpl
  | FDefConj _ => Err ENotImpl
  | FBreg q => value q w x
  | FSep2 k f g =>
      radd (value f (firstn k w) (firstn k x)) (value g (skipn k w) (skipn k x))
  | FPair b P => pv P b w x
  end.

(* ----------------------------------------------------------- convex_conj *)
Definition pconj (p : pexp) : pexp := match p with P1 => Pinf | P2 => P2 | Pinf => P1 end.
Definition quarter : T := none_ / of_Z 4.

(* [w] are the weights of the space: used for its dimension (zero vector of Huber's
   perturbation, FSep2's split) and by QuadraticForm's constant  <b, A^-1 b> *)
Fixpoint cconj (w : list T) (e : fexpr) : res fexpr :=
  match e with
  | FLp p => Ok (FIndBall (pconj p))
  | FIndBall p => Ok (FLp (pconj p))
  | FL2Sq => Ok (rmul quarter FL2Sq)
  | FConst c => Ok (FIndZero (- c))
  | FIndZero c => Ok (FConst (- c))
  | FHuber g => Ok (FQuadPert (FIndBall Pinf) (g / of_Z 2) (vconst (length w) nzero) nzero)
  | FQuadS a b c =>
      match a, b with
      | None, None => Err EOther
      | None, Some b => Ok (mkTransl (FIndZero (- c)) b)
      | Some a, None =>
          if a =? nzero then Err EZeroDiv
          else Ok (FQuadS (Some (quarter * (none_ / a))) None (- c))
      | Some a, Some b =>
          if a =? nzero then Err EZeroDiv
          else let ib := vscal (none_ / a) b in
               Ok (FQuadS (Some (quarter * (none_ / a)))
                          (Some (vscal (- quarter) (vadd ib ib)))
                          (quarter * wdot w b ib - c))
      end
  | FLeft s f =>
      if s <=? nzero then Err EValue
      else f' <- cconj w f ;; Ok (mul_right (rmul s f') (none_ / s))
  | FRight s f =>
      f' <- cconj w f ;;
      if s =? nzero then Err EZeroDiv else Ok (mul_right f' (none_ / s))
  | FRightVec v f =>
      f' <- cconj w f ;; Ok (FRightVec (map (fun a => none_ / a) v) f')
  | FSum _ _ => Ok (FDefConj e)
  | FScalarSum f c => f' <- cconj w f ;; Ok (FScalarSum f' (- none_ * c))
  | FTransl f t => f' <- cconj w f ;; Ok (FQuadPert f' nzero t nzero)
  | FQuadPert f a u c =>
      if a =? nzero then
        f' <- cconj w f ;;
        let g := mkTransl f' u in
        Ok (if c =? nzero then g else FScalarSum g (- none_ * c))
      else Ok (FDefConj e)
  | FInfConv f g => f' <- cconj w f ;; g' <- cconj w g ;; Ok (FSum f' g')
  | FDefConj f => Ok f
  | FBreg q => cconj w q
  | FSep2 k f g => f' <- cconj (firstn k w) f ;; g' <- cconj (skipn k w) g ;; Ok (FSep2 k f' g')
  | FPair b P => Ok (FPair (negb b) P)
  end.

(* BregmanDistance(f, p, g): all three observables delegate to this QuadraticPerturb *)
Definition bregman (f : fexpr) (w p g : list T) : res fexpr :=
  v <- value f w p ;;
  match v with
  | EFin fp => Ok (FBreg (FQuadPert f nzero (vopp g) (- fp + wdot w g p)))
  | _ => Err EOther
  end.

(* ---------------------------------------------------------------- proximal *)
Fixpoint insert_desc (a : T) (l : list T) : list T :=
  match l with
  | [] => [a]
  | b :: l' => if b <=? a then a :: l else b :: insert_desc a l'
  end.
Definition sort_desc (l : list T) : list T := fold_right insert_desc [] l.
(* proj_simplex: scan the descending sort, keep the shift of the LAST index with crit >= 0 *)
Fixpoint simplex_scan (d : T) (j : Z) (cum : T) (best : option T) (l : list T) : option T :=
  match l with
  | [] => best
  | a :: l' =>
      let cum' := cum + a in
      let avg := (none_ / of_Z j) * (cum' - d) in
      simplex_scan d (j + 1) cum' (if nzero <=? a - avg then Some avg else best) l'
  end.
Definition proj_simplex (x : list T) (d : T) : res (list T) :=
  match simplex_scan d 1 nzero None (sort_desc x) with
  | Some th => Ok (map (fun a => nmax (a - th) nzero) x)
  | None => Err EValue
  end.
Definition proj_l1 (x : list T) (r : T) : res (list T) :=
  let u := map nabs x in
  if sumf u <=? r then Ok x
  else p <- proj_simplex u r ;; Ok (vmul p (map nsign x)).

Definition soft1 (sl a : T) : T := a - a / nmax (nabs a / sl) none_.          (* proximal_l1 *)
Definition clip1 (a : T) : T := a / (nmax (nabs a) none_ / none_).           (* proximal_convex_conj_l1, lam = 1 *)
Definition prox_l2 (w : list T) (sigma : T) (x : list T) : list T :=         (* proximal_l2, lam = 1 *)
  let nx := norm2 w x in
  if nzero <? nx then
    (let step := sigma / nx in
     if step <? none_ then vscal (none_ - step) x else map (fun _ => nzero) x)
  else map (fun _ => nzero) x.
(* pointwise factor: gamma / (gamma + sigma) where |x| <= gamma + sigma, 1 - sigma / |x| elsewhere *)
Definition huber_prox1 (g sigma a : T) : T :=
  (if nabs a <=? g + sigma then g / (g + sigma) else none_ - sigma / nabs a) * a.
(* proximal_convex_conj(factory)(sigma) = Id - sigma * factory(1/sigma)( . / sigma) *)
Definition moreau_conj (p : T -> list T -> res (list T)) (sigma : T) (x : list T) : res (list T) :=
  q <- p (none_ / sigma) (vscal (none_ / sigma) x) ;; Ok (vsub x (vscal sigma q)).
(* proximal_arg_scaling(factory, s)(sigma) *)
Definition arg_scaling (p : T -> list T -> res (list T)) (s sigma : T) (x : list T) : res (list T) :=
  if s =? nzero then (_ <- p none_ x ;; Ok x)
  else q <- p (sigma * (s * s)) (vscal s x) ;; Ok (vscal (none_ / s) q).

Fixpoint prox (e : fexpr) (w : list T) (sigma : T) (x : list T) : res (list T) :=
  match e with
  | FLp P1 => Ok (map (soft1 (sigma * none_)) x)
  | FLp P2 => Ok (prox_l2 w sigma x)
  | FLp Pinf => q <- proj_l1 x sigma ;; Ok (vlin (- none_) q none_ x)
  | FIndBall Pinf => Ok (map clip1 x)
  | FIndBall P2 => moreau_conj (fun s y => Ok (prox_l2 w s y)) sigma x
  | FIndBall P1 => proj_l1 x none_
  | FL2Sq => Ok (vscal (none_ / (none_ + of_Z 2 * sigma * none_)) x)
  | FConst _ => Ok x
  | FIndZero _ => Ok (map (fun _ => nzero) x)
  | FHuber g => Ok (map (huber_prox1 g sigma) x)
  | FQuadS _ _ _ => Err ENotImpl
  | FLeft s f =>
      if s <? nzero then Err EValue
      else if s =? nzero then Ok x
      else prox f w (sigma * s) x
  | FRight s f => arg_scaling (prox f w) s sigma x
  | FRightVec _ _ | FSum _ _ | FInfConv _ _ => Err ENotImpl
  | FScalarSum f _ => prox f w sigma x
  | FTransl f t => q <- prox f w sigma (vsub x t) ;; Ok (vadd t q)
  | FQuadPert f a u _ =>
      if a <? nzero then Err EType
      else
        let c := none_ / sqrtf (sigma * of_Z 2 * a + none_) in
        q <- arg_scaling (prox f w) c sigma (vsub (vscal c x) (vscal (sigma * c) u)) ;;
        Ok (vscal c q)
  | FDefConj f => moreau_conj (prox f w) sigma x
  | FBreg q => prox q w sigma x
  | FSep2 k f g =>
      p <- prox f (firstn k w) sigma (firstn k x) ;;
      q <- prox g (skipn k w) sigma (skipn k x) ;; Ok (p ++ q)
  | FPair b P => pp P b w sigma x
  end.

(* ---------------------------------------------------------------- gradient *)
Definition huber_grad1 (g a : T) : T := if g <=? nabs a then a / nabs a else a / g.
Fixpoint grad (e : fexpr) (w x : list T) : res (list T) :=
  match e with
  | FLp P1 => Ok (map nsign x)
  | FLp P2 => let nx := norm2 w x in
              Ok (if nx =? nzero then map (fun _ => nzero) x else vscal (none_ / nx) x)
  | FLp Pinf | FIndBall _ | FIndZero _ | FInfConv _ _ | FDefConj _ => Err ENotImpl
  | FL2Sq => Ok (vscal (of_Z 2) x)
  | FConst _ => Ok (map (fun _ => nzero) x)
  | FHuber g => Ok (map (huber_grad1 g) x)
  | FQuadS a b _ =>
      match a, b with
      | None, None => Err EOther
      | None, Some b => Ok b
      | Some a, None => Ok (vscal (of_Z 2) (vscal a x))
      | Some a, Some b => Ok (vadd (vscal (of_Z 2) (vscal a x)) b)
      end
  | FLeft s f => q <- grad f w x ;; Ok (vscal s q)
  | FRight s f => q <- grad f w (vscal s x) ;; Ok (vscal s q)
  | FRightVec v f => q <- grad f w (vmul v x) ;; Ok (vmul v q)
  | FSum f g => p <- grad f w x ;; q <- grad g w x ;; Ok (vadd p q)
  | FScalarSum f _ => p <- grad f w x ;; Ok (vadd p (map (fun _ => nzero) x))
  | FTransl f t => grad f w (vsub x t)
  | FQuadPert f a u _ =>
      p <- grad f w x ;; Ok (vadd (vadd p (vscal (of_Z 2 * a) x)) u)
  | FBreg q => grad q w x
  | FSep2 k f g =>
      p <- grad f (firstn k w) (firstn k x) ;;
      q <- grad g (skipn k w) (skipn k x) ;; Ok (p ++ q)
  | FPair b P => pg P b w x
  end.

End M.

Arguments EFin {T} v.
Arguments EPInf {T}.
Arguments EJunk {T}.
