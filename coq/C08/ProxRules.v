(* C08/ProxRules.v -- proximal side: length preservation, transparency of the merging
   constructors for [prox], and the proximal form of the linear-flag soundness. *)
From Coq Require Import ZArith Reals Lra Lia List Bool Psatz.
From Verif Require Import Base.Num Base.Vec Base.VecR C08.Model C08.VecLemmas C08.Rules.
Import ListNotations.
Local Open Scope R_scope.

Ltac inv_ok :=
  repeat match goal with
  | H : Ok ?a = Ok ?b |- _ => injection H as H; first [subst b | subst a | idtac]
  | H : Err _ = Ok _ |- _ => discriminate H
  | H : Ok _ = Err _ |- _ => discriminate H
  end.

(* side conditions of the Moreau theorem, on top of [wf]:
   - classes without a proximal (Sum, InfimalConvolution, RightVectorMult, QuadraticForm) are
     excluded -- the premise "both proximals exist" is false for them anyway;
   - a reflection f(s .) with s < 0 must not sit on a functional whose conjugate is flagged linear
     (the library then builds a LeftScalarMult with a negative scalar, whose proximal raises). *)
Fixpoint D (e : fxR) : Prop :=
  match e with
  | FSum _ _ | FInfConv _ _ | FRightVec _ _ | FQuadS _ _ _ => False
  | FLp _ | FIndBall _ | FL2Sq | FConst _ | FIndZero _ | FHuber _ | FPair _ _ => True
  | FLeft _ f | FScalarSum f _ | FTransl f _ | FQuadPert f _ _ _ | FBreg f | FDefConj f => D f
  | FRight s f => (s < 0 -> forall w f', @cconj R _ w f = Ok f' -> is_linear f' = false) /\ D f
  | FSep2 _ f g => D f /\ D g
  end.

(* what the proximal form of the linear-flag soundness needs of a tree *)
Fixpoint lwf (n : nat) (e : fxR) : Prop :=
  match e with
  | FLeft _ f | FRight _ f | FScalarSum f _ | FBreg f => lwf n f
  | FQuadPert f _ u _ => length u = n /\ lwf n f
  | FSep2 k f g => (k <= n)%nat /\ lwf k f /\ lwf (n - k) g
  | _ => True
  end.

Lemma wf_D_lwf e : forall n, wf n e -> D e -> lwf n e.
Proof.
  fxind e; intros n Hwf HD; cbn [wf D lwf] in *; auto; try tauto.
  - destruct Hwf; eauto.
  - destruct Hwf, HD; eauto.
  - destruct Hwf as (? & ? & ?). split; eauto.
  - destruct Hwf as (? & ? & ?), HD. repeat split; eauto.
Qed.

Lemma lwf_mkLeft n s g : lwf n (mkLeft s g) <-> lwf n g.
Proof. destruct g; reflexivity. Qed.
Lemma lwf_mkRight n s g : lwf n (mkRight s g) <-> lwf n g.
Proof. destruct g; reflexivity. Qed.
Lemma lwf_mul_right n g a : lwf n (mul_right g a) <-> lwf n g.
Proof. unfold mul_right. destruct (is_linear g); [apply lwf_mkLeft | apply lwf_mkRight]. Qed.
Lemma lwf_mkTransl n g t : lwf n (mkTransl g t).
Proof. destruct g; exact I. Qed.

(* length constraints only (enough for the proximal to preserve lengths) *)
Fixpoint lenwf (n : nat) (e : fxR) : Prop :=
  match e with
  | FLeft _ f | FRight _ f | FScalarSum f _ | FDefConj f | FBreg f => lenwf n f
  | FRightVec v f => length v = n /\ lenwf n f
  | FSum f g | FInfConv f g => lenwf n f /\ lenwf n g
  | FTransl f t => length t = n /\ lenwf n f
  | FQuadPert f _ u _ => length u = n /\ lenwf n f
  | FSep2 k f g => (k <= n)%nat /\ lenwf k f /\ lenwf (n - k) g
  | FQuadS _ b _ => match b with Some b' => length b' = n | None => True end
  | FPair _ P => pair_len n P
  | _ => True
  end.
Lemma wf_lenwf e : forall n, wf n e -> lenwf n e.
Proof. fxind e; intros n Hwf; cbn [wf lenwf] in *; auto; try (destruct Hwf as (Hl & _); exact Hl); intuition eauto. Qed.
Lemma lenwf_mkLeft n s g : lenwf n (mkLeft s g) <-> lenwf n g.
Proof. destruct g; reflexivity. Qed.
Lemma lenwf_mkRight n s g : lenwf n (mkRight s g) <-> lenwf n g.
Proof. destruct g; reflexivity. Qed.
Lemma lenwf_mul_right n g a : lenwf n (mul_right g a) <-> lenwf n g.
Proof. unfold mul_right. destruct (is_linear g); [apply lenwf_mkLeft | apply lenwf_mkRight]. Qed.
Lemma lenwf_mkTransl n g t : length t = n -> lenwf n g -> lenwf n (mkTransl g t).
Proof.
  intros Lt Hg. destruct g; cbn [mkTransl lenwf] in *; auto.
  destruct Hg as [L1 Hg]. split; [rewrite vadd_length; congruence | assumption].
Qed.

(* convex_conj preserves the length constraints *)
Lemma lenwf_conj e : forall n w e', lenwf n e -> length w = n -> @cconj R _ w e = Ok e' -> lenwf n e'.
Proof.
  fxind e; intros n w e' Hl Lw Hc; cbn [cconj lenwf] in *;
    try (injection Hc as <-; cbn [lenwf]; auto; fail).
  - (* FL2Sq *) injection Hc as <-. unfold rmul. destruct (_ =? _)%num; exact I.
  - (* FHuber *) injection Hc as <-. cbn [lenwf]. split; [unfold vconst; rewrite repeat_length; assumption | exact I].
  - (* FQuadS *) destruct a as [a|], b as [b|]; try discriminate.
    + destruct (a =? nzero)%num; [discriminate|]. injection Hc as <-. cbn [lenwf].
      rewrite vscal_length, vadd_length; rewrite !vscal_length; congruence.
    + destruct (a =? nzero)%num; [discriminate|]. injection Hc as <-. exact I.
    + injection Hc as <-. cbn [mkTransl lenwf]. split; [assumption | exact I].
  - (* FLeft *) destruct (s <=? nzero)%num; [discriminate|].
    destruct (cconj w f) as [f'|] eqn:E; cbn [rbind] in Hc; [|discriminate]. injection Hc as <-.
    apply lenwf_mul_right. unfold rmul. destruct (s =? nzero)%num; [exact I|]. apply lenwf_mkLeft. eauto.
  - (* FRight *) destruct (cconj w f) as [f'|] eqn:E; cbn [rbind] in Hc; [|discriminate].
    destruct (s =? nzero)%num; [discriminate|]. injection Hc as <-. apply lenwf_mul_right. eauto.
  - (* FRightVec *) destruct Hl as [Lv Hl]. destruct (cconj w f) as [f'|] eqn:E; cbn [rbind] in Hc; [|discriminate].
    injection Hc as <-. cbn [lenwf]. rewrite map_length. split; eauto.
  - (* FScalarSum *) destruct (cconj w f) as [f'|] eqn:E; cbn [rbind] in Hc; [|discriminate].
    injection Hc as <-. cbn [lenwf]. eauto.
  - (* FTransl *) destruct Hl as [Lt Hl]. destruct (cconj w f) as [f'|] eqn:E; cbn [rbind] in Hc; [|discriminate].
    injection Hc as <-. cbn [lenwf]. split; eauto.
  - (* FQuadPert *) destruct Hl as [Lu Hl]. destruct (a =? nzero)%num.
    + destruct (cconj w f) as [f'|] eqn:E; cbn [rbind] in Hc; [|discriminate].
      destruct (c =? nzero)%num; injection Hc as <-; cbn [lenwf]; apply lenwf_mkTransl; eauto.
    + injection Hc as <-. cbn [lenwf]. split; assumption.
  - (* FInfConv *) destruct Hl as [H1 H2].
    destruct (cconj w f) as [f'|] eqn:E1; cbn [rbind] in Hc; [|discriminate].
    destruct (cconj w g) as [g'|] eqn:E2; cbn [rbind] in Hc; [|discriminate].
    injection Hc as <-. cbn [lenwf]. split; eauto.
  - (* FBreg *) eauto.
  - (* FSep2 *) destruct Hl as (Hk & H1 & H2).
    destruct (cconj (firstn k w) f) as [f'|] eqn:E1; cbn [rbind] in Hc; [|discriminate].
    destruct (cconj (skipn k w) g) as [g'|] eqn:E2; cbn [rbind] in Hc; [|discriminate].
    injection Hc as <-. cbn [lenwf]. repeat split; [assumption| |].
    + eapply IHf; [exact H1| |exact E1]. rewrite firstn_length; lia.
    + eapply IHg; [exact H2| |exact E2]. rewrite skipn_length; lia.
Qed.

Section R.
Variable sqrtf : R -> R.
Notation prx := (@prox R _ sqrtf).
Notation cj := (@cconj R _).

Definition cprox (w : Rvec) (e : fxR) (tau : R) (y : Rvec) : res Rvec :=
  match cj w e with Ok e' => prx e' w tau y | Err er => Err er end.

(* ------------------------------------------------------------------ lengths *)
Lemma vlin_length a b (x y : Rvec) : length x = length y -> length (vlin a x b y) = length x.
Proof. apply vmap2_length. Qed.

Lemma proj_l1_length (x : Rvec) r p : @proj_l1 R _ x r = Ok p -> length p = length x.
Proof.
  unfold proj_l1, proj_simplex. destruct (sumf (map nabs x) <=? r)%num; [intros; inv_ok; reflexivity|].
  destruct (simplex_scan _ _ _ _ _); cbn [rbind]; intros; inv_ok.
  rewrite vmul_length; rewrite !map_length; reflexivity.
Qed.

Lemma prox_l2_length w s (x : Rvec) : length (@prox_l2 R _ sqrtf w s x) = length x.
Proof.
  unfold prox_l2. destruct (nzero <? _)%num; [destruct (_ <? none_)%num|];
    rewrite ?vscal_length, ?map_length; reflexivity.
Qed.

Lemma arg_scaling_length n (p : R -> Rvec -> res Rvec) s sigma x r :
  (forall t y q, length y = n -> p t y = Ok q -> length q = n) ->
  length x = n -> @arg_scaling R _ p s sigma x = Ok r -> length r = n.
Proof.
  intros Hp Lx. unfold arg_scaling. destruct (s =? nzero)%num.
  - destruct (p none_ x); cbn [rbind]; intros; inv_ok. assumption.
  - destruct (p _ (vscal s x)) as [q|] eqn:E; cbn [rbind]; intros; inv_ok.
    rewrite vscal_length. eapply Hp; [|exact E]. rewrite vscal_length; assumption.
Qed.
Lemma moreau_conj_length n (p : R -> Rvec -> res Rvec) sigma x r :
  (forall t y q, length y = n -> p t y = Ok q -> length q = n) ->
  length x = n -> @moreau_conj R _ p sigma x = Ok r -> length r = n.
Proof.
  intros Hp Lx. unfold moreau_conj.
  destruct (p _ (vscal _ x)) as [q|] eqn:E; cbn [rbind]; intros; inv_ok.
  rewrite vsub_length; [assumption|]. rewrite vscal_length.
  symmetry. rewrite Lx. eapply Hp; [|exact E]. rewrite vscal_length; assumption.
Qed.

Lemma prox_length e : forall n w sigma x p,
  lenwf n e -> length x = n -> prx e w sigma x = Ok p -> length p = n.
Proof.
  fxind e; intros n w sigma x r Hwf Lx Hp; cbn [prox lenwf] in *.
  - destruct p; [| |destruct (proj_l1 x sigma) as [q|] eqn:E; cbn [rbind] in Hp]; inv_ok.
    + rewrite map_length; congruence.
    + rewrite prox_l2_length; congruence.
    + rewrite vlin_length; apply proj_l1_length in E; congruence.
  - destruct p.
    + apply proj_l1_length in Hp. congruence.
    + eapply moreau_conj_length; [|exact Lx|exact Hp].
      intros t y q Ly Hq. cbv beta in Hq. inv_ok. rewrite prox_l2_length; assumption.
    + inv_ok. rewrite map_length; congruence.
  - inv_ok. rewrite vscal_length; congruence.
  - inv_ok. congruence.
  - inv_ok. rewrite map_length; congruence.
  - inv_ok. rewrite map_length; congruence.
  - discriminate.
  - destruct (s <? nzero)%num; [discriminate|].
    destruct (s =? nzero)%num; [inv_ok; congruence|]. eauto.
  - eapply arg_scaling_length; [|exact Lx|exact Hp]. intros; eauto.
  - discriminate.
  - discriminate.
  - eauto.
  - destruct Hwf as [Lt Hwf]. destruct (prx f w sigma (vsub x t)) as [q|] eqn:E; cbn [rbind] in Hp; inv_ok.
    assert (length q = length t) by (rewrite Lt; eapply IHf; [exact Hwf| |exact E]; rewrite vsub_length; congruence).
    rewrite vadd_length; congruence.
  - destruct Hwf as (Lu & Hwf). destruct (a <? nzero)%num; [discriminate|].
    match type of Hp with context [arg_scaling ?P ?C ?S ?X] => destruct (arg_scaling P C S X) as [q|] eqn:E end;
      cbn [rbind] in Hp; inv_ok.
    rewrite vscal_length. eapply arg_scaling_length; [| |exact E].
    + intros; eauto.
    + rewrite vsub_length; rewrite !vscal_length; congruence.
  - discriminate.
  - eapply moreau_conj_length; [|exact Lx|exact Hp]. intros; eauto.
  - eauto.
  - destruct Hwf as (Hk & Hwf1 & Hwf2).
    destruct (prx f (firstn k w) sigma (firstn k x)) as [p1|] eqn:E1; cbn [rbind] in Hp; inv_ok.
    destruct (prx g (skipn k w) sigma (skipn k x)) as [p2|] eqn:E2; cbn [rbind] in Hp; inv_ok.
    rewrite app_length.
    assert (L1 : length (firstn k x) = k) by (rewrite firstn_length; lia).
    assert (L2 : length (skipn k x) = (n - k)%nat) by (rewrite skipn_length; lia).
    rewrite (IHf k _ _ _ _ Hwf1 L1 E1), (IHg (n - k)%nat _ _ _ _ Hwf2 L2 E2). lia.
  - (* FPair *) destruct Hwf as [Hpl _]. exact (Hpl w pb sigma x r Lx Hp).
Qed.

(* ------------------------------------------- transparency of the constructors *)
Lemma mkRight_cases a (g : fxR) :
  (exists s' g', g = FRight s' g' /\ mkRight a g = FRight (a * s') g') \/ mkRight a g = FRight a g.
Proof. destruct g; try (right; reflexivity). left; eauto. Qed.
Lemma mkTransl_cases (g : fxR) u :
  (exists g' t', g = FTransl g' t' /\ mkTransl g u = FTransl g' (vadd t' u)) \/ mkTransl g u = FTransl g u.
Proof. destruct g; try (right; reflexivity). left; eauto. Qed.

Lemma prox_FLeft_pos s g w sigma x : 0 < s -> prx (FLeft s g) w sigma x = prx g w (sigma * s) x.
Proof. intros Hs. cbn [prox]. numR. rewrite (Rltb_false s 0), (Reqb_false s 0) by lra. reflexivity. Qed.

Lemma prox_mkLeft s g w sigma x : 0 < s -> prx (mkLeft s g) w sigma x = prx g w (sigma * s) x.
Proof.
  intros Hs. destruct (mkLeft_cases s g) as [(s' & g' & -> & ->)| ->]; [|apply prox_FLeft_pos; assumption].
  cbn [prox]. numR.
  destruct (Rlt_dec s' 0) as [Hn|Hn].
  - rewrite (Rltb_true (s * s') 0), (Rltb_true s' 0) by nra. reflexivity.
  - rewrite (Rltb_false (s * s') 0), (Rltb_false s' 0) by nra.
    destruct (Req_dec s' 0) as [->|Hz].
    + rewrite (Reqb_true (s * 0) 0), (Reqb_true 0 0) by lra. reflexivity.
    + rewrite (Reqb_false (s * s') 0), (Reqb_false s' 0) by nra.
      replace (sigma * (s * s')) with (sigma * s * s') by ring. reflexivity.
Qed.

Lemma prox_mkRight a g w sigma x : a <> 0 -> (forall s' g', g = FRight s' g' -> s' <> 0) ->
  prx (mkRight a g) w sigma x = arg_scaling (prx g w) a sigma x.
Proof.
  intros Ha Hg. destruct (mkRight_cases a g) as [(s' & g' & -> & ->)| ->]; [|reflexivity].
  specialize (Hg s' g' eq_refl). cbn [prox]. unfold arg_scaling. numR.
  rewrite (Reqb_false (a * s') 0), (Reqb_false a 0), (Reqb_false s' 0) by (try assumption; nra).
  rewrite !vscal_vscal.
  replace (sigma * (a * s' * (a * s'))) with (sigma * (a * a) * (s' * s')) by ring.
  replace (s' * a) with (a * s') by ring.
  destruct (prx g' w _ _); cbn [rbind]; [|reflexivity].
  rewrite vscal_vscal. do 2 f_equal. field. split; assumption.
Qed.

Lemma prox_mkTransl f u w sigma x :
  prx (mkTransl f u) w sigma x = (q <- prx f w sigma (vsub x u) ;; Ok (vadd u q)).
Proof.
  destruct (mkTransl_cases f u) as [(f' & t' & -> & ->)| ->]; [|reflexivity].
  cbn [prox]. rewrite vsub_vsub.
  destruct (prx f' w sigma _); cbn [rbind]; [|reflexivity].
  rewrite (vadd_comm t' u), vadd_assoc. reflexivity.
Qed.

End R.
