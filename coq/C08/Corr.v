(* C08/Corr.v -- correspondence checker (executed at Q by the shards).
   One case = one functional expression tree built BOTH as an odl object and as
   an [fexpr Q], a weighted space, points x, y, a step sigma, and everything the
   implementation returned for the observables of the property. *)
From Coq Require Import ZArith QArith Qabs List Bool.
From Verif Require Import Base.Num Base.Vec Base.Check C08.Model C08.Group.
Import ListNotations.

(* np.sqrt at Q: exact on perfect squares, otherwise truncated at 30 digits *)
Definition sqrt_scale : Z := (10 ^ 30)%Z.
Definition Qsqrt (a : Q) : Q :=
  let n := Qnum a in let d := Zpos (Qden a) in
  if (n <=? 0)%Z then 0%Q
  else Qred (Qmake (Z.sqrt (n * d * sqrt_scale * sqrt_scale)) (Z.to_pos (d * sqrt_scale))).

Definition fx := @fexpr Q.

(* preorder list of class tags: compared with the class tree of the odl object *)
Fixpoint shape (e : fx) : list nat :=
  match e with
  | FLp _ => [0] | FIndBall _ => [1] | FL2Sq => [2] | FConst _ => [3] | FIndZero _ => [4]
  | FHuber _ => [5] | FQuadS _ _ _ => [6]
  | FLeft _ f => 7 :: shape f | FRight _ f => 8 :: shape f | FRightVec _ f => 9 :: shape f
  | FSum f g => 10 :: shape f ++ shape g
  | FScalarSum f _ => 11 :: shape f
  | FTransl f _ => 12 :: shape f
  | FQuadPert f _ _ _ => 13 :: shape f
  | FInfConv f g => 14 :: shape f ++ shape g
  | FDefConj f => 15 :: shape f
  | FBreg q => shape q
  | FSep2 _ f g => 16 :: shape f ++ shape g
  | FPair b P => [ptag P b]
  end%nat.

Inductive ival := IV (v : @ext Q) | IE (e : err) | ISkip.
Inductive ivec := IVec (l : list Q) | IVE (e : err) | IVSkip.
Inductive ishape := IShape (l : list nat) (lin : bool) | ISE (e : err).

Definition atol : Q := 1 # 1000000000.
Definition rtol : Q := 1 # 1000000000.

Definition err_eqb (a b : err) : bool :=
  match a, b with
  | ENotImpl, ENotImpl | EValue, EValue | EZeroDiv, EZeroDiv | EType, EType | EOther, EOther => true
  | _, _ => false
  end.

Definition chk_val (i : ival) (m : res (@ext Q)) : bool :=
  match i, m with
  | ISkip, _ => true
  | IV (EFin a), Ok (EFin b) => Qclose atol rtol a b
  | IV EPInf, Ok EPInf => true
  | IV _, Ok EJunk => true      (* EJunk merges -inf and nan: after a further negative scaling the library may show
                                   +inf / -inf / nan; only reachable with non-positive left scalars (outside wf) *)
  | IE a, Err b => err_eqb a b
  | _, _ => false
  end.
Definition chk_vec (i : ivec) (m : res (list Q)) : bool :=
  match i, m with
  | IVSkip, _ => true
  | IVec a, Ok b => Qsclose atol rtol a b
  | IVE a, Err b => err_eqb a b
  | _, _ => false
  end.
Definition chk_shape (i : ishape) (m : res fx) : bool :=
  match i, m with
  | IShape l lin, Ok e => all2 Nat.eqb l (shape e) && Bool.eqb lin (is_linear e)
  | ISE a, Err b => err_eqb a b
  | _, _ => false
  end.

Record case := {
  k_w : list Q; k_e : fx; k_x : list Q; k_y : list Q; k_sigma : Q;
  k_shape : ishape;          (* class tree + linear flag of e itself *)
  k_val : ival;              (* e(x) *)
  k_cshape : ishape;         (* class tree + linear flag of e.convex_conj *)
  k_cval : ival;             (* e.convex_conj(y) *)
  k_ccshape : ishape;        (* e.convex_conj.convex_conj *)
  k_ccval : ival;            (* e.convex_conj.convex_conj(x) *)
  k_prox : ivec;             (* e.proximal(sigma)(x)                         out-of-place *)
  k_prox_f : ivec;           (* e.proximal(sigma)(x, out=fresh element) *)
  k_prox_a : ivec;           (* e.proximal(sigma)(x, out=x)                  aliased, as the solvers call it *)
  k_cprox : ivec;            (* e.convex_conj.proximal(1/sigma)(x/sigma)     out-of-place *)
  k_cprox_f : ivec;          (* ... out=fresh element *)
  k_cprox_a : ivec;          (* ... out=its own input *)
  k_grad : ivec;             (* e.gradient(x) *)
  k_cgval : ival             (* e.convex_conj(e.gradient(x)) *)
}.

Definition valueQs (sl : Q) := @value Q _ Qsqrt sl.
Definition valueQ := valueQs 0.
Definition proxQ := @prox Q _ Qsqrt.
Definition gradQ := @grad Q _ Qsqrt.
Definition conjQ := @cconj Q _.

Definition sl12 : Q := 1 # 1000000000000.
(* accept the model's value with the unit-ball test moved by +-1e-12 *)
Definition chk_val3 (i : ival) (f : Q -> res (@ext Q)) : bool :=
  chk_val i (f 0) || chk_val i (f sl12) || chk_val i (f (- sl12)).

Definition on_conj {A} (c : res fx) (k : fx -> res A) : res A :=
  match c with Ok e' => k e' | Err e => Err e end.

Definition check (k : case) : bool :=
  let w := k_w k in let e := k_e k in let x := k_x k in let y := k_y k in let s := k_sigma k in
  let c := conjQ w e in
  let cc := on_conj c (conjQ w) in
  let g := gradQ e w x in
  chk_shape (k_shape k) (Ok e)
  && chk_val3 (k_val k) (fun sl => valueQs sl e w x)
  && chk_shape (k_cshape k) c
  && chk_val3 (k_cval k) (fun sl => on_conj c (fun e' => valueQs sl e' w y))
  && chk_shape (k_ccshape k) cc
  && chk_val3 (k_ccval k) (fun sl => on_conj cc (fun e'' => valueQs sl e'' w x))
  && chk_vec (k_prox k) (proxQ e w s x) && chk_vec (k_prox_f k) (proxQ e w s x) && chk_vec (k_prox_a k) (proxQ e w s x)
  && (let cp := on_conj c (fun e' => proxQ e' w (Qdiv' 1 s) (map (fun a => Qdiv' a s) x)) in
      chk_vec (k_cprox k) cp && chk_vec (k_cprox_f k) cp && chk_vec (k_cprox_a k) cp)
  && chk_vec (k_grad k) g
  && chk_val3 (k_cgval k)
       (fun sl => match g with Ok gx => on_conj c (fun e' => valueQs sl e' w gx) | Err er => Err er end).

(* Q-specialised constructors used by the shards (every odl class constructor maps to the
   merging smart constructor, as the classes' __init__ do) *)
Definition cLp := @FLp Q.
Definition cBall := @FIndBall Q.
Definition cL2Sq := @FL2Sq Q.
Definition cConst := @FConst Q.
Definition cIndZero := @FIndZero Q.
Definition cHuber := @FHuber Q.
Definition cQuadS := @FQuadS Q.
Definition cLeft := @mkLeft Q _.
Definition cRight := @mkRight Q _.
Definition cRmul := @rmul Q _.
Definition cMulR := @mul_right Q _.
Definition cRVec := @FRightVec Q.
Definition cSum := @FSum Q.
Definition cSSum := @FScalarSum Q.
Definition cTransl := @mkTransl Q _.
Definition cQP := @FQuadPert Q.
Definition cInfConv := @FInfConv Q.
Definition cDefConj := @FDefConj Q.
Definition cSep2 := @FSep2 Q.
(* Functional.__mul__(0): ConstantFunctional(f(0)), evaluated eagerly at construction *)
Definition cMul0 (w : list Q) (f : fx) : fx :=
  match valueQ f w (map (fun _ => 0) w) with Ok (EFin v) => FConst v | _ => FConst 0 end.
(* GroupL1Norm(S, 2) / IndicatorGroupL1UnitBall(S, 2) on the power space S = X^d with component weights cw
   (ProductSpace(X, d, weighting=cw); [1; ..; 1] when unweighted), X with m points *)
Definition cGroup (cw : list Q) (m : nat) (b : bool) : fx := FPair b (group_pair Qsqrt cw m).
Definition cBreg (w : list Q) (f : fx) (p g : list Q) : fx :=
  match @bregman Q _ Qsqrt 0 f w p g with Ok e => e | Err _ => FConst 0 end.
