(* C13/Transfer.v -- the finite-difference model executed at Q by the
   correspondence shards is the rational restriction of the model the theorems
   are about: Q2R commutes with [fd] for the regenerated tables. *)
From Coq Require Import ZArith QArith Qreals Reals Lra Lia List Bool.
From Verif Require Import Base.Num Base.Vec Base.Transfer C13.Syntax Gen.FiniteDiff C13.Model.
Import ListNotations.

Notation QR := (map Q2R).

Lemma get_transfer (f : list Q) (i : idx) : Q2R (get f i) = get (QR f) i.
Proof. unfold get. rewrite map_length. apply Q2R_nth. Qed.

(* every division in an expression is by a nonzero literal *)
Fixpoint divs_ok (e : ex) : bool :=
  match e with
  | EF _ | EPad | EK _ => true
  | EAdd a b | ESub a b | EMul a b => divs_ok a && divs_ok b
  | EDiv a (EK k) => divs_ok a && negb (Qeq_bool k 0)
  | EDiv _ _ => false
  | ENeg a => divs_ok a
  end.

Lemma of_Q_nz (k : Q) : Qeq_bool k 0 = false -> ~ (@of_Q Q _ k == 0)%Q.
Proof.
  intros Hk H. assert (E : (k == 0)%Q).
  { unfold of_Q in H. cbn [ndiv of_Z Num_Q] in H. unfold Qdiv' in H. rewrite Qred_correct in H.
    rewrite <- H. unfold Qeq, Qdiv, Qmult, Qinv, inject_Z. cbn [Qnum Qden].
    destruct k as [n d]. cbn [Qnum Qden]. ring_simplify. reflexivity. }
  apply Qeq_bool_iff in E. congruence.
Qed.

Lemma eval_transfer (e : ex) (c : Q) (f : list Q) : divs_ok e = true ->
  Q2R (eval e c f) = eval e (Q2R c) (QR f).
Proof.
  induction e as [i | | k | a IHa b IHb | a IHa b IHb | a IHa b IHb | a IHa b IHb | a IHa];
    intros Hd; cbn [eval divs_ok] in *.
  - apply get_transfer.
  - reflexivity.
  - apply Q2R_of_Q.
  - apply andb_prop in Hd as [Ha Hb]. rewrite Q2R_nadd, IHa, IHb by assumption. reflexivity.
  - apply andb_prop in Hd as [Ha Hb]. rewrite Q2R_nsub, IHa, IHb by assumption. reflexivity.
  - apply andb_prop in Hd as [Ha Hb]. rewrite Q2R_nmul, IHa, IHb by assumption. reflexivity.
  - destruct b as [| |k| | | | | ]; try discriminate Hd.
    apply andb_prop in Hd as [Ha Hk]. apply negb_true_iff in Hk.
    cbn [eval]. rewrite Q2R_ndiv by (apply of_Q_nz, Hk). rewrite IHa by assumption.
    rewrite Q2R_of_Q. reflexivity.
  - rewrite Q2R_nopp, IHa by assumption. reflexivity.
Qed.

Definition inter_ok (it : inter) : bool :=
  match i_div it with Some k => negb (Qeq_bool k 0) | None => true end.

Lemma pick_transfer o (a b c : Q) : Q2R (pick o a b c) = pick o (Q2R a) (Q2R b) (Q2R c).
Proof. unfold pick. destruct (o =? -1)%Z; [reflexivity|]. destruct (o =? 0)%Z; reflexivity. Qed.

Lemma row_transfer it (a b c : Q) : inter_ok it = true ->
  Q2R (row it a b c) = row it (Q2R a) (Q2R b) (Q2R c).
Proof.
  unfold row, inter_ok. intros Hok. destruct (i_div it) as [k|].
  - apply negb_true_iff in Hok. rewrite Q2R_ndiv by (apply of_Q_nz, Hok).
    rewrite Q2R_nsub, !pick_transfer, Q2R_of_Q. reflexivity.
  - rewrite Q2R_nsub, !pick_transfer. reflexivity.
Qed.

Lemma interior_transfer it : inter_ok it = true -> forall f : list Q,
  QR (interior it f) = interior it (QR f).
Proof.
  intros Hok f. remember (length f) as n eqn:Hn. revert f Hn.
  induction n as [n IH] using lt_wf_ind. intros [|a [|b [|c r]]] Hn; try reflexivity.
  change (interior it (a :: b :: c :: r)) with (row it a b c :: interior it (b :: c :: r)).
  cbn [map]. change (interior it (Q2R a :: Q2R b :: Q2R c :: QR r))
    with (row it (Q2R a) (Q2R b) (Q2R c) :: interior it (Q2R b :: Q2R c :: QR r)).
  rewrite row_transfer by assumption. f_equal.
  apply (IH (length (b :: c :: r))); [subst n; cbn; lia | reflexivity].
Qed.

Lemma upd_transfer (i : nat) (g : Q -> Q) (g' : R -> R) (l : list Q) :
  (forall a, Q2R (g a) = g' (Q2R a)) -> QR (upd i g l) = upd i g' (QR l).
Proof.
  intros Hg. revert i; induction l as [|a l IH]; intros [|i]; cbn [upd map]; try reflexivity.
  - rewrite Hg. reflexivity.
  - rewrite IH. reflexivity.
Qed.

Definition corr_ok (s : bool * idx * ex) : bool := let '(_, _, e) := s in divs_ok e.

Lemma apply_corr_transfer (c : Q) (f out : list Q) (s : bool * idx * ex) : corr_ok s = true ->
  QR (apply_corr c f out s) = apply_corr (Q2R c) (QR f) (QR out) s.
Proof.
  destruct s as [[plus i] e]. cbn [corr_ok]. intros He. unfold apply_corr.
  rewrite map_length. apply upd_transfer. intros a. destruct plus.
  - rewrite Q2R_nadd, eval_transfer by assumption. reflexivity.
  - rewrite Q2R_nsub, eval_transfer by assumption. reflexivity.
Qed.

Lemma fold_corr_transfer (c : Q) (f : list Q) (cs : list (bool * idx * ex)) :
  forallb corr_ok cs = true -> forall out,
  QR (fold_left (apply_corr c f) cs out) = fold_left (apply_corr (Q2R c) (QR f)) cs (QR out).
Proof.
  induction cs as [|s cs IH]; intros Hok out; cbn [fold_left]; [reflexivity|].
  cbn [forallb] in Hok. apply andb_prop in Hok as [Hs Hcs].
  rewrite IH by assumption. rewrite apply_corr_transfer by assumption. reflexivity.
Qed.

Definition bnd_ok (b : bnd) : bool := divs_ok (b_first b) && divs_ok (b_last b) && forallb corr_ok (b_corr b).
Definition tables_ok : bool :=
  forallb (fun m => inter_ok (interior_tab m) && forallb (fun p => bnd_ok (boundary_tab p m)) all_pmodes) all_meths.

(* finite check over the REGENERATED tables: 3 methods x 10 modes *)
Lemma tables_ok_true : tables_ok = true.
Proof. vm_compute. reflexivity. Qed.

Lemma tables_ok_at (m : meth) (p : pmode) : inter_ok (interior_tab m) = true /\ bnd_ok (boundary_tab p m) = true.
Proof.
  pose proof tables_ok_true as H. unfold tables_ok in H. rewrite forallb_forall in H.
  assert (Hm : In m all_meths) by (destruct m; cbn; tauto).
  specialize (H m Hm). apply andb_prop in H as [Hi Hb]. split; [assumption|].
  rewrite forallb_forall in Hb. apply Hb. destruct p; cbn; tauto.
Qed.

Lemma fd_raw_transfer (m : meth) (p : pmode) (c : Q) (f : list Q) :
  QR (fd_raw m p c f) = fd_raw m p (Q2R c) (QR f).
Proof.
  destruct (tables_ok_at m p) as [Hi Hb]. unfold bnd_ok in Hb.
  apply andb_prop in Hb as [Hb Hc]. apply andb_prop in Hb as [Hf Hl].
  unfold fd_raw. rewrite fold_corr_transfer by assumption.
  cbn [map]. rewrite map_app. cbn [map]. rewrite interior_transfer by assumption.
  rewrite !eval_transfer by assumption. reflexivity.
Qed.

(* the executed model is the restriction of the proved one *)
Theorem fd_transfer (m : meth) (p : pmode) (c dx : Q) (f : list Q) : ~ (dx == 0)%Q ->
  QR (fd m p c dx f) = fd m p (Q2R c) (Q2R dx) (QR f).
Proof.
  intros Hdx. unfold fd. rewrite <- fd_raw_transfer. rewrite !map_map.
  apply map_ext. intros a. apply Q2R_ndiv, Hdx.
Qed.
