(* C13/Syntax.v -- the syntax the translator of odl/discr/diff_ops.py:finite_diff
   emits into Gen/FiniteDiff.v (hand-written, fixed). *)
From Coq Require Import ZArith QArith List.
Import ListNotations.

Inductive meth := Central | Forward | Backward.
Inductive pmode := PConstant | PSymmetric | PSymmetricAdjoint | PPeriodic
  | POrder0 | POrder0Adjoint | POrder1 | POrder1Adjoint | POrder2 | POrder2Adjoint.

(* a constant subscript: [Lo k] is index k, [Hi k] is index -k (k >= 1) *)
Inductive idx := Lo (k : nat) | Hi (k : nat).

(* right-hand sides: arithmetic over entries of f, the pad constant and literals *)
Inductive ex :=
| EF (i : idx) | EPad | EK (c : Q)
| EAdd (a b : ex) | ESub (a b : ex) | EMul (a b : ex) | EDiv (a b : ex) | ENeg (a : ex).

(* one boundary block:  out[0] = e0 ; out[-1] = eN ; then corrections
   out[i] += e (true) / out[i] -= e (false), in source order *)
Record bnd := { b_first : ex; b_last : ex; b_corr : list (bool * idx * ex) }.

(* interior:  np.subtract(f[1+o1 ...], f[1+o2 ...], out=out[1:-1]) ; out[1:-1] /= d
   i.e.  out[i] = (f[i+o1] - f[i+o2]) / d  for 0 < i < n-1 *)
Record inter := { i_o1 : Z; i_o2 : Z; i_div : option Q }.

Definition all_meths := [Central; Forward; Backward].
Definition all_pmodes := [PConstant; PSymmetric; PSymmetricAdjoint; PPeriodic;
  POrder0; POrder0Adjoint; POrder1; POrder1Adjoint; POrder2; POrder2Adjoint].
