(* C13/ProofsAffine.v -- the constant-padding variant is affine in the array:
   its derivative (difference quotient, exact) is the zero-padding version. *)
From Coq Require Import ZArith QArith Reals Lra Lia List Bool.
From Verif Require Import Base.Num Base.Vec Base.VecR C13.Syntax Gen.FiniteDiff C13.Model C13.Proofs.
Import ListNotations.
Local Open Scope R_scope.

Lemma nth_vadd : forall (a b : Rvec) (i : nat), length a = length b ->
  nth i (vadd a b) 0 = nth i a 0 + nth i b 0.
Proof.
  induction a as [|x a IH]; intros [|y b] i Hl; cbn in Hl; try congruence.
  - destruct i; cbn; lra.
  - unfold vadd in *. cbn [vmap2]. destruct i as [|i]; cbn [nth]; [numR; reflexivity | apply IH; congruence].
Qed.

Lemma vadd_len (a b : Rvec) : length a = length b -> length (vadd a b) = length a.
Proof. intros; unfold vadd; apply vmap2_length; assumption. Qed.

Lemma ext_const_add (c : R) (f h : Rvec) (j : nat) : length f = length h ->
  ext PConstant c (vadd f h) j = ext PConstant c f j + ext PConstant 0 h j.
Proof.
  intros Hl. destruct j as [|k]; cbn [ext left_ext]; [lra|].
  rewrite vadd_len by assumption. rewrite <- Hl.
  destruct (k <? length f)%nat; [apply nth_vadd; assumption | cbn [right_ext]; lra].
Qed.

Lemma fd_const_affine (m : meth) (c dx : R) (f h : Rvec) :
  (2 <= length f)%nat -> length f = length h ->
  fd m PConstant c dx (vadd f h) = vadd (fd m PConstant c dx f) (fd m PConstant 0 dx h).
Proof.
  intros H2 Hl.
  assert (Hp : textbook_pair m PConstant = true) by (destruct m; reflexivity).
  assert (Hlen : length (vadd f h) = length f) by (apply vadd_len; assumption).
  apply (nth_ext _ _ 0 0).
  - rewrite vadd_len; rewrite !fd_length; try lia.
  - intros i Hi. rewrite fd_length in Hi by lia.
    rewrite nth_vadd by (rewrite !fd_length; lia).
    rewrite !fd_textbook_nth; try assumption; cbn [min_size]; try lia.
    unfold stencil. rewrite !ext_const_add by assumption.
    destruct m; numR; unfold Rdiv; ring.
Qed.
