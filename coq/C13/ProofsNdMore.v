(* C13/ProofsNdMore.v -- the remaining clauses of the property for arrays of every
   shape: Gradient / Divergence / Laplacian equal the textbook stencils along the
   axes, and the constant-padding variants of all four N-d operators are affine
   with the zero-padding operator as exact difference quotient. *)
From Coq Require Import ZArith QArith Reals Lra Lia List Bool.
From Verif Require Import Base.Num Base.Vec Base.VecR Lib.Axis Lib.AxisR Lib.AxisR2
  C13.Syntax Gen.FiniteDiff C13.Model C13.ModelNd C13.Proofs C13.ProofsNd C13.ProofsAffine C13.ProofsLap.
Import ListNotations.
Local Open Scope R_scope.

(* ------------------------------------------------------------------ *)
(* Gradient: component i is the partial derivative along axis i        *)
(* ------------------------------------------------------------------ *)
Lemma gradient_from_nth shape m p c (x : Rvec) : forall (dxs : Rvec) (ax k : nat),
  (k < length dxs)%nat ->
  nth k (gradient_from shape ax m p c dxs x) [] = pderiv shape (ax + k) m p c (nth k dxs 0) x.
Proof.
  induction dxs as [|dx dxs IH]; intros ax k Hk; cbn [length] in Hk; [lia|].
  cbn [gradient_from]. destruct k as [|k]; cbn [nth].
  - rewrite Nat.add_0_r. reflexivity.
  - rewrite IH by lia. f_equal. lia.
Qed.

Lemma gradient_from_length shape m p c (x : Rvec) : forall (dxs : Rvec) (ax : nat),
  length (gradient_from shape ax m p c dxs x) = length dxs.
Proof. induction dxs as [|dx dxs IH]; intros ax; cbn [gradient_from length]; [reflexivity | rewrite IH; reflexivity]. Qed.

Lemma gradient_textbook_nd shape m p c (dxs x : Rvec) (i : nat) :
  textbook_pair m p = true -> length dxs = length shape -> (i < length shape)%nat ->
  (min_size p <= nth i shape 0)%nat -> length x = prodn shape ->
  nth i (gradient shape m p c dxs x) [] = along_axis shape i (fd_ref m p c (nth i dxs 0)) x.
Proof.
  intros Hp Hd Hi Hn Hx. unfold gradient. rewrite gradient_from_nth by lia. cbn [Nat.add].
  unfold pderiv. apply along_axis_ext; try assumption.
  intros l Hl. apply fd_textbook_list; [assumption | rewrite Hl; assumption].
Qed.

(* ------------------------------------------------------------------ *)
(* Divergence: the sum over the axes of the partial derivatives        *)
(* ------------------------------------------------------------------ *)
Fixpoint pds_from (shape : list nat) (ax : nat) (m : meth) (p : pmode) (c : R)
         (dxs : Rvec) (xs : list Rvec) : list Rvec :=
  match dxs, xs with
  | dx :: dxs', x :: xs' => pderiv shape ax m p c dx x :: pds_from shape (S ax) m p c dxs' xs'
  | _, _ => []
  end.
Definition vsum (n : nat) (ds : list Rvec) : Rvec := fold_left vadd ds (repeat 0 n).

Lemma vadd_zero_l (d : Rvec) : vadd (repeat 0 (length d)) d = d.
Proof. induction d as [|a d IH]; cbn [length repeat]; unfold vadd in *; cbn [vmap2]; [reflexivity|]. rewrite IH. f_equal. numR. lra. Qed.

Lemma divergence_from_fold shape m p c : forall (dxs : Rvec) (xs : list Rvec) (ax : nat) (a : Rvec),
  divergence_from shape ax m p c dxs xs (Some a) = Some (fold_left vadd (pds_from shape ax m p c dxs xs) a).
Proof.
  induction dxs as [|dx dxs IH]; intros [|x xs] ax a; cbn [divergence_from pds_from fold_left]; try reflexivity.
  apply IH.
Qed.

Lemma divergence_is_sum_nd shape m p c (dxs : Rvec) (xs : list Rvec) :
  length dxs = length shape -> length xs = length shape -> (1 <= length shape)%nat ->
  (2 <= nth 0 shape 0)%nat -> Forall (fun x => length x = prodn shape) xs ->
  divergence shape m p c dxs xs = vsum (prodn shape) (pds_from shape 0 m p c dxs xs).
Proof.
  intros Hd Hx H1 H2 Hxs. unfold divergence, vsum.
  destruct dxs as [|dx dxs]; [cbn in Hd; lia|]. destruct xs as [|x xs]; [cbn in Hx; lia|].
  cbn [divergence_from pds_from fold_left]. rewrite divergence_from_fold.
  inversion Hxs as [|? ? Hx0 _]; subst.
  assert (Hl : length (pderiv shape 0 m p c dx x) = prodn shape)
    by (apply pderiv_length; [lia | assumption | assumption]).
  rewrite <- Hl. rewrite vadd_zero_l. reflexivity.
Qed.

(* ------------------------------------------------------------------ *)
(* Laplacian: sum over the axes of the textbook second difference      *)
(* ------------------------------------------------------------------ *)
(* (e[i-1] - 2 e[i] + e[i+1]) / d on the line extended by the named rule *)
Definition lap_ref (p : pmode) (c d : R) (l : Rvec) : Rvec :=
  map (fun i => (ext p c l i - 2 * ext p c l (S i) + ext p c l (S (S i))) / d) (seq 0 (length l)).

Lemma nth_vmap2_minus : forall (a b : Rvec) (i : nat), length a = length b ->
  nth i (vmap2 Rminus a b) 0 = nth i a 0 - nth i b 0.
Proof.
  induction a as [|x a IH]; intros [|y b] i Hl; cbn in Hl; try congruence.
  - destruct i; cbn; lra.
  - cbn [vmap2]. destruct i as [|i]; cbn [nth]; [reflexivity | apply IH; congruence].
Qed.

Lemma lap1_textbook (p : pmode) (c d : R) (l : Rvec) :
  textbook_pair Forward p = true -> textbook_pair Backward p = true -> (min_size p <= length l)%nat ->
  vmap2 Rminus (fd Forward p c d l) (fd Backward p c d l) = lap_ref p c d l.
Proof.
  intros HF HB Hn.
  assert (H2 : (2 <= length l)%nat) by (destruct p; cbn [min_size] in Hn; lia).
  apply (nth_ext _ _ 0 0).
  - rewrite vmap2_length by (rewrite !fd_length; lia). rewrite fd_length by lia.
    unfold lap_ref. rewrite map_length, seq_length. reflexivity.
  - intros i Hi. rewrite vmap2_length in Hi by (rewrite !fd_length; lia). rewrite fd_length in Hi by lia.
    rewrite nth_vmap2_minus by (rewrite !fd_length; lia).
    rewrite !fd_textbook_nth by assumption.
    unfold lap_ref. rewrite nth_map_seq by exact Hi. unfold stencil. numR. unfold Rdiv. ring.
Qed.

Fixpoint lap_terms (shape : list nat) (ax : nat) (p : pmode) (c : R) (dxs x : Rvec) : list Rvec :=
  match dxs with
  | [] => []
  | dx :: dxs' => along_axis shape ax (lap_ref p c (dx * dx)) x :: lap_terms shape (S ax) p c dxs' x
  end.

Lemma vsub_vadd_assoc : forall (a f b : Rvec), length a = length f -> length f = length b ->
  vsub (vadd a f) b = vadd a (vmap2 Rminus f b).
Proof.
  induction a as [|x a IH]; intros [|y f] [|z b] H1 H2; cbn in H1, H2; try congruence; try reflexivity.
  unfold vsub, vadd in *. cbn [vmap2]. rewrite IH by congruence. f_equal. numR. lra.
Qed.

Lemma laplacian_from_fold shape p c (x : Rvec) :
  textbook_pair Forward p = true -> textbook_pair Backward p = true -> length x = prodn shape ->
  forall (dxs : Rvec) (ax : nat) (acc : Rvec),
  (ax + length dxs <= length shape)%nat ->
  (forall i, (ax <= i < ax + length dxs)%nat -> (min_size p <= nth i shape 0)%nat /\ (2 <= nth i shape 0)%nat) ->
  length acc = prodn shape ->
  laplacian_from shape ax p c dxs x acc = fold_left vadd (lap_terms shape ax p c dxs x) acc.
Proof.
  intros HF HB Hx. induction dxs as [|dx dxs IH]; intros ax acc Hax Hs Hacc; cbn [length] in *;
    cbn [laplacian_from lap_terms fold_left]; [reflexivity|].
  destruct (Hs ax ltac:(lia)) as [Hmin H2].
  assert (HlF : length (pderiv shape ax Forward p c (dx * dx) x) = prodn shape)
    by (apply pderiv_length; [lia | assumption | assumption]).
  assert (HlB : length (pderiv shape ax Backward p c (dx * dx) x) = prodn shape)
    by (apply pderiv_length; [lia | assumption | assumption]).
  numR. rewrite vsub_vadd_assoc by congruence.
  assert (Hterm : vmap2 Rminus (pderiv shape ax Forward p c (dx * dx) x) (pderiv shape ax Backward p c (dx * dx) x)
                  = along_axis shape ax (lap_ref p c (dx * dx)) x).
  { unfold pderiv.
    rewrite <- (along_axis_vmap2 Rminus shape ax) by
      (try assumption; try lia; intros l Hl; apply fd_len_line; assumption).
    apply along_axis_ext; try assumption; try lia.
    intros l Hl. apply lap1_textbook; try assumption. rewrite Hl. exact Hmin. }
  rewrite Hterm. apply IH; try lia.
  - intros i Hi; apply Hs; lia.
  - rewrite vadd_length; [assumption|]. rewrite <- Hterm. rewrite vmap2_length by congruence. congruence.
Qed.

Lemma laplacian_textbook_nd shape p c (dxs x : Rvec) :
  textbook_pair Forward p = true -> textbook_pair Backward p = true ->
  length dxs = length shape ->
  (forall i, (i < length shape)%nat -> (min_size p <= nth i shape 0)%nat /\ (2 <= nth i shape 0)%nat) ->
  length x = prodn shape ->
  laplacian shape p c dxs x = vsum (prodn shape) (lap_terms shape 0 p c dxs x).
Proof.
  intros HF HB Hd Hs Hx. unfold laplacian, vsum. rewrite Hx.
  apply laplacian_from_fold; try assumption; try lia.
  - intros i Hi; apply Hs; lia.
  - apply repeat_length.
Qed.

(* ------------------------------------------------------------------ *)
(* Constant padding: all four N-d operators are affine; the exact       *)
(* difference quotient is the zero-padding operator                     *)
(* ------------------------------------------------------------------ *)
Lemma pderiv_const_affine_nd shape ax m c dx (x h : Rvec) :
  (ax < length shape)%nat -> (2 <= nth ax shape 0)%nat ->
  length x = prodn shape -> length h = prodn shape ->
  pderiv shape ax m PConstant c dx (vadd x h) =
  vadd (pderiv shape ax m PConstant c dx x) (pderiv shape ax m PConstant 0 dx h).
Proof.
  intros Hax H2 Hx Hh. unfold pderiv, vadd.
  apply (along_axis_zip2 nadd shape ax); try assumption.
  - intros l k Hl Hk. apply fd_const_affine; [rewrite Hl; assumption | congruence].
  - intros l Hl. apply fd_len_line; assumption.
  - intros l Hl. apply fd_len_line; assumption.
Qed.

Lemma gradient_const_affine_nd shape m c (x h : Rvec) : forall (dxs : Rvec) (ax : nat),
  (ax + length dxs <= length shape)%nat ->
  (forall i, (ax <= i < ax + length dxs)%nat -> (2 <= nth i shape 0)%nat) ->
  length x = prodn shape -> length h = prodn shape ->
  gradient_from shape ax m PConstant c dxs (vadd x h) =
  zipw vadd (gradient_from shape ax m PConstant c dxs x) (gradient_from shape ax m PConstant 0 dxs h).
Proof.
  induction dxs as [|dx dxs IH]; intros ax Hax H2 Hx Hh; cbn [length] in *; cbn [gradient_from zipw]; [reflexivity|].
  rewrite pderiv_const_affine_nd; try assumption; try lia; [ | apply H2; lia ].
  rewrite IH; try assumption; try lia; [reflexivity | intros i Hi; apply H2; lia].
Qed.

Lemma gradient_const_affine_all shape m c (dxs x h : Rvec) :
  length dxs = length shape -> (forall i, (i < length shape)%nat -> (2 <= nth i shape 0)%nat) ->
  length x = prodn shape -> length h = prodn shape ->
  gradient shape m PConstant c dxs (vadd x h) =
  zipw vadd (gradient shape m PConstant c dxs x) (gradient shape m PConstant 0 dxs h).
Proof.
  intros Hd H2 Hx Hh. unfold gradient.
  apply gradient_const_affine_nd; try assumption; try lia. intros i Hi; apply H2; lia.
Qed.

Lemma vadd_interchange : forall (a b d e : Rvec), length a = length b -> length b = length d -> length d = length e ->
  vadd (vadd a b) (vadd d e) = vadd (vadd a d) (vadd b e).
Proof.
  induction a as [|x a IH]; intros [|y b] [|z d] [|w e] H1 H2 H3; cbn in H1, H2, H3; try congruence; try reflexivity.
  unfold vadd in *. cbn [vmap2]. rewrite IH by congruence. f_equal. numR. lra.
Qed.

Lemma fold_vadd_length : forall (ds : list Rvec) (a : Rvec) n, length a = n ->
  Forall (fun d => length d = n) ds -> length (fold_left vadd ds a) = n.
Proof.
  induction ds as [|d ds IH]; intros a n Ha Hds; cbn [fold_left]; [assumption|].
  inversion Hds as [|? ? Hd Hds']; subst. apply IH; [rewrite vadd_length; congruence | assumption].
Qed.

Lemma pds_from_lengths shape m p c : forall (dxs : Rvec) (xs : list Rvec) (ax : nat),
  (ax + length dxs <= length shape)%nat -> length xs = length dxs ->
  (forall i, (ax <= i < ax + length dxs)%nat -> (2 <= nth i shape 0)%nat) ->
  Forall (fun x => length x = prodn shape) xs ->
  Forall (fun d => length d = prodn shape) (pds_from shape ax m p c dxs xs).
Proof.
  induction dxs as [|dx dxs IH]; intros [|x xs] ax Hax Hl H2 Hxs; cbn [length] in *; try congruence;
    cbn [pds_from]; constructor.
  - inversion Hxs; subst. apply pderiv_length; [lia | apply H2; lia | assumption].
  - inversion Hxs; subst. apply IH; try assumption; try lia. intros i Hi; apply H2; lia.
Qed.

Lemma pds_const_affine shape m c : forall (dxs : Rvec) (xs hs : list Rvec) (ax : nat) (a b : Rvec),
  (ax + length dxs <= length shape)%nat -> length xs = length dxs -> length hs = length dxs ->
  (forall i, (ax <= i < ax + length dxs)%nat -> (2 <= nth i shape 0)%nat) ->
  Forall (fun x => length x = prodn shape) xs -> Forall (fun x => length x = prodn shape) hs ->
  length a = prodn shape -> length b = prodn shape ->
  fold_left vadd (pds_from shape ax m PConstant c dxs (zipw vadd xs hs)) (vadd a b) =
  vadd (fold_left vadd (pds_from shape ax m PConstant c dxs xs) a)
       (fold_left vadd (pds_from shape ax m PConstant 0 dxs hs) b).
Proof.
  induction dxs as [|dx dxs IH]; intros [|x xs] [|h hs] ax a b Hax Hlx Hlh H2 Hxs Hhs Ha Hb;
    cbn [length] in *; try congruence; cbn [zipw pds_from fold_left]; [reflexivity|].
  inversion Hxs as [|? ? Hx0 Hxs']; subst. inversion Hhs as [|? ? Hh0 Hhs']; subst.
  assert (HA2 : (2 <= nth ax shape 0)%nat) by (apply H2; lia).
  rewrite pderiv_const_affine_nd; try assumption; try lia.
  assert (L1 : length (pderiv shape ax m PConstant c dx x) = prodn shape)
    by (apply pderiv_length; [lia | assumption | assumption]).
  assert (L2 : length (pderiv shape ax m PConstant 0 dx h) = prodn shape)
    by (apply pderiv_length; [lia | assumption | assumption]).
  rewrite vadd_interchange by congruence.
  apply IH; try assumption; try lia; try congruence.
  - intros i Hi; apply H2; lia.
  - rewrite vadd_length; congruence.
  - rewrite vadd_length; congruence.
Qed.

Lemma divergence_const_affine_nd shape m c (dxs : Rvec) (xs hs : list Rvec) :
  length dxs = length shape -> length xs = length shape -> length hs = length shape ->
  (forall i, (i < length shape)%nat -> (2 <= nth i shape 0)%nat) ->
  Forall (fun x => length x = prodn shape) xs -> Forall (fun x => length x = prodn shape) hs ->
  divergence shape m PConstant c dxs (zipw vadd xs hs) =
  vadd (divergence shape m PConstant c dxs xs) (divergence shape m PConstant 0 dxs hs).
Proof.
  intros Hd Hx Hh H2 Hxs Hhs. unfold divergence.
  destruct dxs as [|dx dxs].
  - destruct shape; cbn in Hd; [|lia]. destruct xs; cbn in Hx; [|lia]. destruct hs; cbn in Hh; [|lia]. reflexivity.
  - destruct xs as [|x xs]; [cbn in Hx, Hd; lia|]. destruct hs as [|h hs]; [cbn in Hh, Hd; lia|].
    cbn [zipw divergence_from]. rewrite !divergence_from_fold.
    inversion Hxs as [|? ? Hx0 Hxs']; subst. inversion Hhs as [|? ? Hh0 Hhs']; subst.
    cbn [length] in *.
    assert (HA2 : (2 <= nth 0 shape 0)%nat) by (apply H2; lia).
    rewrite pderiv_const_affine_nd; try assumption; try lia.
    apply pds_const_affine; try assumption; try lia.
    + intros i Hi; apply H2; lia.
    + apply pderiv_length; [lia | assumption | assumption].
    + apply pderiv_length; [lia | assumption | assumption].
Qed.

Lemma vsub_interchange : forall (a b d e : Rvec), length a = length b -> length b = length d -> length d = length e ->
  vsub (vadd a b) (vadd d e) = vadd (vsub a d) (vsub b e).
Proof.
  induction a as [|x a IH]; intros [|y b] [|z d] [|w e] H1 H2 H3; cbn in H1, H2, H3; try congruence; try reflexivity.
  unfold vadd, vsub in *. cbn [vmap2]. rewrite IH by congruence. f_equal. numR. lra.
Qed.

Lemma laplacian_from_const_affine shape c (x h : Rvec) : forall (dxs : Rvec) (ax : nat) (a b : Rvec),
  (ax + length dxs <= length shape)%nat ->
  (forall i, (ax <= i < ax + length dxs)%nat -> (2 <= nth i shape 0)%nat) ->
  length x = prodn shape -> length h = prodn shape -> length a = prodn shape -> length b = prodn shape ->
  laplacian_from shape ax PConstant c dxs (vadd x h) (vadd a b) =
  vadd (laplacian_from shape ax PConstant c dxs x a) (laplacian_from shape ax PConstant 0 dxs h b).
Proof.
  induction dxs as [|dx dxs IH]; intros ax a b Hax H2 Hx Hh Ha Hb; cbn [length] in *;
    cbn [laplacian_from]; [reflexivity|].
  assert (HA2 : (2 <= nth ax shape 0)%nat) by (apply H2; lia).
  numR.
  rewrite !pderiv_const_affine_nd; try assumption; try lia.
  assert (LF1 : length (pderiv shape ax Forward PConstant c (dx * dx) x) = prodn shape)
    by (apply pderiv_length; [lia | assumption | assumption]).
  assert (LF2 : length (pderiv shape ax Forward PConstant 0 (dx * dx) h) = prodn shape)
    by (apply pderiv_length; [lia | assumption | assumption]).
  assert (LB1 : length (pderiv shape ax Backward PConstant c (dx * dx) x) = prodn shape)
    by (apply pderiv_length; [lia | assumption | assumption]).
  assert (LB2 : length (pderiv shape ax Backward PConstant 0 (dx * dx) h) = prodn shape)
    by (apply pderiv_length; [lia | assumption | assumption]).
  rewrite vadd_interchange by congruence.
  rewrite vsub_interchange by (rewrite ?vadd_length; congruence).
  apply IH; try assumption; try lia.
  - intros i Hi; apply H2; lia.
  - rewrite vsub_length; rewrite vadd_length; congruence.
  - rewrite vsub_length; rewrite vadd_length; congruence.
Qed.

Lemma repeat0_vadd n : repeat 0 n = vadd (repeat 0 n) (repeat 0 n).
Proof. induction n as [|n IH]; cbn [repeat]; unfold vadd in *; cbn [vmap2]; [reflexivity|]. rewrite <- IH. f_equal. numR. lra. Qed.

Lemma laplacian_const_affine_nd shape c (dxs x h : Rvec) :
  length dxs = length shape -> (forall i, (i < length shape)%nat -> (2 <= nth i shape 0)%nat) ->
  length x = prodn shape -> length h = prodn shape ->
  laplacian shape PConstant c dxs (vadd x h) =
  vadd (laplacian shape PConstant c dxs x) (laplacian shape PConstant 0 dxs h).
Proof.
  intros Hd H2 Hx Hh. unfold laplacian.
  rewrite vadd_length by congruence. rewrite Hx, Hh.
  rewrite (repeat0_vadd (prodn shape)) at 1.
  apply laplacian_from_const_affine; try assumption; try lia; try apply repeat_length.
  intros i Hi; apply H2; lia.
Qed.
