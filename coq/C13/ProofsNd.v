(* C13/ProofsNd.v -- lift of the 1-d adjoint theorem to N-d arrays of every
   shape: PartialDerivative, Gradient and Divergence (ModelNd.v) against the
   operators the code returns as their adjoints. *)
From Coq Require Import ZArith QArith Reals Lra Lia List Bool.
From Verif Require Import Base.Num Base.Vec Base.VecR Lib.Axis Lib.AxisR
  C13.Syntax Gen.FiniteDiff C13.Model C13.ModelNd C13.Proofs.
Import ListNotations.
Local Open Scope R_scope.

(* what the 1-d theorem needs on axis [ax] *)
Definition axis_ok (shape : list nat) (m : meth) (p : pmode) (ax : nat) : Prop :=
  (2 <= nth ax shape 0)%nat /\
  bnd_in_range (nth ax shape 0%nat) (boundary_tab p m) = true /\
  bnd_in_range (nth ax shape 0%nat) (boundary_tab (adj_padding p) (adj_method m)) = true.

Lemma pderiv_length shape ax m p c dx (x : Rvec) :
  (ax < length shape)%nat -> (2 <= nth ax shape 0)%nat -> length x = prodn shape ->
  length (pderiv shape ax m p c dx x) = prodn shape.
Proof.
  intros Hax H2 Hx. unfold pderiv. apply along_axis_length; try assumption.
  intros l Hl. rewrite fd_length by lia. exact Hl.
Qed.

Lemma pderiv_adjoint_nd shape ax m p dx (x y : Rvec) :
  (ax < length shape)%nat -> axis_ok shape m p ax -> dx <> 0 ->
  length x = prodn shape -> length y = prodn shape ->
  dot (pderiv shape ax m p 0 dx x) y =
  - dot x (pderiv shape ax (adj_method m) (adj_padding p) 0 dx y).
Proof.
  intros Hax (H2 & Hr & Hr') Hdx Hx Hy. unfold pderiv.
  rewrite (along_axis_adjoint (-1) shape ax (fd m p 0 dx)
             (fd (adj_method m) (adj_padding p) 0 dx)); try assumption; try lra.
  - intros l Hl. rewrite fd_length by lia. exact Hl.
  - intros l Hl. rewrite fd_length by lia. exact Hl.
  - intros l g Hl Hg. rewrite fd_adjoint_all; try (rewrite Hl; assumption); try congruence; try lra.
Qed.

(* ---- dot against vopp / vadd on the right ---- *)
Lemma dot_vopp_r (x z : Rvec) : dot x (vopp z) = - dot x z.
Proof.
  revert z; induction x as [|a x IH]; intros [|b z]; unfold vopp in *; cbn [map];
    rewrite ?dot_nil_l, ?dot_cons; try (cbn; numR; lra).
  rewrite IH. numR. lra.
Qed.
Lemma dot_vopp_l (x z : Rvec) : dot (vopp x) z = - dot x z.
Proof. rewrite dot_comm, dot_vopp_r, dot_comm. reflexivity. Qed.
Lemma dot_vadd_r (x a d : Rvec) : length a = length d -> length a = length x ->
  dot x (vadd a d) = dot x a + dot x d.
Proof. intros H1 H2. rewrite dot_comm, dot_vadd_l by assumption. rewrite (dot_comm a), (dot_comm d). reflexivity. Qed.
Lemma vadd_length (a d : Rvec) : length a = length d -> length (vadd a d) = length a.
Proof. intros; unfold vadd; apply vmap2_length; assumption. Qed.

(* ---- Gradient ---- *)
(* sum over axes ax, ax+1, ... of <x, d_i y_i> *)
Fixpoint sum_pd (shape : list nat) (ax : nat) (m : meth) (p : pmode) (dxs : Rvec)
         (ys : list Rvec) (x : Rvec) : R :=
  match dxs, ys with
  | dx :: dxs', y :: ys' => dot x (pderiv shape ax m p 0 dx y) + sum_pd shape (S ax) m p dxs' ys' x
  | _, _ => 0
  end.

Lemma gradient_from_dot shape m p : forall (dxs : Rvec) (ys : list Rvec) (ax : nat) (x : Rvec),
  (ax + length dxs <= length shape)%nat -> length ys = length dxs ->
  (forall i, (ax <= i < ax + length dxs)%nat -> axis_ok shape m p i) ->
  Forall (fun dx => dx <> 0) dxs ->
  length x = prodn shape -> Forall (fun y => length y = prodn shape) ys ->
  mdot (gradient_from shape ax m p 0 dxs x) ys =
  - sum_pd shape ax (adj_method m) (adj_padding p) dxs ys x.
Proof.
  induction dxs as [|dx dxs IH]; intros [|y ys] ax x Hax Hl Hok Hdx Hx Hys;
    cbn [length] in *; try congruence; cbn [gradient_from mdot sum_pd]; try lra.
  inversion Hdx as [|? ? Hdx0 Hdxs]; subst. inversion Hys as [|? ? Hy0 Hys']; subst.
  rewrite pderiv_adjoint_nd; try assumption; try lia; [ | apply Hok; lia ].
  rewrite (IH ys (S ax) x); try assumption; try lia.
  - lra.
  - intros i Hi; apply Hok; lia.
Qed.

Lemma divergence_from_dot shape m p : forall (dxs : Rvec) (ys : list Rvec) (ax : nat) (acc : option Rvec) (x : Rvec),
  (ax + length dxs <= length shape)%nat -> length ys = length dxs ->
  (forall i, (ax <= i < ax + length dxs)%nat -> (2 <= nth i shape 0)%nat) ->
  length x = prodn shape -> Forall (fun y => length y = prodn shape) ys ->
  match acc with Some a => length a = prodn shape | None => True end ->
  dot x (match divergence_from shape ax m p 0 dxs ys acc with Some r => r | None => [] end) =
  match acc with Some a => dot x a | None => 0 end + sum_pd shape ax m p dxs ys x.
Proof.
  induction dxs as [|dx dxs IH]; intros [|y ys] ax acc x Hax Hl H2 Hx Hys Hacc;
    cbn [length] in *; try congruence.
  - cbn [divergence_from sum_pd]. destruct acc; [lra | rewrite dot_comm, dot_nil_l; lra].
  - inversion Hys as [|? ? Hy0 Hys']; subst.
    cbn [divergence_from sum_pd].
    assert (Hpl : length (pderiv shape ax m p 0 dx y) = prodn shape)
      by (apply pderiv_length; [lia | apply H2; lia | assumption]).
    rewrite (IH ys (S ax)); try assumption; try lia.
    + destruct acc as [a|].
      * rewrite dot_vadd_r by congruence. lra.
      * lra.
    + intros i Hi; apply H2; lia.
    + destruct acc as [a|]; [rewrite vadd_length; congruence | assumption].
Qed.

Lemma gradient_adjoint_nd shape m p (dxs : Rvec) (x : Rvec) (ys : list Rvec) :
  length dxs = length shape -> length ys = length shape ->
  (forall i, (i < length shape)%nat -> axis_ok shape m p i) ->
  Forall (fun dx => dx <> 0) dxs ->
  length x = prodn shape -> Forall (fun y => length y = prodn shape) ys ->
  mdot (gradient shape m p 0 dxs x) ys = dot x (gradient_adjoint shape m p dxs ys).
Proof.
  intros Hd Hy Hok Hdx Hx Hys. unfold gradient, gradient_adjoint, divergence.
  rewrite gradient_from_dot; try assumption; try lia; try (intros i Hi; apply Hok; lia).
  rewrite dot_vopp_r. numR.
  rewrite (divergence_from_dot shape (adj_method m) (adj_padding p) dxs ys 0 None x);
    try assumption; try lia; try exact I.
  - lra.
  - intros i Hi. destruct (Hok i ltac:(lia)) as (H2 & _). exact H2.
Qed.

(* ---- Divergence ---- *)
Lemma sum_pd_gradient shape m p : forall (dxs : Rvec) (xs : list Rvec) (ax : nat) (y : Rvec),
  (ax + length dxs <= length shape)%nat -> length xs = length dxs ->
  (forall i, (ax <= i < ax + length dxs)%nat -> axis_ok shape m p i) ->
  Forall (fun dx => dx <> 0) dxs ->
  length y = prodn shape -> Forall (fun x => length x = prodn shape) xs ->
  sum_pd shape ax m p dxs xs y =
  mdot xs (map vopp (gradient_from shape ax (adj_method m) (adj_padding p) 0 dxs y)).
Proof.
  induction dxs as [|dx dxs IH]; intros [|x xs] ax y Hax Hl Hok Hdx Hy Hxs;
    cbn [length] in *; try congruence; cbn [gradient_from map mdot sum_pd]; try lra.
  inversion Hdx as [|? ? Hdx0 Hdxs]; subst. inversion Hxs as [|? ? Hx0 Hxs']; subst.
  rewrite (dot_comm y), pderiv_adjoint_nd; try assumption; try lia; [ | apply Hok; lia ].
  rewrite dot_vopp_r. rewrite (IH xs (S ax) y); try assumption; try lia.
  - lra.
  - intros i Hi; apply Hok; lia.
Qed.

Lemma divergence_adjoint_nd shape m p (dxs : Rvec) (xs : list Rvec) (y : Rvec) :
  length dxs = length shape -> length xs = length shape ->
  (forall i, (i < length shape)%nat -> axis_ok shape m p i) ->
  Forall (fun dx => dx <> 0) dxs ->
  length y = prodn shape -> Forall (fun x => length x = prodn shape) xs ->
  dot (divergence shape m p 0 dxs xs) y = mdot xs (divergence_adjoint shape m p dxs y).
Proof.
  intros Hd Hx Hok Hdx Hy Hxs. unfold divergence, divergence_adjoint, gradient. numR.
  rewrite dot_comm.
  rewrite (divergence_from_dot shape m p dxs xs 0 None y); try assumption; try lia; try exact I.
  - rewrite sum_pd_gradient; try assumption; try lia; [lra | intros i Hi; apply Hok; lia].
  - intros i Hi. destruct (Hok i ltac:(lia)) as (H2 & _). exact H2.
Qed.
