(* C13/Props.v -- property theorems only; each is closed by [exact] of a lemma
   from C13/Proofs.v and followed by Print Assumptions. The model [fd] is the
   interpreter (C13/Model.v) of the tables REGENERATED from
   odl/discr/diff_ops.py:finite_diff into Gen/FiniteDiff.v. *)
From Coq Require Import QArith Qreals Reals Lia List Bool.
From Verif Require Import Base.Num Base.Vec Base.VecR Lib.Axis Lib.AxisR C13.Syntax Gen.FiniteDiff C13.Model C13.ModelNd C13.Proofs C13.ProofsNd C13.ProofsLap C13.ProofsAffine C13.ProofsLinear Base.Transfer C13.Transfer Lib.AxisR2 C13.ProofsNdMore Lib.AxisMap C13.TransferNd.
Import ListNotations.
Local Open Scope R_scope.

(* T1: every (method, base padding) pair except order2 x {forward, backward}:
   the computed array IS the textbook stencil on the array extended by the
   named rule, divided by dx -- all lengths >= the minimal admissible one,
   all entries, all pad constants. *)
Theorem fd_textbook : forall (m : meth) (p : pmode) (c dx : R) (f : list R),
  textbook_pair m p = true -> (min_size p <= length f)%nat ->
  fd m p c dx f = fd_ref m p c dx f.
Proof. exact fd_textbook_list. Qed.
Print Assumptions fd_textbook.

(* T1 (partial, for the two remaining pairs): what 'order2' computes with any
   method -- central stencil on the quadratic extension at the two edge rows,
   the method's stencil elsewhere. *)
Theorem fd_order2_partial : forall (m : meth) (c dx : R) (f : list R) (i : nat),
  (3 <= length f)%nat -> (i < length f)%nat ->
  nth i (fd m POrder2 c dx f) 0 =
  (if (i =? 0)%nat || (i =? length f - 1)%nat
   then stencil Central (ext POrder2 c f) i else stencil m (ext POrder2 c f) i) / dx.
Proof. exact fd_order2_edges_nth. Qed.
Print Assumptions fd_order2_partial.

(* The full statement is FALSE of the faithful model for those two pairs
   (recorded finding C13/order2-onesided). *)
Theorem fd_textbook_order2_forward_refuted :
  exists f : list R, fd Forward POrder2 0 1 f <> fd_ref Forward POrder2 0 1 f.
Proof. exact fd_order2_forward_refuted. Qed.
Theorem fd_textbook_order2_backward_refuted :
  exists f : list R, fd Backward POrder2 0 1 f <> fd_ref Backward POrder2 0 1 f.
Proof. exact fd_order2_backward_refuted. Qed.

(* T1: for all 30 (method, padding) pairs and every length on which both
   operators are defined (short axes included), the operator named by the
   _ADJ_METHOD/_ADJ_PADDING tables is exactly minus the transpose:
   <D f, g> = - <f, D' g>  for all f, g. *)
Theorem fd_adjoint : forall (m : meth) (p : pmode) (dx : R) (f g : list R),
  dx <> 0 -> length f = length g -> (2 <= length f)%nat ->
  bnd_in_range (length f) (boundary_tab p m) = true ->
  bnd_in_range (length f) (boundary_tab (adj_padding p) (adj_method m)) = true ->
  dot (fd m p 0 dx f) g = - dot f (fd (adj_method m) (adj_padding p) 0 dx g).
Proof. exact fd_adjoint_all. Qed.
Print Assumptions fd_adjoint.

(* non-vacuity: the range side conditions hold from length 3 on for every pair
   (and from length 2 for all pairs not involving order2 / order2_adjoint) *)
Example side_conditions_hold_from_3 :
  forallb (fun n => forallb (fun m => forallb (fun p =>
     bnd_in_range n (boundary_tab p m) && bnd_in_range n (boundary_tab (adj_padding p) (adj_method m)))
     all_pmodes) all_meths) [3; 4; 5; 6; 7; 20]%nat = true.
Proof. vm_compute. reflexivity. Qed.
Example adj_tables_involutive :
  forallb (fun m => match adj_method (adj_method m), m with
     Central, Central | Forward, Forward | Backward, Backward => true | _, _ => false end) all_meths = true
  /\ forallb (fun p => is_base p || is_base (adj_padding p)) all_pmodes = true.
Proof. split; vm_compute; reflexivity. Qed.

(* ---- N-d lift: arrays of EVERY shape (flat C order), every axis ----
   [axis_ok shape m p ax]: the axis has at least 2 points and the boundary
   tables of the pair and of its adjoint pair only read existing entries
   (true from 3 points on for every pair, see side_conditions_hold_from_3).
   [mdot] is the inner product of the product space (sum over components),
   [prodn shape] the number of entries. *)

(* T1: PartialDerivative along any axis of an array of any shape: the operator
   the code returns as adjoint (minus the adjoint-table pair along the same
   axis) satisfies <D x, y> = <x, D* y>. *)
Theorem pderiv_adjoint_all_shapes :
  forall (shape : list nat) (ax : nat) (m : meth) (p : pmode) (dx : R) (x y : list R),
  (ax < length shape)%nat -> axis_ok shape m p ax -> dx <> 0 ->
  length x = prodn shape -> length y = prodn shape ->
  dot (pderiv shape ax m p 0 dx x) y = dot x (pderiv_adjoint shape ax m p dx y).
Proof.
  intros shape ax m p dx x y Hax Hok Hdx Hx Hy. unfold pderiv_adjoint.
  rewrite dot_vopp_r. exact (pderiv_adjoint_nd shape ax m p dx x y Hax Hok Hdx Hx Hy).
Qed.
Print Assumptions pderiv_adjoint_all_shapes.

(* T1: Gradient* = -Divergence (with the adjoint-table pair), all shapes. *)
Theorem gradient_adjoint_all_shapes :
  forall (shape : list nat) (m : meth) (p : pmode) (dxs x : list R) (ys : list (list R)),
  length dxs = length shape -> length ys = length shape ->
  (forall i, (i < length shape)%nat -> axis_ok shape m p i) ->
  Forall (fun dx => dx <> 0) dxs ->
  length x = prodn shape -> Forall (fun y => length y = prodn shape) ys ->
  mdot (gradient shape m p 0 dxs x) ys = dot x (gradient_adjoint shape m p dxs ys).
Proof. exact gradient_adjoint_nd. Qed.
Print Assumptions gradient_adjoint_all_shapes.

(* T1: Divergence* = -Gradient (with the adjoint-table pair), all shapes. *)
Theorem divergence_adjoint_all_shapes :
  forall (shape : list nat) (m : meth) (p : pmode) (dxs : list R) (xs : list (list R)) (y : list R),
  length dxs = length shape -> length xs = length shape ->
  (forall i, (i < length shape)%nat -> axis_ok shape m p i) ->
  Forall (fun dx => dx <> 0) dxs ->
  length y = prodn shape -> Forall (fun x => length x = prodn shape) xs ->
  dot (divergence shape m p 0 dxs xs) y = mdot xs (divergence_adjoint shape m p dxs y).
Proof. exact divergence_adjoint_nd. Qed.
Print Assumptions divergence_adjoint_all_shapes.

Example axis_ok_example : forall i, (i < 3)%nat -> axis_ok [3; 2; 5]%nat Forward PSymmetric i.
Proof.
  intros i Hi. destruct i as [|[|[|i]]]; try lia; repeat split; cbn [nth]; try lia; vm_compute; reflexivity.
Qed.

(* T1: Laplacian (sum over axes of forward minus backward differences with
   step dx^2).  Laplacian.adjoint returns a Laplacian with the SAME pad_mode;
   for each of the six modes the class accepts, every shape with >= 2 points
   per axis and all cell sides this is the exact transpose. *)
Theorem laplacian_selfadjoint_all_shapes :
  forall (shape : list nat) (p : pmode) (dxs x y : list R),
  lap_mode p = true -> length dxs = length shape ->
  (forall i, (i < length shape)%nat -> (2 <= nth i shape 0)%nat) ->
  Forall (fun dx => dx <> 0) dxs ->
  length x = prodn shape -> length y = prodn shape ->
  dot (laplacian shape p 0 dxs x) y = dot x (laplacian_adjoint shape p dxs y).
Proof. exact laplacian_selfadjoint_nd. Qed.
Print Assumptions laplacian_selfadjoint_all_shapes.

(* T1: the textbook statement for arrays of every shape: the partial derivative
   along any axis applies the textbook stencil (on the line extended by the
   named rule, divided by dx) to every line along that axis. *)
Theorem pderiv_textbook_all_shapes :
  forall (shape : list nat) (ax : nat) (m : meth) (p : pmode) (c dx : R) (x : list R),
  textbook_pair m p = true -> (ax < length shape)%nat -> (min_size p <= nth ax shape 0)%nat ->
  length x = prodn shape ->
  pderiv shape ax m p c dx x = along_axis shape ax (fd_ref m p c dx) x.
Proof.
  intros shape ax m p c dx x Hp Hax Hn Hx. unfold pderiv.
  apply along_axis_ext; try assumption.
  intros l Hl. apply fd_textbook_list; [assumption | rewrite Hl; assumption].
Qed.
Print Assumptions pderiv_textbook_all_shapes.

(* T1: the constant-padding variant is affine in the array and its exact
   difference quotient -- the derivative the code returns -- is the same scheme
   with pad_const = 0, for every method, length and pad constant. *)
Theorem fd_constant_padding_derivative :
  forall (m : meth) (c dx : R) (f h : list R),
  (2 <= length f)%nat -> length f = length h ->
  fd m PConstant c dx (vadd f h) = vadd (fd m PConstant c dx f) (fd m PConstant 0 dx h).
Proof. exact fd_const_affine. Qed.
Print Assumptions fd_constant_padding_derivative.

(* Tie between the two instances: the model EXECUTED at Q by the correspondence
   shards is the rational restriction of the model the theorems above are about
   (Q2R commutes with fd, for the regenerated tables, whenever dx <> 0). *)
Theorem fd_executed_is_restriction :
  forall (m : meth) (p : pmode) (c dx : Q) (f : list Q), ~ (dx == 0)%Q ->
  map Q2R (fd m p c dx f) = fd m p (Q2R c) (Q2R dx) (map Q2R f).
Proof. exact fd_transfer. Qed.
Print Assumptions fd_executed_is_restriction.

(* T1: finite_diff is linear in (pad_const, array) jointly -- every method,
   every one of the 10 padding modes, every length: the regenerated tables
   contain only linear forms in the entries and the pad constant
   ([tables_linear_true], a finite check over the regenerated file), hence
     fd (a*c1 + c2) (a*f + h) = a * fd c1 f + fd c2 h.
   With pad_const = 0 every mode is a linear operator (what is_linear reports;
   with a nonzero constant the operator is affine), and applied to complex data
   -- real coefficients acting on real and imaginary parts -- the result is the
   finite difference of each part. *)
Theorem fd_is_linear_in_constant_and_array :
  forall (m : meth) (p : pmode) (a c1 c2 dx : R) (f h : list R), length f = length h ->
  fd m p (a * c1 + c2) dx (lin a f h) = lin a (fd m p c1 dx f) (fd m p c2 dx h).
Proof. exact fd_linear. Qed.
Print Assumptions fd_is_linear_in_constant_and_array.

(* ------------------------------------------------------------------ *)
(* The remaining N-d clauses: Gradient, Divergence and Laplacian equal  *)
(* the textbook stencils along the axes, for arrays of EVERY shape.     *)
(* ------------------------------------------------------------------ *)

(* T1: component i of Gradient is the textbook stencil applied to every line
   along axis i, divided by the cell side of that axis. *)
Theorem gradient_textbook_all_shapes :
  forall (shape : list nat) (m : meth) (p : pmode) (c : R) (dxs x : list R) (i : nat),
  textbook_pair m p = true -> length dxs = length shape -> (i < length shape)%nat ->
  (min_size p <= nth i shape 0)%nat -> length x = prodn shape ->
  nth i (gradient shape m p c dxs x) [] = along_axis shape i (fd_ref m p c (nth i dxs 0)) x.
Proof. exact gradient_textbook_nd. Qed.
Print Assumptions gradient_textbook_all_shapes.

(* T1: Divergence is the entry-wise sum over the axes of the partial derivative
   of the axis-th component (each of which is the textbook stencil by
   pderiv_textbook_all_shapes); [vsum n ds] adds the arrays ds to the zero array. *)
Theorem divergence_is_sum_all_shapes :
  forall (shape : list nat) (m : meth) (p : pmode) (c : R) (dxs : list R) (xs : list (list R)),
  length dxs = length shape -> length xs = length shape -> (1 <= length shape)%nat ->
  (2 <= nth 0 shape 0)%nat -> Forall (fun x => length x = prodn shape) xs ->
  divergence shape m p c dxs xs = vsum (prodn shape) (pds_from shape 0 m p c dxs xs).
Proof. exact divergence_is_sum_nd. Qed.
Print Assumptions divergence_is_sum_all_shapes.

(* T1: the Laplacian is the sum over the axes of the textbook second difference
   (e[i-1] - 2 e[i] + e[i+1]) / dx^2 on every line extended by the named rule
   ([lap_ref]), for the four base modes the class accepts. *)
Theorem laplacian_textbook_all_shapes :
  forall (shape : list nat) (p : pmode) (c : R) (dxs x : list R),
  textbook_pair Forward p = true -> textbook_pair Backward p = true ->
  length dxs = length shape ->
  (forall i, (i < length shape)%nat -> (min_size p <= nth i shape 0)%nat /\ (2 <= nth i shape 0)%nat) ->
  length x = prodn shape ->
  laplacian shape p c dxs x = vsum (prodn shape) (lap_terms shape 0 p c dxs x).
Proof. exact laplacian_textbook_nd. Qed.
Print Assumptions laplacian_textbook_all_shapes.

Example laplacian_base_modes_are_textbook :
  forall p, In p [PConstant; PSymmetric; PPeriodic; POrder0] ->
  lap_mode p = true /\ textbook_pair Forward p = true /\ textbook_pair Backward p = true /\ min_size p = 2%nat.
Proof. intros p [<-|[<-|[<-|[<-|[]]]]]; repeat split; reflexivity. Qed.

(* T1: "the derivative of the affine constant-padding variant is its
   zero-padding version", for arrays of every shape and all four operators:
   op_c (x + h) = op_c x + op_0 h exactly. *)
Theorem pderiv_constant_padding_derivative_all_shapes :
  forall (shape : list nat) (ax : nat) (m : meth) (c dx : R) (x h : list R),
  (ax < length shape)%nat -> (2 <= nth ax shape 0)%nat ->
  length x = prodn shape -> length h = prodn shape ->
  pderiv shape ax m PConstant c dx (vadd x h) =
  vadd (pderiv shape ax m PConstant c dx x) (pderiv shape ax m PConstant 0 dx h).
Proof. exact pderiv_const_affine_nd. Qed.
Print Assumptions pderiv_constant_padding_derivative_all_shapes.

Theorem gradient_constant_padding_derivative_all_shapes :
  forall (shape : list nat) (m : meth) (c : R) (dxs x h : list R),
  length dxs = length shape -> (forall i, (i < length shape)%nat -> (2 <= nth i shape 0)%nat) ->
  length x = prodn shape -> length h = prodn shape ->
  gradient shape m PConstant c dxs (vadd x h) =
  zipw vadd (gradient shape m PConstant c dxs x) (gradient shape m PConstant 0 dxs h).
Proof. exact gradient_const_affine_all. Qed.
Print Assumptions gradient_constant_padding_derivative_all_shapes.

Theorem divergence_constant_padding_derivative_all_shapes :
  forall (shape : list nat) (m : meth) (c : R) (dxs : list R) (xs hs : list (list R)),
  length dxs = length shape -> length xs = length shape -> length hs = length shape ->
  (forall i, (i < length shape)%nat -> (2 <= nth i shape 0)%nat) ->
  Forall (fun x => length x = prodn shape) xs -> Forall (fun x => length x = prodn shape) hs ->
  divergence shape m PConstant c dxs (zipw vadd xs hs) =
  vadd (divergence shape m PConstant c dxs xs) (divergence shape m PConstant 0 dxs hs).
Proof. exact divergence_const_affine_nd. Qed.
Print Assumptions divergence_constant_padding_derivative_all_shapes.

Theorem laplacian_constant_padding_derivative_all_shapes :
  forall (shape : list nat) (c : R) (dxs x h : list R),
  length dxs = length shape -> (forall i, (i < length shape)%nat -> (2 <= nth i shape 0)%nat) ->
  length x = prodn shape -> length h = prodn shape ->
  laplacian shape PConstant c dxs (vadd x h) =
  vadd (laplacian shape PConstant c dxs x) (laplacian shape PConstant 0 dxs h).
Proof. exact laplacian_const_affine_nd. Qed.
Print Assumptions laplacian_constant_padding_derivative_all_shapes.

(* Tie between the two instances, N-d: the models of the four operators that the
   ops_nd correspondence shards EXECUTE at Q are the rational restrictions of the
   models the all-shapes theorems above are about (any pad constant, any shape;
   the only premise is that the cell sides are nonzero, which the code divides by). *)
Theorem nd_operators_executed_are_restrictions :
  forall (shape : list nat) (m : meth) (p : pmode) (c : Q) (dxs x : list Q) (xs : list (list Q)) (ax : nat),
  nzs dxs -> ~ (nth ax dxs 1%Q == 0)%Q ->
  map Q2R (pderiv shape ax m p c (nth ax dxs 1%Q) x) =
    pderiv shape ax m p (Q2R c) (Q2R (nth ax dxs 1%Q)) (map Q2R x) /\
  map (map Q2R) (gradient shape m p c dxs x) = gradient shape m p (Q2R c) (map Q2R dxs) (map Q2R x) /\
  map Q2R (divergence shape m p c dxs xs) =
    divergence shape m p (Q2R c) (map Q2R dxs) (map (map Q2R) xs) /\
  map Q2R (laplacian shape p c dxs x) = laplacian shape p (Q2R c) (map Q2R dxs) (map Q2R x).
Proof. exact nd_transfer_all. Qed.
Print Assumptions nd_operators_executed_are_restrictions.
