(* C13/Props.v -- property theorems only; each is closed by [exact] of a lemma
   from C13/Proofs.v and followed by Print Assumptions. The model [fd] is the
   interpreter (C13/Model.v) of the tables REGENERATED from
   odl/discr/diff_ops.py:finite_diff into Gen/FiniteDiff.v. *)
From Coq Require Import Reals List Bool.
From Verif Require Import Base.Num Base.Vec Base.VecR C13.Syntax Gen.FiniteDiff C13.Model C13.Proofs.
Import ListNotations.
Local Open Scope R_scope.

(* T1: every (method, base padding) pair except order2 x {forward, backward}:
   the computed array IS the textbook stencil on the array extended by the
   named rule, divided by dx -- all lengths >= the minimal admissible one,
   all entries, all pad constants. *)
Theorem fd_textbook : forall (m : meth) (p : pmode) (c dx : R) (f : list R),
  textbook_pair m p = true -> (min_size p <= length f)%nat ->
  fd m p c dx f = fd_ref m p c dx f.
Proof. exact fd_textbook_list. Qed.
Print Assumptions fd_textbook.

(* T1 (partial, for the two remaining pairs): what 'order2' computes with any
   method -- central stencil on the quadratic extension at the two edge rows,
   the method's stencil elsewhere. *)
Theorem fd_order2_partial : forall (m : meth) (c dx : R) (f : list R) (i : nat),
  (3 <= length f)%nat -> (i < length f)%nat ->
  nth i (fd m POrder2 c dx f) 0 =
  (if (i =? 0)%nat || (i =? length f - 1)%nat
   then stencil Central (ext POrder2 c f) i else stencil m (ext POrder2 c f) i) / dx.
Proof. exact fd_order2_edges_nth. Qed.
Print Assumptions fd_order2_partial.

(* The full statement is FALSE of the faithful model for those two pairs
   (recorded finding C13/order2-onesided). *)
Theorem fd_textbook_order2_forward_refuted :
  exists f : list R, fd Forward POrder2 0 1 f <> fd_ref Forward POrder2 0 1 f.
Proof. exact fd_order2_forward_refuted. Qed.
Theorem fd_textbook_order2_backward_refuted :
  exists f : list R, fd Backward POrder2 0 1 f <> fd_ref Backward POrder2 0 1 f.
Proof. exact fd_order2_backward_refuted. Qed.

(* T1: for all 30 (method, padding) pairs and every length on which both
   operators are defined (short axes included), the operator named by the
   _ADJ_METHOD/_ADJ_PADDING tables is exactly minus the transpose:
   <D f, g> = - <f, D' g>  for all f, g. *)
Theorem fd_adjoint : forall (m : meth) (p : pmode) (dx : R) (f g : list R),
  dx <> 0 -> length f = length g -> (2 <= length f)%nat ->
  bnd_in_range (length f) (boundary_tab p m) = true ->
  bnd_in_range (length f) (boundary_tab (adj_padding p) (adj_method m)) = true ->
  dot (fd m p 0 dx f) g = - dot f (fd (adj_method m) (adj_padding p) 0 dx g).
Proof. exact fd_adjoint_all. Qed.
Print Assumptions fd_adjoint.

(* non-vacuity: the range side conditions hold from length 3 on for every pair
   (and from length 2 for all pairs not involving order2 / order2_adjoint) *)
Example side_conditions_hold_from_3 :
  forallb (fun n => forallb (fun m => forallb (fun p =>
     bnd_in_range n (boundary_tab p m) && bnd_in_range n (boundary_tab (adj_padding p) (adj_method m)))
     all_pmodes) all_meths) [3; 4; 5; 6; 7; 20]%nat = true.
Proof. vm_compute. reflexivity. Qed.
Example adj_tables_involutive :
  forallb (fun m => match adj_method (adj_method m), m with
     Central, Central | Forward, Forward | Backward, Backward => true | _, _ => false end) all_meths = true
  /\ forallb (fun p => is_base p || is_base (adj_padding p)) all_pmodes = true.
Proof. split; vm_compute; reflexivity. Qed.
