(* placeholder until the proofs land *)
From Verif Require Import C13.Model.
Theorem placeholder : True. Proof. exact I. Qed.
Print Assumptions placeholder.
