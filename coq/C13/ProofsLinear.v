(* C13/ProofsLinear.v -- finite_diff is linear in (pad_const, array) jointly,
   for every method, padding mode and length: the regenerated tables only
   contain linear forms in the entries and the pad constant (checked on the
   regenerated file), so  fd (a*c1+c2) (a*f+h) = a * fd c1 f + fd c2 h.
   Consequences: with pad_const = 0 every mode is a linear operator (the flag
   the classes report), and an array of complex numbers -- real coefficients
   applied to real and imaginary parts -- is differentiated part by part. *)
From Coq Require Import ZArith QArith Reals Lra Lia List Bool.
From Verif Require Import Base.Num Base.Vec Base.VecR C13.Syntax Gen.FiniteDiff C13.Model C13.Proofs.
Import ListNotations.
Local Open Scope R_scope.

(* a*u + v entry-wise *)
Definition lin (a : R) (f h : Rvec) : Rvec := vmap2 (fun u v => a * u + v) f h.

Lemma lin_length a (f h : Rvec) : length f = length h -> length (lin a f h) = length f.
Proof. intros; unfold lin; apply vmap2_length; assumption. Qed.

Lemma nth_lin a : forall (f h : Rvec) (i : nat), length f = length h ->
  nth i (lin a f h) 0 = a * nth i f 0 + nth i h 0.
Proof.
  induction f as [|x f IH]; intros [|y h] i Hl; cbn in Hl; try congruence.
  - destruct i; cbn; lra.
  - unfold lin in *. cbn [vmap2]. destruct i as [|i]; cbn [nth]; [reflexivity | apply IH; congruence].
Qed.

Lemma get_lin a (f h : Rvec) (i : idx) : length f = length h ->
  get (lin a f h) i = a * get f i + get h i.
Proof.
  intros Hl. unfold get. rewrite lin_length by assumption. rewrite <- Hl.
  change (@nzero R _) with 0. apply nth_lin; assumption.
Qed.

(* constant expressions: built from literals only *)
Fixpoint const_ex (e : ex) : bool :=
  match e with
  | EK _ => true
  | EAdd a b | ESub a b | EMul a b | EDiv a b => const_ex a && const_ex b
  | ENeg a => const_ex a
  | EF _ | EPad => false
  end.

Lemma eval_const (e : ex) c c' (f f' : Rvec) : const_ex e = true -> eval e c f = eval e c' f'.
Proof.
  induction e as [i | | k | x IHx y IHy | x IHx y IHy | x IHx y IHy | x IHx y IHy | x IHx];
    intros He; cbn [eval const_ex] in *; try discriminate He; try reflexivity;
    try (apply andb_prop in He as [Hx Hy]; rewrite (IHx Hx), (IHy Hy); reflexivity).
  rewrite (IHx He). reflexivity.
Qed.

(* linear forms in the entries and the pad constant: literals only as factors
   and divisors (or the literal 0 on its own) *)
Fixpoint lin_ex (e : ex) : bool :=
  match e with
  | EF _ | EPad => true
  | EK k => Qeq_bool k 0
  | EAdd a b | ESub a b => lin_ex a && lin_ex b
  | EMul a b => (const_ex a && lin_ex b) || (lin_ex a && const_ex b)
  | EDiv a b => lin_ex a && const_ex b
  | ENeg a => lin_ex a
  end.

Lemma of_Q_zero (k : Q) : Qeq_bool k 0 = true -> @of_Q R _ k = 0.
Proof.
  intros Hk. apply Qeq_bool_iff in Hk. unfold of_Q. numR.
  unfold Qeq in Hk. cbn in Hk. rewrite Z.mul_1_r in Hk. rewrite Hk. unfold Rdiv. lra.
Qed.

Lemma eval_lin (e : ex) a c1 c2 (f h : Rvec) : length f = length h -> lin_ex e = true ->
  eval e (a * c1 + c2) (lin a f h) = a * eval e c1 f + eval e c2 h.
Proof.
  intros Hl. induction e as [i | | k | x IHx y IHy | x IHx y IHy | x IHx y IHy | x IHx y IHy | x IHx];
    intros He; cbn [eval lin_ex] in *; numR.
  - apply get_lin; assumption.
  - reflexivity.
  - rewrite (of_Q_zero k He). lra.
  - apply andb_prop in He as [Hx Hy]. rewrite IHx, IHy by assumption. lra.
  - apply andb_prop in He as [Hx Hy]. rewrite IHx, IHy by assumption. lra.
  - apply orb_prop in He as [He | He]; apply andb_prop in He as [Hx Hy].
    + rewrite (eval_const x (a * c1 + c2) c1 (lin a f h) f Hx), (eval_const x c2 c1 h f Hx).
      rewrite IHy by assumption. ring.
    + rewrite (eval_const y (a * c1 + c2) c1 (lin a f h) f Hy), (eval_const y c2 c1 h f Hy).
      rewrite IHx by assumption. ring.
  - apply andb_prop in He as [Hx Hy].
    rewrite (eval_const y (a * c1 + c2) c1 (lin a f h) f Hy), (eval_const y c2 c1 h f Hy).
    rewrite IHx by assumption. unfold Rdiv. ring.
  - rewrite IHx by assumption. lra.
Qed.

Definition bnd_lin (b : bnd) : bool :=
  lin_ex (b_first b) && lin_ex (b_last b) &&
  forallb (fun s : bool * idx * ex => let '(_, _, e) := s in lin_ex e) (b_corr b).
Definition tables_linear : bool :=
  forallb (fun m => forallb (fun p => bnd_lin (boundary_tab p m)) all_pmodes) all_meths.

(* finite check over the REGENERATED tables *)
Lemma tables_linear_true : tables_linear = true.
Proof. vm_compute. reflexivity. Qed.

Lemma tables_linear_at (m : meth) (p : pmode) : bnd_lin (boundary_tab p m) = true.
Proof.
  pose proof tables_linear_true as H. unfold tables_linear in H. rewrite forallb_forall in H.
  assert (Hm : In m all_meths) by (destruct m; cbn; tauto).
  specialize (H m Hm). rewrite forallb_forall in H. apply H. destruct p; cbn; tauto.
Qed.

(* interior rows *)
Lemma row_lin it a (x y z x' y' z' : R) :
  row it (a * x + x') (a * y + y') (a * z + z') = a * row it x y z + row it x' y' z'.
Proof.
  unfold row, pick. destruct (i_div it) as [k|];
    destruct (i_o1 it =? -1)%Z, (i_o1 it =? 0)%Z, (i_o2 it =? -1)%Z, (i_o2 it =? 0)%Z;
    numR; unfold Rdiv; lra.
Qed.

Lemma interior_lin it a : forall (f h : Rvec), length f = length h ->
  interior it (lin a f h) = lin a (interior it f) (interior it h).
Proof.
  intros f. remember (length f) as n eqn:Hn. revert f Hn.
  induction n as [n IH] using lt_wf_ind. intros f Hn h Hl.
  destruct f as [|x [|y [|z r]]]; destruct h as [|x' [|y' [|z' r']]]; cbn in Hl; try congruence;
    try reflexivity.
  unfold lin at 1. cbn [vmap2]. fold (lin a r r').
  change (interior it ((a * x + x') :: (a * y + y') :: (a * z + z') :: lin a r r'))
    with (row it (a * x + x') (a * y + y') (a * z + z') ::
          interior it ((a * y + y') :: (a * z + z') :: lin a r r')).
  change (interior it (x :: y :: z :: r)) with (row it x y z :: interior it (y :: z :: r)).
  change (interior it (x' :: y' :: z' :: r')) with (row it x' y' z' :: interior it (y' :: z' :: r')).
  unfold lin at 2. cbn [vmap2]. fold (lin a (interior it (y :: z :: r)) (interior it (y' :: z' :: r'))).
  rewrite row_lin. f_equal.
  change ((a * y + y') :: (a * z + z') :: lin a r r') with (lin a (y :: z :: r) (y' :: z' :: r')).
  apply (IH (length (y :: z :: r))); [subst n; cbn; lia | reflexivity | cbn in *; congruence].
Qed.

Lemma upd_lin a (v w : R) (plus : bool) : forall (i : nat) (o o' : Rvec), length o = length o' ->
  upd i (fun t => if plus then t + (a * v + w) else t - (a * v + w)) (lin a o o') =
  lin a (upd i (fun t => if plus then t + v else t - v) o) (upd i (fun t => if plus then t + w else t - w) o').
Proof.
  intros i o; revert i. induction o as [|x o IH]; intros i [|y o'] Hl; cbn in Hl; try congruence.
  - destruct i; reflexivity.
  - unfold lin in *. destruct i as [|i]; cbn [vmap2 upd].
    + f_equal. destruct plus; lra.
    + f_equal. apply IH. congruence.
Qed.

Lemma upd_len (i : nat) (g : R -> R) (l : Rvec) : length (upd i g l) = length l.
Proof. apply upd_length. Qed.

Lemma apply_corr_lin a c1 c2 (f h o o' : Rvec) (s : bool * idx * ex) :
  length f = length h -> length o = length o' ->
  (let '(_, _, e) := s in lin_ex e) = true ->
  apply_corr (a * c1 + c2) (lin a f h) (lin a o o') s =
  lin a (apply_corr c1 f o s) (apply_corr c2 h o' s).
Proof.
  destruct s as [[plus i] e]. intros Hl Ho He. unfold apply_corr.
  rewrite eval_lin by assumption. rewrite lin_length by assumption. rewrite <- Hl.
  numR. apply (upd_lin a (eval e c1 f) (eval e c2 h) plus); assumption.
Qed.

Lemma fold_corr_lin a c1 c2 (f h : Rvec) (cs : list (bool * idx * ex)) :
  length f = length h ->
  forallb (fun s : bool * idx * ex => let '(_, _, e) := s in lin_ex e) cs = true ->
  forall o o', length o = length o' ->
  fold_left (apply_corr (a * c1 + c2) (lin a f h)) cs (lin a o o') =
  lin a (fold_left (apply_corr c1 f) cs o) (fold_left (apply_corr c2 h) cs o').
Proof.
  intros Hl. induction cs as [|s cs IH]; intros Hok o o' Ho; cbn [fold_left]; [reflexivity|].
  cbn [forallb] in Hok. apply andb_prop in Hok as [Hs Hcs].
  rewrite apply_corr_lin by assumption. apply IH; [assumption|].
  destruct s as [[plus i] e]. unfold apply_corr. rewrite !upd_len. exact Ho.
Qed.

Lemma lin_app a (x y x' y' : Rvec) : length x = length x' ->
  lin a (x ++ y) (x' ++ y') = lin a x x' ++ lin a y y'.
Proof.
  revert x'; induction x as [|u x IH]; intros [|u' x'] Hl; cbn in Hl; try congruence; unfold lin in *; cbn [app vmap2].
  - reflexivity.
  - rewrite IH by congruence. reflexivity.
Qed.

Lemma fd_raw_lin (m : meth) (p : pmode) a c1 c2 (f h : Rvec) : length f = length h ->
  fd_raw m p (a * c1 + c2) (lin a f h) = lin a (fd_raw m p c1 f) (fd_raw m p c2 h).
Proof.
  intros Hl. pose proof (tables_linear_at m p) as Hb. unfold bnd_lin in Hb.
  apply andb_prop in Hb as [Hb Hc]. apply andb_prop in Hb as [Hf Hla].
  unfold fd_raw.
  rewrite !eval_lin by assumption. rewrite interior_lin by assumption.
  set (I1 := interior (interior_tab m) f). set (I2 := interior (interior_tab m) h).
  assert (HI : length I1 = length I2) by (unfold I1, I2; rewrite !interior_length; congruence).
  replace ((a * eval (b_first (boundary_tab p m)) c1 f + eval (b_first (boundary_tab p m)) c2 h)
             :: lin a I1 I2 ++ [a * eval (b_last (boundary_tab p m)) c1 f + eval (b_last (boundary_tab p m)) c2 h])
    with (lin a (eval (b_first (boundary_tab p m)) c1 f :: I1 ++ [eval (b_last (boundary_tab p m)) c1 f])
                (eval (b_first (boundary_tab p m)) c2 h :: I2 ++ [eval (b_last (boundary_tab p m)) c2 h])).
  - apply fold_corr_lin; try assumption. cbn [length]. rewrite !app_length. cbn [length]. lia.
  - unfold lin at 1. cbn [vmap2]. f_equal. fold (lin a (I1 ++ [eval (b_last (boundary_tab p m)) c1 f])
                                                   (I2 ++ [eval (b_last (boundary_tab p m)) c2 h])).
    rewrite lin_app by exact HI. reflexivity.
Qed.

Lemma map_div_lin a dx (x y : Rvec) :
  map (fun o => o / dx) (lin a x y) = lin a (map (fun o => o / dx) x) (map (fun o => o / dx) y).
Proof.
  revert y; induction x as [|u x IH]; intros [|v y]; unfold lin in *; cbn [vmap2 map]; try reflexivity.
  rewrite IH. f_equal. unfold Rdiv. lra.
Qed.

(* every method, every padding mode, every length, every pad constant and dx *)
Theorem fd_linear (m : meth) (p : pmode) (a c1 c2 dx : R) (f h : Rvec) : length f = length h ->
  fd m p (a * c1 + c2) dx (lin a f h) = lin a (fd m p c1 dx f) (fd m p c2 dx h).
Proof. intros Hl. unfold fd. rewrite fd_raw_lin by assumption. numR. apply map_div_lin. Qed.
