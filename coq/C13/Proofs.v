(* C13/Proofs.v -- lemmas about the finite-difference model at R. *)
From Coq Require Import ZArith QArith Reals Lra Lia List Bool.
From Verif Require Import Base.Num Base.Vec Base.VecR C13.Syntax Gen.FiniteDiff C13.Model.
Import ListNotations.
Local Open Scope R_scope.

Ltac ofq := unfold of_Q; cbn [Qnum Qden]; numR.

(* ---------- generic list facts ---------- *)
Lemma upd_length (i : nat) (g : R -> R) (l : Rvec) : length (upd i g l) = length l.
Proof. revert i; induction l as [|a l IH]; intros [|i]; cbn; auto. Qed.

Lemma dot_upd_add (i : nat) (v : R) (l g : Rvec) :
  (i < length l)%nat -> length l = length g ->
  dot (upd i (fun o => o + v) l) g = dot l g + v * nth i g 0.
Proof.
  revert i g; induction l as [|a l IH]; intros i [|b g] Hi Hl; cbn in Hi, Hl; try lia.
  destruct i as [|i]; cbn [upd nth]; rewrite !dot_cons.
  - lra.
  - rewrite IH by lia. lra.
Qed.
Lemma dot_upd_sub (i : nat) (v : R) (l g : Rvec) :
  (i < length l)%nat -> length l = length g ->
  dot (upd i (fun o => o - v) l) g = dot l g - v * nth i g 0.
Proof.
  revert i g; induction l as [|a l IH]; intros i [|b g] Hi Hl; cbn in Hi, Hl; try lia.
  destruct i as [|i]; cbn [upd nth]; rewrite !dot_cons.
  - lra.
  - rewrite IH by lia. lra.
Qed.

Lemma dot_map_div (dx : R) (l g : Rvec) : dot (map (fun o => o / dx) l) g = dot l g / dx.
Proof.
  revert g; induction l as [|a l IH]; intros [|b g]; cbn [map]; rewrite ?dot_nil_l, ?dot_cons.
  1-3: unfold dot; cbn; numR; unfold Rdiv; lra.
  rewrite IH; numR; unfold Rdiv; lra.
Qed.

Lemma dot_app_single (l g : Rvec) (z w : R) : length l = length g ->
  dot (l ++ [z]) (g ++ [w]) = dot l g + z * w.
Proof.
  revert g; induction l as [|a l IH]; intros [|b g] Hl; cbn in Hl; try lia; cbn [app].
  - unfold dot; cbn; numR; lra.
  - rewrite !dot_cons, IH by lia. lra.
Qed.

(* ---------- window recursion ---------- *)
Lemma interior_length it (f : Rvec) : length (interior it f) = (length f - 2)%nat.
Proof.
  induction f as [|a f IH]; [reflexivity|].
  destruct f as [|b [|c r]]; try reflexivity.
  cbn [interior length] in *. rewrite IH. lia.
Qed.
Lemma midl_length (f : Rvec) : length (midl f) = (length f - 2)%nat.
Proof.
  induction f as [|a f IH]; [reflexivity|].
  destruct f as [|b [|c r]]; try reflexivity.
  cbn [midl length] in *. rewrite IH. lia.
Qed.

(* a list of length >= 2 is its first entry, its middle and its last entry *)
Lemma split_ends (g : Rvec) : (2 <= length g)%nat ->
  g = get g (Lo 0) :: midl g ++ [get g (Hi 1)].
Proof.
  induction g as [|a g IH]; cbn [length]; intros Hl; [lia|].
  destruct g as [|b [|c r]]; cbn [length] in *; try lia.
  - reflexivity.
  - assert (H2 : (2 <= length (b :: c :: r))%nat) by (cbn; lia).
    specialize (IH H2). unfold get in *. cbn [resolve length nth] in *.
    cbn [midl]. fold (midl (b :: c :: r)).
    rewrite IH at 1. cbn [app].
    replace (S (S (S (length r))) - 1)%nat with (S (S (S (length r)) - 1)) by lia.
    cbn [nth]. replace (S (S (length r)) - 1)%nat with (S (length r)) by lia.
    cbn [nth]. reflexivity.
Qed.

Lemma get_hi_cons (a : R) (l : Rvec) (k : nat) : (k <= length l)%nat ->
  get (a :: l) (Hi k) = get l (Hi k).
Proof.
  intros Hk. unfold get. cbn [resolve length].
  replace (S (length l) - k)%nat with (S (length l - k)) by lia. reflexivity.
Qed.
Lemma get_lo_cons (a : R) (l : Rvec) (k : nat) : get (a :: l) (Lo (S k)) = get l (Lo k).
Proof. reflexivity. Qed.

Lemma interior_cons3 it (a b c : R) (r : Rvec) :
  interior it (a :: b :: c :: r) = row it a b c :: interior it (b :: c :: r).
Proof. reflexivity. Qed.
Lemma midl_cons3 (a b c : R) (r : Rvec) : midl (a :: b :: c :: r) = b :: midl (b :: c :: r).
Proof. reflexivity. Qed.

(* ---------- summation by parts on the interior rows ---------- *)
Definition Sint (m : meth) (f g : Rvec) : R :=
  dot (interior (interior_tab m) f) (midl g) + dot (midl f) (interior (interior_tab (adj_method m)) g).
Definition Etel (m : meth) (f0 f1 fa fb g0 g1 ga gb : R) : R :=
  match m with
  | Central => (fb * ga + fa * gb - f1 * g0 - f0 * g1) / 2
  | Forward => fb * ga - f1 * g0
  | Backward => fa * gb - f0 * g1
  end.

Lemma telescope_aux (m : meth) : forall (r r' : Rvec) (a b a' b' : R), length r = length r' ->
  Sint m (a :: b :: r) (a' :: b' :: r') =
  Etel m a b (get (a :: b :: r) (Hi 2)) (get (a :: b :: r) (Hi 1))
         a' b' (get (a' :: b' :: r') (Hi 2)) (get (a' :: b' :: r') (Hi 1)).
Proof.
  induction r as [|c r IH]; intros [|c' r'] a b a' b' Hl; cbn [length] in Hl; try lia.
  - unfold Sint, get; cbn [interior midl resolve length nth Nat.sub]; rewrite !dot_nil_l.
    destruct m; cbn [Etel]; lra.
  - assert (Hl' : length r = length r') by lia.
    specialize (IH r' b c b' c' Hl').
    rewrite (get_hi_cons a (b :: c :: r) 2), (get_hi_cons a (b :: c :: r) 1),
            (get_hi_cons a' (b' :: c' :: r') 2), (get_hi_cons a' (b' :: c' :: r') 1)
      by (cbn [length]; lia).
    unfold Sint in *. rewrite !interior_cons3, !midl_cons3, !dot_cons.
    match goal with |- ?x * b' + ?A + (b * ?y + ?B) = _ =>
      replace (x * b' + A + (b * y + B)) with (x * b' + b * y + (A + B)) by lra end.
    rewrite IH.
    destruct m; cbn [Etel interior_tab adj_method row i_o1 i_o2 i_div pick Z.eqb Pos.eqb];
      ofq; cbn [Etel]; field.
Qed.

Lemma telescope (m : meth) (f g : Rvec) : length f = length g -> (2 <= length f)%nat ->
  Sint m f g = Etel m (get f (Lo 0)) (get f (Lo 1)) (get f (Hi 2)) (get f (Hi 1))
                      (get g (Lo 0)) (get g (Lo 1)) (get g (Hi 2)) (get g (Hi 1)).
Proof.
  intros Hl H2. destruct f as [|a [|b r]]; cbn [length] in *; try lia.
  destruct g as [|a' [|b' r']]; cbn [length] in *; try lia.
  rewrite telescope_aux by lia. reflexivity.
Qed.

(* ---------- the boundary corrections, additively ---------- *)
Definition corr_term (c : R) (f g : Rvec) (s : bool * idx * ex) : R :=
  let '(plus, i, e) := s in (if plus then 1 else -1) * eval e c f * get g i.
Fixpoint corr_sum (c : R) (f g : Rvec) (cs : list (bool * idx * ex)) : R :=
  match cs with [] => 0 | s :: cs' => corr_term c f g s + corr_sum c f g cs' end.

Lemma in_range_resolve (n : nat) (i : idx) : in_range n i = true -> (resolve n i < n)%nat.
Proof.
  destruct i as [k|k]; cbn [in_range resolve]; intros Hr.
  - apply Nat.ltb_lt in Hr; exact Hr.
  - apply andb_true_iff in Hr as [H1 H2]. apply Nat.leb_le in H1, H2. lia.
Qed.

Lemma dot_fold_corr (c : R) (f g : Rvec) (cs : list (bool * idx * ex)) : forall out : Rvec,
  length out = length f -> length g = length f ->
  forallb (fun s : bool * idx * ex => let '(_, i, e) := s in in_range (length f) i && ex_in_range (length f) e) cs = true ->
  dot (fold_left (apply_corr c f) cs out) g = dot out g + corr_sum c f g cs.
Proof.
  induction cs as [|[[plus i] e] cs IH]; intros out Ho Hg Hr; cbn [fold_left corr_sum].
  - lra.
  - cbn [forallb] in Hr. apply andb_true_iff in Hr as [Hr1 Hr2].
    apply andb_true_iff in Hr1 as [Hr1 _]. apply in_range_resolve in Hr1.
    rewrite IH; [| unfold apply_corr; rewrite upd_length; exact Ho | exact Hg | exact Hr2].
    unfold apply_corr, corr_term, get. rewrite Hg.
    destruct plus; numR.
    + rewrite dot_upd_add by lia. lra.
    + rewrite dot_upd_sub by lia. lra.
Qed.

Lemma dot_fd_raw (m : meth) (p : pmode) (c : R) (f g : Rvec) :
  length g = length f -> (2 <= length f)%nat ->
  bnd_in_range (length f) (boundary_tab p m) = true ->
  dot (fd_raw m p c f) g =
    eval (b_first (boundary_tab p m)) c f * get g (Lo 0)
    + dot (interior (interior_tab m) f) (midl g)
    + eval (b_last (boundary_tab p m)) c f * get g (Hi 1)
    + corr_sum c f g (b_corr (boundary_tab p m)).
Proof.
  intros Hg H2 Hr. unfold fd_raw, bnd_in_range in *.
  apply andb_true_iff in Hr as [_ Hr].
  rewrite dot_fold_corr; [| | exact Hg | exact Hr].
  2:{ cbn [length]. rewrite app_length, interior_length. cbn [length]. lia. }
  f_equal.
  rewrite (split_ends g) at 1 by lia.
  rewrite dot_cons, dot_app_single by (rewrite interior_length, midl_length; lia).
  lra.
Qed.

(* ---------- adjoint = minus transpose, every mode pair, every n ---------- *)
Lemma fd_adjoint_all (m : meth) (p : pmode) (dx : R) (f g : Rvec) :
  dx <> 0 -> length f = length g -> (2 <= length f)%nat ->
  bnd_in_range (length f) (boundary_tab p m) = true ->
  bnd_in_range (length f) (boundary_tab (adj_padding p) (adj_method m)) = true ->
  dot (fd m p 0 dx f) g = - dot f (fd (adj_method m) (adj_padding p) 0 dx g).
Proof.
  intros Hdx Hl H2 Hr Hr'. unfold fd.
  rewrite (dot_comm f), !dot_map_div.
  rewrite dot_fd_raw by (auto; lia).
  rewrite dot_fd_raw by (rewrite <- ?Hl; auto; lia).
  pose proof (telescope m f g Hl H2) as Ht. unfold Sint in Ht.
  rewrite (dot_comm (interior (interior_tab (adj_method m)) g) (midl f)).
  set (I1 := dot (interior (interior_tab m) f) (midl g)) in *.
  set (I2 := dot (midl f) (interior (interior_tab (adj_method m)) g)) in *.
  assert (HI : I1 = Etel m (get f (Lo 0)) (get f (Lo 1)) (get f (Hi 2)) (get f (Hi 1))
                      (get g (Lo 0)) (get g (Lo 1)) (get g (Hi 2)) (get g (Hi 1)) - I2) by lra.
  rewrite HI. clear HI Ht. clearbody I2. clear I1.
  destruct m, p;
    cbn [boundary_tab adj_padding adj_method b_first b_last b_corr eval corr_sum corr_term Etel];
    generalize (get f (Lo 0)) (get f (Lo 1)) (get f (Lo 2)) (get f (Hi 1)) (get f (Hi 2)) (get f (Hi 3));
    generalize (get g (Lo 0)) (get g (Lo 1)) (get g (Lo 2)) (get g (Hi 1)) (get g (Hi 2)) (get g (Hi 3));
    intros g0 g1 g2 ga gb gc f0 f1 f2 fa fb fc;
    ofq; field; exact Hdx.
Qed.

(* ---------- the textbook stencil on the extended array ---------- *)
Lemma nth_interior it : forall (f : Rvec) (i : nat), (i + 2 < length f)%nat ->
  nth i (interior it f) 0 = row it (nth i f 0) (nth (S i) f 0) (nth (S (S i)) f 0).
Proof.
  induction f as [|a f IH]; intros i Hi; cbn [length] in Hi; [lia|].
  destruct f as [|b [|c r]]; cbn [length] in Hi; try lia.
  rewrite interior_cons3. destruct i as [|i]; [reflexivity|].
  cbn [nth]. rewrite IH by (cbn [length]; lia). reflexivity.
Qed.

Lemma ext_S_in p c (f : Rvec) k : (k < length f)%nat -> ext p c f (S k) = nth k f 0.
Proof. intros Hk; cbn [ext]. apply Nat.ltb_lt in Hk. rewrite Hk. reflexivity. Qed.
Lemma ext_S_out p c (f : Rvec) : ext p c f (S (length f)) = right_ext p c f.
Proof. cbn [ext]. rewrite Nat.ltb_irrefl. reflexivity. Qed.

Lemma nth_map_div (dx : R) : forall (l : Rvec) (i : nat),
  nth i (map (fun o => o / dx) l) 0 = nth i l 0 / dx.
Proof.
  induction l as [|a l IH]; intros [|i]; cbn [map nth]; try (unfold Rdiv; lra); auto.
Qed.

Definition textbook_pair (m : meth) (p : pmode) : bool :=
  is_base p && negb (match p, m with POrder2, Forward | POrder2, Backward => true | _, _ => false end).

Lemma nth_raw_first (m : meth) (p : pmode) c (f : Rvec) : b_corr (boundary_tab p m) = [] ->
  nth 0 (fd_raw m p c f) 0 = eval (b_first (boundary_tab p m)) c f.
Proof. intros Hc; unfold fd_raw; rewrite Hc; reflexivity. Qed.
Lemma nth_raw_mid (m : meth) (p : pmode) c (f : Rvec) i : b_corr (boundary_tab p m) = [] ->
  (i + 2 < length f)%nat ->
  nth (S i) (fd_raw m p c f) 0 =
  row (interior_tab m) (nth i f 0) (nth (S i) f 0) (nth (S (S i)) f 0).
Proof.
  intros Hc Hi; unfold fd_raw; rewrite Hc; cbn [fold_left nth].
  rewrite app_nth1 by (rewrite interior_length; lia). apply nth_interior; exact Hi.
Qed.
Lemma nth_raw_last (m : meth) (p : pmode) c (f : Rvec) : b_corr (boundary_tab p m) = [] ->
  (2 <= length f)%nat ->
  nth (length f - 1) (fd_raw m p c f) 0 = eval (b_last (boundary_tab p m)) c f.
Proof.
  intros Hc H2; unfold fd_raw; rewrite Hc; cbn [fold_left].
  replace (length f - 1)%nat with (S (length f - 2)) by lia. cbn [nth].
  rewrite app_nth2 by (rewrite interior_length; lia).
  rewrite interior_length, Nat.sub_diag. reflexivity.
Qed.

Lemma fd_raw_length m p c (f : Rvec) : (2 <= length f)%nat -> length (fd_raw m p c f) = length f.
Proof.
  intros H2. unfold fd_raw.
  assert (Hfold : forall cs (out : Rvec), length (fold_left (apply_corr c f) cs out) = length out).
  { induction cs as [|[[pl i] e] cs IH]; intros out; cbn [fold_left]; [reflexivity|].
    rewrite IH. unfold apply_corr. apply upd_length. }
  rewrite Hfold. cbn [length]. rewrite app_length, interior_length. cbn [length]. lia.
Qed.

Lemma fd_textbook_nth (m : meth) (p : pmode) (c dx : R) (f : Rvec) (i : nat) :
  textbook_pair m p = true -> (min_size p <= length f)%nat -> (i < length f)%nat ->
  nth i (fd m p c dx f) 0 = stencil m (ext p c f) i / dx.
Proof.
  intros Hp Hn Hi.
  assert (H2 : (2 <= length f)%nat) by (destruct p; cbn [min_size] in Hn; lia).
  unfold fd.
  rewrite nth_map_div. f_equal.
  assert (Hc : b_corr (boundary_tab p m) = []) by (destruct m, p; try discriminate Hp; reflexivity).
  destruct (Nat.eq_dec i 0) as [-> | Hi0].
  - (* first row *)
    rewrite nth_raw_first by exact Hc.
    unfold stencil. rewrite !ext_S_in by lia. cbn [ext].
    destruct m, p; try discriminate Hp; cbn [min_size] in Hn;
      cbn [boundary_tab b_first eval left_ext]; unfold get; cbn [resolve]; ofq; try field; try lra.
  - destruct (Nat.eq_dec i (length f - 1)) as [-> | HiN].
    + (* last row *)
      rewrite nth_raw_last by auto.
      destruct (length f) as [|[|n']] eqn:Hlen; try lia.
      unfold stencil. replace (S (S n') - 1)%nat with (S n') by lia.
      assert (E3 : ext p c f (S (S (S n'))) = right_ext p c f) by (rewrite <- Hlen; apply ext_S_out).
      assert (E2 : ext p c f (S (S n')) = nth (S n') f 0) by (apply ext_S_in; lia).
      assert (E1 : ext p c f (S n') = nth n' f 0) by (apply ext_S_in; lia).
      rewrite ?E3, ?E2, ?E1.
      destruct m, p; try discriminate Hp; cbn [min_size] in Hn;
        cbn [boundary_tab b_last eval right_ext]; unfold get; cbn [resolve]; rewrite ?Hlen;
        cbn [Nat.sub]; rewrite ?Nat.sub_0_r; ofq; try field; try lra.
    + (* interior row *)
      destruct i as [|i]; [lia|].
      rewrite nth_raw_mid by (auto; lia).
      unfold stencil. rewrite !ext_S_in by lia.
      destruct m; cbn [interior_tab row i_o1 i_o2 i_div pick Z.eqb Pos.eqb]; ofq; try field; try lra.
Qed.

Lemma fd_length m p c dx (f : Rvec) : (2 <= length f)%nat -> length (fd m p c dx f) = length f.
Proof. intros; unfold fd; rewrite map_length; apply fd_raw_length; assumption. Qed.

Lemma nth_map_seq (g : nat -> R) (n i : nat) : (i < n)%nat -> nth i (map g (seq 0 n)) 0 = g i.
Proof.
  intros Hi. rewrite (nth_indep _ 0 (g 0%nat)) by (rewrite map_length, seq_length; lia).
  rewrite (map_nth g). rewrite seq_nth by lia. reflexivity.
Qed.

Lemma fd_textbook_list (m : meth) (p : pmode) (c dx : R) (f : Rvec) :
  textbook_pair m p = true -> (min_size p <= length f)%nat ->
  fd m p c dx f = fd_ref m p c dx f.
Proof.
  intros Hp Hn.
  assert (H2 : (2 <= length f)%nat) by (destruct p; cbn [min_size] in Hn; lia).
  apply (nth_ext _ _ 0 0).
  - rewrite fd_length by exact H2. unfold fd_ref. rewrite map_length, seq_length. reflexivity.
  - intros i Hi. rewrite fd_length in Hi by exact H2.
    rewrite fd_textbook_nth by assumption.
    unfold fd_ref. rewrite nth_map_seq by exact Hi. reflexivity.
Qed.

(* 'order2' with forward/backward: the code documents "2nd order edges" that do not
   depend on the method.  What it computes: interior rows by the method, edge rows
   by the CENTRAL stencil on the quadratic extension. *)
Lemma fd_order2_edges_nth (m : meth) (c dx : R) (f : Rvec) (i : nat) :
  (3 <= length f)%nat -> (i < length f)%nat ->
  nth i (fd m POrder2 c dx f) 0 =
  (if (i =? 0)%nat || (i =? length f - 1)%nat
   then stencil Central (ext POrder2 c f) i else stencil m (ext POrder2 c f) i) / dx.
Proof.
  intros Hn Hi.
  assert (Hc : b_corr (boundary_tab POrder2 m) = []) by (destruct m; reflexivity).
  assert (Hf : b_first (boundary_tab POrder2 m) = b_first (boundary_tab POrder2 Central))
    by (destruct m; reflexivity).
  assert (Hl : b_last (boundary_tab POrder2 m) = b_last (boundary_tab POrder2 Central))
    by (destruct m; reflexivity).
  assert (Hcen : forall k, (k < length f)%nat ->
            nth k (fd_raw Central POrder2 c f) 0 = stencil Central (ext POrder2 c f) k).
  { intros k Hk. pose proof (fd_textbook_nth Central POrder2 c 1 f k eq_refl) as HH.
    cbn [min_size] in HH. specialize (HH Hn Hk). unfold fd in HH.
    rewrite nth_map_div in HH. lra. }
  unfold fd; rewrite nth_map_div; f_equal.
  destruct (Nat.eq_dec i 0) as [Hi0 | Hi0].
  - subst i. cbn [Nat.eqb orb]. rewrite nth_raw_first, Hf by exact Hc.
    rewrite <- (nth_raw_first Central POrder2 c f) by reflexivity. apply Hcen; lia.
  - destruct (Nat.eq_dec i (length f - 1)) as [HiN | HiN].
    + subst i. rewrite Nat.eqb_refl, orb_true_r.
      rewrite nth_raw_last, Hl by (auto; lia).
      rewrite <- (nth_raw_last Central POrder2 c f) by (auto; lia). apply Hcen; lia.
    + replace ((i =? 0)%nat) with false by (symmetry; apply Nat.eqb_neq; lia).
      replace ((i =? length f - 1)%nat) with false by (symmetry; apply Nat.eqb_neq; lia).
      cbn [orb]. destruct i as [|i]; [lia|].
      rewrite nth_raw_mid by (auto; lia).
      unfold stencil. rewrite !ext_S_in by lia.
      destruct m; cbn [interior_tab row i_o1 i_o2 i_div pick Z.eqb Pos.eqb]; ofq; try field; try lra.
Qed.

(* ... and therefore the literal reading of the property fails for these two pairs *)
Lemma fd_order2_forward_refuted :
  exists f : Rvec, fd Forward POrder2 0 1 f <> fd_ref Forward POrder2 0 1 f.
Proof.
  exists [0; 0; 1]. intros Heq.
  apply (f_equal (fun l => nth 0 l 0)) in Heq.
  unfold fd, fd_ref, fd_raw in Heq.
  cbn [boundary_tab interior_tab b_first b_last b_corr fold_left eval interior row map seq length
       nth app stencil ext left_ext right_ext Nat.ltb Nat.leb i_o1 i_o2 i_div pick Z.eqb Pos.eqb] in Heq.
  unfold get in Heq; cbn [resolve length nth Nat.sub] in Heq. revert Heq. ofq. lra.
Qed.
Lemma fd_order2_backward_refuted :
  exists f : Rvec, fd Backward POrder2 0 1 f <> fd_ref Backward POrder2 0 1 f.
Proof.
  exists [1; 0; 0]. intros Heq.
  apply (f_equal (fun l => nth 2 l 0)) in Heq.
  unfold fd, fd_ref, fd_raw in Heq.
  cbn [boundary_tab interior_tab b_first b_last b_corr fold_left eval interior row map seq length
       nth app stencil ext left_ext right_ext Nat.ltb Nat.leb i_o1 i_o2 i_div pick Z.eqb Pos.eqb] in Heq.
  unfold get in Heq; cbn [resolve length nth Nat.sub] in Heq. revert Heq. ofq. lra.
Qed.
