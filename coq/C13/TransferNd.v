(* C13/TransferNd.v -- Q -> R transfer of the N-d operators: the models of
   PartialDerivative, Gradient, Divergence and Laplacian executed at Q by the
   ops_nd correspondence shards are the rational restrictions of the models the
   N-d theorems are about (any pad constant; cell sides nonzero). *)
From Coq Require Import ZArith QArith Qreals Reals Lra Lia List Bool.
From Verif Require Import Base.Num Base.Vec Base.Transfer Lib.Axis Lib.AxisMap
  C13.Syntax Gen.FiniteDiff C13.Model C13.ModelNd C13.Transfer.
Import ListNotations.

Definition nzs (dxs : list Q) : Prop := Forall (fun dx => ~ (dx == 0)%Q) dxs.

Lemma vmap2_transfer (f : Q -> Q -> Q) (g : R -> R -> R) :
  (forall a b, Q2R (f a b) = g (Q2R a) (Q2R b)) ->
  forall x y : list Q, QR (vmap2 f x y) = vmap2 g (QR x) (QR y).
Proof.
  intros Hfg. induction x as [|a x IH]; intros [|b y]; try reflexivity.
  cbn [vmap2 map]. rewrite Hfg, IH. reflexivity.
Qed.
Lemma vadd_transfer (x y : list Q) : QR (vadd x y) = vadd (QR x) (QR y).
Proof. apply vmap2_transfer. exact Q2R_nadd. Qed.
Lemma vsub_transfer (x y : list Q) : QR (vsub x y) = vsub (QR x) (QR y).
Proof. apply vmap2_transfer. exact Q2R_nsub. Qed.

Lemma pderiv_transfer shape ax m p (c dx : Q) (x : list Q) : ~ (dx == 0)%Q ->
  QR (pderiv shape ax m p c dx x) = pderiv shape ax m p (Q2R c) (Q2R dx) (QR x).
Proof.
  intros Hdx. unfold pderiv. apply (map_along_axis Q2R).
  intros l. apply fd_transfer. exact Hdx.
Qed.

Lemma gradient_from_transfer shape m p (c : Q) : forall (dxs : list Q) ax (x : list Q), nzs dxs ->
  map QR (gradient_from shape ax m p c dxs x) = gradient_from shape ax m p (Q2R c) (QR dxs) (QR x).
Proof.
  induction dxs as [|dx dxs IH]; intros ax x Hd; [reflexivity|].
  cbn [gradient_from map]. rewrite pderiv_transfer by exact (Forall_inv Hd).
  rewrite IH by exact (Forall_inv_tail Hd). reflexivity.
Qed.
Lemma gradient_transfer shape m p (c : Q) (dxs x : list Q) : nzs dxs ->
  map QR (gradient shape m p c dxs x) = gradient shape m p (Q2R c) (QR dxs) (QR x).
Proof. apply gradient_from_transfer. Qed.

Lemma divergence_from_transfer shape m p (c : Q) :
  forall (dxs : list Q) (xs : list (list Q)) ax (acc : option (list Q)), nzs dxs ->
  option_map QR (divergence_from shape ax m p c dxs xs acc) =
  divergence_from shape ax m p (Q2R c) (QR dxs) (map QR xs) (option_map QR acc).
Proof.
  induction dxs as [|dx dxs IH]; intros [|x xs] ax acc Hd; try reflexivity.
  cbn [divergence_from map]. rewrite IH by exact (Forall_inv_tail Hd). f_equal.
  rewrite <- pderiv_transfer by exact (Forall_inv Hd).
  destruct acc as [a|]; cbn [option_map]; [|reflexivity]. rewrite vadd_transfer. reflexivity.
Qed.
Lemma divergence_transfer shape m p (c : Q) (dxs : list Q) (xs : list (list Q)) : nzs dxs ->
  QR (divergence shape m p c dxs xs) = divergence shape m p (Q2R c) (QR dxs) (map QR xs).
Proof.
  intros Hd. unfold divergence.
  pose proof (divergence_from_transfer shape m p c dxs xs 0 None Hd) as E. cbn [option_map] in E.
  rewrite <- E. destruct (divergence_from shape 0 m p c dxs xs None); reflexivity.
Qed.

Lemma sq_nz (dx : Q) : ~ (dx == 0)%Q -> ~ (nmul dx dx == 0)%Q.
Proof.
  intros Hd E. cbn [nmul Num_Q] in E. rewrite Qred_correct in E.
  destruct (Qmult_integral _ _ E); contradiction.
Qed.

Lemma laplacian_from_transfer shape p (c : Q) : forall (dxs : list Q) ax (x acc : list Q), nzs dxs ->
  QR (laplacian_from shape ax p c dxs x acc) =
  laplacian_from shape ax p (Q2R c) (QR dxs) (QR x) (QR acc).
Proof.
  induction dxs as [|dx dxs IH]; intros ax x acc Hd; [reflexivity|].
  cbn [laplacian_from map]. rewrite IH by exact (Forall_inv_tail Hd). f_equal.
  rewrite vsub_transfer, vadd_transfer, !pderiv_transfer by (apply sq_nz; exact (Forall_inv Hd)).
  rewrite Q2R_nmul. reflexivity.
Qed.
Lemma map_repeat_Q2R n : QR (repeat nzero n) = repeat nzero n.
Proof. induction n as [|n IH]; cbn [repeat map]; [reflexivity|]. rewrite IH, Q2R_nzero. reflexivity. Qed.
Lemma laplacian_transfer shape p (c : Q) (dxs x : list Q) : nzs dxs ->
  QR (laplacian shape p c dxs x) = laplacian shape p (Q2R c) (QR dxs) (QR x).
Proof.
  intros Hd. unfold laplacian. rewrite laplacian_from_transfer by exact Hd.
  rewrite map_repeat_Q2R, map_length. reflexivity.
Qed.

Lemma nd_transfer_all :
  forall (shape : list nat) (m : meth) (p : pmode) (c : Q) (dxs x : list Q) (xs : list (list Q)) (ax : nat),
  nzs dxs -> ~ (nth ax dxs 1 == 0)%Q ->
  QR (pderiv shape ax m p c (nth ax dxs 1) x) =
    pderiv shape ax m p (Q2R c) (Q2R (nth ax dxs 1)) (QR x) /\
  map QR (gradient shape m p c dxs x) = gradient shape m p (Q2R c) (QR dxs) (QR x) /\
  QR (divergence shape m p c dxs xs) = divergence shape m p (Q2R c) (QR dxs) (map QR xs) /\
  QR (laplacian shape p c dxs x) = laplacian shape p (Q2R c) (QR dxs) (QR x).
Proof.
  intros shape m p c dxs x xs ax Hd Hax. repeat split.
  - apply pderiv_transfer; exact Hax.
  - apply gradient_transfer; exact Hd.
  - apply divergence_transfer; exact Hd.
  - apply laplacian_transfer; exact Hd.
Qed.
