(* C13/Model.v -- interpreter of the generated finite-difference tables
   (executable definitions only; proofs are in C13/Proofs.v). *)
From Coq Require Import ZArith QArith List Bool.
From Verif Require Import Base.Num Base.Vec C13.Syntax Gen.FiniteDiff.
Import ListNotations.
Local Open Scope num_scope.

Section Model.
Context {T : Type} `{Num T}.

Definition resolve (n : nat) (i : idx) : nat :=
  match i with Lo k => k | Hi k => (n - k)%nat end.
Definition get (f : list T) (i : idx) : T := nth (resolve (length f) i) f nzero.
Definition in_range (n : nat) (i : idx) : bool :=
  match i with Lo k => (k <? n)%nat | Hi k => ((1 <=? k) && (k <=? n))%nat end.

Fixpoint eval (e : ex) (c : T) (f : list T) : T :=
  match e with
  | EF i => get f i
  | EPad => c
  | EK k => of_Q k
  | EAdd a b => eval a c f + eval b c f
  | ESub a b => eval a c f - eval b c f
  | EMul a b => eval a c f * eval b c f
  | EDiv a b => eval a c f / eval b c f
  | ENeg a => - eval a c f
  end.

Fixpoint ex_in_range (n : nat) (e : ex) : bool :=
  match e with
  | EF i => in_range n i
  | EPad | EK _ => true
  | EAdd a b | ESub a b | EMul a b | EDiv a b => ex_in_range n a && ex_in_range n b
  | ENeg a => ex_in_range n a
  end.

(* window pick: offset -1, 0, +1 around the centre b *)
Definition pick (o : Z) (a b c : T) : T :=
  if (o =? -1)%Z then a else if (o =? 0)%Z then b else c.
Definition row (it : inter) (a b c : T) : T :=
  let d := pick (i_o1 it) a b c - pick (i_o2 it) a b c in
  match i_div it with Some k => d / of_Q k | None => d end.

(* rows 1 .. n-2 *)
Fixpoint interior (it : inter) (f : list T) : list T :=
  match f with
  | a :: ((b :: c :: _) as f') => row it a b c :: interior it f'
  | _ => []
  end.

Fixpoint upd (i : nat) (g : T -> T) (l : list T) : list T :=
  match l, i with
  | [], _ => []
  | a :: l', O => g a :: l'
  | a :: l', S i' => a :: upd i' g l'
  end.

Definition apply_corr (c : T) (f : list T) (out : list T) (s : bool * idx * ex) : list T :=
  let '(plus, i, e) := s in
  let v := eval e c f in
  upd (resolve (length f) i) (fun o => if plus then o + v else o - v) out.

(* before the final division by dx *)
Definition fd_raw (m : meth) (p : pmode) (c : T) (f : list T) : list T :=
  let b := boundary_tab p m in
  fold_left (apply_corr c f) (b_corr b)
    (eval (b_first b) c f :: interior (interior_tab m) f ++ [eval (b_last b) c f]).

Definition fd (m : meth) (p : pmode) (c dx : T) (f : list T) : list T :=
  map (fun o => o / dx) (fd_raw m p c f).

(* which inputs the code rejects: ValueError (size) / IndexError (subscript) *)
Inductive outcome := Ok (r : list T) | ValueErr | IndexErr.
Definition bnd_in_range (n : nat) (b : bnd) : bool :=
  ex_in_range n (b_first b) && ex_in_range n (b_last b) &&
  forallb (fun s : bool * idx * ex => let '(_, i, e) := s in in_range n i && ex_in_range n e) (b_corr b).
Definition fd_checked (m : meth) (p : pmode) (c dx : T) (f : list T) : outcome :=
  if (length f <? min_size p)%nat then ValueErr
  else if negb (bnd_in_range (length f) (boundary_tab p m)) then IndexErr
  else Ok (fd m p c dx f).

(* ---- reference: textbook stencil on the extended array (base modes) ----
   [ext p c f j] is the value of the extension of f at position j-1, for
   j = 0 .. n+1 (one cell beyond either end is all a 3-point stencil needs). *)
Definition left_ext (p : pmode) (c : T) (f : list T) : T :=
  match p with
  | PConstant => c
  | PSymmetric | POrder0 => get f (Lo 0)
  | PPeriodic => get f (Hi 1)
  | POrder1 => of_Z 2 * get f (Lo 0) - get f (Lo 1)
  | POrder2 => of_Z 3 * get f (Lo 0) - of_Z 3 * get f (Lo 1) + get f (Lo 2)
  | _ => nzero
  end.
Definition right_ext (p : pmode) (c : T) (f : list T) : T :=
  match p with
  | PConstant => c
  | PSymmetric | POrder0 => get f (Hi 1)
  | PPeriodic => get f (Lo 0)
  | POrder1 => of_Z 2 * get f (Hi 1) - get f (Hi 2)
  | POrder2 => of_Z 3 * get f (Hi 1) - of_Z 3 * get f (Hi 2) + get f (Hi 3)
  | _ => nzero
  end.
Definition ext (p : pmode) (c : T) (f : list T) (j : nat) : T :=
  match j with
  | O => left_ext p c f
  | S k => if (k <? length f)%nat then nth k f nzero else right_ext p c f
  end.
(* row i of the textbook scheme reads positions i-1, i, i+1 = ext j for j = i, i+1, i+2 *)
Definition stencil (m : meth) (e : nat -> T) (i : nat) : T :=
  match m with
  | Central => (e (S (S i)) - e i) / of_Z 2
  | Forward => e (S (S i)) - e (S i)
  | Backward => e (S i) - e i
  end.
Definition fd_ref (m : meth) (p : pmode) (c dx : T) (f : list T) : list T :=
  map (fun i => stencil m (ext p c f) i / dx) (seq 0 (length f)).
Definition is_base (p : pmode) : bool :=
  match p with PConstant | PSymmetric | PPeriodic | POrder0 | POrder1 | POrder2 => true | _ => false end.
(* middle entries 1 .. n-2, by the same window recursion as [interior] *)
Fixpoint midl (f : list T) : list T :=
  match f with
  | _ :: ((b :: _ :: _) as f') => b :: midl f'
  | _ => []
  end.
End Model.
