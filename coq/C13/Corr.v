(* C13/Corr.v -- correspondence checkers (executed at Q by the shards). *)
From Coq Require Import ZArith QArith List Bool.
From Verif Require Import Base.Num Base.Vec Base.Check C13.Syntax Gen.FiniteDiff C13.Model.
Import ListNotations.

Inductive impl_out := IOk (r : list Q) | IValueErr | IIndexErr | IOtherErr.

Record case1 := { k_m : meth; k_p : pmode; k_c : Q; k_dx : Q; k_f : list Q; k_out : impl_out }.

Definition tol : Q := 1 # 1000000000000.

Definition check1 (k : case1) : bool :=
  match fd_checked (k_m k) (k_p k) (k_c k) (k_dx k) (k_f k), k_out k with
  | Ok r, IOk r' => Qsclose 0 tol r' r
  | ValueErr, IValueErr => true
  | IndexErr, IIndexErr => true
  | _, _ => false
  end.

(* ---- N-d operators ---- *)
From Verif Require Import Lib.Axis C13.ModelNd.
Inductive opk := OpPD (ax : nat) | OpGrad | OpDiv | OpLap.
Record caseN := { n_op : opk; n_shape : list nat; n_m : meth; n_p : pmode; n_c : Q; n_dxs : list Q;
                  n_x : list (list Q); n_out : list (list Q);
                  n_linear : bool; n_y : list (list Q); n_adj : list (list Q) }.

Definition hd0 (l : list (list Q)) : list Q := match l with a :: _ => a | [] => [] end.
(* diff_ops.py: every operator is flagged linear unless pad_mode == 'constant' and pad_const != 0
   (a pad constant given together with another mode is ignored) *)
Definition linear_flag (p : pmode) (c : Q) : bool :=
  match p with PConstant => Qeq_bool c 0 | _ => true end.
Definition checkN (k : caseN) : bool :=
  Bool.eqb (n_linear k) (linear_flag (n_p k) (n_c k)) &&
  let sh := n_shape k in let m := n_m k in let p := n_p k in let c := n_c k in let dxs := n_dxs k in
  match n_op k with
  | OpPD ax =>
      Qssclose 0 tol (n_out k) [pderiv sh ax m p c (nth ax dxs 1) (hd0 (n_x k))]
      && (negb (n_linear k) || Qssclose 0 tol (n_adj k) [pderiv_adjoint sh ax m p (nth ax dxs 1) (hd0 (n_y k))])
  | OpGrad =>
      Qssclose 0 tol (n_out k) (gradient sh m p c dxs (hd0 (n_x k)))
      && (negb (n_linear k) || Qssclose 0 tol (n_adj k) [gradient_adjoint sh m p dxs (n_y k)])
  | OpDiv =>
      Qssclose 0 tol (n_out k) [divergence sh m p c dxs (n_x k)]
      && (negb (n_linear k) || Qssclose 0 tol (n_adj k) (divergence_adjoint sh m p dxs (hd0 (n_y k))))
  | OpLap =>
      Qssclose 0 tol (n_out k) [laplacian sh p c dxs (hd0 (n_x k))]
      && (negb (n_linear k) || Qssclose 0 tol (n_adj k) [laplacian_adjoint sh p dxs (hd0 (n_y k))])
  end.
