(* C13/Corr.v -- correspondence checkers (executed at Q by the shards). *)
From Coq Require Import ZArith QArith List Bool.
From Verif Require Import Base.Num Base.Vec Base.Check C13.Syntax Gen.FiniteDiff C13.Model.
Import ListNotations.

Inductive impl_out := IOk (r : list Q) | IValueErr | IIndexErr | IOtherErr.

Record case1 := { k_m : meth; k_p : pmode; k_c : Q; k_dx : Q; k_f : list Q; k_out : impl_out }.

Definition tol : Q := 1 # 1000000000000.

Definition check1 (k : case1) : bool :=
  match fd_checked (k_m k) (k_p k) (k_c k) (k_dx k) (k_f k), k_out k with
  | Ok r, IOk r' => Qsclose 0 tol r' r
  | ValueErr, IValueErr => true
  | IndexErr, IIndexErr => true
  | _, _ => false
  end.
