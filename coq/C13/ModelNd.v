(* C13/ModelNd.v -- PartialDerivative / Gradient / Divergence / Laplacian on N-d
   arrays (flat C order), as the code composes finite_diff along axes. *)
From Coq Require Import ZArith QArith List Bool.
From Verif Require Import Base.Num Base.Vec Lib.Axis C13.Syntax Gen.FiniteDiff C13.Model.
Import ListNotations.
Local Open Scope num_scope.

Section Nd.
Context {T : Type} `{Num T}.

Definition pderiv (shape : list nat) (ax : nat) (m : meth) (p : pmode) (c dx : T) (x : list T) : list T :=
  along_axis shape ax (fd m p c dx) x.

(* Gradient._call: one partial derivative per axis, cell side per axis *)
Fixpoint gradient_from (shape : list nat) (ax : nat) (m : meth) (p : pmode) (c : T)
         (dxs : list T) (x : list T) : list (list T) :=
  match dxs with
  | [] => []
  | dx :: dxs' => pderiv shape ax m p c dx x :: gradient_from shape (S ax) m p c dxs' x
  end.
Definition gradient shape m p c dxs x := gradient_from shape 0 m p c dxs x.

(* Divergence._call: out = sum over axes of d/dx_axis of the axis-th component *)
Fixpoint divergence_from (shape : list nat) (ax : nat) (m : meth) (p : pmode) (c : T)
         (dxs : list T) (xs : list (list T)) (acc : option (list T)) : option (list T) :=
  match dxs, xs with
  | dx :: dxs', x :: xs' =>
      let d := pderiv shape ax m p c dx x in
      divergence_from shape (S ax) m p c dxs' xs'
        (Some (match acc with None => d | Some a => vadd a d end))
  | _, _ => acc
  end.
Definition divergence shape m p c dxs xs : list T :=
  match divergence_from shape 0 m p c dxs xs None with Some r => r | None => [] end.

(* Laplacian._call: out = 0; per axis: out += fd forward (dx^2); out -= fd backward (dx^2) *)
Fixpoint laplacian_from (shape : list nat) (ax : nat) (p : pmode) (c : T)
         (dxs : list T) (x : list T) (acc : list T) : list T :=
  match dxs with
  | [] => acc
  | dx :: dxs' =>
      let f := pderiv shape ax Forward p c (dx * dx) x in
      let b := pderiv shape ax Backward p c (dx * dx) x in
      laplacian_from shape (S ax) p c dxs' x (vsub (vadd acc f) b)
  end.
Definition laplacian shape p c dxs x : list T :=
  laplacian_from shape 0 p c dxs x (repeat nzero (length x)).

(* the operators returned as adjoints (diff_ops.py: *.adjoint) *)
Definition pderiv_adjoint shape ax m p dx (y : list T) : list T :=
  vopp (pderiv shape ax (adj_method m) (adj_padding p) nzero dx y).
Definition gradient_adjoint shape m p dxs (ys : list (list T)) : list T :=
  vopp (divergence shape (adj_method m) (adj_padding p) nzero dxs ys).
Definition divergence_adjoint shape m p dxs (y : list T) : list (list T) :=
  map vopp (gradient shape (adj_method m) (adj_padding p) nzero dxs y).
Definition laplacian_adjoint shape p dxs (y : list T) : list T := laplacian shape p nzero dxs y.
End Nd.
