(* C13/ProofsLap.v -- the Laplacian (sum over axes of forward minus backward
   differences with step dx^2) is self-adjoint for every shape, for the six
   padding modes the class accepts -- Laplacian.adjoint returns a Laplacian with
   the SAME pad_mode, so beyond the table-driven adjoint this needs
   lap(adj_padding p) = lap(p) entry by entry. *)
From Coq Require Import ZArith QArith Reals Lra Lia List Bool.
From Verif Require Import Base.Num Base.Vec Base.VecR Lib.Axis Lib.AxisR
  C13.Syntax Gen.FiniteDiff C13.Model C13.ModelNd C13.Proofs C13.ProofsNd.
Import ListNotations.
Local Open Scope R_scope.

Definition lap_mode (p : pmode) : bool :=
  match p with
  | PConstant | PSymmetric | PSymmetricAdjoint | PPeriodic | POrder0 | POrder0Adjoint => true
  | _ => false
  end.

Lemma lap_mode_in_range (p : pmode) (m : meth) (n : nat) :
  lap_mode p = true -> (2 <= n)%nat -> bnd_in_range n (boundary_tab p m) = true.
Proof.
  intros Hp Hn. assert (H1 : (1 <? n)%nat = true) by (apply Nat.ltb_lt; lia).
  assert (H0 : (0 <? n)%nat = true) by (apply Nat.ltb_lt; lia).
  assert (L1 : (1 <=? n)%nat = true) by (apply Nat.leb_le; lia).
  assert (L2 : (2 <=? n)%nat = true) by (apply Nat.leb_le; lia).
  destruct p; try discriminate Hp; destruct m; unfold bnd_in_range;
    cbn [boundary_tab b_first b_last b_corr ex_in_range in_range forallb];
    rewrite ?H1, ?H0, ?L1, ?L2; reflexivity.
Qed.

Lemma lap_mode_adj (p : pmode) : lap_mode p = true -> lap_mode (adj_padding p) = true.
Proof. destruct p; intros Hp; try discriminate Hp; reflexivity. Qed.

Lemma lap_axis_ok shape p m i : lap_mode p = true -> (2 <= nth i shape 0)%nat -> axis_ok shape m p i.
Proof.
  intros Hp H2. repeat split; [assumption | apply lap_mode_in_range; assumption |
    apply lap_mode_in_range; [apply lap_mode_adj; assumption | assumption]].
Qed.

(* ---- 1-d: forward minus backward is the same for a mode and its adjoint mode ---- *)
Definition lap1 (p : pmode) (d : R) (l : Rvec) : Rvec :=
  vmap2 Rminus (fd Forward p 0 d l) (fd Backward p 0 d l).

Lemma vmap2_ends (g : R -> R) (a a' z z' : R) (I J : Rvec) : length I = length J ->
  vmap2 Rminus (map g (a :: I ++ [z])) (map g (a' :: J ++ [z'])) =
  (g a - g a') :: vmap2 Rminus (map g I) (map g J) ++ [g z - g z'].
Proof.
  intros Hl. cbn [map vmap2]. f_equal. rewrite !map_app.
  rewrite (vmap2_app Rminus) by (rewrite !map_length; assumption). reflexivity.
Qed.

Lemma ends_eq (a b z w : R) (I : Rvec) : a = b -> z = w -> a :: I ++ [z] = b :: I ++ [w].
Proof. intros -> ->; reflexivity. Qed.

Lemma lap1_adj_eq (p : pmode) (d : R) (l : Rvec) : lap_mode p = true -> d <> 0 ->
  lap1 (adj_padding p) d l = lap1 p d l.
Proof.
  intros Hp Hd. unfold lap1, fd, fd_raw.
  assert (HIJ : length (interior (interior_tab Forward) l) = length (interior (interior_tab Backward) l))
    by (rewrite !interior_length; reflexivity).
  destruct p; try discriminate Hp; try reflexivity;
    cbn [adj_padding boundary_tab b_first b_last b_corr fold_left eval];
    rewrite !vmap2_ends by exact HIJ; apply ends_eq; ofq; field; exact Hd.
Qed.

(* ---- dot bookkeeping ---- *)
Lemma dot_vsub_r (x a d : Rvec) : length a = length d -> length a = length x ->
  dot x (vsub a d) = dot x a - dot x d.
Proof.
  revert a d; induction x as [|h x IH]; intros [|a0 a] [|d0 d] H1 H2; cbn in H1, H2; try congruence.
  - cbn; numR; lra.
  - unfold vsub in *. cbn [vmap2]. rewrite !dot_cons, IH by congruence. numR. lra.
Qed.
Lemma vsub_length (a d : Rvec) : length a = length d -> length (vsub a d) = length a.
Proof. intros; unfold vsub; apply vmap2_length; assumption. Qed.
Lemma dot_repeat0_r (x : Rvec) n : dot x (repeat 0 n) = 0.
Proof.
  revert n; induction x as [|h x IH]; intros [|n]; cbn [repeat]; rewrite ?dot_nil_l, ?dot_cons;
    try (cbn; numR; lra). rewrite IH; lra.
Qed.
Lemma vsub_is_vmap2 (a d : Rvec) : vsub a d = vmap2 Rminus a d.
Proof. reflexivity. Qed.

(* per-axis term of the Laplacian paired with x *)
Fixpoint sum_lap (shape : list nat) (ax : nat) (p : pmode) (dxs : Rvec) (y x : Rvec) : R :=
  match dxs with
  | [] => 0
  | dx :: dxs' =>
      dot x (pderiv shape ax Forward p 0 (dx * dx) y) - dot x (pderiv shape ax Backward p 0 (dx * dx) y)
      + sum_lap shape (S ax) p dxs' y x
  end.

Lemma laplacian_from_dot shape p : forall (dxs : Rvec) (ax : nat) (y acc x : Rvec),
  (ax + length dxs <= length shape)%nat ->
  (forall i, (ax <= i < ax + length dxs)%nat -> (2 <= nth i shape 0)%nat) ->
  length x = prodn shape -> length y = prodn shape -> length acc = prodn shape ->
  dot x (laplacian_from shape ax p 0 dxs y acc) = dot x acc + sum_lap shape ax p dxs y x.
Proof.
  induction dxs as [|dx dxs IH]; intros ax y acc x Hax H2 Hx Hy Hacc; cbn [length] in *;
    cbn [laplacian_from sum_lap]; [lra|].
  assert (HF : length (pderiv shape ax Forward p 0 (dx * dx) y) = prodn shape)
    by (apply pderiv_length; [lia | apply H2; lia | assumption]).
  assert (HB : length (pderiv shape ax Backward p 0 (dx * dx) y) = prodn shape)
    by (apply pderiv_length; [lia | apply H2; lia | assumption]).
  numR. rewrite IH; try assumption; try lia.
  - rewrite dot_vsub_r by (rewrite ?vadd_length; congruence).
    rewrite dot_vadd_r by congruence. lra.
  - intros i Hi; apply H2; lia.
  - rewrite vsub_length; rewrite vadd_length; congruence.
Qed.

Lemma fd_len_line m p c d (l : Rvec) n : (2 <= n)%nat -> length l = n -> length (fd m p c d l) = n.
Proof. intros H2 Hl. rewrite fd_length by lia. exact Hl. Qed.

(* N-d: forward minus backward along an axis, for a mode and its adjoint mode *)
Lemma pderiv_lap_adj_eq shape ax p d (y : Rvec) :
  (ax < length shape)%nat -> (2 <= nth ax shape 0)%nat -> lap_mode p = true -> d <> 0 ->
  length y = prodn shape ->
  vsub (pderiv shape ax Forward (adj_padding p) 0 d y) (pderiv shape ax Backward (adj_padding p) 0 d y) =
  vsub (pderiv shape ax Forward p 0 d y) (pderiv shape ax Backward p 0 d y).
Proof.
  intros Hax H2 Hp Hd Hy. unfold pderiv. rewrite !vsub_is_vmap2.
  rewrite <- !(along_axis_vmap2 Rminus shape ax) by
    (try assumption; intros l Hl; apply fd_len_line; assumption).
  apply along_axis_ext; try assumption.
  intros l Hl. exact (lap1_adj_eq p d l Hp Hd).
Qed.

Lemma sum_lap_sym shape p : forall (dxs : Rvec) (ax : nat) (x y : Rvec),
  lap_mode p = true -> (ax + length dxs <= length shape)%nat ->
  (forall i, (ax <= i < ax + length dxs)%nat -> (2 <= nth i shape 0)%nat) ->
  Forall (fun dx => dx <> 0) dxs ->
  length x = prodn shape -> length y = prodn shape ->
  sum_lap shape ax p dxs x y = sum_lap shape ax p dxs y x.
Proof.
  induction dxs as [|dx dxs IH]; intros ax x y Hp Hax H2 Hdx Hx Hy; cbn [length] in *;
    cbn [sum_lap]; [reflexivity|].
  inversion Hdx as [|? ? Hdx0 Hdxs]; subst.
  assert (Hd : dx * dx <> 0) by (apply Rmult_integral_contrapositive; split; assumption).
  assert (H2a : (2 <= nth ax shape 0)%nat) by (apply H2; lia).
  assert (Haxl : (ax < length shape)%nat) by lia.
  rewrite (IH (S ax) x y); try assumption; try lia; [ | intros i Hi; apply H2; lia ].
  f_equal.
  (* move both differences from x to y with the table adjoint ... *)
  rewrite (dot_comm y (pderiv shape ax Forward p 0 (dx * dx) x)).
  rewrite (dot_comm y (pderiv shape ax Backward p 0 (dx * dx) x)).
  rewrite (pderiv_adjoint_nd shape ax Forward p (dx * dx) x y); try assumption;
    [ | apply lap_axis_ok; assumption ].
  rewrite (pderiv_adjoint_nd shape ax Backward p (dx * dx) x y); try assumption;
    [ | apply lap_axis_ok; assumption ].
  cbn [adj_method].
  (* ... and the adjoint mode computes the same forward-minus-backward *)
  pose proof (pderiv_lap_adj_eq shape ax p (dx * dx) y Haxl H2a Hp Hd Hy) as E.
  apply (f_equal (dot x)) in E.
  rewrite !dot_vsub_r in E by (rewrite ?pderiv_length; try assumption; congruence).
  lra.
Qed.

Lemma laplacian_selfadjoint_nd shape p (dxs x y : Rvec) :
  lap_mode p = true -> length dxs = length shape ->
  (forall i, (i < length shape)%nat -> (2 <= nth i shape 0)%nat) ->
  Forall (fun dx => dx <> 0) dxs ->
  length x = prodn shape -> length y = prodn shape ->
  dot (laplacian shape p 0 dxs x) y = dot x (laplacian_adjoint shape p dxs y).
Proof.
  intros Hp Hd H2 Hdx Hx Hy. unfold laplacian_adjoint, laplacian. numR.
  rewrite dot_comm.
  rewrite !laplacian_from_dot; try assumption; try lia; try (rewrite repeat_length; assumption);
    try (intros i Hi; apply H2; lia).
  rewrite !dot_repeat0_r.
  rewrite (sum_lap_sym shape p dxs 0 x y); try assumption; try lia; [lra | intros i Hi; apply H2; lia].
Qed.
