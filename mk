#!/bin/sh
# ./mk [targets]  -- refresh _CoqProject/Makefile, then make (full .vo)
cd "$(dirname "$0")"
/venv/bin/python -c "
import sys; sys.path.insert(0,'.')
from harness import common as C; C.ensure_makefile()" 2>/dev/null
cd coq && timeout ${MK_TIMEOUT:-1200} make -j16 "$@" 2>&1 | grep -v "^COQC\|^COQDEP\|^CLEAN\|auto_activate"
