"""C02 inner product / norm / dist: correspondence + probes.

The Coq model (coq/C02/Model.v) is hand-written; it is tied to /repo on every
run by running model (at Q, inside Coq) and implementation on the same spaces
and elements.  No translator (nothing table-like in the anchored code)."""
import itertools
import math
from fractions import Fraction

import numpy as np

from . import common as C

PID = 'C02'
SHARD_SIZE = 150
INF = float('inf')

RULE = ('random space trees: leaves = tensor spaces (0-3 axes incl. shape (), sizes 0..6 and the regimes '
        '99/100/101/4999/50000/50001/60000 from a closed form known to both sides, float64/float32/int64 (non-BLAS '
        'branch), C- and F-ordered data, array weights also with negative entries for p in {2, inf}) or uniform '
        'discretizations (1-3 axes, 1..7 points per axis, every nodes_on_bdry choice per axis side, also explicit '
        'partitions with boundary fractions 0.5..2), each with weighting none/constant/array and exponent '
        '1/2/inf/3/4; inner nodes = product spaces (arity 0..3, depth <= 3, weighting none/constant/array, exponent '
        '1/2/inf/3, power spaces, one dtype per tree); operations inner/norm/dist on small-integer data incl. all-zero, '
        'all-one and Pythagorean vectors; complex leaves as (re, im); 1-d partitions for n = 1..257 x all boundary '
        'flags; N-d cell volume / extent / boundary weight array against apply_on_boundary.  Excluded (probed as '
        'findings instead): 0-d dist, mixed dtypes in one tree, int x array weighting x finite p != 2, inputs where '
        'float rounding flips the exact test cell_volume == 1.0 or sits on the isclose band edge.  A case is '
        'non-trivial when the data are not identically zero; distinct by (space description, op, data).')
ASSUMPTIONS = [
    'exact real arithmetic: rounding of float sums, BLAS nrm2/dot accuracy and float32 accumulation are outside '
    'the theorems; the implementation is compared with the exact model up to rtol 1e-10 (float32: 1e-5)',
    'generic exponents are natural numbers p >= 1 in the model (non-integer p such as 1.5 / 2.5 only probed)',
    'weights are positive (the code does not check array weights); fractions inside the np.isclose band of 1 '
    'are snapped to 1 by the code and by the model',
    'norms only: the Q instance of the p-th root (exact on perfect powers, else floor approximations to 2^-64) '
    'approximates the real root used by the theorems (for inner products the Q instance is PROVED to be the '
    'rational restriction of the R instance: C02/Transfer.v)',
    'custom inner/norm/dist callables are pass-through (delegation probed, nothing to prove)']
TRUSTED = [
    'C02/Model.v: apply_on_boundary(only_once=False) modelled as entry-wise product with the outer product of '
    'per-axis vectors; NumPy ravel order modelled as irrelevant (sums are order-free; proved: permutation '
    'invariance); np.linalg.norm / np.dot / BLAS nrm2 as their textbook formulas',
    'harness/c02.py case generators and the measured finding switches (quirks)']

EXPOS = [1, 2, INF, 3, 4]


def translate():
    from translate import weighting as W
    return {'Gen/Weighting.v': W.translate()}


# ------------------------------------------------------------------ literals
def nat(n):
    return '%d%%nat' % int(n)


def expo(p):
    return 'PInf' if p == INF else '(PFin %s)' % nat(int(p))


def qlist(arr):
    return C.qs([x for x in np.asarray(arr).real.astype(float).ravel().tolist()])


def impl_call(f):
    try:
        v = f()
    except NotImplementedError:
        return 'INotImpl', None
    except ValueError:
        return 'IValueErr', None
    except IndexError:
        return 'IIndexErr', None
    except Exception as e:
        if type(e).__name__ == 'error':      # scipy.linalg.blas (_fblas.error)
            return 'IBlasErr', None
        return 'IOtherErr', None
    if isinstance(v, complex) or isinstance(v, np.complexfloating):
        v = complex(v)
        if not (math.isfinite(v.real) and math.isfinite(v.imag)):
            return 'IOtherErr', None
        return '(IVal %s)' % C.q(v.real), v
    v = float(v)
    if not math.isfinite(v):
        return 'IOtherErr', None
    return '(IVal %s)' % C.q(v), v


def _pysrc(v):
    if isinstance(v, np.ndarray):
        return 'np.array(%r, dtype=%r).reshape(%r)' % (v.ravel().tolist(), str(v.dtype), tuple(v.shape))
    if isinstance(v, float) and v == INF:
        return "float('inf')"
    return repr(v)


def _kwsrc(kw):
    return ', '.join('%s=%s' % (k, _pysrc(v)) for k, v in sorted(kw.items()))


_QUIRKS = None


def quirks():
    """Measure, on each open finding's own replay input, which variant the code exhibits."""
    global _QUIRKS
    if _QUIRKS is not None:
        return _QUIRKS
    import odl

    def raises(f, *exc):
        try:
            f()
        except Exception as e:
            return (not exc) or isinstance(e, exc) or type(e).__name__ in [getattr(x, '__name__', x) for x in exc]
        return False
    q = {}
    try:
        v = odl.uniform_discr(0, 2, 3, nodes_on_bdry=True).one().norm() ** 2
        q['q_unweighted_skips'] = abs(v - 3.0) < 1e-9
    except Exception:
        q['q_unweighted_skips'] = True
    q['q_ps2_via_inner'] = raises(lambda: odl.ProductSpace(odl.rn(3, exponent=1), 2).one().norm(),
                                  NotImplementedError)
    _QUIRKS = q
    return q


def quirks_term():
    """The model's two variant switches are read off the regenerated code (C02/GenTie.v: gen_quirks);
    a probe checks that they agree with the measured behaviour."""
    return 'gen_quirks'


# ------------------------------------------------------------- space trees
class Node(object):
    """A space together with its Coq description and an element generator."""
    space = None        # odl space
    coq = None          # Gallina term of type @space Q
    desc = None         # json description

    def rand_c(self, rng):
        """complex leaf element -> (odl element, Gallina re tree, Gallina im tree); never real"""
        re = _rand_arr(rng, self.shape, 'int')
        im = _rand_arr(rng, self.shape, 'int')
        if not np.any(im):
            im.flat[0] = float(rng.choice([1, -2, 3]))
        el = self.space.element(re + 1j * im)
        return el, '(ELeaf %s)' % qlist(re), '(ELeaf %s)' % qlist(im)

    def rand(self, rng, kind='int'):
        """-> (odl element, Gallina term of type @elem Q, is_nonzero)"""
        raise NotImplementedError


def _rand_arr(rng, shape, kind):
    n = int(np.prod(shape)) if len(shape) else 1
    if kind == 'zero':
        vals = [0.0] * n
    elif kind == 'one':
        vals = [1.0] * n
    elif kind == 'pyth':    # entries from {0, +-3, +-4}: many rational 2-norms
        vals = [float(rng.choice([0, 3, -3, 4, -4, 0])) for _ in range(n)]
    else:
        vals = [float(rng.randint(-5, 5)) for _ in range(n)]
    return np.array(vals).reshape(shape)


class GenVec(object):
    """x[i] = ((a*i + b) mod m) - off : closed form known to both sides."""

    def __init__(self, rng, n, positive=False):
        self.n = n
        self.a = rng.choice([3, 5, 7, 11])
        self.b = rng.randint(0, 6)
        self.m = rng.choice([7, 11, 13])
        self.off = -1 if positive else self.m // 2

    def array(self):
        i = np.arange(self.n, dtype=np.int64)
        return ((self.a * i + self.b) % self.m - self.off).astype(float)

    def coq(self):
        return '(gen_vec %s %s %s %s %s)' % (C.z(self.n), C.z(self.a), C.z(self.b), C.z(self.m), C.z(self.off))


class TensorLeaf(Node):
    def __init__(self, rng, p, shape=None, wkind=None, dtype='float64', big=None):
        import odl
        self.p = p
        self.dtype = dtype
        self.big = big
        if big is not None:
            shape = (big,)
        elif shape is None:
            nd = rng.choice([1, 1, 2, 3])
            shape = tuple(rng.choice([1, 2, 3, 4, 5, 6]) for _ in range(nd))
        self.shape = shape
        n = int(np.prod(shape)) if len(shape) else 1
        wkind = wkind or rng.choice(['none', 'const', 'array'])
        self.wkind = wkind
        kw = {'exponent': p, 'dtype': dtype}
        if wkind == 'none':
            wq = 'LDefault'
        elif wkind == 'const':
            c = rng.choice([0.5, 2.0, 3.0, 0.25, 1.5, 1.0, 4.0, 9.0])
            kw['weighting'] = c
            wq = '(LConst %s)' % C.q(c)
        else:
            if big is not None:
                g = GenVec(rng, n, positive=True)
                w = g.array().astype('float32' if dtype == 'float32' else 'float64')
                wq = '(LArr %s)' % g.coq()
            else:
                menu = [1, 2, 3, 4, 0.5, 0.25] if wkind == 'array' else [1, -2, 3, -4, 0.5, -0.25]
                if dtype.startswith('int'):
                    menu = [1, 2, 3, 4]
                w = np.array([float(rng.choice(menu)) for _ in range(n)]).reshape(shape)
                w = w.astype(dtype if dtype in ('float32', 'int64', 'int32') else 'float64')
                wq = '(LArr %s)' % qlist(w)
            kw['weighting'] = w
        self.space = odl.tensor_space(shape, **kw)
        self.src = 'odl.tensor_space(%r, %s)' % (tuple(shape), _kwsrc(kw))
        self.kw = kw
        self.coq = '(SLeaf (LTensor %s %s))' % (wq, expo(p))
        self.desc = {'kind': 'tensor', 'shape': list(shape), 'dtype': dtype, 'weighting': wkind,
                     'exponent': str(p)}
        self.rtol = 1e-5 if dtype == 'float32' else 1e-10

    def rand(self, rng, kind='int'):
        if self.big is not None:
            g = GenVec(rng, self.big)
            arr = g.array().astype(self.dtype)
            self.last_data, self.last_layout = None, 'C'      # closed form, too large to record
            return self.space.element(arr), '(ELeaf %s)' % g.coq(), True
        arr = _rand_arr(rng, self.shape, kind).astype(self.dtype)
        order = rng.choice(['C', 'F']) if len(self.shape) else 'C'
        el = self.space.element(np.asfortranarray(arr) if order == 'F' else arr, order=order)
        self.last_data, self.last_layout = arr.ravel().tolist(), order
        return el, '(ELeaf %s)' % qlist(arr), bool(np.any(arr))


def _axis(rng, allow_one=True):
    """(n, a, b, mode) with mode = ('flags', bl, br) or ('grid', g0, g1)."""
    n = rng.choice([1, 2, 2, 3, 3, 4, 5] if allow_one else [2, 3, 4, 5])
    a = float(rng.choice([0, 0, -1, 1, 0.5, -2]))
    L = float(rng.choice([1, 2, 3, 4, 0.5, 6, 1.5, 5]))
    return n, a, a + L


class DiscrLeaf(Node):
    def __init__(self, rng, p, wkind=None, dtype='float64', axes=None, free_fracs=None, ndim=None):
        import odl
        self.p = p
        self.dtype = dtype
        nd = ndim or rng.choice([1, 1, 2, 2, 3])
        free = rng.random() < 0.25 if free_fracs is None else free_fracs
        specs = []
        for _ in range(nd):
            n, a, b = _axis(rng)
            if free and n >= 2:
                # explicit partition: grid stride h, boundary fractions from a menu far from the isclose band
                h = (b - a) / n
                fl = rng.choice([0.5, 0.75, 1.0, 1.25, 1.5])
                fr = rng.choice([0.5, 0.75, 1.0, 1.25, 2.0])
                g0 = a + (fl - 0.5) * h
                g1 = g0 + (n - 1) * h
                b = g1 + (fr - 0.5) * h
                specs.append(('grid', n, a, b, g0, g1))
            else:
                bl, br = rng.random() < 0.5, rng.random() < 0.5
                specs.append(('flags', n, a, b, bl, br))
        if axes is not None:
            specs = axes
        self.specs = specs
        shape = tuple(s[1] for s in specs)
        self.shape = shape
        mins = [s[2] for s in specs]
        maxs = [s[3] for s in specs]
        wkind = wkind or rng.choice(['default', 'default', 'const', 'array'])
        self.wkind = wkind
        kw = {'exponent': p, 'dtype': dtype}
        n_tot = int(np.prod(shape))
        if wkind == 'default':
            wq = 'LDefault'
        elif wkind == 'const':
            c = rng.choice([0.5, 2.0, 3.0, 0.25, 1.0, 1.0])
            kw['weighting'] = c
            wq = '(LConst %s)' % C.q(c)
        else:
            menu = [1, 2, 3, 4] if dtype.startswith('int') else [1, 2, 3, 4, 0.5, 0.25]
            w = np.array([float(rng.choice(menu)) for _ in range(n_tot)]).reshape(shape)
            w = w.astype(dtype if dtype in ('float32', 'int64', 'int32') else 'float64')
            kw['weighting'] = w
            wq = '(LArr %s)' % qlist(w)
        if all(s[0] == 'flags' for s in specs):
            nob = [(s[4], s[5]) for s in specs]
            self.space = odl.uniform_discr(mins, maxs, shape, nodes_on_bdry=nob, **kw)
            self.src = 'odl.uniform_discr(%r, %r, %r, nodes_on_bdry=%r, %s)' % (mins, maxs, shape, nob, _kwsrc(kw))
        else:
            g0 = [s[4] if s[0] == 'grid' else None for s in specs]
            vecs = []
            for s in specs:
                if s[0] == 'grid':
                    vecs.append(np.linspace(s[4], s[5], s[1]))
                else:
                    part1 = odl.uniform_partition(s[2], s[3], s[1], nodes_on_bdry=[(s[4], s[5])])
                    vecs.append(part1.grid.coord_vectors[0])
            part = odl.RectPartition(odl.IntervalProd(mins, maxs), odl.RectGrid(*vecs))
            self.space = odl.uniform_discr_frompartition(part, **kw)
            self.src = ('odl.uniform_discr_frompartition(odl.RectPartition(odl.IntervalProd(%r, %r), '
                        'odl.RectGrid(*[np.array(v) for v in %r])), %s)'
                        % (mins, maxs, [v.tolist() for v in vecs], _kwsrc(kw)))
        self.kw = kw
        axq = []
        for s in specs:
            if s[0] == 'flags':
                axq.append('(mk_axis %s %s %s %s %s)' % (nat(s[1]), C.q(s[2]), C.q(s[3]), C.b(s[4]), C.b(s[5])))
            else:
                axq.append('{| ax_n := %s; ax_a := %s; ax_b := %s; ax_g0 := %s; ax_g1 := %s |}'
                           % (nat(s[1]), C.q(s[2]), C.q(s[3]), C.q(s[4]), C.q(s[5])))
        self.coq = '(SLeaf (LDiscr %s %s %s))' % (C.lst(axq), wq, expo(p))
        self.desc = {'kind': 'discr', 'axes': [list(map(str, s)) for s in specs], 'dtype': dtype,
                     'weighting': wkind, 'exponent': str(p)}
        self.rtol = 1e-5 if dtype == 'float32' else 1e-10

    def exact_volume(self):
        """Cell volume in exact rational arithmetic on the float inputs (what the model computes)."""
        vol = Fraction(1)
        for sp in self.specs:
            n, a, b = sp[1], Fraction(sp[2]), Fraction(sp[3])
            if n == 1:
                vol *= (b - a)
                continue
            if sp[0] == 'grid':
                g0, g1 = Fraction(sp[4]), Fraction(sp[5])
            else:
                bl, br = sp[4], sp[5]
                L = b - a
                if bl and br:
                    g0, g1 = a, b
                elif bl:
                    g0, g1 = a, b - L / (2 * n - 1)
                elif br:
                    g0, g1 = a + L / (2 * n - 1), b
                else:
                    g0, g1 = a + L / (2 * n), b - L / (2 * n)
            vol *= (g1 - g0) / (n - 1)
        return vol

    def fragile(self):
        """True when float rounding could flip one of the code's exact tests (cell volume == 1.0,
        isclose band edge): such cases are not generated."""
        sp = self.space
        cv = float(sp.cell_volume)
        w = sp.weighting
        c = getattr(w, 'const', None)
        if c is not None and c != 1.0 and abs(c - 1.0) < 1e-9:
            return True
        if c is not None and self.wkind == 'default' and (c == 1.0) != (self.exact_volume() == 1):
            return True
        for fl, fr in sp.partition.boundary_cell_fractions:
            for f in (fl, fr):
                if 5e-6 < abs(f - 1.0) < 2e-5:
                    return True
        return False

    def rand(self, rng, kind='int'):
        arr = _rand_arr(rng, self.shape, kind).astype(self.dtype)
        order = rng.choice(['C', 'F'])
        el = self.space.element(np.asfortranarray(arr) if order == 'F' else arr, order=order)
        self.last_data, self.last_layout = arr.ravel().tolist(), order
        return el, '(ELeaf %s)' % qlist(arr), bool(np.any(arr))


class ProdNode(Node):
    def __init__(self, rng, p, children, wkind=None, power=False):
        import odl
        self.p = p
        self.children = children
        k = len(children)
        wkind = wkind or rng.choice(['none', 'const', 'array'])
        if k == 0 and wkind == 'array':
            wkind = 'const'
        self.wkind = wkind
        kw = {'exponent': p}
        if wkind == 'none':
            wq = '(PWConst 1)'
        elif wkind == 'const':
            c = rng.choice([0.5, 2.0, 3.0, 0.25, 1.0, 4.0])
            kw['weighting'] = c
            wq = '(PWConst %s)' % C.q(c)
        else:
            w = [float(rng.choice([1, 2, 3, 4, 0.5, 0.25, 9])) for _ in range(k)]
            kw['weighting'] = w
            wq = '(PWArr %s)' % C.qs(w)
        if k == 0:
            kw['field'] = odl.RealNumbers()
            self.space = odl.ProductSpace(**kw)
            self.src = 'odl.ProductSpace(field=odl.RealNumbers(), %s)' % _kwsrc(
                {a: b for a, b in kw.items() if a != 'field'})
        elif power:
            self.space = odl.ProductSpace(children[0].space, k, **kw)
            self.src = 'odl.ProductSpace(%s, %d, %s)' % (children[0].src, k, _kwsrc(kw))
        else:
            self.space = odl.ProductSpace(*[c.space for c in children], **kw)
            self.src = 'odl.ProductSpace(%s, %s)' % (', '.join(c.src for c in children), _kwsrc(kw))
        self.kw = kw
        self.coq = '(SProd %s %s %s)' % (wq, expo(p), C.lst([c.coq for c in children]))
        self.desc = {'kind': 'prod', 'weighting': wkind, 'exponent': str(p), 'power': power,
                     'parts': [c.desc for c in children]}
        self.rtol = max([1e-10] + [c.rtol for c in children])

    def rand_c(self, rng):
        parts = [c.rand_c(rng) for c in self.children]
        el = self.space.element([pt[0] for pt in parts])
        return (el, '(ENode %s)' % C.lst([pt[1] for pt in parts]), '(ENode %s)' % C.lst([pt[2] for pt in parts]))

    def rand(self, rng, kind='int'):
        parts, datas, lays = [], [], []
        for c in self.children:
            parts.append(c.rand(rng, kind))
            datas.append(c.last_data)
            lays.append(c.last_layout)
        self.last_data = None if any(d is None for d in datas) else datas
        self.last_layout = lays
        el = self.space.element([pt[0] for pt in parts])
        return el, '(ENode %s)' % C.lst([pt[1] for pt in parts]), any(pt[2] for pt in parts)


def rand_leaf(rng, p, tier, dtype='float64'):
    if dtype == 'mixed':
        dtype = rng.choice(['float32', 'float64'])
    if rng.random() < 0.5:
        for _ in range(20):
            lf = DiscrLeaf(rng, p, dtype=dtype)
            if not lf.fragile():
                return lf
    return TensorLeaf(rng, p, dtype=dtype)


def rand_tree(rng, depth, tier, p=None, coherent=None, dtype=None):
    """coherent: probability that children take exponent 2 under an exponent-2 parent (so that inner exists).
    dtype: one dtype for the whole tree, or 'mixed' (float32 and float64 leaves in one tree; repaired by e2b9c08)."""
    p = p if p is not None else rng.choice(EXPOS)
    if dtype is None:
        dtype = rng.choice(['float32', 'mixed', 'mixed'] + ['float64'] * 12)
    if depth == 0:
        return rand_leaf(rng, p, tier, dtype)
    pp = rng.choice([1, 2, 2, 2, INF, 3])
    k = rng.choice([1, 2, 2, 3, 3])
    power = rng.random() < 0.25
    coh = 0.85 if coherent is None else coherent

    def child_p():
        if pp == 2 and rng.random() < coh:
            return 2
        return rng.choice(EXPOS)
    if power:
        ch = rand_tree(rng, rng.randint(0, depth - 1), tier, child_p(), coh, dtype)
        children = [ch] * k
    else:
        children = [rand_tree(rng, rng.randint(0, depth - 1), tier, child_p(), coh, dtype) for _ in range(k)]
    # array-weighted product over a mixed-dtype product component still raises AttributeError in inner
    # (finding pspace-array-nested-mixed-dtype-inner-raises, probed separately)
    wk = rng.choice(['none', 'const']) if dtype == 'mixed' else None
    return ProdNode(rng, pp, children, wkind=wk, power=power)


# --------------------------------------------------------- correspondence
def _add_ops(cs, rng, node, qt, nel, ops=('inner', 'norm', 'dist'), kinds=None):
    kinds = kinds or ['int', 'int', 'pyth', 'one', 'zero']
    for j in range(nel):
        kind = kinds[j % len(kinds)]
        x, xq, nzx = node.rand(rng, kind)
        xd, xl = node.last_data, node.last_layout
        y, yq, nzy = node.rand(rng, 'int' if kind != 'zero' else 'pyth')
        yd, yl = node.last_data, node.last_layout
        for op in ops:
            if op == 'inner':
                out, _ = impl_call(lambda: x.inner(y))
                opq = 'OInner'
            elif op == 'norm':
                out, _ = impl_call(lambda: x.norm())
                opq = 'ONorm'
            else:
                out, _ = impl_call(lambda: x.dist(y))
                opq = 'ODist'
            term = ('{| k_q := %s; k_s := %s; k_x := %s; k_y := %s; k_op := %s; k_out := %s; k_rtol := %s |}'
                    % (qt, node.coq, xq, yq, opq, out, C.q(Fraction(node.rtol).limit_denominator(10 ** 12))))
            desc = {'space': node.desc, 'op': op, 'x': xq[:200], 'y': yq[:200], 'impl': out,
                    'src': node.src, 'xd': xd, 'yd': yd, 'xlayout': xl, 'ylayout': yl}
            key = (C.digest(node.desc), op, C.digest([xq, yq])) if (nzx or nzy) else None
            cs.add(term, desc, key)


def sp_cases(rng, tier):
    cs = C.CaseSet('spaces', ['Base.Vec', 'C02.Model', 'C02.GenTie', 'C02.Corr'], 'check_sp', 'sp_case')
    qt = quirks_term()
    thorough = tier != 'quick'
    # (1) every leaf option: tensor x weighting x exponent x shapes incl. 0 / () ; dtype
    shapes = [(0,), (1,), (2,), (5,), (2, 3), (3, 1, 2), (2, 0), ()]
    for p, wk, shape in itertools.product(EXPOS, ['none', 'const', 'array'], shapes):
        if shape == () and wk == 'array':
            continue
        node = TensorLeaf(rng, p, shape=shape, wkind=wk)
        # shape (): x - y itself raises IndexError (_lincomb_impl indexes a 0-d array; arithmetic is C01's)
        _add_ops(cs, rng, node, qt, 2 if not thorough else 4, kinds=['int', 'pyth', 'one', 'zero'],
                 ops=('inner', 'norm') if shape == () else ('inner', 'norm', 'dist'))
    for p, wk in itertools.product(EXPOS, ['none', 'const', 'array']):
        node = TensorLeaf(rng, p, shape=(rng.randint(2, 6),), wkind=wk, dtype='float32')
        _add_ops(cs, rng, node, qt, 1, kinds=['int'])
    # non-BLAS dtype (np.linalg.norm branch of _norm_default): integer spaces, incl. size 0
    for p, wk, shape in itertools.product(EXPOS, ['none', 'const', 'array'], [(0,), (3,), (2, 2)]):
        node = TensorLeaf(rng, p, shape=shape, wkind=wk, dtype='int64')
        _add_ops(cs, rng, node, qt, 1, kinds=['int'])
    # array weights are not checked for positivity: negative entries reach the
    # 'norm_squared < 0 -> 0' compensation of ArrayWeighting.norm (exponent 2) and max(w|x|) (inf)
    for p in (2, 2, 2, INF, INF):
        node = TensorLeaf(rng, p, shape=(rng.randint(1, 5),), wkind='negarray')
        _add_ops(cs, rng, node, qt, 2, kinds=['int', 'pyth'], ops=('inner', 'norm', 'dist'))
    # (2) size regimes (BLAS thresholds 100 / 50000 of _lincomb, tensordot above 50000 in _inner_default)
    bigs = [99, 100, 101, 50001] if not thorough else [99, 100, 101, 4999, 50000, 50001, 60000]
    for n in bigs:
        for p, wk in ([(2, 'none'), (2, 'array'), (1, 'const'), (INF, 'array'), (3, 'const')] if not thorough
                      else itertools.product(EXPOS, ['none', 'const', 'array'])):
            node = TensorLeaf(rng, p, wkind=wk, big=n)
            _add_ops(cs, rng, node, qt, 1, kinds=['int'])
    # (3) discretized leaves: every (bl, br) per axis, 1..3 axes, weighting kinds, exponents
    flags = [(False, False), (True, False), (False, True), (True, True)]
    for p, wk in itertools.product(EXPOS, ['default', 'const', 'array']):
        for (bl, br) in flags:
            for n in ([1, 2, 3] if not thorough else [1, 2, 3, 4, 7]):
                a = float(rng.choice([0, -1, 0.5]))
                L = float(rng.choice([1, 2, 3, 0.5, 4, n, 2 * n - 1]))
                node = DiscrLeaf(rng, p, wkind=wk, axes=[('flags', n, a, a + L, bl, br)])
                if node.fragile():
                    continue
                _add_ops(cs, rng, node, qt, 1, kinds=['int', 'one'])
    # documented default weighting = cell volume for EVERY numeric dtype (integer and float32 spaces too)
    for dt, p, wk in itertools.product(['int64', 'int32', 'float32'], EXPOS, ['default', 'const', 'array']):
        for _ in range(1 if not thorough else 3):
            node = None
            for _try in range(30):
                cand = DiscrLeaf(rng, p, wkind=wk, dtype=dt)
                # integer dtype + boundary fractions: the scaled copy is truncated back to integers
                # (finding discr-int-dtype-bdry-scaling-truncates, probed separately)
                if not cand.fragile() and not (dt.startswith('int') and not cand.space.is_uniformly_weighted):
                    node = cand
                    break
            if node is not None:
                _add_ops(cs, rng, node, qt, 1, kinds=['int', 'one'])
    nrand = 60 if not thorough else 500
    made = 0
    while made < nrand:
        p = rng.choice(EXPOS)
        node = DiscrLeaf(rng, p)
        if node.fragile():
            continue
        made += 1
        _add_ops(cs, rng, node, qt, 2, kinds=['int', 'one'])
    # (4) product spaces: depth 1..3, mixed exponents, power spaces, empty product space
    for p in EXPOS:
        node = ProdNode(rng, p, [], wkind='const')
        _add_ops(cs, rng, node, qt, 1, kinds=['int'])
    ntree = 120 if not thorough else 1200
    for i in range(ntree):
        depth = rng.choice([1, 1, 2] if not thorough else [1, 2, 2, 3])
        node = rand_tree(rng, depth, tier)
        if not isinstance(node, ProdNode):
            continue
        _add_ops(cs, rng, node, qt, 1 if not thorough else 2, kinds=['int', 'pyth'])
    # the replay inputs of the recorded findings themselves
    import odl
    node = ProdNode(rng, 2, [TensorLeaf(rng, 1, shape=(3,), wkind='none')] * 2, wkind='none', power=True)
    _add_ops(cs, rng, node, qt, 1, kinds=['one'])
    node = DiscrLeaf(rng, 2, wkind='default', axes=[('flags', 3, 0.0, 2.0, True, True)])
    _add_ops(cs, rng, node, qt, 1, kinds=['one'])
    return cs


def complex_cases(rng, tier):
    cs = C.CaseSet('complex', ['Base.Vec', 'C02.Model', 'C02.GenTie', 'C02.Corr'], 'check_c', 'c_case')
    qt = quirks_term()
    n_each = 1 if tier == 'quick' else 4
    for p, wk, kind in itertools.product(EXPOS, ['none', 'const', 'array'], ['tensor', 'discr']):
        for _ in range(n_each):
            if kind == 'tensor':
                node = TensorLeaf(rng, p, wkind=wk, dtype='complex128')
            else:
                node = None
                for _t in range(20):
                    node = DiscrLeaf(rng, p, wkind=('default' if wk == 'none' else wk), dtype='complex128')
                    if not node.fragile():
                        break
            shape = node.shape
            xr, xi, yr, yi = [_rand_arr(rng, shape, 'int') for _ in range(4)]
            x = node.space.element(xr + 1j * xi)
            y = node.space.element(yr + 1j * yi)
            lf = node.coq[len('(SLeaf '):-1]
            for op, opq, f in (('inner', 'OInner', lambda: x.inner(y)), ('norm', 'ONorm', lambda: x.norm()),
                               ('dist', 'ODist', lambda: x.dist(y))):
                out, v = impl_call(f)
                im = v.imag if isinstance(v, complex) else 0.0
                term = ('{| c_q := %s; c_lf := %s; c_xr := %s; c_xi := %s; c_yr := %s; c_yi := %s; c_op := %s; '
                        'c_out := %s; c_out_im := %s |}'
                        % (qt, lf, qlist(xr), qlist(xi), qlist(yr), qlist(yi), opq, out, C.q(im)))
                cs.add(term, {'space': node.desc, 'op': op, 'impl': out},
                       (C.digest(node.desc), op, C.digest([qlist(xr), qlist(xi), qlist(yr), qlist(yi)])))
    # size regimes of _inner_default / _norm_default for complex data (closed form known to both sides)
    for n in ([99, 100, 101, 50001] if tier == 'quick' else [99, 100, 101, 4999, 50000, 50001, 60000]):
        for wk, p in ([('none', 2), ('const', 2), ('array', 2), ('array', 3)] if tier == 'quick'
                      else itertools.product(['none', 'const', 'array'], [2, 1, 3, INF])):
            node = TensorLeaf(rng, p, wkind=wk, dtype='complex128', big=n)
            gs = [GenVec(rng, n) for _ in range(4)]
            xr, xi, yr, yi = [g.array() for g in gs]
            x = node.space.element(xr + 1j * xi)
            y = node.space.element(yr + 1j * yi)
            lf = node.coq[len('(SLeaf '):-1]
            # inner only (root-free, linear time in Coq): <x,y> and <x,x>; norms of large complex arrays are
            # covered by complex_size_probes (a per-entry rational square root of 50001 moduli is too slow)
            for op, yy, gy in (('inner', y, (gs[2], gs[3])), ('inner-self', x, (gs[0], gs[1]))):
                out, v = impl_call(lambda: x.inner(yy))
                im = v.imag if isinstance(v, complex) else 0.0
                term = ('{| c_q := %s; c_lf := %s; c_xr := %s; c_xi := %s; c_yr := %s; c_yi := %s; c_op := OInner; '
                        'c_out := %s; c_out_im := %s |}'
                        % (qt, lf, gs[0].coq(), gs[1].coq(), gy[0].coq(), gy[1].coq(), out, C.q(im)))
                cs.add(term, {'space': node.desc, 'op': op, 'impl': out, 'size': n}, (C.digest(node.desc), op, n))
    return cs


def ctree_cases(rng, tier):
    """Complex spaces of any nesting: <x, y> itself (re and im) on non-real data, for default / constant /
    array product weightings at every level (the component inner products must be gathered as
    x1i.inner(x2i): the conjugate shows up in the imaginary part)."""
    cs = C.CaseSet('ctree', ['Base.Vec', 'C02.Model', 'C02.GenTie', 'C02.Corr'], 'check_ct', 'ct_case')
    qt = quirks_term()
    thorough = tier != 'quick'
    CD = 'complex128'

    def leaf(p=2):
        if rng.random() < 0.35:
            for _ in range(20):
                lf = DiscrLeaf(rng, p, dtype=CD)
                if not lf.fragile():
                    return lf
        return TensorLeaf(rng, p, dtype=CD)

    nodes = []
    for wk in ('none', 'const', 'array'):
        for rep in range(2 if not thorough else 6):
            k = rng.randint(1, 3)
            nodes.append(ProdNode(rng, 2, [leaf() for _ in range(k)], wkind=wk))                 # flat
            nodes.append(ProdNode(rng, 2, [TensorLeaf(rng, 2, dtype=CD)] * rng.randint(2, 3), wkind=wk, power=True))
            for wk_in in ('none', 'const', 'array'):                                             # nested
                inner = ProdNode(rng, 2, [leaf() for _ in range(rng.randint(1, 3))], wkind=wk_in)
                nodes.append(ProdNode(rng, 2, [inner] + [leaf() for _ in range(rng.randint(0, 2))], wkind=wk))
            # depth 3, array weights in the middle
            mid = ProdNode(rng, 2, [ProdNode(rng, 2, [leaf(), leaf()], wkind=rng.choice(['array', 'const'])), leaf()],
                           wkind='array')
            nodes.append(ProdNode(rng, 2, [mid, leaf()], wkind=wk))
        # no inner product: some exponent != 2 on the way (NotImplementedError, first failing component wins)
        nodes.append(ProdNode(rng, rng.choice([1, INF, 3]), [leaf()], wkind=wk))
        nodes.append(ProdNode(rng, 2, [leaf(), leaf(rng.choice([1, INF, 3]))], wkind=wk))
    for _ in range(30 if not thorough else 300):
        nd = rand_tree(rng, rng.choice([1, 2, 2, 3]), tier, p=2, coherent=0.92, dtype=CD)
        if isinstance(nd, ProdNode):
            nodes.append(nd)
    for _ in range(20 if not thorough else 200):       # mixed exponents: norm / dist of complex product spaces
        nd = rand_tree(rng, rng.choice([1, 2]), tier, dtype=CD)
        if isinstance(nd, ProdNode):
            nodes.append(nd)
    for node in nodes:
        for _ in range(1 if not thorough else 2):
            x, xr, xi = node.rand_c(rng)
            y, yr, yi = node.rand_c(rng)
            for op, opq, f in (('inner', 'OInner', lambda: x.inner(y)), ('norm', 'ONorm', lambda: x.norm()),
                               ('dist', 'ODist', lambda: x.dist(y))):
                out, v = impl_call(f)
                im = v.imag if isinstance(v, complex) else 0.0
                term = ('{| t_q := %s; t_s := %s; t_xr := %s; t_xi := %s; t_yr := %s; t_yi := %s; t_op := %s; '
                        't_out := %s; t_out_im := %s |}' % (qt, node.coq, xr, xi, yr, yi, opq, out, C.q(im)))
                cs.add(term, {'space': node.desc, 'op': op, 'impl': out, 'im': im, 'src': node.src},
                       (C.digest(node.desc), op, C.digest([xr, xi, yr, yi])))
    return cs


def partition_cases(rng, tier):
    import odl
    cs = C.CaseSet('partition', ['Base.Vec', 'C02.Model', 'C02.GenTie', 'C02.Corr'], 'check_p', 'p_case')
    ns = list(range(1, 9)) + [16, 33] if tier == 'quick' else list(range(1, 21)) + [33, 64, 100, 257]
    for n in ns:
        for bl, br in itertools.product([False, True], repeat=2):
            for _ in range(1 if tier == 'quick' else 3):
                a = float(rng.choice([0, -1, 0.5, 2, -3]))
                L = float(rng.choice([1, 2, 3, 0.5, 7, n, 2 * n - 1, 2 * n]))
                part = odl.uniform_partition(a, a + L, n, nodes_on_bdry=[(bl, br)])
                fl, fr = part.boundary_cell_fractions[0]
                term = ('{| p_n := %s; p_a := %s; p_b := %s; p_bl := %s; p_br := %s; p_g0 := %s; p_g1 := %s; '
                        'p_side := %s; p_fl := %s; p_fr := %s |}'
                        % (nat(n), C.q(a), C.q(a + L), C.b(bl), C.b(br), C.q(float(part.grid.min_pt[0])),
                           C.q(float(part.grid.max_pt[0])), C.q(float(part.cell_sides[0])), C.q(fl), C.q(fr)))
                cs.add(term, {'n': n, 'a': a, 'b': a + L, 'nodes_on_bdry': [bl, br]}, (n, a, L, bl, br))
    # N-d: cell volume, extent and the boundary weight array as applied to an array of ones
    cv = C.CaseSet('volume', ['Base.Vec', 'C02.Model', 'C02.GenTie', 'C02.Corr'], 'check_v', 'v_case')
    from odl.util.numerics import apply_on_boundary
    from odl.discr.discr_space import _scaling_func_list
    for _ in range(40 if tier == 'quick' else 300):
        node = DiscrLeaf(rng, 2, wkind='const')
        if node.fragile():
            continue
        sp = node.space
        fl = _scaling_func_list(sp.partition.boundary_cell_fractions, exponent=1.0)
        w = apply_on_boundary(np.ones(sp.shape), func=fl, only_once=False)
        axq = node.coq[len('(SLeaf (LDiscr '):]
        axq = axq[:axq.index('] ') + 1]
        term = ('{| v_axes := %s; v_vol := %s; v_ext := %s; v_w := %s |}'
                % (axq, C.q(float(sp.cell_volume)), C.q(float(np.prod(sp.partition.extent))), qlist(w)))
        cv.add(term, {'space': node.desc}, C.digest(node.desc))
    return [cs, cv]


def correspondence(rng, tier):
    return [sp_cases(rng, tier), complex_cases(rng, tier), ctree_cases(rng, tier)] + partition_cases(rng, tier)


# ------------------------------------------------------------------ probes
def mk_elem(space, data):
    """Element of `space` from nested python data (leaf: flat list in C order; product: list of parts)."""
    import odl
    if isinstance(space, odl.ProductSpace):
        return space.element([mk_elem(sp, d) for sp, d in zip(space.spaces, data)])
    return space.element(np.array(data, dtype=space.dtype).reshape(space.shape))


def rand_data(rng, space, cplx=False):
    import odl
    if isinstance(space, odl.ProductSpace):
        return [rand_data(rng, sp, cplx) for sp in space.spaces]
    n = int(np.prod(space.shape)) if len(space.shape) else 1
    if space.is_complex:
        return [complex(rng.randint(-4, 4), rng.randint(-4, 4)) for _ in range(n)]
    return [float(rng.randint(-5, 5)) for _ in range(n)]


def _frac_weights(space):
    """Independent oracle: outer product of the per-axis boundary-cell fraction vectors of a uniform
    partition, from grid points and domain limits only."""
    part = space.partition
    w = np.ones(())
    for vec, a, b in zip(part.grid.coord_vectors, part.min_pt, part.max_pt):
        n = len(vec)
        if n == 1:
            v = np.ones(1)
        else:
            h = (vec[-1] - vec[0]) / (n - 1)
            v = np.ones(n)
            v[0] = 0.5 + (vec[0] - a) / h
            v[-1] = 0.5 + (b - vec[-1]) / h
        w = np.multiply.outer(w, v)
    return w.reshape(space.shape)


def _leaf_w(space):
    """(weights array for finite p, weights array for p = inf) as documented."""
    import odl
    tsp = space.tspace if isinstance(space, odl.DiscretizedSpace) else space
    wt = tsp.weighting
    if hasattr(wt, 'const'):
        base = np.full(space.shape, wt.const)
    else:
        base = np.asarray(wt.array, dtype=float)
    if isinstance(space, odl.DiscretizedSpace):
        return base * _frac_weights(space), base
    return base, base


def oracle_inner(space, x, y):
    import odl
    if isinstance(space, odl.ProductSpace):
        wt = space.weighting
        w = [wt.const] * len(space) if hasattr(wt, 'const') else list(wt.array)
        return sum(wi * oracle_inner(sp, xi, yi) for wi, sp, xi, yi in zip(w, space.spaces, x, y))
    W, _ = _leaf_w(space)
    return np.sum(W * np.asarray(x) * np.conj(np.asarray(y)))


def oracle_norm(space, x):
    import odl
    p = space.exponent
    if isinstance(space, odl.ProductSpace):
        wt = space.weighting
        w = np.array([wt.const] * len(space) if hasattr(wt, 'const') else list(wt.array), dtype=float)
        n = np.array([oracle_norm(sp, xi) for sp, xi in zip(space.spaces, x)])
        if p == INF:
            return float(np.max(w * n))
        return float(np.sum(w * n ** p) ** (1.0 / p))
    W, Winf = _leaf_w(space)
    ax = np.abs(np.asarray(x))
    if p == INF:
        return float(np.max(Winf * ax))
    return float(np.sum(W * ax ** p) ** (1.0 / p))


def _walk(space):
    import odl
    yield space
    if isinstance(space, odl.ProductSpace):
        for sp in space.spaces:
            for t in _walk(sp):
                yield t


def known_key(space):
    """Key of the OPEN recorded finding whose trigger is present in this space tree (None if none).
    (Size-0 / 0-d tensors, empty and mixed-dtype product spaces are repaired: no key, a failure there
    is a violation.)"""
    import odl
    for sp in _walk(space):
        if isinstance(sp, odl.ProductSpace):
            if len(sp) and sp.exponent == 2.0 and any(c.exponent != 2.0 for c in sp.spaces):
                return 'pspace-exp2-over-exp1-components'
        elif isinstance(sp, odl.DiscretizedSpace):
            wt = sp.tspace.weighting
            fr = np.array(sp.partition.boundary_cell_fractions)
            if getattr(wt, 'const', None) == 1.0 and sp.exponent != INF and not np.allclose(fr, 1.0):
                return 'discr-unit-cell-volume-skips-bdry-fractions'
            if np.any((np.abs(fr - 1.0) <= 1.001e-5) & (fr != 1.0) & (np.abs(fr - 1.0) > 1e-12)):
                return 'discr-bdry-fraction-isclose-snap'
    return None


def _close(a, b, rel=1e-9):
    return abs(a - b) <= rel * max(1.0, abs(a), abs(b))


def check_space(space, xd, yd, zd, a):
    """Evaluate the property on one space and data; returns list of (prop, ok, detail)."""
    out = []
    x, y, z = mk_elem(space, xd), mk_elem(space, yd), mk_elem(space, zd)
    hilbert = all(sp.exponent == 2.0 for sp in _walk(space))

    def attempt(prop, f):
        try:
            ok, det = f()
        except Exception as e:        # a raised exception means the clause is not satisfied
            ok, det = False, '%s: %s' % (type(e).__name__, str(e)[:100])
        out.append((prop, bool(ok), det))
    if hilbert:
        attempt('sym', lambda: (_close(x.inner(y), np.conj(y.inner(x))), None))
        attempt('lin', lambda: (_close((a * x + y).inner(z), a * x.inner(z) + y.inner(z), 1e-8), None))
        # <x,x> real up to rounding of the boundary-fraction products (|Im| <= 1e-12 |Re|), >= 0, > 0 for x != 0
        attempt('pos', lambda: (abs(complex(x.inner(x)).imag) <= 1e-12 * abs(complex(x.inner(x)).real)
                                and complex(x.inner(x)).real >= 0 and
                                (complex(x.inner(x)).real > 0 or x == space.zero()), x.inner(x)))
        attempt('cs', lambda: (abs(x.inner(y)) ** 2 <= (x.inner(x) * y.inner(y)).real * (1 + 1e-9) + 1e-12, None))
        attempt('norm-inner', lambda: (_close(x.norm(), np.sqrt(complex(x.inner(x)).real)), (x.norm(), x.inner(x))))
        attempt('formula-inner', lambda: (_close(complex(x.inner(y)), complex(oracle_inner(space, x, y))),
                                          (x.inner(y), oracle_inner(space, x, y))))
    attempt('homog', lambda: (_close((a * x).norm(), abs(a) * x.norm()), None))
    attempt('triangle', lambda: ((x + y).norm() <= (x.norm() + y.norm()) * (1 + 1e-9) + 1e-12, None))
    attempt('formula-norm', lambda: (_close(x.norm(), oracle_norm(space, x)), (x.norm(), oracle_norm(space, x))))
    attempt('dist-norm', lambda: (_close(x.dist(y), (x - y).norm()), (x.dist(y),)))
    attempt('dist-sym', lambda: (_close(x.dist(y), y.dist(x)), None))
    attempt('dist-formula', lambda: (_close(x.dist(y), oracle_norm(space, x - y)), None))
    return out


def _kind(space):
    import odl
    wk = 'const' if hasattr(space.weighting, 'const') else 'array'
    p = space.exponent
    pc = 'pinf' if p == INF else ('p%d' % int(p) if p in (1.0, 2.0) else 'pgen')
    if isinstance(space, odl.ProductSpace):
        return 'pspace-%s-%s' % (wk, pc)
    if isinstance(space, odl.DiscretizedSpace):
        return 'discr-%s-%s' % (wk, pc)
    return 'tensor-%s-%s' % (wk, pc)


# ---------------------------------------------------------- memory layouts
LAYOUTS = ['C', 'F', 'Fwrap', 'T', 'strided']
_LAY_SRC = """def lay(a, layout):
    a = np.array(a)
    if a.ndim == 0 or layout == 'C':
        return np.ascontiguousarray(a)
    if layout in ('F', 'Fwrap'):
        return np.asfortranarray(a)
    if layout == 'T':
        return np.ascontiguousarray(a.T).T
    big = np.zeros(tuple(2 * n for n in a.shape), dtype=a.dtype)
    sl = tuple(slice(None, None, 2) for _ in a.shape)
    big[sl] = a
    return big[sl]
"""
exec(_LAY_SRC)


def mk_elem_layout(space, data, layout):
    """Element with the logical values `data` whose leaves wrap arrays of the given memory layout
    (C / F via order='F' / Fortran array wrapped as-is / transposed view / strided view)."""
    import odl
    if isinstance(space, odl.ProductSpace):
        lays = layout if isinstance(layout, (list, tuple)) else [layout] * len(space)
        return space.element([mk_elem_layout(sp, d, l) for sp, d, l in zip(space.spaces, data, lays)])
    arr = lay(np.array(data, dtype=space.dtype).reshape(space.shape), layout)   # noqa: F821
    return space.element(arr, order='F') if (layout == 'F' and arr.ndim) else space.element(arr)


def _dmap2(f, a, b):
    if isinstance(a, list) and a and isinstance(a[0], list):
        return [_dmap2(f, u, v) for u, v in zip(a, b)]
    return [f(u, v) for u, v in zip(a, b)]


def layout_check(space, xd, yd, k, xl, yl):
    """norm / dist / homogeneity of elements in the given memory layouts against the independent
    NumPy oracle evaluated on the logical (C-order) data.  -> list of (prop, ok, detail)"""
    out = []
    xc, yc = mk_elem(space, xd), mk_elem(space, yd)          # plain C-order copies for the oracle
    dc = mk_elem(space, _dmap2(lambda u, v: u - v, xd, yd))

    def attempt(prop, f):
        try:
            ok, det = f()
        except Exception as e:
            ok, det = False, '%s: %s' % (type(e).__name__, str(e)[:100])
        out.append((prop, bool(ok), det))
    x = mk_elem_layout(space, xd, xl)
    y = mk_elem_layout(space, yd, yl)
    attempt('norm', lambda: (_close(x.norm(), oracle_norm(space, xc)), (x.norm(), oracle_norm(space, xc))))
    attempt('dist', lambda: (_close(x.dist(y), oracle_norm(space, dc)), (x.dist(y), oracle_norm(space, dc))))
    attempt('homog', lambda: (_close((k * x).norm(), abs(k) * oracle_norm(space, xc)) and
                              _close((k * x).norm(), abs(k) * x.norm()),
                              ((k * x).norm(), abs(k) * x.norm(), abs(k) * oracle_norm(space, xc))))
    if all(sp.exponent == 2.0 for sp in _walk(space)):
        attempt('inner', lambda: (_close(complex(x.inner(y)), complex(oracle_inner(space, xc, yc))),
                                  (x.inner(y), oracle_inner(space, xc, yc))))
    return out


def _layout_replay(src, xd, yd, k, xl, yl, prop):
    return ("import numpy as np, odl, sys\nsys.path.insert(0, %r)\nfrom harness.c02 import layout_check\n"
            "space = %s\nres = layout_check(space, %r, %r, %r, %r, %r)\n"
            "observed = [r for r in res if r[0] == %r]\nok = all(r[1] for r in observed)\n"
            % (C.VERIF, src, xd, yd, k, xl, yl, prop))


def layout_probes(out, rng, tier):
    """2-d / 3-d spaces with non-constant per-entry ARRAY weights: elements in C order, F order
    (order='F' and wrapped Fortran arrays), transposed and strided views; exponents 1, 1.5, 2, 3, inf;
    weight array itself C- or F-ordered.  Replays are plain NumPy + odl."""
    import odl
    thorough = tier != 'quick'
    shapes = [(2, 3), (3, 4), (2, 3, 2)] if not thorough else [(2, 3), (3, 4), (4, 2), (2, 3, 2), (3, 2, 4)]
    for shape, p, worder in itertools.product(shapes, [1, 1.5, 2, 3, INF], ['C', 'F']):
        n = int(np.prod(shape))
        w = (np.arange(n, dtype=float) % 7 + 1.0).reshape(shape)         # non-constant, asymmetric
        a = np.array([float(rng.randint(-5, 5)) for _ in range(n)]).reshape(shape)
        b = np.array([float(rng.randint(-5, 5)) for _ in range(n)]).reshape(shape)
        if not np.any(a):
            a.flat[1] = 3.0
        k = rng.choice([-2.0, 0.5, 3.0])
        for xl in LAYOUTS:
            yl = rng.choice(LAYOUTS)
            psrc = "float('inf')" if p == INF else repr(float(p))
            head = ("import numpy as np, odl\n" + _LAY_SRC +
                    "shape = %r; p = %s\nw = np.array(%r).reshape(shape); a = np.array(%r).reshape(shape); "
                    "b = np.array(%r).reshape(shape); k = %r\n"
                    "sp = odl.tensor_space(shape, weighting=lay(w, %r), exponent=p)\n"
                    "x = sp.element(lay(a, %r)%s); y = sp.element(lay(b, %r)%s)\n"
                    "def ref(v):\n    v = np.abs(np.asarray(v))\n"
                    "    return float(np.max(w * v)) if p == float('inf') else float(np.sum(w * v ** p) ** (1.0 / p))\n"
                    % (shape, psrc, w.ravel().tolist(), a.ravel().tolist(), b.ravel().tolist(), k, worder,
                       xl, ", order='F'" if xl == 'F' else '', yl, ", order='F'" if yl == 'F' else ''))
            checks = {
                'norm': "observed = x.norm(); expected = ref(a)\nok = abs(observed - expected) <= 1e-9 * max(1, expected)\n",
                'dist': "observed = x.dist(y); expected = ref(a - b)\nok = abs(observed - expected) <= 1e-9 * max(1, expected)\n",
                'homog': "observed = (k * x).norm(); expected = abs(k) * ref(a)\n"
                         "ok = abs(observed - expected) <= 1e-9 * max(1, expected) and "
                         "abs(observed - abs(k) * x.norm()) <= 1e-9 * max(1, expected)\n"}
            pc = 'pinf' if p == INF else ('p%d' % int(p) if p in (1, 2) else 'pgen')
            for prop, chk in checks.items():
                env = {}
                try:
                    exec(head + chk, env)
                    ok = bool(env.get('ok'))
                except Exception as e:
                    ok = False
                    env['observed'] = repr(e)
                out.append(C.Probe(ok, 'tensor-array-%s-layout-%s-%s' % (pc, xl, prop),
                                   '%s of a %s-layout element (weights %s-ordered), shape %r, exponent %r, vs NumPy '
                                   'on the logical array' % (prop, xl, worder, shape, p), head + chk,
                                   (env.get('observed'), env.get('expected'))))
    # the same through discretized and product spaces (harness oracle)
    for _ in range(6 if not thorough else 40):
        p = rng.choice([1, 1.5, 3, INF, 2])
        kids = [TensorLeaf(rng, p, shape=rng.choice([(2, 3), (3, 2, 2)]), wkind='array'),
                DiscrLeaf(rng, p, wkind='array', ndim=2)]
        node = rng.choice([kids[0], kids[1], ProdNode(rng, rng.choice([1, INF, 3]), kids)])
        if any(isinstance(t, DiscrLeaf) and t.fragile() for t in kids):
            continue
        xd, yd = rand_data(rng, node.space), rand_data(rng, node.space)
        k = rng.choice([-2.0, 0.5, 3.0])
        for xl in LAYOUTS:
            yl = rng.choice(LAYOUTS)
            kk = known_key(node.space)
            for prop, ok, det in layout_check(node.space, xd, yd, k, xl, yl):
                key = '%s-layout-%s-%s' % (_kind(node.space), xl, prop)
                out.append(C.Probe(ok, kk if (not ok and kk) else key,
                                   '%s with %s-layout leaves on %s' % (prop, xl, node.src[:140]),
                                   _layout_replay(node.src, xd, yd, k, xl, yl, prop), det))


def size_probes(out, rng, tier):
    """Size regimes (99 / 100 / 101 / 50001 entries, 2-d 250 x 240): inner, norm, dist against NumPy on
    closed-form integer data; replays are plain NumPy + odl."""
    shapes = [(99,), (100,), (101,), (50001,), (250, 240)]
    for shape, wk, p in itertools.product(shapes, ['none', 'const', 'array'], [2, 1, 3, INF]):
        if tier == 'quick' and int(np.prod(shape)) > 1000 and (wk, p) not in (
                ('none', 2), ('const', 2), ('array', 2), ('array', 3), ('const', INF)):
            continue
        psrc = "float('inf')" if p == INF else repr(float(p))
        a, b, m = rng.choice([3, 5, 7]), rng.randint(0, 5), rng.choice([11, 13])
        head = ("import numpy as np, odl\nshape = %r; p = %s; n = int(np.prod(shape))\n"
                "i = np.arange(n)\nx = ((%d * i + %d) %% %d - %d).astype(float).reshape(shape)\n"
                "y = ((5 * i + 2) %% 7 - 3).astype(float).reshape(shape)\nw = ((3 * i) %% 5 + 1.0).reshape(shape)\n"
                "kind = %r\nkw = {} if kind == 'none' else ({'weighting': 2.5} if kind == 'const' else {'weighting': w})\n"
                "W = np.ones(shape) if kind == 'none' else (np.full(shape, 2.5) if kind == 'const' else w)\n"
                "sp = odl.rn(shape, exponent=p, **kw)\nX = sp.element(x); Y = sp.element(y)\n"
                "def ref(v):\n    v = np.abs(v)\n"
                "    return float(np.max(W * v)) if p == float('inf') else float(np.sum(W * v ** p) ** (1.0 / p))\n"
                "cl = lambda u, v: abs(u - v) <= 1e-9 * max(1.0, abs(v))\n"
                % (shape, psrc, a, b, m, m // 2, wk))
        checks = {'norm': "observed = X.norm(); expected = ref(x); ok = cl(observed, expected)\n",
                  'dist': "observed = X.dist(Y); expected = ref(x - y); ok = cl(observed, expected)\n"}
        if p == 2:
            checks['inner'] = "observed = X.inner(Y); expected = float(np.sum(W * x * y)); ok = cl(observed, expected)\n"
        for prop, chk in checks.items():
            env = {}
            try:
                exec(head + chk, env)
                ok = bool(env.get('ok'))
            except Exception as e:
                ok = False
                env['observed'] = repr(e)
            pc = 'pinf' if p == INF else ('p%d' % int(p) if p in (1, 2) else 'pgen')
            out.append(C.Probe(ok, 'tensor-%s-%s-size%d-%s' % (wk, pc, int(np.prod(shape)), prop),
                               '%s on rn(%r), weighting %s, exponent %r vs NumPy' % (prop, shape, wk, p),
                               head + chk, (env.get('observed'), env.get('expected'))))


def complex_size_probes(out, rng, tier):
    """Complex tensor / discretized / product spaces across the size regimes: <x,y> = sum w x conj(y)
    (re and im), conjugate symmetry, <x,x> real and positive, norm -- against NumPy on the whole array."""
    shapes = [(99,), (101,), (50001,), (300, 200)]
    for shape, wk in itertools.product(shapes, ['none', 'const', 'array', 'discr', 'pspace']):
        a, b = rng.choice([3, 5, 7]), rng.randint(0, 5)
        head = ("import numpy as np, odl\nshape = %r; n = int(np.prod(shape)); i = np.arange(n)\n"
                "x = (((%d * i + %d) %% 11 - 5) + 1j * ((7 * i + 1) %% 13 - 6)).reshape(shape)\n"
                "y = (((5 * i + 2) %% 7 - 3) + 1j * ((3 * i) %% 5 - 2)).reshape(shape)\n"
                "w = ((3 * i) %% 5 + 1.0).reshape(shape); kind = %r\n"
                "if kind == 'discr':\n"
                "    sp = odl.uniform_discr([0.0] * len(shape), [2.0] * len(shape), shape, dtype=complex, nodes_on_bdry=True)\n"
                "    fr = np.ones(()); \n"
                "    for m in shape:\n        v = np.ones(m); v[0] = v[-1] = 0.5; fr = np.multiply.outer(fr, v)\n"
                "    W = sp.cell_volume * fr.reshape(shape)\n"
                "elif kind == 'pspace':\n    sp = odl.ProductSpace(odl.cn(shape), odl.cn(3), weighting=[2.0, 3.0]); W = 2.0 * np.ones(shape)\n"
                "else:\n"
                "    kw = {} if kind == 'none' else ({'weighting': 2.5} if kind == 'const' else {'weighting': w})\n"
                "    sp = odl.cn(shape, **kw)\n"
                "    W = np.ones(shape) if kind == 'none' else (np.full(shape, 2.5) if kind == 'const' else w)\n"
                "extra = 0.0\n"
                "if kind == 'pspace':\n    X = sp.element([x, [1j, 2, 0]]); Y = sp.element([y, [1, 1j, 3]]); extra = 3.0 * (1j * 1 + 2 * np.conj(1j))\n"
                "    extra_xx = 3.0 * 5.0\n"
                "else:\n    X = sp.element(x); Y = sp.element(y); extra_xx = 0.0\n"
                "cl = lambda u, v: abs(u - v) <= 1e-9 * max(1.0, abs(v))\n"
                % (shape, a, b, wk))
        checks = {
            'inner': "observed = complex(X.inner(Y)); expected = complex(np.sum(W * x * np.conj(y)) + extra); ok = cl(observed, expected)\n",
            'conj-sym': "observed = complex(Y.inner(X)); expected = complex(np.conj(X.inner(Y))); ok = cl(observed, expected)\n",
            'pos': "observed = complex(X.inner(X)); expected = float(np.sum(W * np.abs(x) ** 2) + extra_xx)\n"
                   "ok = abs(observed.imag) <= 1e-9 * expected and cl(observed.real, expected)\n",
            'norm': "observed = X.norm(); expected = float(np.sqrt(np.sum(W * np.abs(x) ** 2) + extra_xx)); ok = cl(observed, expected)\n"}
        for prop, chk in checks.items():
            env = {}
            try:
                exec(head + chk, env)
                ok = bool(env.get('ok'))
            except Exception as e:
                ok = False
                env['observed'] = repr(e)
            out.append(C.Probe(ok, 'complex-%s-size%d-%s' % (wk, int(np.prod(shape)), prop),
                               '%s on a complex %s space with %r entries vs NumPy' % (prop, wk, shape), head + chk,
                               (env.get('observed'), env.get('expected'))))


def dtype_discr_probes(out, rng, tier):
    """Discretized spaces of every numeric dtype: the default weighting is the cell volume, so
    ||one||_p ** p = domain volume (p = 1, 2, 3), and inner/norm carry the cell volume."""
    for dt, p, nd in itertools.product(['int64', 'int32', 'float32', 'float64', 'complex128', 'complex64'],
                                       [1, 2, 3], [1, 2]):
        shape = tuple(rng.choice([2, 4, 5, 10]) for _ in range(nd))
        maxs = [float(rng.choice([1, 2, 3])) for _ in range(nd)]
        head = ("import numpy as np, odl\nsp = odl.uniform_discr(%r, %r, %r, dtype=%r, exponent=%r)\n"
                "vol = float(np.prod(sp.partition.extent)); cv = vol / sp.size\n"
                "tol = 1e-4 if sp.dtype in (np.dtype('float32'), np.dtype('complex64')) else 1e-9\n"
                % ([0.0] * nd, maxs, shape, dt, float(p)))
        checks = {'one-norm': "observed = sp.one().norm() ** %r; expected = vol; ok = abs(observed - expected) <= tol * expected\n" % float(p),
                  'weighting': "observed = getattr(sp.weighting, 'const', None); expected = cv\n"
                               "ok = observed is not None and abs(observed - expected) <= 1e-12 * expected\n"}
        if p == 2:
            checks['inner'] = ("x = sp.element(np.arange(sp.size).reshape(sp.shape) % 3)\n"
                               "observed = complex(x.inner(sp.one())).real; expected = cv * float(np.sum(np.arange(sp.size) % 3))\n"
                               "ok = abs(observed - expected) <= tol * max(1.0, expected)\n")
        for prop, chk in checks.items():
            env = {}
            try:
                exec(head + chk, env)
                ok = bool(env.get('ok'))
            except Exception as e:
                ok = False
                env['observed'] = repr(e)
            kk = None
            try:
                kk = known_key(env['sp']) if not ok else None
            except Exception:
                pass
            out.append(C.Probe(ok, kk or 'discr-default-%s-%s' % (dt, prop),
                               '%s of uniform_discr(dtype=%s, exponent=%r): default weighting is the cell volume'
                               % (prop, dt, p), head + chk, (env.get('observed'), env.get('expected'))))


# ------------------------------------------------ value range (wrap-around, overflow, underflow)
_RANGE_SRC = """import math
from fractions import Fraction
def froot(F, p):
    # p-th root of a non-negative Fraction without leaving the float range
    if F == 0:
        return 0.0
    lg = F.numerator.bit_length() - F.denominator.bit_length()
    k = lg // int(p)
    return math.ldexp(float(F / Fraction(2) ** (k * int(p))) ** (1.0 / p), k)
def exact_norm(vals, w, p):
    # documented (sum_i w_i |x_i|^p)^(1/p) resp. max_i w_i |x_i|, exact rational arithmetic on the values
    vals = [complex(v) for v in vals]
    if p == float('inf'):
        return max(float(Fraction(wi) * Fraction(max(abs(v.real), abs(v.imag)))) if v.real == 0 or v.imag == 0
                   else float(wi) * abs(v) for wi, v in zip(w, vals))
    if p == 2:
        S = sum(Fraction(wi) * (Fraction(v.real) ** 2 + Fraction(v.imag) ** 2) for wi, v in zip(w, vals))
    else:
        S = sum(Fraction(wi) * abs(Fraction(v.real)) ** int(p) for wi, v in zip(w, vals))   # real data for p != 2
    return froot(S, p)
def representable(F, single=False):
    # zero, or inside the normal range of the floating type (else the property cannot be evaluated in floats)
    F = abs(F)
    e = 120 if single else 1000
    return F == 0 or (Fraction(2) ** -e < F < Fraction(2) ** e)
def exact_inner(xv, yv, w, single=False):
    re = sum(Fraction(wi) * (Fraction(complex(a).real) * Fraction(complex(b).real)
                             + Fraction(complex(a).imag) * Fraction(complex(b).imag)) for wi, a, b in zip(w, xv, yv))
    im = sum(Fraction(wi) * (Fraction(complex(a).imag) * Fraction(complex(b).real)
                             - Fraction(complex(a).real) * Fraction(complex(b).imag)) for wi, a, b in zip(w, xv, yv))
    if not (representable(re, single) and representable(im, single)):
        return None
    # third entry: sum of |terms|, the scale against which accumulated rounding is measured
    sc = sum(Fraction(wi) * (abs(Fraction(complex(a).real)) + abs(Fraction(complex(a).imag)))
             * (abs(Fraction(complex(b).real)) + abs(Fraction(complex(b).imag))) for wi, a, b in zip(w, xv, yv))
    return float(re), float(im), (float(sc) if representable(sc, single) else max(abs(float(re)), abs(float(im))))
"""
exec(_RANGE_SRC)


def _range_key(dtype, prop, p, wk, kind):
    """open finding that explains a failure of this probe on today's code (None: a violation)"""
    if dtype.startswith(('int', 'uint')):
        if prop == 'inner' or (prop in ('norm', 'dist') and p == 2 and (wk == 'array' or kind == 'pspace')):
            return 'int-inner-wraps-in-dtype'              # np.dot / x * w in the integer dtype
        if wk == 'array' and p == INF and prop in ('norm', 'dist'):
            return 'int-array-weighting-pinf-wraps-in-dtype'   # xp *= w in the integer dtype
        if dtype == 'uint64' and prop == 'dist':
            return 'uint64-dist-lincomb-loses-range'       # x - y through float64 (arithmetic, C01)
        return None
    if p == 2 and (wk == 'array' or kind == 'pspace'):
        return 'norm-p2-via-inner-unscaled-overflow'       # sqrt(inner(x, x)): unscaled sum of squares
    if p not in (1, 2, INF):
        return 'norm-generic-p-unscaled-overflow'          # np.linalg.norm(ord=p) / sum(|x|^p)
    return None


def range_probes(out, rng, tier, only=None):
    """Entries near the limits of the dtype: integer dtypes int8..uint64 (squares exceed the dtype),
    float32/64 and complex64/128 scaled by 1e-25..1e25 / 1e-200..1e200; sizes in all three regimes of the
    implementation; exponents 1, 2, inf, 3; no / constant / array weighting; tensor, discretized and product
    spaces.  Oracle: exact rational arithmetic on the stored values."""
    thorough = tier != 'quick'
    fams = []
    for dt in ('int8', 'int16', 'int32', 'int64', 'uint8', 'uint16', 'uint32', 'uint64'):
        fams.append((dt, [None]))
    fams.append(('float64', [1e-200, 1e-160, 1e160, 1e200]))
    fams.append(('float32', [1e-25, 1e-20, 1e20, 1e25]))
    fams.append(('complex128', [1e-200, 1e200]))
    fams.append(('complex64', [1e-25, 1e25]))
    sizes = [3, 50, 200] if not thorough else [1, 3, 50, 99, 100, 200, 5000]
    if not thorough:
        fams = [(dt, ([None] if sc == [None] else [sc[0], sc[-1]])) for dt, sc in fams
                if dt in ('int8', 'int16', 'int64', 'uint8', 'uint64', 'float64', 'float32', 'complex128', 'complex64')]
    for dt, scales in fams:
        for scale in scales:
            for p, wk, kind in itertools.product([1, 2, INF, 3], ['none', 'const', 'array'],
                                                 ['tensor', 'discr', 'pspace']):
                if only is not None and not only(dt, p, wk, kind):
                    continue
                ns = list(sizes)
                if (wk, kind) == ('none', 'tensor') and ((p == 2 and dt in ('int8', 'float64')) or
                                                         (thorough and p in (1, 2))):
                    ns.append(60000)                                        # a few large cases
                if thorough and kind != 'tensor':
                    ns = [3, 99, 200]
                if not thorough and kind != 'tensor':
                    if dt not in ('int8', 'uint64', 'float64', 'complex128'):
                        continue
                    ns = [3, 200]
                if dt.startswith('complex') and p not in (2,):
                    continue                      # the exact oracle handles complex data for p = 2 only
                for n in ns:
                    psrc = "float('inf')" if p == INF else repr(float(p))
                    if scale is None:
                        vals = ("info = np.iinfo(dt); i = np.arange(n)\n"
                                "x = np.where(i % 3 == 0, info.max, np.where(i % 3 == 1, info.max // 2, "
                                "info.min + 2 if info.min < 0 else 7)).astype(dt)\n"
                                "y = (i % 2).astype(dt)\nwarr = (i % 3 + 1).astype(dt)\n")
                    else:
                        vals = ("i = np.arange(n); base = ((i %% 5) - 2).astype(float); base[0] = 3.0\n"
                                "x = (base * %r).astype(dt); y = (-(base[::-1]) * %r / 2).astype(dt)\n"
                                "if np.dtype(dt).kind == 'c':\n    x = (x * (1 + 1j)).astype(dt); y = (y * (2 - 1j)).astype(dt)\n"
                                "warr = (i %% 3 + 1).astype('float32' if dt in ('float32', 'complex64') else 'float64')\n"
                                % (scale, scale))
                    head = ("import numpy as np, odl, warnings\nwarnings.simplefilter('ignore')\n" + _RANGE_SRC +
                            "dt = %r; n = %d; p = %s; wk = %r; kind = %r\n" % (dt, n, psrc, wk, kind) + vals +
                            "kw = {} if wk == 'none' else ({'weighting': 2.0} if wk == 'const' else {'weighting': warr})\n"
                            "w = [1.0] * n if wk == 'none' else ([2.0] * n if wk == 'const' else [float(v) for v in warr])\n"
                            "if kind == 'discr':\n"
                            "    if wk == 'none':\n        kw = {}\n"
                            "    sp = odl.uniform_discr(0, 2, n, dtype=dt, exponent=p, **kw)\n"
                            "    w = ([1.0] * n if p == float('inf') else [2.0 / n] * n) if wk == 'none' else w\n    X = sp.element(x); Y = sp.element(y)\n"
                            "    xv, yv = x.tolist(), y.tolist()\n"
                            "elif kind == 'pspace':\n"
                            "    s1 = odl.tensor_space(n, dtype=dt, exponent=p, **kw)\n"
                            "    sp = odl.ProductSpace(s1, 2, exponent=p)\n"
                            "    X = sp.element([x, x[::-1].copy()]); Y = sp.element([y, y])\n"
                            "    xv, yv, w = x.tolist() + x[::-1].tolist(), y.tolist() * 2, w + w\n"
                            "else:\n    sp = odl.tensor_space(n, dtype=dt, exponent=p, **kw)\n"
                            "    X = sp.element(x); Y = sp.element(y); xv, yv = x.tolist(), y.tolist()\n"
                            "tol = 1e-5 if dt in ('float32', 'complex64') else 1e-11\n"
                            "cl = lambda u, v: bool(np.isfinite(u)) and abs(u - v) <= tol * abs(v)\n")
                    checks = {
                        'norm': "observed = X.norm(); expected = exact_norm(xv, w, p); ok = cl(observed, expected)\n",
                        'dist': "observed = X.dist(Y)\n"
                                "expected = exact_norm([complex(a) - complex(b) if np.dtype(dt).kind == 'c' else "
                                "(int(a) - int(b) if np.dtype(dt).kind in 'iu' else Fraction(a) - Fraction(b)) "
                                "for a, b in zip(xv, yv)], w, p)\nok = cl(observed, expected)\n"}
                    if p == 2:
                        checks['inner'] = ("observed = complex(X.inner(Y)); expected = exact_inner(xv, yv, w, dt in ('float32', 'complex64'))\n"
                                           "sc = 0.0 if expected is None else max(expected[2], 1e-300) * (10 if tol > 1e-8 else 1)\n"
                                           "ok = expected is None or (bool(np.isfinite(observed.real)) and "
                                           "abs(observed.real - expected[0]) <= tol * sc "
                                           "and abs(observed.imag - expected[1]) <= tol * sc)\n")
                    for prop, chk in checks.items():
                        env = {}
                        try:
                            exec(head + chk, env)
                            ok = bool(env.get('ok'))
                        except Exception as e:
                            ok = False
                            env['observed'] = repr(e)
                        key = 'range-%s-%s-%s-p%s-%s' % (kind, dt, wk, 'inf' if p == INF else int(p), prop)
                        if not ok:
                            key = _range_key(dt, prop, p, wk, kind) or key
                        out.append(C.Probe(ok, key, '%s on a %s %s space (%d entries, weighting %s, exponent %r%s) vs '
                                           'exact rational arithmetic' % (prop, dt, kind, n, wk, p,
                                                                          '' if scale is None else ', scale %g' % scale),
                                           head + chk, (str(env.get('observed')), str(env.get('expected')))))


def search(rng, broken):
    """A correspondence case failed but no probe produced an input: re-evaluate the independent oracle on
    that very case (same space, data, memory layouts and exponent), then on every other layout."""
    for kind, what, detail in broken:
        if kind != 'correspondence' or not isinstance(detail, dict) or not detail.get('src'):
            continue
        if detail.get('xd') is None or detail.get('yd') is None:
            continue
        try:
            import odl  # noqa: F401
            space = eval(detail['src'], {'odl': __import__('odl'), 'np': np})
        except Exception:
            continue
        xd, yd = detail['xd'], detail['yd']
        tries = [(detail.get('xlayout', 'C'), detail.get('ylayout', 'C'))] + [(l, l) for l in LAYOUTS]
        for xl, yl in tries:
            for k in (-2.0, 0.5):
                try:
                    res = layout_check(space, xd, yd, k, xl, yl)
                except Exception:
                    continue
                for prop, ok, det in res:
                    if not ok:
                        kk = known_key(space)
                        if kk:
                            continue
                        lname = xl if isinstance(xl, str) else 'mixed'
                        return C.Probe(False, '%s-layout-%s-%s' % (_kind(space), lname, prop),
                                       '%s (failing correspondence case %s) vs NumPy on the logical data' % (prop, what),
                                       _layout_replay(detail['src'], xd, yd, k, xl, yl, prop), det)
    # value-range family (wrap-around / overflow / underflow) on the exponents of the failing cases
    expos = set()
    for kind, what, detail in broken:
        if kind == 'correspondence' and isinstance(detail, dict) and isinstance(detail.get('space'), dict):
            e = detail['space'].get('exponent')
            if e is not None:
                expos.add(INF if e == 'inf' else float(e))
    cand = []
    range_probes(cand, rng, 'quick', only=(lambda dt, p, wk, kind: (not expos) or p in expos))
    known = C.load_findings(PID)
    for pr in cand:
        if not pr.ok and pr.key not in known:
            return pr
    return None


def probe_space(out, src, space, rng, cplx=False):
    xd, yd, zd = [rand_data(rng, space, cplx) for _ in range(3)]
    a = rng.choice([-2.0, 0.5, 3.0, -1.0, 0.0, 1.5])
    if space.is_complex:
        a = complex(a, rng.choice([1.0, -2.0, 0.5]))      # never real: anti-linearity must show
    kk = known_key(space)
    kind = _kind(space)
    res = check_space(space, xd, yd, zd, a)
    for prop, ok, det in res:
        key = '%s-%s' % (kind, prop)
        if not ok and kk is not None:
            key = kk
        rp = ("import numpy as np, odl, sys\nsys.path.insert(0, %r)\nfrom harness.c02 import check_space\n"
              "space = %s\nres = check_space(space, %r, %r, %r, %r)\n"
              "observed = [r for r in res if r[0] == %r]\nok = all(r[1] for r in observed)\n"
              % (C.VERIF, src, xd, yd, zd, a, prop))
        out.append(C.Probe(ok, key, '%s on %s' % (prop, src[:160]), rp, det))


def probes(rng, tier):
    import odl
    out = []
    thorough = tier != 'quick'
    pexp = [1, 2, INF, 3, 1.5, 2.5]
    # (1) tensor spaces: every weighting kind x exponent (incl. non-integer p), real and complex, 1-3 axes
    for p, wk, cplx in itertools.product(pexp, ['none', 'const', 'array'], [False, True]):
        for _ in range(1 if not thorough else 3):
            node = TensorLeaf(rng, p, wkind=wk, dtype='complex128' if cplx else 'float64')
            probe_space(out, node.src, node.space, rng, cplx)
    # (2) discretized spaces: every nodes_on_bdry pattern per axis side (asymmetric ones included)
    for p, wk in itertools.product(pexp, ['default', 'const', 'array']):
        for _ in range(3 if not thorough else 12):
            node = DiscrLeaf(rng, p, wkind=wk, dtype='complex128' if rng.random() < 0.3 else 'float64')
            if node.fragile():
                continue
            probe_space(out, node.src, node.space, rng)
    # (3) ||one||^2 = volume of the domain, default weighting, all flag patterns, 1-3 axes, F-ordered data
    for _ in range(40 if not thorough else 300):
        node = DiscrLeaf(rng, 2, wkind='default', free_fracs=rng.random() < 0.3)
        if node.fragile():
            continue
        sp = node.space
        vol = float(np.prod(sp.partition.extent))
        got = sp.one().norm() ** 2
        ok = _close(got, vol)
        key = 'discr-one-norm-volume'
        if not ok and known_key(sp):
            key = known_key(sp)
        rp = ("import numpy as np, odl\nspace = %s\nobserved = space.one().norm() ** 2\n"
              "expected = float(np.prod(space.partition.extent))\nok = abs(observed - expected) <= 1e-9 * expected\n"
              % node.src)
        out.append(C.Probe(ok, key, '||one||^2 = domain volume on %s' % node.src[:160], rp, (got, vol)))
    # (4) nested product spaces
    for _ in range(60 if not thorough else 500):
        node = rand_tree(rng, rng.choice([1, 2, 2, 3]), tier)
        if not isinstance(node, ProdNode) or any(getattr(sp, 'dtype', None) == np.dtype('float32')
                                                 for sp in _walk(node.space)):
            continue
        probe_space(out, node.src, node.space, rng)
    # complex product spaces, deterministic grid: product weighting kind x nesting with an array-weighted inner
    # level; data and scalar non-real; <x,y> is compared (re and im) with the independent oracle and
    # <a x + y, z> = a <x,z> + <y,z> is checked with non-real a
    CD = 'complex128'
    for wk in ('none', 'const', 'array'):
        for shape_kind in ('flat', 'power', 'nested-array', 'nested-const', 'deep'):
            for _ in range(1 if not thorough else 3):
                lf = lambda: TensorLeaf(rng, 2, dtype=CD) if rng.random() < 0.7 else DiscrLeaf(
                    rng, 2, dtype=CD, axes=[('flags', rng.randint(2, 4), 0.0, 2.0, True, rng.random() < 0.5)],
                    wkind='const')
                if shape_kind == 'flat':
                    node = ProdNode(rng, 2, [lf() for _k in range(rng.randint(2, 3))], wkind=wk)
                elif shape_kind == 'power':
                    node = ProdNode(rng, 2, [TensorLeaf(rng, 2, dtype=CD)] * 2, wkind=wk, power=True)
                elif shape_kind in ('nested-array', 'nested-const'):
                    inner_n = ProdNode(rng, 2, [lf(), lf()], wkind=shape_kind.split('-')[1])
                    node = ProdNode(rng, 2, [inner_n, lf()], wkind=wk)
                else:
                    inner_n = ProdNode(rng, 2, [ProdNode(rng, 2, [lf(), lf()], wkind='array'), lf()], wkind='const')
                    node = ProdNode(rng, 2, [inner_n, lf()], wkind=wk)
                probe_space(out, node.src, node.space, rng, cplx=True)
    # complex product spaces (constant and array weights, nested)
    for _ in range(6 if not thorough else 40):
        p = rng.choice([1, 2, 2, INF, 3])
        kids = [TensorLeaf(rng, 2 if p == 2 else rng.choice([1, 2, INF, 3]), dtype='complex128')
                for _k in range(rng.randint(1, 3))]
        if rng.random() < 0.4:
            kids = [ProdNode(rng, 2 if p == 2 else rng.choice([1, 2, 3]), kids[:1] * 2 if p == 2 else kids[:1], power=False)] + kids[1:]
        node = ProdNode(rng, p, kids)
        probe_space(out, node.src, node.space, rng, cplx=True)
    # memory layouts (C / F / wrapped Fortran / transposed / strided) x array weights x exponents
    layout_probes(out, rng, tier)
    size_probes(out, rng, tier)
    range_probes(out, rng, tier)
    complex_size_probes(out, rng, tier)
    dtype_discr_probes(out, rng, tier)
    # the switches derived from the source text agree with the behaviour measured on the findings' inputs
    try:
        gen = translate()['Gen/Weighting.v']
    except C.TranslateError:
        gen = None          # reported by the driver as a broken translator obligation; probes go on
    q = quirks()
    g_unw = gen is not None and 'UNotWeighted' in gen.split('gen_unif_weighted')[1].split('\n')[0]
    g_ps2 = gen is not None and 'gen_ps2_via_inner : bool := true' in gen
    if gen is not None:
        out.append(C.Probe(g_unw == q['q_unweighted_skips'] and g_ps2 == q['q_ps2_via_inner'],
                           'generated-switches-vs-behaviour',
                           'variant switches read off the source (%r, %r) equal the measured ones (%r, %r)'
                           % (g_unw, g_ps2, q['q_unweighted_skips'], q['q_ps2_via_inner']), None))
    # (5) the recorded findings, each reproduced on its own input
    def known(key, what, snippet):
        env = {}
        try:
            exec(snippet, env)
            ok = bool(env.get('ok'))
        except Exception:
            ok = False
        out.append(C.Probe(ok, key, what, snippet, env.get('observed')))
    known('pspace-exp2-over-exp1-components',
          'dist(x,y) == norm(x-y) on ProductSpace(rn(3, exponent=1), 2, exponent=2)',
          "import odl\nps = odl.ProductSpace(odl.rn(3, exponent=1), 2, exponent=2)\nx = ps.one(); y = ps.zero()\n"
          "observed = x.dist(y)\ntry:\n    ok = abs(observed - (x - y).norm()) < 1e-12\nexcept NotImplementedError:\n    ok = False\n")
    known('discr-unit-cell-volume-skips-bdry-fractions',
          'uniform_discr(0, 2, 3, nodes_on_bdry=True).one().norm()**2 == 2 (domain volume)',
          "import odl\nobserved = odl.uniform_discr(0, 2, 3, nodes_on_bdry=True).one().norm() ** 2\n"
          "expected = 2.0\nok = abs(observed - expected) < 1e-9\n")
    known('discr-unit-cell-volume-skips-bdry-fractions',
          'explicit weighting=1.0 with nodes on the boundary: inner = sum of fractions * x * y',
          "import odl, numpy as np\nsp = odl.uniform_discr(0, 1, 3, nodes_on_bdry=True, weighting=1.0)\n"
          "observed = sp.one().inner(sp.one())\nexpected = 2.0\nok = abs(observed - expected) < 1e-9\n")
    for p in (2, INF):
        known('tensor-size0-norm-raises', 'rn(0, exponent=%r).zero().norm() == 0' % p,
              "import odl\ntry:\n    observed = odl.rn(0, exponent=%s).zero().norm()\n    ok = observed == 0.0\n"
              "except Exception as e:\n    observed = repr(e); ok = False\n" % _pysrc(float(p)))
    known('tensor-size0-norm-raises', 'dist on rn((2, 0)) == 0',
          "import odl\ns = odl.rn((2, 0))\ntry:\n    observed = s.zero().dist(s.zero())\n    ok = observed == 0.0\n"
          "except Exception as e:\n    observed = repr(e); ok = False\n")
    known('tensor-0d-norm-zero', 'rn(()).one().norm() == sqrt(inner) == 1',
          "import odl, numpy as np\nx = odl.rn(()).one()\nobserved = x.norm()\nexpected = float(np.sqrt(x.inner(x)))\n"
          "ok = abs(observed - expected) < 1e-12\n")
    for p in (2, INF):
        known('pspace-empty-raises', 'norm of the element of an empty product space (exponent %r) is 0' % p,
              "import odl\nps = odl.ProductSpace(field=odl.RealNumbers(), exponent=%s)\ntry:\n"
              "    observed = ps.zero().norm()\n    ok = observed == 0.0\nexcept Exception as e:\n"
              "    observed = repr(e); ok = False\n" % _pysrc(float(p)))
    known('pspace-nested-mixed-dtype-inner-raises',
          'inner/norm on an exponent-2 product whose component is a mixed-dtype product space',
          "import odl, numpy as np\nps = odl.ProductSpace(odl.ProductSpace(odl.rn(2, dtype='float32'), odl.rn(3)), "
          "odl.ProductSpace(odl.rn(2), 2))\nx = ps.one()\ntry:\n    observed = (x.inner(x), x.norm())\n"
          "    ok = abs(observed[0] - 9.0) < 1e-6 and abs(observed[1] - 3.0) < 1e-6\n"
          "except AttributeError as e:\n    observed = repr(e); ok = False\n")
    known('tensor-int-array-weighting-pnorm-raises',
          'norm on an integer tensor space with array weighting and exponent 1 equals sum(w |x|)',
          "import odl, numpy as np\nsp = odl.tensor_space(3, dtype='int64', weighting=np.array([1, 2, 3]), exponent=1)\n"
          "x = sp.element([2, 3, -1])\ntry:\n    observed = x.norm()\n    ok = observed == 11.0\n"
          "except Exception as e:\n    observed = repr(e); ok = False\n")
    known('pspace-array-nested-mixed-dtype-inner-raises',
          'inner/norm on an ARRAY-weighted exponent-2 product whose first component is a mixed-dtype product',
          "import odl\nps = odl.ProductSpace(odl.ProductSpace(odl.rn(2, dtype='float32'), odl.rn(3)), "
          "odl.ProductSpace(odl.rn(2), 2), weighting=[1, 2])\nx = ps.one()\ntry:\n    observed = (x.inner(x), x.norm())\n"
          "    ok = abs(observed[0] - 13.0) < 1e-6 and abs(observed[1] ** 2 - 13.0) < 1e-5\n"
          "except AttributeError as e:\n    observed = repr(e); ok = False\n")
    known('discr-int-dtype-bdry-scaling-truncates',
          'integer-dtype discretized space with nodes on the boundary: inner(x, one) = weighted sum with fractions',
          "import odl\nd = odl.uniform_discr(0, 2, 3, nodes_on_bdry=True, dtype='int64', weighting=2.0)\n"
          "x = d.element([3, 1, 3])\nobserved = (x.inner(d.one()), x.norm() ** 2)\nexpected = (8.0, 20.0)\n"
          "ok = abs(observed[0] - 8.0) < 1e-9 and abs(observed[1] - 20.0) < 1e-9\n")
    known('discr-bdry-fraction-isclose-snap',
          'boundary fraction 1.000002 (inside the np.isclose band): ||one||^2 == volume',
          "import odl, numpy as np\npart = odl.RectPartition(odl.IntervalProd(0, 4 + 0.5 + 0.5 * 1.000004), "
          "odl.uniform_grid(0.5, 4.5, 5))\nsp = odl.uniform_discr_frompartition(part)\n"
          "observed = sp.one().norm() ** 2\nexpected = float(part.extent[0])\n"
          "ok = abs(observed - expected) <= 1e-9 * expected\n")
    # (6) custom inner / norm / dist: pure delegation
    for kind in ('inner', 'norm', 'dist'):
        n = rng.randint(1, 5)
        w = [float(rng.choice([1, 2, 3])) for _ in range(n)]
        xd = [float(rng.randint(-5, 5)) for _ in range(n)]
        yd = [float(rng.randint(-5, 5)) for _ in range(n)]
        for factory in ('odl.rn(%d, ' % n, 'odl.ProductSpace(odl.rn(%d), 1, ' % n):
            fn = {'inner': "lambda a, b: float(np.sum(w * np.asarray(a).ravel() * np.asarray(b).ravel()))",
                  'norm': "lambda a: float(np.sum(w * np.abs(np.asarray(a).ravel())))",
                  'dist': "lambda a, b: float(np.sum(w * np.abs(np.asarray(a).ravel() - np.asarray(b).ravel())))"}[kind]
            chk = {'inner': "ok = x.inner(y) == f(x, y) and abs(x.norm() - np.sqrt(f(x, x))) < 1e-12 and "
                            "abs(x.dist(y) - np.sqrt(f(x - y, x - y))) < 1e-12",
                   'norm': "ok = x.norm() == f(x) and x.dist(y) == f(x - y)",
                   'dist': "ok = x.dist(y) == f(x, y)"}[kind]
            mk = ("x = sp.element([%r]); y = sp.element([%r])" if 'ProductSpace' in factory
                  else "x = sp.element(%r); y = sp.element(%r)") % (xd, yd)
            known('custom-%s-delegation' % kind, 'custom %s callable is used as-is (%s...)' % (kind, factory),
                  "import odl, numpy as np\nw = np.array(%r)\nf = %s\nsp = %s%s=f)\n%s\n%s\n"
                  % (w, fn, factory, kind, mk, chk))
    return out


LEVEL_TEXT = ('Proof (Coq, carrier R, all lengths / shapes / tree depths): for constant- and array-weighted tensor spaces the '
              'inner product equals the documented weighted sum, is symmetric, linear in the first argument, positive '
              'definite and satisfies Cauchy-Schwarz (complex spaces: conjugate symmetry, C-linearity, positivity and '
              'Cauchy-Schwarz on (re, im) data); the norm equals sqrt(inner) for p = 2 and the documented weighted p-norm '
              'for every natural p and p = inf, is absolutely homogeneous and satisfies the triangle inequality for EVERY '
              'natural p (Minkowski) and inf; dist = norm(x - y) and is symmetric.  Discretized spaces: for each of the '
              'four nodes_on_bdry grid formulas and every n >= 2 the boundary-cell fractions are exactly 1/2 or 1; for any '
              'number of axes, points per axis (1 included) and grid position, cell_volume * sum(boundary weights) = '
              'domain volume, hence ||one||^2 = volume under the stated side condition (refuted without it: recorded '
              'finding); _norm/_dist with boundary slices scaled by frac^(1/p) equal the documented weighted p-norm of '
              'x resp. x - y.  Product spaces of arbitrary nesting: exponent-2 trees are inner-product spaces whose inner '
              'product is the weighted dot product of the flattened data (weights multiplied along the path); for mixed '
              'exponents the code\'s combination of component norms is the weighted p-norm of their vector, the norm never '
              'raises, is homogeneous and sub-additive, dist = norm(x - y) and is symmetric.  The hand-written model is '
              'tied to the source by an in-Coq correspondence (quick 2.3k / thorough 14k cases) over all weighting kinds x '
              'exponents {1,2,inf,3,4} x dtypes x C/F data x sizes 0..60000 x boundary flags x nested trees.')
LEVEL_NOTE = ('Validated, not proved: NumPy/BLAS kernels and float rounding (compared to rtol 1e-10, float32 1e-5); '
              'apply_on_boundary modelled as an outer product of per-axis vectors; non-integer exponents (1.5, 2.5) and '
              'norm/dist of complex product spaces are in the correspondence (entry-wise modulus, then the real paths) but '
              'have no theorem of their own (their inner product is modelled and proved); custom inner/norm/dist are pass-through (delegation probed); the '
              'Q-instance p-th root (exact on perfect powers, else 2^-64 floor approximations) stands for the real root. '
              'Eight recorded findings are modelled through measured variant switches (quirks) or excluded inputs and '
              'reproduced by probes.  Axioms: classical reals + functional extensionality as printed.')
TECHNIQUE = ('Coq proofs by list / space-tree induction at R (abstract semi-inner-product section, discriminant argument, '
             'convexity proof of Minkowski) over a hand-written model + in-Coq differential correspondence at Q')
