"""C04 operator arithmetic = the algebra table: correspondence (values, structure, flags) + probes.

Source expressions are Python tuples (an AST); `py_build` applies the real Python operators to
real odl objects, `to_coq` prints the same tree as a `sexpr`, `ref_eval` is an independent
reference interpreter of the documented table (exact Fractions) used by the probes."""
import math
from fractions import Fraction

from . import common as C

PID = 'C04'
SHARD_SIZE = 150
RULE = ('random type-directed expression trees (depth <= 4 quick / <= 7 thorough) over a pool of linear '
        '(MatrixOperator, ScalingOperator, IdentityOperator, ZeroOperator, MultiplyOperator, InnerProductOperator, '
        'custom matrix operator, custom linear Functional), nonlinear (affine, x*x+b, PowerOperator, absolute, '
        'field-valued quadratic) and Functional (L2NormSquared, L1Norm, weighted quadratic, Constant/ZeroFunctional) '
        'leaves with out-of-place-only / in-place-only / dual _call signatures, on rn/cn, constant-weighted rn/cn and '
        'uniform_discr spaces of size 1..3; operators + - neg * @ / ** and OperatorPointwiseProduct with '
        'operator/vector/scalar operands on either side, scalars from {0,+-1,+-2,+-1/2,3} (+ imaginary parts on '
        'complex spaces) written as int, float, numpy int64/float32/float64/complex128, leaves reused inside a '
        'tree, ~3% deliberately ill-typed nodes, plus every ill-typed form of the syntax on every leaf kind; each '
        'tree is built by the real overloads, its whole object tree (exact classes, merged scalars, stored vectors, '
        'leaf identity, domain, range, is_linear, isinstance Functional) or its error class and its values at 2-3 '
        'integer points (out-of-place and in-place into a NaN-filled out) are compared with the model inside Coq '
        '(model: build, eval, eval_ip, the poisoned-buffer ipp, and the table interpreter denote); a case is '
        'non-trivial when it has at least one arithmetic node; distinct by (class skeleton of the built object | '
        'error class, source operator skeleton)')
ASSUMPTIONS = ['exact arithmetic: all scalars/vectors/points are small integers or dyadic rationals, every float '
               'operation on the generated cases is exact (guarded by an exact-rational magnitude bound)',
               'leaves are pure functions of x; called in place they overwrite `out` without reading it; their own '
               'correctness and call protocol are C03/C05/C10',
               'a leaf flagged linear is linear over the scalar field of its domain (premise of the theorems; probed '
               'on 40 odl classes, RealPart/ImagPart on complex spaces violate it for complex scalars)',
               'one scalar field per expression (real trees on rn, complex trees on cn); operators between real '
               'and complex spaces are only probed']
TRUSTED = ['C04/Model.v eval/eval_ip/ipp/oop/ip as a transcription of the _call bodies and the constructors\' checks '
           '(tied by the structural + value correspondence on every run); the overload DISPATCH is regenerated '
           'and proved equal to build',
           'translate/op_tables.py (Python ast of the classes\' __init__ -> Gen/OpTables.v), fail-closed',
           'translate/op_dispatch.py (overload bodies -> decision trees, MRO owners, reflected-first relation) and '
           'the meaning given to each test / returned expression in C04/Dispatch.v',
           'Python operator dispatch rule "reflected method of a proper subclass first" as modelled by subclass_radd']

MAXMAG = 2 ** 40


def translate():
    from translate import op_tables, op_dispatch
    return {'Gen/OpTables.v': op_tables.translate(), 'Gen/OpDispatch.v': op_dispatch.translate()}


# ------------------------------------------------------------------ the pool
class Leaf(object):
    """A pool member: the odl object, its Coq leaf term, its type."""

    def __init__(self, op, coq, dom, ran, lin, func, fn, kind):
        self.op, self.coq, self.dom, self.ran = op, coq, dom, ran     # ran: int or 'F'
        self.lin, self.func, self.fn, self.kind = lin, func, fn, kind  # fn: exact reference function
        self.alias_safe, self.fresh = True, True   # memory contract: in-place call alias-safe / result fresh


_CLS = {}


def pflat(x):
    """1-d numpy copy of any element (product-space elements are concatenated part by part)."""
    import numpy as np
    import odl
    sp = getattr(x, 'space', None)
    if isinstance(sp, odl.ProductSpace):
        return np.concatenate([pflat(p) for p in x]) if len(sp) else np.zeros(0)
    return np.array(np.asarray(x)).ravel()


def pdim(sp):
    import odl
    if isinstance(sp, odl.ProductSpace):
        return sum(pdim(s) for s in sp)
    return int(sp.size)


def pput(sp, arr):
    """element of sp with the flat entries arr"""
    import numpy as np
    import odl
    arr = np.asarray(arr)
    if isinstance(sp, odl.ProductSpace):
        parts, k = [], 0
        for s in sp:
            n = pdim(s)
            parts.append(pput(s, arr[k:k + n]))
            k += n
        return sp.element(parts)
    if isinstance(sp, odl.set.sets.Field):
        return sp.element(arr.ravel()[0])
    return sp.element(arr.reshape(sp.shape))


def pshares(y, x):
    import numpy as np
    import odl
    if isinstance(getattr(x, 'space', None), odl.ProductSpace):
        if not isinstance(getattr(y, 'space', None), odl.ProductSpace):
            return False
        return any(pshares(a, b) for a in y for b in x)
    if isinstance(getattr(y, 'space', None), odl.ProductSpace):
        return any(pshares(a, x) for a in y)
    return bool(np.shares_memory(np.asarray(y), np.asarray(x)))


def _classes():
    """Custom leaf classes (defined lazily: odl may only be imported inside functions)."""
    if _CLS:
        return _CLS
    import numpy as np
    import odl

    def mk_call(style, f):
        # the three signatures Operator._dispatch_call_args understands; entries are read / written
        # through pflat / pput so that the same classes work on product spaces
        if style == 'oop':
            def _call(self, x):
                return pput(self.range, f(self, pflat(x)))
        elif style == 'ip':
            def _call(self, x, out):
                out.assign(pput(self.range, f(self, pflat(x))))
        else:
            def _call(self, x, out=None):
                if out is None:
                    return pput(self.range, f(self, pflat(x)))
                out.assign(pput(self.range, f(self, pflat(x))))
        return _call

    for style in ('oop', 'ip', 'both'):
        class AffOp(odl.Operator):
            def __init__(self, dom, ran, M, b):
                odl.Operator.__init__(self, dom, ran, linear=False)
                self.M, self.b = np.asarray(M), np.asarray(b)
            _call = mk_call(style, lambda self, x: self.M.dot(x) + self.b)

        class SqOp(odl.Operator):
            def __init__(self, sp, b):
                odl.Operator.__init__(self, sp, sp, linear=False)
                self.b = np.asarray(b)
            _call = mk_call(style, lambda self, x: x * x + self.b)
        class MatOp(odl.Operator):
            def __init__(self, dom, ran, M):
                odl.Operator.__init__(self, dom, ran, linear=True)
                self.M = np.asarray(M)
            _call = mk_call(style, lambda self, x: self.M.dot(x))
        _CLS['aff_' + style] = AffOp
        _CLS['sq_' + style] = SqOp
        _CLS['mat_' + style] = MatOp

    for style in ('ip', 'both'):
        class StencilOp(odl.Operator):
            """x -> tridiag(a, b, c) x written entry by entry: the in-place call is NOT alias-safe."""
            def __init__(self, sp, a, b, c):
                odl.Operator.__init__(self, sp, sp, linear=True)
                self.a, self.b, self.c = a, b, c

            def fill(self, x, out):
                n = x.size
                for i in range(n):
                    v = self.b * x[i]
                    if i > 0:
                        v = v + self.a * x[i - 1]
                    if i < n - 1:
                        v = v + self.c * x[i + 1]
                    out[i] = v

        class NStencilOp(odl.Operator):
            """x_i -> x_i * x_{i-1} + b_i (x_{-1} = 0), loop style, nonlinear, NOT alias-safe in place."""
            def __init__(self, sp, b):
                odl.Operator.__init__(self, sp, sp, linear=False)
                self.bb = b

            def fill(self, x, out):
                for i in range(x.size):
                    out[i] = (x[i] * x[i - 1] if i > 0 else 0 * x[i]) + self.bb[i]
        for cls_ in (StencilOp, NStencilOp):
            if style == 'ip':
                def _call(self, x, out):
                    self.fill(x, out)
            else:
                def _call(self, x, out=None):
                    if out is None:
                        out = self.range.element()
                        self.fill(x, out)
                        return out
                    self.fill(x, out)
            cls_._call = _call
        _CLS['stencil_' + style] = StencilOp
        _CLS['nstencil_' + style] = NStencilOp

    class RetX(odl.Operator):
        """identity whose out-of-place result IS the input object."""
        def __init__(self, sp, linear):
            odl.Operator.__init__(self, sp, sp, linear=linear)

        def _call(self, x):
            return x

    class ViewX(odl.Operator):
        """identity whose out-of-place result is a VIEW of the input's memory."""
        def __init__(self, sp):
            odl.Operator.__init__(self, sp, sp, linear=True)

        def _call(self, x):
            return x.asarray()[:]
    _CLS.update(RetX=RetX, ViewX=ViewX)

    class LinFunc(odl.solvers.Functional):
        def __init__(self, sp, w):
            super(LinFunc, self).__init__(sp, linear=True)
            self.w = np.asarray(w)

        def _call(self, x):
            return (self.w * pflat(x)).sum()

    class QuadFunc(odl.solvers.Functional):
        def __init__(self, sp, w, b, c):
            super(QuadFunc, self).__init__(sp, linear=False)
            self.w, self.b, self.c = np.asarray(w), np.asarray(b), c

        def _call(self, x):
            d = pflat(x) - self.b
            return (self.w * d * d).sum() + self.c

    class NQuadOp(odl.Operator):
        def __init__(self, sp, w, c):
            super(NQuadOp, self).__init__(sp, sp.field, linear=False)
            self.w, self.c = np.asarray(w), c

        def _call(self, x):
            return (self.w * pflat(x) * pflat(x)).sum() + self.c

    _CLS.update(LinFunc=LinFunc, QuadFunc=QuadFunc, NQuadOp=NQuadOp)
    return _CLS


class Ctx(object):
    """Per-case generation context: field, literal printers, leaf counter."""

    def __init__(self, rng, cplx, kind='rn'):
        self.rng, self.cplx, self.nleaf = rng, cplx, 0
        self.leaves = []
        self.kind = kind        # 'rn' | 'wrn' (constant weighting 2) | 'discr' (cell volume 2) | 'prod' (rn(1) x rn(n-1))
        self.cw = 1 if kind in ('rn', 'prod') else 2      # factor in inner products / norms
        self._sp = {}

    # -- spaces / numbers
    def space(self, n):
        import odl
        if n not in self._sp:
            dt = complex if self.cplx else float
            if self.kind == 'rn':
                sp = odl.cn(n) if self.cplx else odl.rn(n)
            elif self.kind == 'wrn':
                sp = odl.cn(n, weighting=2.0) if self.cplx else odl.rn(n, weighting=2.0)
            elif self.kind == 'prod':
                base = odl.cn if self.cplx else odl.rn
                sp = odl.ProductSpace(base(1)) if n == 1 else odl.ProductSpace(base(1), base(n - 1))
            else:
                sp = odl.uniform_discr(0, 2 * n, n, dtype=dt)
            self._sp[n] = sp
        return self._sp[n]

    def el(self, n, entries):
        return pput(self.space(n), entries)

    def vec(self, entries):
        """The element object for a vector literal: equal literals of one case are ONE object (the user
        passing the same `w` twice), and its original contents are remembered for the operand check."""
        cache = self.__dict__.setdefault('vecs', {})
        key = (len(entries), tuple(complex(u) for u in entries))
        if key not in cache:
            e = self.el(len(entries), entries)
            cache[key] = (e, pflat(e).tobytes())
        return cache[key][0]

    def vlit(self, n, lo=-3, hi=3):
        """a vector literal for the generator: sometimes one that already occurs in this tree"""
        lits = self.__dict__.setdefault('vlits', [])
        same = [v for v in lits if len(v) == n]
        if same and self.rng.random() < 0.3:
            return list(self.rng.choice(same))
        v = self.ivec(n, lo, hi)
        lits.append(v)
        return v

    def num(self, small=False):
        r = self.rng
        pool = [0, 1, -1, 2, -2, 0.5, -0.5, 3] if not small else [1, -1, 2, -2, 0.5, 3]
        a = r.choice(pool)
        if self.cplx and r.random() < 0.6:
            return complex(a, r.choice([0, 1, -1, 2, 0.5]))
        return a

    def scalar(self):
        """A scalar as the user would write it: int, float, numpy scalar (complex on cn)."""
        import numpy as np
        a = self.num()
        if isinstance(a, complex):
            u = self.rng.random()
            return a if u < 0.7 else (np.complex128(a) if u < 0.85 else np.complex64(a))
        if a in (0, 1) and self.rng.random() < 0.12:
            return bool(a)                      # `A * True`: bool is an int, hence a Number and a Real
        u = self.rng.random()
        if float(a) == int(a) and u < 0.35:
            return int(a)
        if float(a) == int(a) and u < 0.42:
            return np.int64(int(a))
        if u < 0.55:
            return np.float64(a)
        if u < 0.62:
            return np.float32(a)
        return float(a)

    def ivec(self, n, lo=-3, hi=3):
        r = self.rng
        if self.cplx:
            return [complex(r.randint(lo, hi), r.randint(-2, 2) if r.random() < 0.6 else 0) for _ in range(n)]
        return [float(r.randint(lo, hi)) for _ in range(n)]

    # -- literals
    def q(self, a):
        if self.cplx:
            a = complex(a)
            return '(%s, %s)' % (C.q(a.real), C.q(a.imag))
        return C.q(a)

    def qs(self, v):
        return C.lst(list(v), self.q)

    def qss(self, m):
        return C.lst(list(m), self.qs)

    def pre(self):
        return 'c' if self.cplx else 'q'


def fr(a):
    """exact value: Fraction (real) or (Fraction, Fraction) complex pair as a 'cfrac'"""
    if isinstance(a, complex) or hasattr(a, 'imag') and not isinstance(a, (int, float, Fraction)):
        a = complex(a)
        return CF(C.frac(a.real), C.frac(a.imag))
    return CF(C.frac(a), Fraction(0))


class CF(object):
    """Exact Gaussian rational (used for both fields; imaginary part 0 on real spaces)."""
    __slots__ = ('re', 'im')

    def __init__(self, re, im=Fraction(0)):
        self.re, self.im = re, im

    def __add__(self, o):
        return CF(self.re + o.re, self.im + o.im)

    def __sub__(self, o):
        return CF(self.re - o.re, self.im - o.im)

    def __mul__(self, o):
        return CF(self.re * o.re - self.im * o.im, self.re * o.im + self.im * o.re)

    def __neg__(self):
        return CF(-self.re, -self.im)

    def inv(self):
        d = self.re * self.re + self.im * self.im
        return CF(self.re / d, -self.im / d)

    def mag(self):
        return max(abs(self.re), abs(self.im))

    def dyadic(self):
        # dyadic with at most 26 significant bits: then every product of two tracked values (and every
        # sum of a few) is exact in float64, whatever order the implementation evaluates in
        return all(d & (d - 1) == 0 and abs(n).bit_length() <= 26 and d.bit_length() <= 500   # no underflow
                   for n, d in ((self.re.numerator, self.re.denominator), (self.im.numerator, self.im.denominator)))

    def absr(self):
        assert self.im == 0
        return CF(abs(self.re))

    def c(self):
        return complex(float(self.re), float(self.im))


SPECIAL_KINDS = ('stencil', 'nstencil', 'retx', 'retx_nl', 'viewx', 'realpart', 'pderiv', 'lap')


def make_leaf(ctx, dom, ran, want=None):
    """Create a fresh pool member dom -> ran (ran: int or 'F').  want in (None,'lin','nonlin','func')."""
    r = ctx.rng
    style = r.choice(['oop', 'ip', 'both'])
    if ran == 'F':
        kinds = ['flin', 'fquad', 'l2sq', 'ip', 'nquad'] + \
            ([] if (ctx.cplx or ctx.cw != 1 or ctx.kind == 'prod') else ['fl1'])
        if want == 'func':
            kinds = [k for k in kinds if k not in ('ip', 'nquad')]
        if want == 'lin':
            kinds = ['flin', 'ip']
        if want in ('ip', 'nquad', 'fquad', 'flin'):
            kinds = [want]
        k = r.choice(kinds)
        if k == 'l2sq' and ctx.cplx:
            k = 'fquad'
        spec = {'kind': k, 'dom': dom, 'ran': 'F', 'style': style, 'w': ctx.ivec(dom, -2, 2),
                'b': ctx.ivec(dom, -1, 1), 'c': ctx.num()}
    else:
        kinds = ['mat', 'aff']
        if dom == ran:
            kinds += ['scal', 'ident', 'zero', 'mulv', 'sq', 'pow2', 'cube'] + ([] if ctx.cplx else ['abs'])
            # leaves with weak memory contracts: not alias-safe in place / result aliases the input
            kinds += ['stencil', 'nstencil', 'retx', 'retx_nl', 'viewx', 'realpart', 'pderiv', 'lap']
        if want == 'lin':
            kinds = [k for k in kinds if k in ('mat', 'scal', 'ident', 'zero', 'mulv', 'stencil', 'retx', 'viewx',
                                               'realpart', 'pderiv', 'lap')]
        if want == 'nonlin':
            kinds = [k for k in kinds if k in ('aff', 'sq', 'pow2', 'cube', 'abs', 'nstencil', 'retx_nl')]
        if want in SPECIAL_KINDS:
            kinds = [want]
        k = r.choice(kinds)
        if ctx.kind == 'prod':
            # built-ins that need tensor spaces / indexing are replaced by the flat-entry custom classes
            k = {'abs': 'sq', 'stencil': 'mat', 'nstencil': 'sq', 'viewx': 'retx', 'realpart': 'retx',
                 'pderiv': 'mat', 'lap': 'mat'}.get(k, k)
        if k == 'lap':
            # odl.Laplacian's in-place call starts with out.set_zero(), which keeps NaN on small spaces
            # (0*NaN; known C01/C03 finding): it violates the leaf contract for a NaN-filled `out`, so the
            # pool uses PartialDerivative (same non-alias-safe stencil code) instead
            k = 'pderiv'
        if k == 'pderiv' and (ctx.kind != 'discr' or dom < 2):
            k = 'stencil'
        if k == 'realpart' and ctx.cplx:
            k = 'retx'
        spec = {'kind': k, 'dom': dom, 'ran': ran, 'style': style, 'builtin': r.random() < 0.5,
                'M': [ctx.ivec(dom, -2, 2) for _ in range(ran)], 'b': ctx.ivec(ran, -2, 2),
                'v': ctx.ivec(dom), 'c': ctx.num(), 'abc': [ctx.num(small=True) for _ in range(3)],
                'method': r.choice(['backward', 'central'])}
    return leaf_from_spec(ctx, spec)


def leaf_from_spec(ctx, spec):
    """Deterministically build the odl object + Coq term + exact reference function of a leaf spec."""
    import numpy as np
    import odl
    K = _classes()
    i = ctx.nleaf
    ctx.nleaf += 1
    k, dom, ran, style = spec['kind'], spec['dom'], spec['ran'], spec['style']
    sp = ctx.space(dom)
    p = ctx.pre()
    dt = complex if ctx.cplx else float
    if ran == 'F':
        w = spec['w']
        fw = [fr(a) for a in w]
        if k == 'flin':
            op = K['LinFunc'](sp, np.array(w, dtype=dt))
            lf = Leaf(op, '(%sFLin %d %s)' % (p, i, ctx.qs(w)), dom, 'F', True, True,
                      lambda x: [vsum([a * b for a, b in zip(fw, x)])], k)
        elif k == 'ip':
            # InnerProductOperator(y)(x) = <x, y> = sum x_i conj(y_i): use y = conj(w)
            y = [complex(a).conjugate() for a in w] if ctx.cplx else w
            op = odl.InnerProductOperator(pput(sp, np.array(y, dtype=dt)))
            w = [ctx.cw * a for a in w]         # the space's inner product carries the weight / cell volume
            fw = [fr(a) for a in w]
            lf = Leaf(op, '(%sIP %d %s)' % (p, i, ctx.qs(w)), dom, 'F', True, False,
                      lambda x: [vsum([a * b for a, b in zip(fw, x)])], k)
        elif k in ('fquad', 'l2sq'):
            if k == 'l2sq':
                w, b, c = [float(ctx.cw)] * dom, [0.0] * dom, 0.0
                op = odl.solvers.L2NormSquared(sp)
            else:
                b, c = spec['b'], spec['c']
                op = K['QuadFunc'](sp, np.array(w, dtype=dt), np.array(b, dtype=dt), c)
            fw, fb, fc = [fr(a) for a in w], [fr(a) for a in b], fr(c)
            lf = Leaf(op, '(%sFQuad %d %s %s %s)' % (p, i, ctx.qs(w), ctx.qs(b), ctx.q(c)), dom, 'F', False, True,
                      lambda x: [vsum([a * (u - v) * (u - v) for a, u, v in zip(fw, x, fb)]) + fc], k)
        elif k == 'fl1':
            op = odl.solvers.L1Norm(sp)
            lf = Leaf(op, '(%sFL1 %d %d)' % (p, i, dom), dom, 'F', False, True,
                      lambda x: [vsum([u.absr() for u in x])], k)
        else:
            c = spec['c']
            op = K['NQuadOp'](sp, np.array(w, dtype=dt), c)
            fc = fr(c)
            lf = Leaf(op, '(%sNQuad %d %s %s)' % (p, i, ctx.qs(w), ctx.q(c)), dom, 'F', False, False,
                      lambda x: [vsum([a * u * u for a, u in zip(fw, x)]) + fc], k)
        lf.spec, lf.index = spec, i
        ctx.leaves.append(lf)
        return lf
    rsp = ctx.space(ran)
    if k in SPECIAL_KINDS:
        st = style if style in ('ip', 'both') else 'ip'
        safe, fresh = True, True
        if k == 'stencil':
            a, b, c = spec['abc']
            op = K['stencil_' + st](sp, a, b, c)
            M = [[(a if j == i - 1 else b if j == i else c if j == i + 1 else 0) for j in range(dom)]
                 for i in range(dom)]
            safe = dom == 1
        elif k == 'nstencil':
            b = spec['b']
            op = K['nstencil_' + st](sp, np.array(b, dtype=dt))
            fb = [fr(u) for u in b]
            lf = Leaf(op, '(%sNSt %d %d %s)' % (p, i, dom, ctx.qs(b)), dom, ran, False, False,
                      lambda x: [(x[j] * x[j - 1] if j > 0 else CF(Fraction(0))) + fb[j] for j in range(len(x))], k)
            lf.alias_safe, lf.fresh = dom == 1, True
            lf.spec, lf.index = spec, i
            ctx.leaves.append(lf)
            return lf
        elif k in ('retx', 'retx_nl'):
            op = K['RetX'](sp, k == 'retx')
            M = [[1 if a_ == b_ else 0 for b_ in range(dom)] for a_ in range(dom)]
            fresh = False
        elif k == 'viewx':
            op = K['ViewX'](sp)
            M = [[1 if a_ == b_ else 0 for b_ in range(dom)] for a_ in range(dom)]
            fresh = False
        elif k == 'realpart':
            op = odl.RealPart(sp)
            M = [[1 if a_ == b_ else 0 for b_ in range(dom)] for a_ in range(dom)]
            fresh = False
        else:
            op = (odl.PartialDerivative(sp, 0, method=spec['method'], pad_mode='constant') if k == 'pderiv'
                  else odl.Laplacian(sp))
            cols = []
            for j in range(dom):
                e = [0.0] * dom
                e[j] = 1.0
                cols.append(flat(ctx, op(pput(sp, np.array(e)))))
            M = [[cols[j][i_] for j in range(dom)] for i_ in range(dom)]
            safe = False
        fM = [[fr(u) for u in row] for row in M]
        if k == 'retx_nl':
            z = [0] * dom
            lf = Leaf(op, '(%sAff %d %d %s %s)' % (p, i, dom, ctx.qss(M), ctx.qs(z)), dom, ran, False, False,
                      lambda x: [vsum([a_ * u for a_, u in zip(row, x)]) for row in fM], k)
        else:
            lf = Leaf(op, '(%sMat %d %d %s)' % (p, i, dom, ctx.qss(M)), dom, ran, True, False,
                      lambda x: [vsum([a_ * u for a_, u in zip(row, x)]) for row in fM], k)
        lf.alias_safe, lf.fresh = safe, fresh
        lf.spec, lf.index = spec, i
        ctx.leaves.append(lf)
        return lf
    if k in ('mat', 'scal', 'ident', 'zero', 'mulv', 'aff'):
        c, v = spec['c'], spec['v']
        if k == 'mat' or k == 'aff':
            M = spec['M']
        elif k == 'scal':
            M = [[c if a == b else 0 for b in range(dom)] for a in range(dom)]
        elif k == 'ident':
            M = [[1 if a == b else 0 for b in range(dom)] for a in range(dom)]
        elif k == 'zero':
            M = [[0] * dom for _ in range(dom)]
        else:
            M = [[v[a] if a == b else 0 for b in range(dom)] for a in range(dom)]
        fM = [[fr(a) for a in row] for row in M]
        if k == 'aff':
            b = spec['b']
            fb = [fr(a) for a in b]
            op = K['aff_' + style](sp, rsp, np.array(M, dtype=dt), np.array(b, dtype=dt))
            lf = Leaf(op, '(%sAff %d %d %s %s)' % (p, i, dom, ctx.qss(M), ctx.qs(b)), dom, ran, False, False,
                      lambda x: [vsum([a * u for a, u in zip(row, x)]) + bb for row, bb in zip(fM, fb)], k)
        else:
            if k == 'mat':
                if ctx.kind not in ('discr', 'prod') and spec.get('builtin', True):
                    op = odl.MatrixOperator(np.array(M, dtype=dt), domain=sp, range=rsp)
                else:
                    op = K['mat_' + style](sp, rsp, np.array(M, dtype=dt))
            elif k == 'scal':
                op = odl.ScalingOperator(sp, c)
            elif k == 'ident':
                op = odl.IdentityOperator(sp)
            elif k == 'zero':
                op = odl.ZeroOperator(sp)
            else:
                op = odl.MultiplyOperator(pput(sp, np.array(v, dtype=dt)), domain=sp, range=sp)
            lf = Leaf(op, '(%sMat %d %d %s)' % (p, i, dom, ctx.qss(M)), dom, ran, True, False,
                      lambda x: [vsum([a * u for a, u in zip(row, x)]) for row in fM], k)
    elif k in ('sq', 'pow2'):
        b = spec['b'] if k == 'sq' else [0] * dom
        fb = [fr(a) for a in b]
        op = (K['sq_' + style](sp, np.array(b, dtype=dt)) if k == 'sq' else odl.PowerOperator(sp, 2))
        lf = Leaf(op, '(%sSq %d %d %s)' % (p, i, dom, ctx.qs(b)), dom, ran, False, False,
                  lambda x: [u * u + bb for u, bb in zip(x, fb)], k)
    elif k == 'cube':
        op = odl.PowerOperator(sp, 3)
        lf = Leaf(op, '(%sCube %d %d)' % (p, i, dom), dom, ran, False, False, lambda x: [u * u * u for u in x], k)
    else:
        op = odl.ufunc_ops.absolute(sp)
        lf = Leaf(op, '(%sAbs %d %d)' % (p, i, dom), dom, ran, False, False, lambda x: [u.absr() for u in x], k)
    lf.spec, lf.index = spec, i
    ctx.leaves.append(lf)
    return lf


def freeze(t):
    """AST -> pure-Python literal (leaves become ('leaf', index-in-creation-order, spec))."""
    k = t[0]
    if k == 'leaf':
        return ('leaf', t[1].index, t[1].spec)
    if k in ('const', 'zerof'):
        return t
    if k in ('add', 'sub', 'mul', 'matmul', 'ptw'):
        return (k, freeze(t[1]), freeze(t[2]))
    return (k, freeze(t[1])) + tuple(t[2:])


def thaw(ctx, ft, made=None):
    """Inverse of freeze: rebuild the leaves (shared ones once) inside ctx."""
    made = {} if made is None else made
    key = ('node', repr(ft))
    if key in made:
        return made[key]
    k = ft[0]
    if k == 'leaf':
        if ft[1] not in made:
            made[ft[1]] = leaf_from_spec(ctx, ft[2])
        res = ('leaf', made[ft[1]])
    elif k in ('const', 'zerof'):
        res = ft
    elif k in ('add', 'sub', 'mul', 'matmul', 'ptw'):
        a = thaw(ctx, ft[1], made)
        res = (k, a, thaw(ctx, ft[2], made))
    else:
        res = (k, thaw(ctx, ft[1], made)) + tuple(ft[2:])
    made[key] = res
    return res


def vsum(xs):
    s = CF(Fraction(0))
    for a in xs:
        s = s + a
    return s


# -------------------------------------------------------- expression generator
DIMS = [1, 2, 3]


def gen(ctx, depth, dom, ran, p_bad=0.0, pw=2):
    """Random AST of an expression dom -> ran (ran int or 'F').  Nodes:
    ('leaf', Leaf) ('const', dom, c) ('zerof', dom)
    ('add'|'sub'|'mul'|'matmul'|'ptw', a, b) ('neg', a) ('pow', a, n)
    ('addv'|'vadd'|'subv'|'vsub'|'mulv'|'matmulv'|'vmul'|'vmatmul', a, vec)
    ('addc'|'cadd'|'subc'|'csub'|'mulc'|'cmul'|'divc'|'matmulc', a, scalar)"""
    r = ctx.rng
    if depth <= 0 or r.random() < 0.12:
        if ran == 'F' and r.random() < 0.12:
            return ('const', dom, ctx.scalar()) if r.random() < 0.6 else ('zerof', dom)
        same = [l for l in ctx.leaves if (l.dom, l.ran) == (dom, ran)]
        if same and r.random() < 0.25:
            return ('leaf', r.choice(same))
        return ('leaf', make_leaf(ctx, dom, ran))
    bad = r.random() < p_bad
    prods = ['add', 'sub', 'mul', 'neg', 'mulc', 'cmul', 'divc', 'mulv', 'vmul', 'addc', 'subc', 'csub', 'cadd',
             'mul', 'mulc', 'cmul', 'mulc']
    if ran != 'F':
        prods += ['addv', 'vadd', 'subv', 'vsub', 'ptw']
        if dom == ran and pw > 0:      # at most two nested powers: cost and magnitudes grow as n**k
            prods += ['pow', 'pow']
    k = r.choice(prods)
    d1 = depth - 1

    def other_dim(n):
        return r.choice([m for m in DIMS + [4] if m != n])

    if k in ('add', 'sub', 'ptw'):
        a = gen(ctx, d1, dom, ran, p_bad, pw)
        bd, br = dom, ran
        if bad:
            if r.random() < 0.5:
                bd = other_dim(dom)
            else:
                br = (r.choice(DIMS) if ran == 'F' else r.choice([other_dim(ran), 'F']))
        if not bad and r.random() < 0.15:
            return (k, a, a)                     # the SAME sub-expression object used twice
        b = gen(ctx, r.randint(0, d1), bd, br, p_bad, pw)
        return (k, a, b)
    if k == 'mul':
        mid = r.choice(DIMS)
        a = gen(ctx, d1, mid, ran, p_bad, pw)
        b = gen(ctx, r.randint(0, d1), dom, other_dim(mid) if bad else mid, p_bad, pw)
        return (r.choice(['mul', 'mul', 'matmul']), a, b)
    if k == 'neg':
        return ('neg', gen(ctx, d1, dom, ran, p_bad, pw))
    if k == 'pow':
        n = r.choice([1, 2, 2, 3, 3, 4]) if not bad else r.choice([0, -1])
        return ('pow', gen(ctx, d1, dom, ran, p_bad, pw - 1), n)
    if k in ('addv', 'vadd', 'subv', 'vsub'):
        n = other_dim(ran) if bad else ran
        return (k, gen(ctx, d1, dom, ran, p_bad, pw), ctx.vlit(n))
    if k == 'mulv':
        n = other_dim(dom) if bad else dom
        return (r.choice(['mulv', 'mulv', 'matmulv']), gen(ctx, d1, dom, ran, p_bad, pw), ctx.vlit(n))
    if k == 'vmul':
        if ran == 'F':      # v * A never has a field range: use c * A instead
            return ('cmul', gen(ctx, d1, dom, ran, p_bad, pw), ctx.scalar())
        inner = 'F' if r.random() < 0.4 else ran
        n = other_dim(ran) if (bad and inner != 'F') else ran
        return (r.choice(['vmul', 'vmul', 'vmatmul']), gen(ctx, d1, dom, inner, p_bad, pw), ctx.vlit(n))
    if k in ('addc', 'cadd', 'subc', 'csub'):
        return (k, gen(ctx, d1, dom, ran, p_bad, pw), ctx.scalar())
    if k in ('mulc', 'cmul'):
        kk = k if r.random() < 0.85 else 'matmulc'
        return (kk, gen(ctx, d1, dom, ran, p_bad, pw), ctx.scalar())
    if k == 'divc':
        c = r.choice([1, -1, 2, -2, 4, 0.5, -0.5, 2.0]) if not bad else 0
        if ctx.cplx and not bad and r.random() < 0.4:
            c = r.choice([1j, -1j, 2j, 1 + 1j])
        return ('divc', gen(ctx, d1, dom, ran, p_bad, pw), c)
    raise AssertionError(k)


def to_coq(ctx, t):
    k = t[0]
    if k == 'leaf':
        return '(SLeaf %s)' % t[1].coq
    if k == 'const':
        return '(SConst (SV %d) %s)' % (t[1], ctx.q(t[2]))
    if k == 'zerof':
        return '(SZero (SV %d))' % t[1]
    bin_ = {'add': 'SAdd', 'sub': 'SSub', 'mul': 'SMul', 'matmul': 'SMul', 'ptw': 'SPtw'}
    if k in bin_:
        return '(%s %s %s)' % (bin_[k], to_coq(ctx, t[1]), to_coq(ctx, t[2]))
    if k == 'neg':
        return '(SNeg %s)' % to_coq(ctx, t[1])
    if k == 'pow':
        return '(SPow %s %s)' % (to_coq(ctx, t[1]), C.z(t[2]))
    av = {'addv': 'SAddV', 'subv': 'SSubV', 'mulv': 'SMulV', 'matmulv': 'SMulV'}
    if k in av:
        return '(%s %s %s)' % (av[k], to_coq(ctx, t[1]), ctx.qs(t[2]))
    va = {'vadd': 'SVAdd', 'vsub': 'SVSub', 'vmul': 'SVMul', 'vmatmul': 'SVMul'}
    if k in va:
        return '(%s %s %s)' % (va[k], ctx.qs(t[2]), to_coq(ctx, t[1]))
    ac = {'addc': 'SAddC', 'subc': 'SSubC', 'mulc': 'SMulC', 'matmulc': 'SMulC', 'divc': 'SDivC'}
    if k in ac:
        if ac[k] in ('SMulC', 'SDivC'):      # the Python TYPE of the scalar matters to Operator.__mul__
            import numbers
            return '(%s %s %s %s)' % (ac[k], to_coq(ctx, t[1]), ctx.q(t[2]), C.b(isinstance(t[2], numbers.Real)))
        return '(%s %s %s)' % (ac[k], to_coq(ctx, t[1]), ctx.q(t[2]))
    ca = {'cadd': 'SCAdd', 'csub': 'SCSub', 'cmul': 'SCMul'}
    if k in ca:
        return '(%s %s %s)' % (ca[k], ctx.q(t[2]), to_coq(ctx, t[1]))
    raise AssertionError(k)


def src_skeleton(t):
    k = t[0]
    if k in ('leaf',):
        return t[1].kind
    if k in ('const', 'zerof'):
        return k
    if k in ('add', 'sub', 'mul', 'matmul', 'ptw'):
        return '%s(%s,%s)' % (k, src_skeleton(t[1]), src_skeleton(t[2]))
    return '%s(%s)' % (k, src_skeleton(t[1]))


def size(t):
    k = t[0]
    if k in ('leaf', 'const', 'zerof'):
        return 0
    if k in ('add', 'sub', 'mul', 'matmul', 'ptw'):
        return 1 + size(t[1]) + size(t[2])
    return 1 + size(t[1])


def py_build(ctx, t):
    """Apply the real overloads; an AST node object that occurs twice is built once (shared object)."""
    memo = ctx.__dict__.setdefault('built', {})
    if id(t) not in memo:
        memo[id(t)] = (t, _py_build(ctx, t))
    return memo[id(t)][1]


def _py_build(ctx, t):
    import odl
    k = t[0]
    if k == 'leaf':
        return t[1].op
    if k == 'const':
        return odl.solvers.ConstantFunctional(ctx.space(t[1]), t[2])
    if k == 'zerof':
        return odl.solvers.ZeroFunctional(ctx.space(t[1]))
    a = py_build(ctx, t[1])
    if k in ('add', 'sub', 'mul', 'matmul', 'ptw'):
        b = py_build(ctx, t[2])
        if k == 'add':
            return a + b
        if k == 'sub':
            return a - b
        if k == 'mul':
            return a * b
        if k == 'matmul':
            return a @ b
        return odl.OperatorPointwiseProduct(a, b)
    if k == 'neg':
        return -a
    if k == 'pow':
        return a ** t[2]
    if k in ('addv', 'vadd', 'subv', 'vsub', 'mulv', 'matmulv', 'vmul', 'vmatmul'):
        v = ctx.vec(t[2])
        return {'addv': lambda: a + v, 'vadd': lambda: v + a, 'subv': lambda: a - v, 'vsub': lambda: v - a,
                'mulv': lambda: a * v, 'matmulv': lambda: a @ v, 'vmul': lambda: v * a,
                'vmatmul': lambda: v @ a}[k]()
    c = t[2]
    return {'addc': lambda: a + c, 'cadd': lambda: c + a, 'subc': lambda: a - c, 'csub': lambda: c - a,
            'mulc': lambda: a * c, 'matmulc': lambda: a @ c, 'cmul': lambda: c * a, 'divc': lambda: a / c}[k]()


class RefErr(Exception):
    pass


def ref_type(t):
    """(dom, ran, implied_linear) by the documented rules; RefErr when ill-typed."""
    k = t[0]
    if k == 'leaf':
        return t[1].dom, t[1].ran, t[1].lin
    if k == 'const':
        return t[1], 'F', complex(t[2]) == 0
    if k == 'zerof':
        return t[1], 'F', True
    d, r, l = ref_type(t[1])
    if k in ('add', 'sub', 'ptw'):
        d2, r2, l2 = ref_type(t[2])
        if (d, r) != (d2, r2):
            raise RefErr()
        return d, r, (l and l2 and k != 'ptw')
    if k in ('mul', 'matmul'):
        d2, r2, l2 = ref_type(t[2])
        if r2 != d:
            raise RefErr()
        return d2, r, l and l2
    if k == 'neg':
        return d, r, l
    if k == 'pow':
        if t[2] <= 0 or (t[2] > 1 and d != r):
            raise RefErr()
        return d, r, l
    if k in ('addv', 'vadd', 'subv', 'vsub'):
        if r != len(t[2]):
            raise RefErr()
        return d, r, False
    if k in ('mulv', 'matmulv'):
        if d != len(t[2]):
            raise RefErr()
        return d, r, l
    if k in ('vmul', 'vmatmul'):
        if r == 'F':
            return d, len(t[2]), l
        if r != len(t[2]):
            raise RefErr()
        return d, r, l
    if k in ('addc', 'cadd', 'subc', 'csub'):
        return d, r, False
    if k == 'divc':
        if complex(t[2]) == 0:
            raise RefErr()
        return d, r, l
    return d, r, l


def ref_eval(t, x, track=None):
    """The documented table, recursively, in exact arithmetic.  x: list of CF."""
    def note(v):
        if track is not None:
            for a in v:
                track[0] = max(track[0], a.mag())
                track[1] = track[1] and a.dyadic()
        return v
    k = t[0]
    note(x)
    if k == 'leaf':
        return note(t[1].fn(x))
    if k == 'const':
        return [fr(t[2])]
    if k == 'zerof':
        return [CF(Fraction(0))]
    A = lambda y: ref_eval(t[1], y, track)
    if k == 'add':
        return note([a + b for a, b in zip(A(x), ref_eval(t[2], x, track))])
    if k == 'sub':
        return note([a - b for a, b in zip(A(x), ref_eval(t[2], x, track))])
    if k == 'ptw':
        return note([a * b for a, b in zip(A(x), ref_eval(t[2], x, track))])
    if k in ('mul', 'matmul'):
        return A(ref_eval(t[2], x, track))
    if k == 'neg':
        return [-a for a in A(x)]
    if k == 'pow':
        y = x
        for _ in range(t[2]):
            y = A(y)
        return y
    if k in ('addv', 'vadd'):
        return note([a + fr(b) for a, b in zip(A(x), t[2])])
    if k == 'subv':
        return note([a - fr(b) for a, b in zip(A(x), t[2])])
    if k == 'vsub':
        return note([fr(b) - a for a, b in zip(A(x), t[2])])
    if k in ('mulv', 'matmulv'):
        return A(note([fr(b) * a for a, b in zip(x, t[2])]))
    if k in ('vmul', 'vmatmul'):
        y = A(x)
        _, r, _ = ref_type(t[1])
        if r == 'F':
            return note([fr(b) * y[0] for b in t[2]])
        return note([fr(b) * a for a, b in zip(y, t[2])])
    c = fr(t[2])
    if k in ('addc', 'cadd'):
        return note([a + c for a in A(x)])
    if k == 'subc':
        return note([a - c for a in A(x)])
    if k == 'csub':
        return note([c - a for a in A(x)])
    if k in ('mulc', 'matmulc'):
        return A(note([c * a for a in x]))
    if k == 'cmul':
        return note([c * a for a in A(x)])
    if k == 'divc':
        ci = c.inv()
        return A(note([a * ci for a in x]))
    raise AssertionError(k)


# ------------------------------------------------------------ object dumping
def skel(ctx, o, leafids):
    """The built object tree as a Coq `skel` term; None when an unknown class shows up."""
    import odl
    from odl.operator import operator as O
    from odl.solvers.functional import functional as F
    from odl.solvers.functional.default_functionals import ConstantFunctional, ZeroFunctional
    if id(o) in leafids:
        return '(KLeaf %d)' % leafids[id(o)], 'L'
    ty = type(o)

    def sub(x):
        s = skel(ctx, x, leafids)
        return s

    def two(name, fn, a, b):
        (sa, na), (sb, nb) = sub(a), sub(b)
        return '(%s %s %s %s)' % (name, C.b(fn), sa, sb) if fn is not None else '(%s %s %s)' % (name, sa, sb), \
            '%s(%s,%s)' % (ty.__name__, na, nb)

    def one(name, fn, a, extra):
        sa, na = sub(a)
        pre = '(%s %s' % (name, C.b(fn)) if fn is not None else '(%s' % name
        return '%s %s %s)' % (pre, sa, extra), '%s(%s)' % (ty.__name__, na)

    vec = lambda v: ctx.qs(flat(ctx, v))
    if ty is ZeroFunctional:
        return 'KZero', 'ZeroFunctional'
    if ty is ConstantFunctional:
        return '(KConst %s)' % ctx.q(o.constant), 'ConstantFunctional'
    if ty is O.OperatorSum:
        return two('KSum', False, o.left, o.right)
    if ty is F.FunctionalSum:
        return two('KSum', True, o.left, o.right)
    if ty is F.FunctionalScalarSum:
        if type(o.right) is not ConstantFunctional:
            return 'KZero', 'BAD-FunctionalScalarSum'
        return one('KScalSum', None, o.left, ctx.q(o.scalar))
    if ty is O.OperatorVectorSum:
        return one('KVecSum', None, o.operator, vec(o.vector))
    if ty is O.OperatorComp:
        return two('KComp', False, o.left, o.right)
    if ty is F.FunctionalComp:
        return two('KComp', True, o.left, o.right)
    if ty is O.OperatorLeftScalarMult:
        return one('KLScal', False, o.operator, ctx.q(o.scalar))
    if ty is F.FunctionalLeftScalarMult:
        return one('KLScal', True, o.operator, ctx.q(o.scalar))
    if ty is O.OperatorRightScalarMult:
        return one('KRScal', False, o.operator, ctx.q(o.scalar))
    if ty is F.FunctionalRightScalarMult:
        return one('KRScal', True, o.operator, ctx.q(o.scalar))
    if ty is O.OperatorLeftVectorMult:
        return one('KLVec', None, o.operator, vec(o.vector))
    if ty is O.OperatorRightVectorMult:
        return one('KRVec', False, o.operator, vec(o.vector))
    if ty is F.FunctionalRightVectorMult:
        return one('KRVec', True, o.operator, vec(o.vector))
    if ty is O.FunctionalLeftVectorMult:
        return one('KFLVec', None, o.functional, vec(o.vector))
    if ty is O.OperatorPointwiseProduct:
        return two('KPtw', None, o.left, o.right)
    return 'KZero', 'UNKNOWN-' + ty.__name__


def sp_term(ctx, s):
    import odl
    if isinstance(s, odl.set.sets.Field):
        return 'SF', 'F'
    return '(SV %d)' % pdim(s), pdim(s)


def flat(ctx, y):
    import numpy as np
    a = pflat(y) if hasattr(y, 'space') else np.asarray(y).ravel()
    return [complex(u) if ctx.cplx else float(u) for u in a.tolist()]


def leaf_fingerprint(lf):
    """what a leaf computes at a fixed point (bitwise): changes if building/evaluating an expression
    modified the leaf's data"""
    import numpy as np
    try:
        x = pput(lf.op.domain, np.arange(1, pdim(lf.op.domain) + 1))
        y = lf.op(x)
        return pflat(y).tobytes() if hasattr(y, 'space') else repr(complex(y))
    except Exception as e:   # noqa
        return 'raises ' + type(e).__name__


def snapshot_operands(ctx):
    for lf in ctx.leaves:
        if not hasattr(lf, 'fp0'):
            lf.fp0 = leaf_fingerprint(lf)


def operands_modified(ctx):
    """None, or a description of the first operand (vector literal object / leaf operator) whose data is no
    longer what the user passed in: building and evaluating an expression must never modify its operands."""
    for (n, vals), (e, b0) in ctx.__dict__.get('vecs', {}).items():
        if pflat(e).tobytes() != b0:
            return 'vector operand %r became %r' % ([complex(u) for u in vals], pflat(e).tolist())
    for lf in ctx.leaves:
        if hasattr(lf, 'fp0') and leaf_fingerprint(lf) != lf.fp0:
            return 'leaf operator %s (%s) computes something else now' % (lf.index, lf.kind)
    return None


def kon_term(ctx):
    """memory contract (result fresh?, in-place alias-safe?) of each leaf, indexed by l_id"""
    return C.lst(['(%s, %s)' % (C.b(l.fresh), C.b(l.alias_safe)) for l in ctx.leaves])


def run_case(ctx, t, npts=2):
    """Build with the real overloads, evaluate, and print the Coq case.  Returns (term, desc, key)."""
    import numpy as np
    import odl
    r = ctx.rng
    leafids = dict((id(l.op), l_i) for l_i, l in enumerate(ctx.leaves))
    # leaf ids must be the l_id of the coq term: leaves are numbered in creation order
    snapshot_operands(ctx)
    try:
        o = py_build(ctx, t)
        err = None
    except ZeroDivisionError:
        o, err = None, 'BZeroDiv'
    except TypeError:
        o, err = None, 'BTypeErr'
    except Exception as e:       # noqa
        o, err = None, 'BOther'
    mod = operands_modified(ctx)
    if mod is not None:
        term = ('{| c_vt := vt_now; c_kon := %s; c_expr := %s; c_build := BOther; c_points := [] |}'
                % (kon_term(ctx), to_coq(ctx, t)))
        return term, {'expr': src_skeleton(t), 'outcome': 'building the expression modified an operand: ' + mod}, \
            ('operand-modified', src_skeleton(t))
    pre = 'check_cplx' if ctx.cplx else 'check_real'
    if err is not None:
        term = '{| c_vt := vt_now; c_kon := %s; c_expr := %s; c_build := %s; c_points := [] |}' % (kon_term(ctx), to_coq(ctx, t), err)
        return term, {'expr': src_skeleton(t), 'outcome': err, 'field': 'C' if ctx.cplx else 'R'}, \
            (err, src_skeleton(t)) if size(t) else None
    sk, name = skel(ctx, o, leafids)
    dterm, d = sp_term(ctx, o.domain)
    rterm, rr = sp_term(ctx, o.range)
    from odl.solvers.functional.functional import Functional
    pts = []
    for j in range(npts):
        for attempt in range(6):
            hi = max(1, 3 - attempt)
            x = ctx.ivec(d, -hi, hi) if (j or attempt) else ctx.ivec(d, -2, 2)
            if j == npts - 1 and attempt == 0 and r.random() < 0.3:
                x = [0.0] * d if not ctx.cplx else [0j] * d
            track = [Fraction(0), True]
            try:
                ref_eval(t, [fr(a) for a in x], track)
            except RefErr:
                track = [Fraction(0), True]
            if track[0] <= MAXMAG and track[1]:
                break
        else:
            continue
        xe = pput(o.domain, x)
        xbytes = pflat(xe).tobytes()
        try:
            y = o(xe)
            if rr != 'F':
                o(xe.copy(), out=pput(o.range, np.full(rr, np.nan)))
        except Exception as e:      # noqa -- an accepted expression must evaluate in and out of place
            term = ('{| c_vt := vt_now; c_kon := %s; c_expr := %s; c_build := BOther; c_points := [] |}'
                    % (kon_term(ctx), to_coq(ctx, t)))
            return term, {'expr': src_skeleton(t), 'x': x,
                          'outcome': 'evaluation raised %s: %s' % (type(e).__name__, str(e)[:120])}, \
                ('raises', src_skeleton(t))
        out = flat(ctx, y)
        out2 = flat(ctx, o(xe))                     # same point again: nothing may have been modified
        ip = 'None'
        nonfinite = not all(math.isfinite(abs(complex(u))) for u in out)
        if rr != 'F':
            buf = pput(o.range, np.full(rr, np.nan))
            res = o(xe, out=buf)
            ipv = flat(ctx, buf)
            nonfinite = nonfinite or res is not buf or not all(math.isfinite(abs(complex(u))) for u in ipv)
            if not nonfinite:
                ip = '(Some %s)' % ctx.qs(ipv)
        out3 = flat(ctx, o(xe))                     # and once more after the in-place call
        if pflat(xe).tobytes() != xbytes or repr(out2) != repr(out) or repr(out3) != repr(out):
            term = '{| c_vt := vt_now; c_kon := %s; c_expr := %s; c_build := BOther; c_points := [] |}' % (kon_term(ctx), to_coq(ctx, t))
            return term, {'expr': src_skeleton(t), 'x': x, 'first': out, 'second': out2, 'after_inplace': out3,
                          'outcome': 'evaluation is not repeatable or x was modified',
                          'x_after': flat(ctx, xe)}, ('unstable', src_skeleton(t))
        if nonfinite:
            # NaN/inf (e.g. the NaN-filled `out` leaking into the result) has no rational literal:
            # report the case as failing instead of crashing
            term = '{| c_vt := vt_now; c_kon := %s; c_expr := %s; c_build := BOther; c_points := [] |}' % (kon_term(ctx), to_coq(ctx, t))
            return term, {'expr': src_skeleton(t), 'outcome': 'non-finite value or `out` not returned', 'x': x}, \
                ('nonfinite', src_skeleton(t))
        shares = bool(rr != 'F' and pshares(y, xe))
        xx = 'None'
        if rr != 'F' and o.domain == o.range:
            xa = xe.copy()
            try:
                if o(xa, out=xa) is xa and all(math.isfinite(abs(complex(u))) for u in flat(ctx, xa)):
                    xx = '(Some %s)' % ctx.qs(flat(ctx, xa))
                else:
                    xx = '(Some [])'          # never equal to a model value: fails wherever oalias holds
            except Exception:   # noqa
                xx = '(Some [])'
        pts.append('{| p_x := %s; p_out := %s; p_ip := %s; p_alias := %s; p_xx := %s |}'
                   % (ctx.qs(x), ctx.qs(out), ip, C.b(shares), xx))
    mod = operands_modified(ctx)
    if mod is not None:
        term = ('{| c_vt := vt_now; c_kon := %s; c_expr := %s; c_build := BOther; c_points := [] |}'
                % (kon_term(ctx), to_coq(ctx, t)))
        return term, {'expr': src_skeleton(t), 'outcome': 'evaluating the expression modified an operand: ' + mod}, \
            ('operand-modified', src_skeleton(t))
    term = ('{| c_vt := vt_now; c_kon := %s; c_expr := %s; c_build := BOk %s %s %s %s %s; c_points := %s |}'
            % (kon_term(ctx), to_coq(ctx, t), sk, dterm, rterm, C.b(bool(o.is_linear)), C.b(isinstance(o, Functional)),
               C.lst(pts)))
    desc = {'expr': src_skeleton(t), 'built': name, 'is_linear': bool(o.is_linear), 'points': len(pts),
            'field': 'C' if ctx.cplx else 'R', 'space': ctx.kind}
    return term, desc, ((name, src_skeleton(t)) if size(t) else None)


def measure_variant():
    """Which variant of the two model-relevant findings does the code exhibit NOW
    (each measured on the finding's own replay input)?"""
    import odl
    r = odl.rn(3)
    frvec = bool((odl.solvers.ZeroFunctional(r) * r.one()).is_linear)
    try:
        o = odl.InnerProductOperator(r.one()) + 1.0
        vecsum = type(o).__name__ == 'OperatorVectorSum'
    except TypeError:
        vecsum = False
    return frvec, vecsum


def correspondence(rng, tier):
    frvec, vecsum = measure_variant()
    prelude = ('Definition vt_now : variant := {| v_frvec_lin := %s; v_vecsum_field := %s |}.'
               % (C.b(frvec), C.b(vecsum)))
    cs = C.CaseSet('real', ['Base.Vec', 'C04.Model', 'C04.Corr'], 'check_real', 'case Q', prelude=prelude)
    n = 900 if tier == 'quick' else 7500
    maxd = 4 if tier == 'quick' else 7
    for i in range(n):
        ctx = Ctx(rng, False, rng.choice(['rn', 'rn', 'wrn', 'discr', 'prod']))
        depth = rng.randint(1, maxd)
        ran = rng.choice(DIMS + ['F', 'F'])
        t = gen(ctx, depth, rng.choice(DIMS), ran, p_bad=0.03)
        term, desc, key = run_case(ctx, t, npts=2 if tier == 'quick' else 3)
        cs.add(term, desc, key)
    # deterministic edge cases: every ill-typed form of the syntax on every leaf kind
    for cplx, cset in ((False, cs),):
        for ran in (2, 'F'):
            for want in ('lin', 'nonlin', 'func'):
                if (ran == 2 and want == 'func') or (ran == 'F' and want == 'nonlin'):
                    continue
                ctx = Ctx(rng, cplx)
                A = lambda d=2, r=ran, w=want: ('leaf', make_leaf(ctx, d, r, w))
                edge = [('pow', A(), 0), ('pow', A(), -1), ('pow', A(), 1), ('divc', A(), 0), ('divc', A(), 0.0),
                        ('add', A(), A(3)), ('add', A(), A(2, 3)), ('sub', A(), A(2, 'F' if ran == 2 else 2)),
                        ('mul', A(), A(2, 3)), ('mul', A(3), A()), ('ptw', A(), A(3)), ('ptw', A(), A(2, 3 if ran == 2 else 2)), ('ptw', A(), A()),
                        ('addv', A(), ctx.ivec(3)), ('vadd', A(), ctx.ivec(1)), ('subv', A(), ctx.ivec(3)),
                        ('vsub', A(), ctx.ivec(3)), ('mulv', A(), ctx.ivec(3)), ('vmul', A(), ctx.ivec(3)),
                        ('pow', ('leaf', make_leaf(ctx, 2, 3, 'lin')), 2), ('pow', ('leaf', make_leaf(ctx, 2, 3)), 1)]
                for t in edge:
                    c2 = Ctx(rng, cplx)
                    t2 = thaw(c2, freeze(t))
                    term, desc, key = run_case(c2, t2, npts=1)
                    cset.add(term, desc, key)
    ctx0 = Ctx(rng, False)
    for t in _reflected_trees(ctx0):
        c2 = Ctx(rng, False)
        term, desc, key = run_case(c2, thaw(c2, freeze(t)), npts=1)
        cs.add(term, desc, key)
    for kind in ('rn', 'discr', 'prod'):
        ctx0 = Ctx(rng, False, kind)
        for t in _operand_reuse_trees(ctx0):
            c2 = Ctx(rng, False, kind)
            term, desc, key = run_case(c2, thaw(c2, freeze(t)), npts=2)
            cs.add(term, desc, key)
    # memory-contract patterns on every space kind (leaves that are not alias-safe / alias their input)
    for cplx, cset in ((False, cs),):
        for kind in ('rn', 'discr', 'wrn', 'prod'):
            ctx0 = Ctx(rng, cplx, kind)
            for t in _memory_trees(ctx0):
                c2 = Ctx(rng, cplx, kind)
                t2 = thaw(c2, freeze(t))
                term, desc, key = run_case(c2, t2, npts=2)
                cset.add(term, desc, key)
    cc = C.CaseSet('complex', ['Base.Vec', 'C04.Model', 'C04.Cplx', 'C04.Corr'], 'check_cplx', 'case QC',
                   prelude=prelude)
    for i in range(n // 3):
        ctx = Ctx(rng, True, rng.choice(['rn', 'rn', 'wrn', 'discr', 'prod']))
        depth = rng.randint(1, maxd)
        ran = rng.choice(DIMS + ['F', 'F'])
        t = gen(ctx, depth, rng.choice(DIMS), ran, p_bad=0.03)
        term, desc, key = run_case(ctx, t, npts=2)
        cc.add(term, desc, key)
    for kind in ('rn', 'discr'):
        ctx0 = Ctx(rng, True, kind)
        for t in _memory_trees(ctx0):
            c2 = Ctx(rng, True, kind)
            t2 = thaw(c2, freeze(t))
            term, desc, key = run_case(c2, t2, npts=2)
            cc.add(term, desc, key)
    return [cs, cc]


# ------------------------------------------------------------------- probes
def _children(t):
    k = t[0]
    if k in ('leaf', 'const', 'zerof'):
        return []
    if k in ('add', 'sub', 'mul', 'matmul', 'ptw'):
        return [t[1], t[2]]
    return [t[1]]


def _close(ctx, got, want, exact, scale=0.0):
    """got: python numbers; want: list of CF."""
    if len(got) != len(want):
        return False
    for g, w in zip(got, want):
        g = complex(g)
        if not (math.isfinite(g.real) and math.isfinite(g.imag)):
            return False
        if exact:
            if fr(g).re != w.re or fr(g).im != w.im:
                return False
        else:
            wc = w.c()
            if abs(g - wc) > 1e-9 * (1 + abs(wc) + scale):   # scale: largest intermediate (cancellation)
                return False
    return True


def leaves_of(t):
    if t[0] == 'leaf':
        return [t[1]]
    out = []
    for c in _children(t):
        out += leaves_of(c)
    return out


def oracle_node(ctx, t, xs):
    """The property evaluated on ONE tree with the reference interpreter.  None when it holds,
    else (kind, detail)."""
    import numpy as np
    try:
        d, r, lin = ref_type(t)
        typed = True
    except RefErr:
        typed = False
    snapshot_operands(ctx)
    try:
        o = py_build(ctx, t)
        err = None
    except ZeroDivisionError:
        err = 'ZeroDivisionError'
    except TypeError:
        err = 'TypeError'
    except Exception as e:   # noqa
        err = type(e).__name__
    mod = operands_modified(ctx)
    if mod is not None:
        return ('build-modifies-operand', mod)
    if not typed:
        if err in ('TypeError', 'ZeroDivisionError'):
            return None
        return ('accepts-ill-typed', 'built %s' % (type(o).__name__ if err is None else err))
    if err is not None:
        return ('rejects-well-typed', err)
    _, dd = sp_term(ctx, o.domain)
    _, rr = sp_term(ctx, o.range)
    if dd != d or rr != r:
        return ('domain-range', 'implied %s->%s, built %s->%s' % (d, r, dd, rr))
    if lin and not o.is_linear:
        return ('flag-not-linear', 'implied linear, is_linear=False')
    try:
        res = _oracle_values(ctx, t, o, xs, d, rr)
    except Exception as e:      # noqa
        return ('evaluation-raises', '%s: %s' % (type(e).__name__, str(e)[:160]))
    if res is None:
        mod = operands_modified(ctx)
        if mod is not None:
            return ('evaluation-modifies-operand', mod)
    return res


def _oracle_values(ctx, t, o, xs, d, rr):
    import numpy as np
    for x in xs:
        if len(x) != d:
            continue
        track = [Fraction(0), True]
        want = ref_eval(t, [fr(a) for a in x], track)
        exact = track[0] <= MAXMAG and track[1]
        if track[0] > 10 ** 100:
            continue            # float overflow territory: out of scope (exact-arithmetic idealisation)
        xe = pput(o.domain, x)
        xcopy = xe.copy()
        xbytes = pflat(xe).tobytes()
        got = flat(ctx, o(xe))
        scale = 0.0 if exact else float(track[0])
        if not _close(ctx, got, want, exact, scale):
            return ('value', 'x=%r got %r expected %r' % (x, got, [w.c() for w in want]))
        if rr != 'F':
            buf = pput(o.range, np.full(rr, np.nan))
            res = o(xe, out=buf)
            if res is not buf or not _close(ctx, flat(ctx, buf), want, exact, scale):
                return ('value-inplace', 'x=%r got %r expected %r' % (x, flat(ctx, buf), [w.c() for w in want]))
        again = flat(ctx, o(xe))
        if not _close(ctx, again, want, exact, scale):
            return ('value-second-evaluation', 'x=%r second call got %r expected %r'
                    % (x, again, [w.c() for w in want]))
        if pflat(xe).tobytes() != xbytes:
            return ('mutates-x', 'x=%r became %r' % (x, flat(ctx, xe)))
        if rr != 'F' and o.domain == o.range and all(l.alias_safe for l in leaves_of(t)):
            # `out` aliased to the input: the in-place bodies route through temporaries for this
            xa = xe.copy()
            res = o(xa, out=xa)
            if res is not xa or not _close(ctx, flat(ctx, xa), want, exact, scale):
                return ('value-aliased', 'x=%r out=x got %r expected %r' % (x, flat(ctx, xa), [w.c() for w in want]))
    if o.is_linear and len(xs) >= 2 and len(xs[0]) == d and len(xs[1]) == d:
        a = fr(ctx.num(small=True))
        x1, x2 = [fr(u) for u in xs[0]], [fr(u) for u in xs[1]]
        lhs = ref_eval(t, [a * u + v for u, v in zip(x1, x2)])
        rhs = [a * u + v for u, v in zip(ref_eval(t, x1), ref_eval(t, x2))]
        if any(l.re != q.re or l.im != q.im for l, q in zip(lhs, rhs)):
            return ('flag-linear-but-not', 'is_linear=True but the table value is not linear')
    return None


def oracle_min(ctx, t, xs):
    """Smallest failing subtree (children first)."""
    for c in _children(t):
        try:
            d, _, _ = ref_type(c)
        except RefErr:
            d = None
        cx = xs if d is None else [ctx.ivec(d, -2, 2) for _ in range(2)]
        f = oracle_min(ctx, c, cx)
        if f is not None:
            return f
    res = oracle_node(ctx, t, xs)
    return None if res is None else (t, xs, res)


def _key(ctx, t, res):
    kind = res[0]
    k = t[0]
    opnd = ''
    if _children(t):
        try:
            a = py_build(ctx, t[1])
            from odl.solvers.functional.functional import Functional
            import odl
            opnd = type(a).__name__
            fieldran = isinstance(a.range, odl.set.sets.Field)
            if kind == 'rejects-well-typed' and k in ('addc', 'cadd', 'subc', 'csub') and fieldran \
                    and not isinstance(a, Functional):
                return 'add-scalar-to-field-valued-operator-raises'
            if kind == 'flag-not-linear' and k in ('mulv', 'matmulv') and isinstance(a, Functional):
                return 'flag-FunctionalRightVectorMult-drops-linear'
            if opnd.startswith(('AffOp', 'SqOp', 'LinFunc', 'QuadFunc', 'NQuadOp')) or a in [l.op for l in ctx.leaves]:
                opnd = 'leaf'
        except Exception:
            opnd = 'unbuildable'
    return '%s:%s:%s:%s:%s' % (kind, k, opnd, 'complex' if ctx.cplx else 'real', ctx.kind)


def replay_tree(frozen, cplx, xs, kind='rn'):
    """Used by replay snippets: rebuild the tree and evaluate the oracle on it."""
    import random
    ctx = Ctx(random.Random(0), cplx, kind)
    t = thaw(ctx, frozen)
    res = oracle_node(ctx, t, xs)
    return res is None, res, None


def _tree_probe(ctx, t, xs, what):
    f = oracle_min(ctx, t, xs)
    if f is None:
        return C.Probe(True, 'tree', what)
    ft, fxs, res = f
    key = _key(ctx, ft, res)
    rp = ("import sys\nsys.path.insert(0, %r)\nfrom harness import c04 as H\n"
          "ok, observed, expected = H.replay_tree(%r, %r, %r, %r)\n" % (C.VERIF, freeze(ft), ctx.cplx, fxs, ctx.kind))
    return C.Probe(False, key, '%s: %s on %s' % (res[0], res[1], src_skeleton(ft)), rp,
                   {'kind': res[0], 'detail': res[1], 'expr': src_skeleton(ft)})


def _fixed_trees(ctx):
    """Hand-written interaction patterns named in the property text."""
    A = lambda want=None, d=2, r=2: ('leaf', make_leaf(ctx, d, r, want))
    out = []
    for want in ('lin', 'nonlin'):
        a, b = ctx.num(small=True), ctx.num(small=True)
        v = ctx.ivec(2)
        out += [('mul', ('mulc', A(want), a), A()),                 # (A*a)*B
                ('mulv', ('mulc', A(want), a), v),                  # (A*a)*v
                ('cmul', ('mulc', A(want), b), a),                  # a*(A*b)
                ('mulc', ('mulc', A(want), a), b),                  # (A*a)*b
                ('mulc', ('mulc', ('mulc', A(want), a), b), a),
                ('cmul', ('cmul', A(want), a), b),                  # b*(a*A)
                ('mulc', ('cmul', A(want), a), b),                  # (a*A)*b
                ('divc', ('mulc', A(want), a), 2),
                ('mulc', ('divc', A(want), 4), a),
                ('neg', ('neg', A(want))),
                ('sub', ('mulc', A(want), a), ('cmul', A(want), b)),
                ('pow', ('mulc', A(want), a), 3),
                ('mulc', ('pow', A(want), 2), a),
                ('vmul', ('mulc', A(want), a), v),
                ('mulc', ('vmul', A(want), v), a),
                ('mulc', ('mulv', A(want), v), a),
                ('mulc', ('addv', A(want), v), a),
                ('mulc', ('mul', A(want), A(want)), a),
                ('mulc', ('add', A(want), A(want)), a),
                ('mulc', A(want), 0), ('cmul', A(want), 0), ('divc', A(want), -0.5)]
    for want in ('lin', 'func', None):
        f = lambda: ('leaf', make_leaf(ctx, 2, 'F', want))
        a, b = ctx.num(small=True), ctx.num(small=True)
        v = ctx.ivec(2)
        out += [('mulc', f(), 0), ('cmul', f(), 0), ('mulc', ('mulc', f(), a), 0), ('mulc', ('mulc', f(), a), b),
                ('cmul', ('cmul', f(), a), b), ('mulc', ('cmul', f(), a), b), ('cmul', ('mulc', f(), a), b),
                ('mul', ('mulc', f(), a), A()), ('mulv', ('mulc', f(), a), v), ('mulc', ('mulv', f(), v), a),
                ('vmul', ('mulc', f(), a), v), ('mulc', ('vmul', f(), v), a), ('addc', ('mulc', f(), a), b),
                ('csub', ('mulc', f(), a), b), ('subc', f(), 0), ('add', f(), f()), ('sub', f(), f()),
                ('add', ('add', f(), f()), ('addc', f(), a)), ('neg', f()), ('divc', f(), 2),
                ('mul', f(), ('mulc', A('nonlin'), a)), ('mulc', ('mul', f(), A()), a),
                ('add', f(), ('const', 2, a)), ('add', ('const', 2, a), ('zerof', 2)),
                ('mulc', ('const', 2, a), b), ('cmul', ('zerof', 2), b), ('mulc', ('zerof', 2), 0)]
    return out


def _operand_reuse_trees(ctx):
    """One vector OBJECT used several times / combined with a second one through every vector overload:
    wrong as soon as a constructor or a merge shortcut writes into the caller's element."""
    out = []
    for want, ran in (('lin', 2), ('nonlin', 2), ('func', 'F'), ('nquad', 'F'), ('retx', 2)):
        A = ('leaf', make_leaf(ctx, 2, ran, want))
        v, w = ctx.ivec(2), ctx.ivec(2)
        if ran != 'F':
            out += [('addv', ('addv', A, v), w), ('addv', ('addv', ('addv', A, v), w), w), ('vadd', ('addv', A, v), w),
                    ('addv', ('vadd', ('addv', A, v), w), w), ('subv', ('addv', A, v), w), ('vsub', ('subv', A, v), w),
                    ('addv', ('subv', ('addv', A, w), v), w), ('vmul', ('vmul', A, v), w),
                    ('vmul', ('vmul', ('vmul', A, v), w), w), ('addv', ('vmul', ('addv', A, w), v), w),
                    ('vmul', ('addv', ('vmul', A, w), w), w), ('add', ('addv', A, w), ('vmul', A, w)),
                    ('mul', ('vmul', A, w), ('addv', A, w)), ('ptw', ('addv', A, w), ('addv', A, w))]
        else:
            out += [('vmul', A, w), ('vmul', ('mulv', A, w), w), ('addv', ('vmul', A, w), w)]
        out += [('mulv', ('mulv', A, v), w), ('mulv', ('mulv', ('mulv', A, v), w), w), ('mulv', ('mulv', A, w), w),
                ('mulc', ('mulv', ('mulv', A, v), w), 2.0), ('mulv', ('mulc', ('mulv', A, w), 2.0), w),
                ('add', ('mulv', A, w), ('mulv', ('mulv', A, v), w))]
    return out


def _reflected_trees(ctx):
    """Left operand of an Operator* class, right operand of its Functional* subclass: Python runs the
    right operand's reflected __radd__ / __rmul__ FIRST (sum: operands swapped; product: same TypeError)."""
    L = lambda d, r, w=None: ('leaf', make_leaf(ctx, d, r, w))
    a, b = ctx.num(small=True), ctx.num(small=True)
    v = ctx.ivec(2)
    ip, f, M = L(2, 'F', 'ip'), L(2, 'F', 'func'), L(2, 2)
    nq = L(2, 'F', 'nquad')
    pairs = [(('add', ip, L(2, 'F', 'ip')), ('add', f, L(2, 'F', 'func'))),          # OperatorSum / FunctionalSum
             (('add', ip, nq), ('addc', f, a)),                                        # OperatorSum / FunctionalScalarSum
             (('mul', ip, M), ('mul', f, L(2, 2))),                                    # OperatorComp / FunctionalComp
             (('cmul', nq, a), ('cmul', f, b)),                                        # LeftScalarMult
             (('mulc', nq, a), ('mulc', L(2, 'F', 'fquad'), b)),                       # RightScalarMult
             (('mulv', nq, v), ('mulv', f, v))]                                        # RightVectorMult
    out = []
    for x, y in pairs:
        out += [('add', x, y), ('add', y, x), ('sub', x, y), ('mul', x, y), ('matmul', x, y), ('mul', y, x)]
    P, Q = ('mul', L(2, 2), L(2, 2)), ('mul', f, L(2, 2))        # (2->2) * (2->F): ill-typed, both dispatch paths
    out += [('mul', P, Q), ('matmul', P, Q), ('mul', ('cmul', L(2, 2, 'nonlin'), a), ('cmul', f, b)),
            ('mul', ('mulc', L(2, 2, 'nonlin'), a), ('mulc', L(2, 'F', 'fquad'), b)),
            ('mul', ('mulv', L(2, 2), v), ('mulv', f, v)), ('mul', ('add', L(2, 2), L(2, 2)), ('add', f, f))]
    return out


def _memory_trees(ctx):
    """Patterns that are only wrong when a leaf is not alias-safe in place, or returns (a view of) its
    input out of place: powers n = 3, 4 (nested compositions, evaluated in place), a sub-expression used
    twice, left multiplications / sums on top of input-aliasing leaves."""
    out = []
    for kind in SPECIAL_KINDS:
        A = ('leaf', make_leaf(ctx, 2, 2, kind))
        B = ('leaf', make_leaf(ctx, 2, 2, kind))
        a, v, w = ctx.num(small=True), ctx.ivec(2), ctx.ivec(2)
        S = ('vmul', A, v)
        out += [('pow', A, 3), ('pow', A, 4), ('pow', ('cmul', A, a), 3), ('pow', ('vmul', A, v), 3),
                ('pow', ('addv', A, w), 4), ('mul', ('pow', A, 3), B), ('pow', ('mul', A, B), 3),
                ('mul', A, ('mul', A, A)), ('mul', ('mul', A, A), A),
                S, ('add', S, A), ('add', A, S), ('add', S, S), ('sub', ('cmul', A, a), A), ('ptw', A, A),
                ('ptw', S, A), ('addv', A, w), ('vadd', A, w), ('subv', S, w), ('cmul', A, a), ('neg', A),
                ('mulc', A, a), ('mulv', A, v), ('vmul', ('mul', A, A), v), ('vmul', ('vmul', A, v), w),
                ('add', ('cmul', A, a), ('vmul', A, v)), ('vmul', ('leaf', make_leaf(ctx, 2, 'F')), v),
                ('add', ('mul', A, B), ('mul', B, A)), ('mul', S, S)]
    return out


# ---- mixed real / complex trees (probes only: the Coq model has one scalar field per tree) ----
def _mixed_pool():
    """name -> (domain field, range field, is_linear, numpy reference, constructor); all spaces have size 2"""
    import numpy as np
    import odl
    r2, c2 = odl.rn(2), odl.cn(2)
    Mr = np.array([[1., 2.], [0., -1.]])
    Mc = np.array([[1j, 2.], [1., 1 - 1j]])
    return {
        'Re': ('C', 'R', True, lambda x: x.real + 0j, lambda: odl.RealPart(c2)),
        'Im': ('C', 'R', True, lambda x: x.imag + 0j, lambda: odl.ImagPart(c2)),
        'Emb': ('R', 'C', True, lambda x: x, lambda: odl.ComplexEmbedding(r2)),
        'Ar': ('R', 'R', True, lambda x: Mr.dot(x), lambda: odl.MatrixOperator(Mr)),
        'Ac': ('C', 'C', True, lambda x: Mc.dot(x), lambda: odl.MatrixOperator(Mc)),
        'Sr': ('R', 'R', False, lambda x: x * x, lambda: odl.PowerOperator(r2, 2)),
        'Sc': ('C', 'C', False, lambda x: x * x, lambda: odl.PowerOperator(c2, 2)),
    }


def _mixed_gen(rng, depth, df, rf):
    """random tree  (field df)^2 -> (field rf)^2"""
    pool = _mixed_pool()
    leaves = [n for n, (d, r, _, _, mk) in pool.items() if (d, r) == (df, rf)]
    if depth <= 0 or (leaves and rng.random() < 0.25):
        if leaves:
            return ('leaf', rng.choice(leaves))
        mid = rng.choice('RC')
        return ('mul', _mixed_gen(rng, 0, mid, rf), _mixed_gen(rng, 0, df, mid))
    k = rng.choice(['mul', 'mul', 'add', 'sub', 'mulc', 'cmul', 'addc', 'neg', 'mulv', 'vmul', 'addv', 'divc'])
    d1 = depth - 1
    import numpy as np
    sc = lambda: rng.choice([2.0, -1.0, 0.5, 3, 1j, 1 - 1j, 2 + 0j, np.complex64(1j), np.float32(2), True,
                             np.complex128(1 + 1j), np.int64(-2)])
    vec = lambda f: [rng.randint(-2, 2) + (1j * rng.randint(-1, 1) if f == 'C' else 0) for _ in range(2)]
    if k == 'mul':
        mid = rng.choice('RC')
        return ('mul', _mixed_gen(rng, d1, mid, rf), _mixed_gen(rng, d1, df, mid))
    if k in ('add', 'sub'):
        return (k, _mixed_gen(rng, d1, df, rf), _mixed_gen(rng, d1, df, rf))
    if k == 'neg':
        return ('neg', _mixed_gen(rng, d1, df, rf))
    if k in ('mulc', 'cmul', 'addc', 'divc'):
        return (k, _mixed_gen(rng, d1, df, rf), sc())
    if k == 'mulv':
        return ('mulv', _mixed_gen(rng, d1, df, rf), vec(rng.choice([df, df, 'C' if df == 'R' else 'R'])), None)
    return (k, _mixed_gen(rng, d1, df, rf), vec(rng.choice([rf, rf, 'C' if rf == 'R' else 'R'])), None)


def _mx_isreal(a):
    return not isinstance(a, complex) and not (hasattr(a, 'dtype') and a.dtype.kind == 'c')


def _mx_vfield(v):
    return 'C' if any(isinstance(u, complex) for u in v) else 'R'


def _mixed_type(t):
    """(df, rf, implied linear) by the documented rules (scalars/vectors must belong to the stated field/space)"""
    k = t[0]
    pool = _mixed_pool()
    if k == 'leaf':
        d, r, lin, _, _ = pool[t[1]]
        return d, r, lin
    d, r, lin = _mixed_type(t[1])
    if k == 'mul':
        d2, r2, l2 = _mixed_type(t[2])
        if r2 != d:
            raise RefErr()
        return d2, r, lin and l2
    if k in ('add', 'sub'):
        d2, r2, l2 = _mixed_type(t[2])
        if (d2, r2) != (d, r):
            raise RefErr()
        return d, r, lin and l2
    if k == 'neg':
        return d, r, lin
    if k in ('mulc', 'divc'):       # scalar of the DOMAIN field
        if d == 'R' and not _mx_isreal(t[2]):
            raise RefErr()
        return d, r, lin
    if k in ('cmul', 'addc'):       # scalar of the RANGE field
        if r == 'R' and not _mx_isreal(t[2]):
            raise RefErr()
        return d, r, (lin if k == 'cmul' else False)
    if k == 'mulv':
        if _mx_vfield(t[2]) != d:
            raise RefErr()
        return d, r, lin
    if k in ('vmul', 'addv'):
        if _mx_vfield(t[2]) != r:
            raise RefErr()
        return d, r, (lin if k == 'vmul' else False)
    raise AssertionError(k)


def _mixed_eval(t, x):
    import numpy as np
    k = t[0]
    if k == 'leaf':
        return _mixed_pool()[t[1]][3](x)
    if k == 'mul':
        return _mixed_eval(t[1], _mixed_eval(t[2], x))
    if k == 'add':
        return _mixed_eval(t[1], x) + _mixed_eval(t[2], x)
    if k == 'sub':
        return _mixed_eval(t[1], x) - _mixed_eval(t[2], x)
    if k == 'neg':
        return -_mixed_eval(t[1], x)
    if k == 'mulc':
        return _mixed_eval(t[1], t[2] * x)
    if k == 'divc':
        return _mixed_eval(t[1], x / t[2])
    if k == 'cmul':
        return t[2] * _mixed_eval(t[1], x)
    if k == 'addc':
        return _mixed_eval(t[1], x) + t[2]
    if k == 'mulv':
        return _mixed_eval(t[1], np.array(t[2]) * x)
    if k == 'vmul':
        return np.array(t[2]) * _mixed_eval(t[1], x)
    if k == 'addv':
        return _mixed_eval(t[1], x) + np.array(t[2])
    raise AssertionError(k)


def _mixed_build(t):
    import odl
    k = t[0]
    if k == 'leaf':
        return _mixed_pool()[t[1]][4]()
    a = _mixed_build(t[1])
    if k == 'mul':
        return a * _mixed_build(t[2])
    if k == 'add':
        return a + _mixed_build(t[2])
    if k == 'sub':
        return a - _mixed_build(t[2])
    if k == 'neg':
        return -a
    if k == 'mulc':
        return a * t[2]
    if k == 'divc':
        return a / t[2]
    if k == 'cmul':
        return t[2] * a
    if k == 'addc':
        return a + t[2]
    sp = lambda v: (odl.cn(2) if _mx_vfield(v) == 'C' else odl.rn(2)).element(v)
    if k == 'mulv':
        return a * sp(t[2])
    if k == 'vmul':
        return sp(t[2]) * a
    if k == 'addv':
        return a + sp(t[2])
    raise AssertionError(k)


def mixed_oracle(t, x):
    """None when the property holds on this mixed real/complex tree, else (kind, detail)."""
    import numpy as np
    try:
        d, r, lin = _mixed_type(t)
        typed = True
    except RefErr:
        typed = False
    try:
        o = _mixed_build(t)
        err = None
    except (TypeError, ZeroDivisionError) as e:
        err = type(e).__name__
    except Exception as e:   # noqa
        return ('raises-other', type(e).__name__)
    if not typed:
        return None if err else ('accepts-ill-typed', type(o).__name__)
    if err:
        return ('rejects-well-typed', err)
    import odl
    if (o.domain == odl.cn(2)) != (d == 'C') or (o.range == odl.cn(2)) != (r == 'C'):
        return ('domain-range', '%s -> %s built %r -> %r' % (d, r, o.domain, o.range))
    if lin and not o.is_linear:
        return ('flag-not-linear', 'implied linear')
    xv = np.array(x, dtype=complex)
    want = _mixed_eval(t, xv)
    xe = o.domain.element(xv if d == 'C' else xv.real)
    for rep in range(2):
        got = np.asarray(o(xe)).astype(complex)
        if not np.allclose(got, want, rtol=1e-12, atol=1e-12):
            return ('value', 'x=%r got %r expected %r' % (x, got.tolist(), want.tolist()))
    buf = o.range.element(np.full(2, np.nan))
    o(xe, out=buf)
    if not np.allclose(np.asarray(buf).astype(complex), want, rtol=1e-12, atol=1e-12):
        return ('value-inplace', 'x=%r got %r expected %r' % (x, np.asarray(buf).tolist(), want.tolist()))
    return None


def _mixed_min(t, x):
    for c in [u for u in t[1:3] if isinstance(u, tuple) and u and u[0] in
              ('leaf', 'mul', 'add', 'sub', 'neg', 'mulc', 'cmul', 'addc', 'divc', 'mulv', 'vmul', 'addv')]:
        try:
            d = _mixed_type(c)[0]
        except RefErr:
            d = 'C'
        f = _mixed_min(c, [complex(u).real for u in x] if d == 'R' else x)
        if f is not None:
            return f
    res = mixed_oracle(t, x)
    return None if res is None else (t, x, res)


def mixed_replay(t, x):
    res = mixed_oracle(t, x)
    return res is None, res, None


def _mixed_skel(t):
    return t[1] if t[0] == 'leaf' else '%s(%s)' % (t[0], ','.join(_mixed_skel(u) for u in t[1:3] if isinstance(u, tuple) and u and isinstance(u[0], str)))


def mixed_probes(rng, n):
    out = []
    L = lambda n_: ('leaf', n_)
    fixed = [('mulc', ('mul', L('Emb'), L('Im')), 1 - 1j), ('mulc', ('mul', L('Emb'), L('Re')), 1j),
             ('divc', ('mul', L('Emb'), L('Re')), 1j), ('mulc', ('mul', L('Ac'), ('mul', L('Emb'), L('Im'))), 2j),
             ('mulc', L('Emb'), 1j), ('mulc', L('Re'), 1j), ('mulc', L('Im'), 1 - 1j), ('cmul', L('Re'), 1j),
             ('cmul', L('Emb'), 1j), ('mulc', L('Ac'), 1j), ('mulc', L('Ac'), 2.0), ('mulc', L('Sc'), 1j),
             ('mulc', L('Sr'), 1j), ('addc', L('Re'), 1j), ('addc', L('Emb'), 1j), ('mulc', ('mul', L('Re'), L('Ac')), 1j),
             ('mul', L('Ar'), L('Ac')), ('mul', L('Ac'), L('Emb')), ('add', L('Re'), L('Im')), ('sub', L('Emb'), L('Ac'))]
    for i in range(n + len(fixed)):
        if i < len(fixed):
            t = fixed[i]
            try:
                df = _mixed_type(t)[0]
            except RefErr:
                df = _mixed_type(t[1])[0] if t[0] not in ('mul', 'add', 'sub') else 'C'
        else:
            df, rf = rng.choice('RC'), rng.choice('RC')
            t = _mixed_gen(rng, rng.randint(1, 3), df, rf)
        x = [complex(rng.randint(-2, 2), rng.randint(-2, 2) if df == 'C' else 0) for _ in range(2)]
        f = _mixed_min(t, x)
        if f is None:
            out.append(C.Probe(True, 'mixed', 'mixed real/complex tree vs reference interpreter'))
            continue
        ft, fx, res = f
        opnd = ft[1][1] if (len(ft) > 1 and isinstance(ft[1], tuple) and ft[1][0] == 'leaf') else \
            (ft[1][0] if len(ft) > 1 and isinstance(ft[1], tuple) else '')
        key = 'mixed-field:%s:%s:%s' % (res[0], ft[0], opnd)
        if res[0] == 'accepts-ill-typed' and ft[0] in ('mulc', 'divc'):
            # A * a with a complex a and a real domain: accepted when A is linear with a complex range
            key = 'mixed-field:complex-right-scalar-on-real-domain-accepted-for-linear'
        if res[0] in ('value', 'value-inplace') and ft[0] in ('mulc', 'divc') and not _mx_isreal(ft[2]):
            # A * a rewritten to a * A for an A that is flagged linear but only REAL-linear (it contains
            # RealPart / ImagPart): wrong value for a complex a
            key = 'mixed-field:complex-right-scalar-shortcut-on-real-linear-operator'
        rp = ("import sys\nsys.path.insert(0, %r)\nfrom harness import c04 as H\n"
              "ok, observed, expected = H.mixed_replay(%r, %r)\n" % (C.VERIF, ft, fx))
        out.append(C.Probe(False, key, '%s: %s on %s' % (res[0], res[1], _mixed_skel(ft)), rp))
    return out


def _deriv_pool():
    import numpy as np
    import odl
    r2, c2 = odl.rn(2), odl.cn(2)
    return {
        'Power2/rn': (lambda: odl.PowerOperator(r2, 2), 'R', lambda y, d: 2 * y * d),
        'Power3/rn': (lambda: odl.PowerOperator(r2, 3), 'R', lambda y, d: 3 * y * y * d),
        'Power2/cn': (lambda: odl.PowerOperator(c2, 2), 'C', lambda y, d: 2 * y * d),
        'Re.Power2/cn': (lambda: odl.RealPart(c2) * odl.PowerOperator(c2, 2), 'C', lambda y, d: (2 * y * d).real + 0j),
        'Im.Power3/cn': (lambda: odl.ImagPart(c2) * odl.PowerOperator(c2, 3), 'C',
                         lambda y, d: (3 * y * y * d).imag + 0j),
        'Emb.Power2/rn': (lambda: odl.ComplexEmbedding(r2) * odl.PowerOperator(r2, 2), 'R', lambda y, d: 2 * y * d),
        'Matrix+v/cn': (lambda: odl.MatrixOperator(np.array([[1j, 2.], [1., 1 - 1j]])) + c2.element([1, 1j]), 'C',
                        lambda y, d: np.array([[1j, 2.], [1., 1 - 1j]]).dot(d)),
    }


def rscal_derivative_check(name, s, x, d):
    """((A * s).derivative(x))(d) == A'(s x)(s d): analytic chain rule and odl's own A.derivative"""
    import numpy as np
    mk, fld, dA = _deriv_pool()[name]
    A = mk()
    xe = A.domain.element(np.array(x) if fld == 'C' else np.array(x).real)
    de = A.domain.element(np.array(d) if fld == 'C' else np.array(d).real)
    expected = np.asarray(dA(s * np.asarray(xe).astype(complex), s * np.asarray(de).astype(complex))).astype(complex)
    try:
        B = A * s
        D = B.derivative(xe)
        observed = np.asarray(D(de)).astype(complex)
        own = np.asarray(A.derivative(s * xe)(s * de)).astype(complex)
    except Exception as e:   # noqa
        return False, '%s: %s' % (type(e).__name__, str(e)[:120]), expected.tolist()
    ok = bool(np.allclose(observed, expected, rtol=1e-12, atol=1e-12) and
              np.allclose(own, expected, rtol=1e-12, atol=1e-12) and D.is_linear and
              D.domain == A.domain and D.range == A.range)
    return ok, observed.tolist(), expected.tolist()


def rscal_derivative_probes(rng):
    import numpy as np
    out = []
    reals = [2.0, -0.5, 3, np.float32(2), np.int64(-2), True, 0.0]
    cplx = [1j, 1 - 1j, 2 + 0j, np.complex64(1j), np.complex128(0.5 - 1j)]
    for name, (mk, fld, _) in sorted(_deriv_pool().items()):
        for s in reals + (cplx if fld == 'C' else []):
            x = [complex(rng.randint(-2, 2), rng.randint(-2, 2) if fld == 'C' else 0) for _ in range(2)]
            d = [complex(rng.randint(-2, 2), rng.randint(-2, 2) if fld == 'C' else 0) for _ in range(2)]
            ok, obs, exp = rscal_derivative_check(name, s, x, d)
            kind = 'complex-scalar' if not _mx_isreal(s) else 'real-scalar'
            rp = ("import sys, numpy as np\nsys.path.insert(0, %r)\nfrom harness import c04 as H\n"
                  "ok, observed, expected = H.rscal_derivative_check(%r, %s, %r, %r)\n"
                  % (C.VERIF, name, _scalar_src(s), x, d))
            out.append(C.Probe(ok, 'rscal-derivative:%s:%s' % (name, kind),
                               '((%s * %r).derivative(x))(d) == A\'(s x)(s d)' % (name, s), rp,
                               {'observed': obs, 'expected': exp}))
    return out


def _scalar_src(s):
    import numpy as np
    if isinstance(s, np.generic):
        return 'np.%s(%r)' % (type(s).__name__, s.item())
    return repr(s)


def _registry():
    """(name, constructor thunk) of odl classes that report is_linear, for the premise
    'flagged linear => (A*a)(x) == A(a*x) for every scalar a of the domain field'."""
    import numpy as np
    import odl
    r3, c3 = odl.rn(3), odl.cn(3)
    d1 = odl.uniform_discr(0, 1, 4)
    d2 = odl.uniform_discr([0, 0], [1, 1], [3, 4])
    dc = odl.uniform_discr(0, 1, 4, dtype=complex)
    p2 = odl.ProductSpace(r3, 2)
    M = np.array([[1., 2, 0], [0, 1, -1]])
    reg = [
        ('IdentityOperator/rn', lambda: odl.IdentityOperator(r3)),
        ('IdentityOperator/cn', lambda: odl.IdentityOperator(c3)),
        ('ScalingOperator/rn', lambda: odl.ScalingOperator(r3, 2.0)),
        ('ScalingOperator/cn', lambda: odl.ScalingOperator(c3, 2.0 + 1j)),
        ('ZeroOperator/rn', lambda: odl.ZeroOperator(r3)),
        ('MultiplyOperator/rn', lambda: odl.MultiplyOperator(r3.element([1, 2, 3]))),
        ('MultiplyOperator/cn', lambda: odl.MultiplyOperator(c3.element([1, 2j, 3]))),
        ('MultiplyOperator/scalar-on-rn', lambda: odl.MultiplyOperator(2.0, domain=r3)),
        ('MatrixOperator/rn', lambda: odl.MatrixOperator(M)),
        ('MatrixOperator/cn', lambda: odl.MatrixOperator(M.astype(complex) * (1 + 1j))),
        ('InnerProductOperator/rn', lambda: odl.InnerProductOperator(r3.element([1, 2, 3]))),
        ('InnerProductOperator/cn', lambda: odl.InnerProductOperator(c3.element([1, 2j, 3]))),
        ('LinCombOperator/rn', lambda: odl.LinCombOperator(r3, 2.0, -1.0)),
        ('RealPart/rn', lambda: odl.RealPart(r3)),
        ('RealPart/cn', lambda: odl.RealPart(c3)),
        ('ImagPart/cn', lambda: odl.ImagPart(c3)),
        ('ComplexEmbedding/rn', lambda: odl.ComplexEmbedding(r3)),
        ('ComplexEmbedding/cn', lambda: odl.ComplexEmbedding(c3, scalar=1j)),
        ('ComponentProjection', lambda: odl.ComponentProjection(p2, 0)),
        ('ComponentEmbedding', lambda: odl.ComponentEmbedding(p2, 1)),
        ('BroadcastOperator', lambda: odl.BroadcastOperator(odl.IdentityOperator(r3), odl.ScalingOperator(r3, 2))),
        ('ReductionOperator', lambda: odl.ReductionOperator(odl.IdentityOperator(r3), odl.ScalingOperator(r3, 2))),
        ('DiagonalOperator', lambda: odl.DiagonalOperator(odl.IdentityOperator(r3), odl.ScalingOperator(r3, 2))),
        ('PartialDerivative/pad0', lambda: odl.PartialDerivative(d1, 0)),
        ('PartialDerivative/pad_const=1', lambda: odl.PartialDerivative(d1, 0, pad_mode='constant', pad_const=1.0)),
        ('Gradient/pad0', lambda: odl.Gradient(d2)),
        ('Gradient/pad_const=1', lambda: odl.Gradient(d2, pad_mode='constant', pad_const=1.0)),
        ('Divergence/pad0', lambda: odl.Divergence(range=d2)),
        ('Divergence/pad_const=1', lambda: odl.Divergence(range=d2, pad_mode='constant', pad_const=1.0)),
        ('Laplacian/pad0', lambda: odl.Laplacian(d2)),
        ('Laplacian/pad_const=1', lambda: odl.Laplacian(d2, pad_mode='constant', pad_const=1.0)),
        ('ResizingOperator', lambda: odl.ResizingOperator(d1, ran_shp=(6,))),
        ('ResizingOperator/pad_const=1', lambda: odl.ResizingOperator(d1, ran_shp=(6,), pad_mode='constant', pad_const=1.0)),
        ('PointwiseInner', lambda: odl.PointwiseInner(odl.ProductSpace(d1, 2), odl.ProductSpace(d1, 2).one())),
        ('PointwiseSum', lambda: odl.PointwiseSum(odl.ProductSpace(d1, 2))),
        ('SamplingOperator', lambda: odl.SamplingOperator(d1, [[0, 2]])),
        ('FlatteningOperator', lambda: odl.FlatteningOperator(d2)),
        ('FourierTransform', lambda: odl.trafos.FourierTransform(dc, impl='numpy')),
        ('DiscreteFourierTransform', lambda: odl.trafos.DiscreteFourierTransform(c3, impl='numpy')),
        ('ZeroFunctional', lambda: odl.solvers.ZeroFunctional(r3)),
        ('IdentityFunctional', lambda: odl.solvers.IdentityFunctional(odl.RealNumbers())),
        ('ScalingFunctional', lambda: odl.solvers.ScalingFunctional(odl.RealNumbers(), 3.0)),
    ]
    return reg


_HOMOG_SNIPPET = r"""
import sys, numpy as np, odl
sys.path.insert(0, %r)
from harness import c04 as H
op = dict(H._registry())[%r]()
ok, observed, expected = H.homog_check(op, %r)
"""


def _rand_el(sp, seed):
    import numpy as np
    import odl
    rs = np.random.RandomState(seed)
    if isinstance(sp, odl.set.sets.Field):
        return float(rs.randint(-3, 4))
    if isinstance(sp, odl.ProductSpace):
        return sp.element([_rand_el(s, seed + 1 + i) for i, s in enumerate(sp)])
    a = rs.randint(-3, 4, size=sp.shape).astype(float)
    if not getattr(sp, 'is_real', True):
        a = a + 1j * rs.randint(-2, 3, size=sp.shape)
    return sp.element(a)


def _as_np(y):
    import numpy as np
    import odl
    if isinstance(y, odl.set.space.LinearSpaceElement) and isinstance(y.space, odl.ProductSpace):
        return np.concatenate([_as_np(p) for p in y])
    return np.asarray(y).ravel()


def homog_check(op, a):
    """(op * a)(x) == op(a * x) on the real object (the table entry for right scalar multiplication)."""
    import numpy as np
    x = _rand_el(op.domain, 3)
    expected = _as_np(op(a * x))
    try:
        observed = _as_np((op * a)(x))
    except Exception as e:   # noqa
        return False, '%s: %s' % (type(e).__name__, str(e)[:100]), expected.tolist()
    ok = bool(np.allclose(observed, expected, rtol=1e-12, atol=1e-12))
    return ok, observed.tolist(), expected.tolist()


def operand_probes(rng, reps=1):
    """building / evaluating an expression never modifies its operands (one vector object used repeatedly)"""
    out = []
    for rep in range(reps):
        for cplx in (False, True):
            for kind in ('rn', 'wrn', 'discr', 'prod'):
                ctx0 = Ctx(rng, cplx, kind)
                for t in _operand_reuse_trees(ctx0):
                    ctx = Ctx(rng, cplx, kind)          # fresh objects per tree: one failure cannot mask the next
                    t2 = thaw(ctx, freeze(t))
                    xs = [ctx.ivec(2, -2, 2) for _ in range(2)]
                    out.append(_tree_probe(ctx, t2, xs, 'operands are not modified (same vector object reused)'))
    return out


def search(rng, broken):
    """Called by the driver when a proof / the correspondence broke and no probe of the quick tier has a
    failing input: run the focused families first (operand immutability, memory contracts, reflected
    dispatch, mixed fields), then deeper random trees."""
    fams = [lambda: operand_probes(rng, reps=3)]

    def fam_trees(maker, kinds=('rn', 'discr', 'wrn', 'prod')):
        def run():
            res = []
            for cplx in (False, True):
                for kind in kinds:
                    ctx = Ctx(rng, cplx, kind)
                    for t in maker(ctx):
                        xs = [ctx.ivec(2, -2, 2) for _ in range(2)]
                        res.append(_tree_probe(ctx, t, xs, 'search: focused pattern'))
            return res
        return run
    fams += [fam_trees(_memory_trees), fam_trees(_reflected_trees, ('rn',)), fam_trees(_fixed_trees, ('rn',)),
             lambda: mixed_probes(rng, 1500)]
    known = C.load_findings(PID)
    for fam in fams:
        for p in fam():
            if not p.ok and p.key not in known:
                return p
    for i in range(1500):
        ctx = Ctx(rng, (i % 3 == 2), rng.choice(['rn', 'rn', 'wrn', 'discr', 'prod']))
        d = rng.choice(DIMS)
        t = gen(ctx, rng.randint(2, 6), d, rng.choice(DIMS + ['F', 'F']), p_bad=0.04)
        p = _tree_probe(ctx, t, [ctx.ivec(d, -2, 2) for _ in range(2)], 'search: random tree')
        if not p.ok and p.key not in known:
            return p
    return None


def probes(rng, tier):
    import odl
    out = []
    # 1. reference-interpreter oracle on random trees, deeper than the correspondence, both fields
    n = 400 if tier == 'quick' else 4000
    maxd = 5 if tier == 'quick' else 8
    for i in range(n):
        ctx = Ctx(rng, (i % 3 == 2), rng.choice(['rn', 'rn', 'wrn', 'discr', 'prod']))
        ran = rng.choice(DIMS + ['F', 'F'])
        d = rng.choice(DIMS)
        t = gen(ctx, rng.randint(1, maxd), d, ran, p_bad=0.04)
        xs = [ctx.ivec(d, -2, 2) for _ in range(2)]
        out.append(_tree_probe(ctx, t, xs, 'random tree vs reference interpreter of the table'))
    # 2. the interaction patterns named in the property, linear and nonlinear operands, both fields
    for cplx in (False, True):
        for rep in range(1 if tier == 'quick' else 4):
            ctx = Ctx(rng, cplx)
            for t in _fixed_trees(ctx):
                xs = [ctx.ivec(2, -2, 2) for _ in range(2)]
                out.append(_tree_probe(ctx, t, xs, 'fixed interaction pattern vs reference interpreter'))
    out += operand_probes(rng)
    for cplx in (False, True):
        ctx = Ctx(rng, cplx)
        for t in _reflected_trees(ctx):
            xs = [ctx.ivec(2, -2, 2) for _ in range(2)]
            out.append(_tree_probe(ctx, t, xs, 'reflected-method-first pattern vs reference interpreter'))
    for cplx in (False, True):
        for kind in ('rn', 'discr', 'wrn'):
            ctx = Ctx(rng, cplx, kind)
            for t in _memory_trees(ctx):
                xs = [ctx.ivec(2, -2, 2) for _ in range(2)]
                out.append(_tree_probe(ctx, t, xs, 'memory-contract pattern vs reference interpreter'))
    # 2a. mixed real/complex trees (RealPart, ImagPart, ComplexEmbedding between rn and cn)
    out += mixed_probes(rng, 300 if tier == 'quick' else 3000)
    # 2b. operand kinds outside the syntax must be rejected with TypeError (no silent garbage)
    import numpy as np
    r2 = odl.rn(2)
    ops = {'linear': odl.MatrixOperator(np.array([[1., 2], [0, 1]])), 'nonlinear': odl.PowerOperator(r2, 2),
           'functional': odl.solvers.L2NormSquared(r2),
           'RightScalarMult': odl.PowerOperator(r2, 2) * 2.0}
    forms = {'A/v': 'A / v', 'A/B': 'A / A', 'v/A': 'v / A', '2/A': '2.0 / A', 'A**2.5': 'A ** 2.5', 'A**A': 'A ** A',
             'A**0': 'A ** 0', 'A+str': 'A + "s"', 'A*str': 'A * "s"', 'A*None': 'A * None', 'None*A': 'None * A',
             'A*1j': 'A * 1j', '1j*A': '1j * A', 'A+1j': 'A + 1j', 'A/1j': 'A / 1j', 'A-1j': 'A - 1j',
             'A*w': 'A * w', 'w*A': 'w * A' , 'A+w': 'A + w',
             'np.bool_*A': 'np.bool_(True) * A'}     # (A * np.bool_(True) is turned into A * True by NumPy)
    for oname, A in sorted(ops.items()):
        for fname, src in sorted(forms.items()):
            if oname == 'functional' and fname == 'w*A':
                continue          # w * f is FunctionalLeftVectorMult for any w: well-typed
            env = {'A': A, 'v': r2.element([1, 2]), 'w': odl.rn(3).element([1, 2, 3]), 'np': np}
            try:
                eval(src, env)
                ok, obs = False, 'no exception'
            except (TypeError, AttributeError) as e:
                # `v / A` ends in AttributeError (LinearSpaceElement.__truediv__ calls a missing
                # Operator.__rtruediv__): still a rejection, which is all the property needs
                ok, obs = True, type(e).__name__
            except Exception as e:    # noqa
                ok, obs = False, type(e).__name__
            rp = ("import odl, numpy as np\nr2=odl.rn(2)\nops=%s\nA=ops[%r]; v=r2.element([1,2]); w=odl.rn(3).element([1,2,3])\n"
                  "try:\n    %s\n    observed='no exception'\nexcept Exception as e:\n    observed=type(e).__name__\n"
                  "expected='TypeError'; ok=(observed in ('TypeError', 'AttributeError'))\n"
                  % ("{'linear': odl.MatrixOperator(np.array([[1.,2],[0,1]])), 'nonlinear': odl.PowerOperator(r2,2), "
                     "'functional': odl.solvers.L2NormSquared(r2), 'RightScalarMult': odl.PowerOperator(r2,2)*2.0}",
                     oname, src))
            out.append(C.Probe(ok, 'illtyped-operand:%s:%s' % (fname, oname),
                               '%s with A %s must be rejected (got %s)' % (src, oname, obs), rp))
    # 2c. derivative of a right scalar multiple against the chain rule  d -> A'(s x)(s d)
    out += rscal_derivative_probes(rng)
    # 3. the premise of the A*a -> a*A rewrite on odl's own classes
    for name, mk in _registry():
        try:
            op = mk()
        except Exception as e:   # noqa
            out.append(C.Probe(True, 'registry-skip:' + name, 'constructor unavailable: %s' % type(e).__name__))
            continue
        scalars = [2.0, -0.5]
        fld = getattr(op.domain, 'field', op.domain)
        if fld == odl.ComplexNumbers():
            scalars += [1j, 1 - 2j]
        for a in scalars:
            ok, obs, exp = homog_check(op, a)
            kind = 'complex-scalar' if isinstance(a, complex) else 'real-scalar'
            key = 'right-scalar-mult:%s:%s:%s' % (name, 'linear' if op.is_linear else 'nonlinear', kind)
            out.append(C.Probe(ok, key, '(%s * %r)(x) == A(%r * x)' % (name, a, a),
                               _HOMOG_SNIPPET % (C.VERIF, name, a), {'observed': obs, 'expected': exp}))
    return out


LEVEL_TEXT = ('Proof: over a deep embedding of operator arithmetic (source expressions with + - neg * @ / ** and '
              'operator/vector/scalar operands on either side; the object tree the overloads build, incl. scalar '
              'merging, the linear shortcut A*a -> a*A, OperatorRightScalarMult.__mul__, the Functional overloads with '
              'their zero-scalar shortcuts, the reflected-subclass dispatch rule) Coq proves by structural induction, '
              'for EVERY expression tree of any depth over arbitrary linear/nonlinear/functional leaves and any '
              'commutative ring of scalars (closed instances at R and C): whenever the overloads accept the expression, '
              'the built object evaluates out-of-place and in-place to the documented table applied recursively, its '
              'domain/range are those implied by the expression, an object flagged linear denotes a linear map, and '
              'an expression whose operands imply linearity is flagged linear (in full for the repaired '
              'FunctionalRightVectorMult; for the current code except under `f * v`, which is proved to drop the flag '
              '- recorded finding). The model is tied to /repo on every run by an in-Coq correspondence on random '
              'well-typed and ill-typed trees over rn and cn: whole object tree (classes, merged scalars, vectors), '
              'domain, range, is_linear, error class, and values in and out of place.')
LEVEL_NOTE = ('Trusted/validated, not proved: the transcription of the overloads into C04/Model.v (validated by the '
              'structural+value correspondence, depth <= 4 quick / 7 thorough, all anchored branches reachable through '
              'arithmetic are covered); leaves are pure functions and a leaf flagged linear is linear (premise of the '
              'theorems, shown satisfiable by the pool; tested on 40 odl operator classes by probes: RealPart/ImagPart '
              'on complex spaces violate it for complex scalars - recorded findings); which expressions are REJECTED is '
              'compared case by case and probed against a reference typing, not proved; exact arithmetic (rounding, '
              'overflow, NaN out of scope); heap aliasing of in-place temporaries is C03/C10. Axioms: classical reals '
              '+ funext only in the closed R/C instances; the abstract-ring theorems are closed under the global context.')
TECHNIQUE = ('Coq proof by structural induction over a deep embedding of operator arithmetic (abstract commutative '
             'ring, instantiated at R and C) + in-Coq structural/value correspondence + reference-interpreter probes')
